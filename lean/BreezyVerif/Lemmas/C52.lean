import BreezyVerif.Model.C52
/-!
C52 — helper definitions and the single-step lemmas about `applyFlags`.
-/
namespace BreezyVerif.C52

/-! ### tag dictionaries -/

/-- every definition of `a` is a definition of `b` -/
def TagsSub (a b : Tags) : Prop := ∀ n v, lookupTag a n = some v → lookupTag b n = some v

/-- no tag name has two different definitions in `a` and `b` -/
def NoConflict (a b : Tags) : Prop := ∀ n v w, lookupTag a n = some v → lookupTag b n = some w → v = w

/-- every definition of `ts` comes from `a` or from `b` -/
def TagsFrom (a b ts : Tags) : Prop :=
  ∀ n v, lookupTag ts n = some v → lookupTag a n = some v ∨ lookupTag b n = some v

theorem lookupTag_append (a b : Tags) (n : Nat) :
    lookupTag (a ++ b) n = match lookupTag a n with | some v => some v | none => lookupTag b n := by
  induction a with
  | nil => simp [lookupTag]
  | cons p a ih =>
    obtain ⟨k, v⟩ := p
    simp only [List.cons_append, lookupTag]
    split <;> simp_all

/-- `_reconcile_tags`: the destination's definition wins, otherwise the source's -/
theorem lookupTag_mergeTo (src dest : Tags) (n : Nat) :
    lookupTag (mergeTo src dest) n = match lookupTag dest n with | some v => some v | none => lookupTag src n := by
  induction src generalizing dest with
  | nil => simp only [mergeTo, lookupTag]; split <;> simp_all
  | cons p src ih =>
    obtain ⟨k, v⟩ := p
    simp only [mergeTo]
    cases hk : lookupTag dest k with
    | some w =>
      simp only [ih, lookupTag]
      cases hd : lookupTag dest n with
      | some x => rfl
      | none =>
        by_cases hkn : (k == n) = true
        · have : k = n := by simpa using hkn
          subst this; simp_all
        · simp [hkn]
    | none =>
      simp only [ih, lookupTag_append, lookupTag]
      cases hd : lookupTag dest n with
      | some x => rfl
      | none =>
        by_cases hkn : (k == n) = true
        · simp [hkn]
        · simp only [hkn]
          cases lookupTag src n <;> simp

theorem lookupTag_mem (a : Tags) (n v : Nat) (h : lookupTag a n = some v) : (n, v) ∈ a := by
  induction a with
  | nil => simp [lookupTag] at h
  | cons p a ih =>
    obtain ⟨k, w⟩ := p
    simp only [lookupTag] at h
    split at h
    · rename_i c
      have : k = n := by simpa using c
      simp only [Option.some.injEq] at h
      subst this; subst h; simp
    · exact List.mem_cons_of_mem _ (ih h)

theorem hasConflict_false_iff (a b : Tags) : hasConflict a b = false ↔ NoConflict a b := by
  unfold hasConflict NoConflict
  rw [List.any_eq_false]
  constructor
  · intro h n v w h1 h2
    have := h (n, v) (lookupTag_mem a n v h1)
    simp only [h1, h2] at this
    simpa using this
  · intro h p hp
    cases h1 : lookupTag a p.1 <;> cases h2 : lookupTag b p.1 <;> simp
    exact h _ _ _ h1 h2

instance (a b : Tags) : Decidable (NoConflict a b) := decidable_of_iff _ (hasConflict_false_iff a b)

theorem tagsSub_refl (a : Tags) : TagsSub a a := fun _ _ h => h
theorem tagsSub_trans {a b c : Tags} (h1 : TagsSub a b) (h2 : TagsSub b c) : TagsSub a c :=
  fun n v h => h2 n v (h1 n v h)
theorem noConflict_self (a : Tags) : NoConflict a a := by
  intro n v w h1 h2; rw [h1] at h2; exact Option.some.inj h2

theorem mergeTo_keeps_source (src dest : Tags) (h : NoConflict src dest) : TagsSub src (mergeTo src dest) := by
  intro n v hv
  rw [lookupTag_mergeTo]
  cases hd : lookupTag dest n with
  | none => simpa using hv
  | some w => have := h n v w hv hd; subst this; rfl

theorem mergeTo_keeps_dest (src dest : Tags) : TagsSub dest (mergeTo src dest) := by
  intro n v hv
  rw [lookupTag_mergeTo, hv]

theorem mergeTo_from (src dest : Tags) : TagsFrom src dest (mergeTo src dest) := by
  intro n v hv
  rw [lookupTag_mergeTo] at hv
  cases hd : lookupTag dest n with
  | none => rw [hd] at hv; exact Or.inl (by simpa using hv)
  | some w => rw [hd] at hv; exact Or.inr hv

/-! ### one transition -/

/-- what the branch at the bind location looks like never changes its tip / history; its tags only grow;
local and remote tags stay conflict-free and come from the tags at the start -/
def RefKeeps (l l' : Loc) : Prop :=
  l'.refTip = l.refTip ∧ l'.refHist = l.refHist ∧
  TagsSub l.tags l'.tags ∧ TagsSub l.refTags l'.refTags ∧
  TagsFrom l.tags l.refTags l'.tags ∧ TagsFrom l.tags l.refTags l'.refTags ∧
  NoConflict l'.tags l'.refTags

/-- the history behind a revision is a function of the revision; local and remote tags do not conflict -/
def RefInv (l : Loc) : Prop := (l.refTip = l.tip → l.refHist = l.hist) ∧ NoConflict l.tags l.refTags

/-- what a transition may do to the working tree: a tree that is kept is untouched; a tree that goes away had no
pending changes unless forced; a tree that appears is the clean tree of the (new) tip -/
def TreeKeeps (force : Bool) (l l' : Loc) : Prop :=
  (l.tree = true → l'.tree = true → l'.treeCode = l.treeCode ∧ l'.dirty = l.dirty) ∧
  (l.tree = true → l'.tree = false → l.dirty = false ∨ force = true) ∧
  (l.tree = false → l'.tree = true → l'.dirty = false ∧ l'.treeCode = cleanCode l'.tip)

/-- tip and history: unchanged, or — only when the local branch is replaced by a reference — those of the
branch at the bind location -/
def TipKeeps (l l' : Loc) : Prop :=
  (l'.tip = l.tip ∧ l'.hist = l.hist) ∨ (l'.tip = l.refTip ∧ l'.hist = l.refHist)

/-- what every transition (forced or not) guarantees -/
def KeepsF (force : Bool) (l l' : Loc) : Prop :=
  TipKeeps l l' ∧ l'.format = l.format ∧ RefKeeps l l' ∧ TreeKeeps force l l'

/-- what a transition that is not forced guarantees: tip and history stay -/
def Keeps (l l' : Loc) : Prop :=
  l'.tip = l.tip ∧ l'.hist = l.hist ∧ KeepsF false l l'

/-- a clean working tree is the tree of the tip -/
def TreeInv (l : Loc) : Prop := l.tree = true → l.dirty = false → l.treeCode = cleanCode l.tip

theorem refKeeps_refl (l : Loc) (h : NoConflict l.tags l.refTags) : RefKeeps l l :=
  ⟨rfl, rfl, tagsSub_refl _, tagsSub_refl _, fun _ _ h => Or.inl h, fun _ _ h => Or.inr h, h⟩

theorem treeKeeps_refl (force : Bool) (l : Loc) : TreeKeeps force l l := by
  refine ⟨?_, ?_, ?_⟩ <;> intro a b <;> simp_all

theorem keepsF_refl (force : Bool) (l : Loc) (h : NoConflict l.tags l.refTags) : KeepsF force l l :=
  ⟨Or.inl ⟨rfl, rfl⟩, rfl, refKeeps_refl l h, treeKeeps_refl force l⟩

theorem keeps_refl (l : Loc) (h : NoConflict l.tags l.refTags) : Keeps l l := ⟨rfl, rfl, keepsF_refl false l h⟩

/-- the part of a location the stages other than `stBranch` and `stTree` never touch -/
def core (l : Loc) : Nat × Nat × Nat × Tags × Nat × Nat × Tags × Bool × Bool × Nat :=
  (l.tip, l.hist, l.format, l.tags, l.refTip, l.refHist, l.refTags, l.tree, l.dirty, l.treeCode)

@[simp] theorem core_stRepo (f l) : core (stRepo f l) = core l := by unfold stRepo; split <;> rfl
@[simp] theorem core_stUnbind (f l) : core (stUnbind f l) = core l := by unfold stUnbind; split <;> rfl
@[simp] theorem core_stBind (f l) : core (stBind f l) = core l := by unfold stBind; split <;> rfl
@[simp] theorem core_stDropRepo (f a l) : core (stDropRepo f a l) = core l := by unfold stDropRepo; split <;> rfl

theorem keepsF_of_core (force : Bool) (l m m' : Loc) (hc : core m' = core m) (h : KeepsF force l m) : KeepsF force l m' := by
  simp only [core, Prod.mk.injEq] at hc
  obtain ⟨c1, c2, c3, c4, c5, c6, c7, c8, c9, c10⟩ := hc
  unfold KeepsF TipKeeps RefKeeps TreeKeeps at *
  rw [c1, c2, c3, c4, c5, c6, c7, c8, c9, c10]
  exact h

/-- `stBranch` then `stTree`, on a state `m` that agrees with `l` on the observed part -/
theorem keepsF_branch_tree (force : Bool) (l m : Loc) (f : Flags) (hc : core m = core l)
    (hinv : NoConflict l.tags l.refTags)
    (hd : f.destroyTree = true → l.tree = true) (hcr : f.createTree = true → l.tree = false)
    (hsafe : f.destroyTree = true → l.dirty = false ∨ force = true) :
    KeepsF force l (stTree f (stBranch f m)) := by
  simp only [core, Prod.mk.injEq] at hc
  obtain ⟨c1, c2, c3, c4, c5, c6, c7, c8, c9, c10⟩ := hc
  have hm1 := mergeTo_keeps_source l.tags l.refTags hinv
  have hm2 := mergeTo_keeps_dest l.tags l.refTags
  have hm3 := mergeTo_from l.tags l.refTags
  have hr := refKeeps_refl l hinv
  unfold KeepsF TipKeeps RefKeeps TreeKeeps stTree stBranch
  cases hdt : f.destroyTree <;> cases hct : f.createTree <;> cases hcf : f.createReference <;> cases hcb : f.createBranch <;>
    cases hlt : l.tree <;> simp_all [noConflict_self, tagsSub_refl] <;>
    first
      | exact ⟨fun _ _ h => Or.inl h, fun _ _ h => Or.inr h⟩
      | skip

theorem applyFlags_keepsF (v : Variant) (l : Loc) (f : Flags) (force : Bool) (hinv : NoConflict l.tags l.refTags)
    (hd : f.destroyTree = true → l.tree = true) (hcr : f.createTree = true → l.tree = false) :
    KeepsF force l (applyFlags v l f force).1 := by
  unfold applyFlags
  split
  · exact keepsF_refl force l hinv
  · rename_i h0
    have hsafe : f.destroyTree = true → l.dirty = false ∨ force = true := by
      intro hdt
      cases force <;> cases hdd : l.dirty <;> simp_all
    have hbt := keepsF_branch_tree force l (stRepo f l) f (by simp) hinv hd hcr hsafe
    repeat' split
    · exact keepsF_refl force l hinv
    · exact keepsF_refl force l hinv
    · exact keepsF_refl force l hinv
    · exact keepsF_of_core force l l _ (by simp) (keepsF_refl force l hinv)
    · exact keepsF_of_core force l l _ (by simp) (keepsF_refl force l hinv)
    · exact keepsF_of_core force l _ _ (by simp) hbt
    · exact keepsF_of_core force l _ _ (by simp) hbt

/-- not forced: `_check` lets a reference be created only when the tips agree, so the tip never moves -/
theorem applyFlags_tip (v : Variant) (l : Loc) (f : Flags) (hinv : RefInv l) (hcr : f.createReference = true → l.branch ≠ .reference) :
    (applyFlags v l f false).1.tip = l.tip ∧ (applyFlags v l f false).1.hist = l.hist := by
  have hcore : ∀ m : Loc, core m = core l → (f.createReference = true → l.refTip = l.tip) →
      (stTree f (stBranch f m)).tip = l.tip ∧ (stTree f (stBranch f m)).hist = l.hist := by
    intro m hc hs
    simp only [core, Prod.mk.injEq] at hc
    obtain ⟨c1, c2, c3, c4, c5, c6, c7, c8, c9, c10⟩ := hc
    unfold stTree stBranch
    cases hdt : f.destroyTree <;> cases hct : f.createTree <;> cases hcf : f.createReference <;> cases hcb : f.createBranch <;>
      simp_all [RefInv]
  have tipOf : ∀ m m' : Loc, core m' = core m → m'.tip = m.tip ∧ m'.hist = m.hist := by
    intro m m' hc
    simp only [core, Prod.mk.injEq] at hc
    exact ⟨hc.1, hc.2.1⟩
  unfold applyFlags
  simp only [Bool.not_false, Bool.true_and]
  have hsync : ¬(f.createReference && l.branch != BK.reference && !l.synced) = true →
      f.createReference = true → l.refTip = l.tip := by
    intro h3 hcf
    have hb := hcr hcf
    have : l.synced = true := by
      cases hsy : l.synced
      · exfalso; apply h3; simp [hcf, hsy]; exact hb
      · rfl
    simpa [Loc.synced] using this
  repeat' split
  · exact ⟨rfl, rfl⟩
  · exact ⟨rfl, rfl⟩
  · exact ⟨rfl, rfl⟩
  · exact ⟨rfl, rfl⟩
  · exact tipOf l _ (by simp)
  · exact tipOf l _ (by simp)
  · rename_i h1 h2 h3 h3b h4 h5 h6
    have := hcore (stRepo f l) (by simp) (hsync h3)
    have t2 := tipOf (stTree f (stBranch f (stRepo f l))) (stUnbind f (stTree f (stBranch f (stRepo f l)))) (by simp)
    exact ⟨t2.1.trans this.1, t2.2.trans this.2⟩
  · rename_i h1 h2 h3 h3b h4 h5 h6
    have := hcore (stRepo f l) (by simp) (hsync h3)
    have t2 := tipOf (stTree f (stBranch f (stRepo f l)))
      (stDropRepo f l.sharedAbove (stBind f (stUnbind f (stTree f (stBranch f (stRepo f l)))))) (by simp)
    exact ⟨t2.1.trans this.1, t2.2.trans this.2⟩

/-- the flags of every factory only destroy a tree that exists and only create one that does not -/
theorem factory_tree_flags (l : Loc) (t : Target) (f : Flags) (h : factory l t = .ok f) :
    (f.destroyTree = true → l.tree = true) ∧ (f.createTree = true → l.tree = false) := by
  cases t <;> simp [factory, plan, planShared] at h
  all_goals first
    | (subst h; simp) ; done
    | (cases hr : l.repo <;> simp_all <;> (subst h; simp))
    | skip
  all_goals (cases hr : l.repo <;> try simp_all) <;> (try subst h) <;> simp_all

/-- a reference is only ever created in place of a local branch -/
theorem factory_reference_flag (l : Loc) (t : Target) (f : Flags) (h : factory l t = .ok f) :
    f.createReference = true → l.branch ≠ .reference := by
  cases t <;> simp [factory, plan, planShared] at h
  all_goals first
    | (subst h; simp) ; done
    | (cases hr : l.repo <;> simp_all <;> (subst h; simp))
    | skip
  all_goals (cases hr : l.repo <;> try simp_all) <;> (try subst h) <;> simp_all

theorem keeps_treeInv (l l' : Loc) (h : Keeps l l') (hi : TreeInv l) : TreeInv l' := by
  obtain ⟨h1, _, _, _, _, h5, _, h7⟩ := h
  unfold TreeInv at *
  intro ht hd
  cases hlt : l.tree
  · exact (h7 hlt ht).2
  · have := h5 hlt ht
    rw [this.1, h1]; exact hi hlt (by rw [← this.2]; exact hd)

theorem keeps_refInv (l l' : Loc) (h : Keeps l l') (hi : RefInv l) : RefInv l' := by
  obtain ⟨h1, h2, _, _, hr, _⟩ := h
  obtain ⟨r1, r2, _, _, _, _, r7⟩ := hr
  exact ⟨by rw [r1, r2, h1, h2]; exact hi.1, r7⟩

end BreezyVerif.C52
