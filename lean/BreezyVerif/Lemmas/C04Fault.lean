import BreezyVerif.Model.C04Fault
import BreezyVerif.Lemmas.C04
/-!
C04 — helper lemmas for the error paths: what an executed (possibly faulty)
`_save_pack_names` looks like, safety of the clean-up operations.
-/
namespace BreezyVerif.C04

theorem mem_cutAt {seg : List Op} {i : Nat} {f : Fault} {op : Op} (h : op ∈ cutAt seg i f) : op ∈ seg :=
  List.mem_of_mem_take h

theorem mem_skipAt {seg : List Op} {i : Nat} {f : Fault} {op : Op} (h : op ∈ skipAt seg i f) : op ∈ seg := by
  simp only [skipAt, List.mem_append] at h
  rcases h with h | h
  · exact List.mem_of_mem_take h
  · exact List.mem_of_mem_drop h

/-- every deletion of `_clear_obsolete_packs` is in `obsolete_packs/` -/
theorem clearOrd_safe (ns : List Nat) (d : Disk) (p : List Nat) (ord : List File) :
    ∀ op ∈ clearOrd d p ord, safeOp ns op = true := by
  intro op hop
  simp only [clearOrd, List.mem_map, List.mem_append, List.mem_filter] at hop
  obtain ⟨f, hf, rfl⟩ := hop
  have ht : f ∈ clearTargets d p := by
    rcases hf with ⟨_, h⟩ | ⟨h, _⟩
    · simpa using h
    · exact h
  simp only [clearTargets, List.mem_filter, Bool.and_eq_true, decide_eq_true_eq] at ht
  simp [safeOp, touches, ht.2.1]

theorem clearOrd_noPut (d : Disk) (p : List Nat) (ord : List File) :
    ∀ op ∈ clearOrd d p ord, isPut op = false := by
  intro op hop
  simp only [clearOrd, List.mem_map] at hop
  obtain ⟨f, _, rfl⟩ := hop; rfl

/-- the operations `_save_pack_names` may perform after the `put_file` -/
def saveAllowed (chk : Bool) (d : Disk) (obs : Option (List Nat)) (ord : List File) : List Op :=
  saveClear d obs ord ++ [Op.unlock] ++ saveObsol chk d obs

/-- they are safe for every collection that contains no pack of `obs` -/
theorem saveAllowed_safe (chk : Bool) (d : Disk) (N : List Nat) (obs : Option (List Nat)) (ord : List File)
    (h : ∀ s, obs = some s → ∀ n ∈ s, n ∉ N) :
    ∀ op ∈ saveAllowed chk d obs ord, safeOp N op = true := by
  intro op hop
  simp only [saveAllowed, List.mem_append, List.mem_singleton] at hop
  rcases hop with (hop | rfl) | hop
  · cases obs with
    | none => cases hop
    | some s => exact clearOrd_safe N d s ord op hop
  · rfl
  · cases obs with
    | none => cases hop
    | some s =>
      simp only [saveObsol, List.mem_flatMap, List.mem_filter] at hop
      obtain ⟨n, ⟨hn, _⟩, hop⟩ := hop
      exact obsoleteOps_safe chk N n (h s rfl n hn) op hop

theorem saveAllowed_noPut (chk : Bool) (d : Disk) (obs : Option (List Nat)) (ord : List File) :
    ∀ op ∈ saveAllowed chk d obs ord, isPut op = false := by
  intro op hop
  simp only [saveAllowed, List.mem_append, List.mem_singleton] at hop
  rcases hop with (hop | rfl) | hop
  · cases obs with
    | none => cases hop
    | some s => exact clearOrd_noPut d s ord op hop
  · rfl
  · cases obs with
    | none => cases hop
    | some s =>
      simp only [saveObsol, List.mem_flatMap, obsoleteOps, List.mem_cons, List.mem_map] at hop
      obtain ⟨n, _, (rfl | ⟨e, _, rfl⟩)⟩ := hop <;> rfl

/-- **The shape of an executed `_save_pack_names`**, faulty or not: nothing,
only the lock, lock + unlock (the `put_file` failed), or lock, `put_file`,
then some of the allowed operations. -/
def SaveShape (N : List Nat) (allowed : List Op) (sv : List Op) : Prop :=
  sv = [] ∨ sv = [Op.lock] ∨ sv = [Op.lock, Op.unlock] ∨
  ∃ post, sv = Op.lock :: Op.putNames N :: post ∧ ∀ op ∈ post, op ∈ allowed

theorem take_one_cases (a : Op) (n : Nat) : (n = 0 ∧ [a].take n = []) ∨ (n ≠ 0 ∧ [a].take n = [a]) := by
  cases n with
  | zero => exact Or.inl ⟨rfl, rfl⟩
  | succ m => exact Or.inr ⟨by omega, by simp⟩

theorem saveOpsOrd_shape (chk : Bool) (d : Disk) (v : View) (obs : Option (List Nat)) (ord : List File) :
    SaveShape (saveN d v) (saveAllowed chk d obs ord) (saveOpsOrd chk d v obs ord) := by
  refine Or.inr (Or.inr (Or.inr ⟨saveAllowed chk d obs ord, ?_, fun _ h => h⟩))
  simp [saveOpsOrd, saveAllowed, List.append_assoc]

/-- the exception is raised before the `put_file` of `pack-names` completed -/
def Fault.beforePut (f : Fault) : Prop := f.pos = 0 ∨ (f.pos = 1 ∧ f.done 0 = 0)

/-- **The error paths of `_save_pack_names`** never run an operation that the
fault-free method would not run; if the exception is raised before the
`put_file` completed they run nothing but lock / unlock, otherwise `pack-names`
was replaced and only operations of the fault-free tail follow. -/
theorem saveFault_shape' (chk : Bool) (d : Disk) (v : View) (obs : Option (List Nat)) (ord : List File)
    (f : Fault) :
    (f.beforePut ∧ (saveFault chk d v obs ord f = [] ∨ saveFault chk d v obs ord f = [Op.lock] ∨
        saveFault chk d v obs ord f = [Op.lock, Op.unlock])) ∨
    (¬ f.beforePut ∧ ∃ post, saveFault chk d v obs ord f = Op.lock :: Op.putNames (saveN d v) :: post ∧
        ∀ op ∈ post, op ∈ saveAllowed chk d obs ord) := by
  have hclear : ∀ op ∈ saveClear d obs ord, op ∈ saveAllowed chk d obs ord := by
    intro op h; simp [saveAllowed, h]
  have hobs : ∀ op ∈ saveObsol chk d obs, op ∈ saveAllowed chk d obs ord := by
    intro op h; simp [saveAllowed, h]
  have hun : Op.unlock ∈ saveAllowed chk d obs ord := by simp [saveAllowed]
  have shape4 : ∀ post : List Op, ¬ f.beforePut → (∀ op ∈ post, op ∈ saveAllowed chk d obs ord) →
      ∀ sv, sv = [Op.lock, Op.putNames (saveN d v)] ++ post →
      (f.beforePut ∧ (sv = [] ∨ sv = [Op.lock] ∨ sv = [Op.lock, Op.unlock])) ∨
      (¬ f.beforePut ∧ ∃ post, sv = Op.lock :: Op.putNames (saveN d v) :: post ∧
        ∀ op ∈ post, op ∈ saveAllowed chk d obs ord) :=
    fun post hb h sv hsv => Or.inr ⟨hb, post, hsv, h⟩
  unfold saveFault
  simp only []
  split
  · -- lock_names() raised
    rename_i h0
    rcases take_one_cases Op.lock (f.done 0) with ⟨_, h⟩ | ⟨_, h⟩
    · exact Or.inl ⟨Or.inl h0, Or.inl (by simp [cutAt, h])⟩
    · exact Or.inl ⟨Or.inl h0, Or.inr (Or.inl (by simp [cutAt, h]))⟩
  · rename_i h0
    split
    · -- put_file raised
      rename_i h1
      rcases take_one_cases (Op.putNames (saveN d v)) (f.done 0) with ⟨hz, h⟩ | ⟨hz, h⟩
      · exact Or.inl ⟨Or.inr ⟨h1, hz⟩, Or.inr (Or.inr (by simp [cutAt, h]))⟩
      · refine Or.inr ⟨?_, [Op.unlock], by simp [cutAt, h], ?_⟩
        · rintro (h | ⟨_, h⟩)
          · exact h0 h
          · exact hz h
        · intro op hop; simp at hop; subst hop; exact hun
    · rename_i h1
      have hb : ¬ f.beforePut := by
        rintro (h | ⟨h, _⟩)
        · exact h0 h
        · exact h1 h
      split
      · split
        · simp only [List.append_assoc]
          refine shape4 _ hb ?_ _ rfl
          intro op hop
          simp only [List.mem_append, List.mem_singleton] at hop
          rcases hop with hop | rfl | hop
          · exact hclear op (mem_skipAt hop)
          · exact hun
          · exact hobs op hop
        · simp only [List.append_assoc]
          refine shape4 _ hb ?_ _ rfl
          intro op hop
          simp only [List.mem_append, List.mem_singleton] at hop
          rcases hop with hop | rfl
          · exact hclear op (mem_cutAt hop)
          · exact hun
      · split
        · split
          · simp only [List.append_assoc]
            refine shape4 _ hb ?_ _ rfl
            intro op hop
            simp only [List.mem_append] at hop
            rcases hop with hop | hop | hop
            · exact hclear op hop
            · have := mem_cutAt hop; simp at this; subst this; exact hun
            · exact hobs op hop
          · simp only [List.append_assoc]
            refine shape4 _ hb ?_ _ rfl
            intro op hop
            simp only [List.mem_append, List.mem_singleton] at hop
            rcases hop with hop | rfl
            · exact hclear op hop
            · exact hun
        · split
          · simp only [List.append_assoc]
            refine shape4 _ hb ?_ _ rfl
            intro op hop
            simp only [List.mem_append, List.mem_singleton] at hop
            rcases hop with hop | rfl | hop
            · exact hclear op hop
            · exact hun
            · exact hobs op (mem_skipAt hop)
          · simp only [List.append_assoc]
            refine shape4 _ hb ?_ _ rfl
            intro op hop
            simp only [List.mem_append, List.mem_singleton] at hop
            rcases hop with hop | rfl | hop
            · exact hclear op hop
            · exact hun
            · exact hobs op (mem_cutAt hop)

theorem saveFault_shape (chk : Bool) (d : Disk) (v : View) (obs : Option (List Nat)) (ord : List File)
    (f : Fault) :
    SaveShape (saveN d v) (saveAllowed chk d obs ord) (saveFault chk d v obs ord f) := by
  rcases saveFault_shape' chk d v obs ord f with ⟨_, h | h | h⟩ | ⟨_, h⟩
  · exact Or.inl h
  · exact Or.inr (Or.inl h)
  · exact Or.inr (Or.inr (Or.inl h))
  · exact Or.inr (Or.inr (Or.inr h))

/-! ### operations that never replace `pack-names` -/

theorem newPackOps_noPut (chk : Bool) (tmp : File) (name : Nat) :
    ∀ op ∈ newPackOps chk tmp name, isPut op = false := by
  intro op hop
  simp only [newPackOps, finishOps, List.mem_cons, List.mem_append, List.mem_flatMap,
    List.not_mem_nil, or_false] at hop
  rcases hop with rfl | ⟨e, _, rfl | rfl⟩ | rfl | rfl <;> rfl

/-- the abort of the write group's pack only touches the upload file -/
theorem abortNewPack_safe (ns : List Nat) (d : Disk) (tmp : File) (ht : tmp.dir = .upload) :
    ∀ op ∈ abortNewPack d tmp, safeOp ns op = true := by
  intro op hop
  have hup := upload_not_touches ns tmp ht
  simp only [abortNewPack, List.mem_append, List.mem_singleton] at hop
  rcases hop with hop | rfl
  · split at hop
    · simp at hop; subst hop; rfl
    · cases hop
  · simp [safeOp, hup]

/-- `complete` does not look at the lock -/
theorem complete_unlocked (chk : Bool) (d : Disk) :
    complete chk { d with locked := false } = complete chk d := rfl

end BreezyVerif.C04
