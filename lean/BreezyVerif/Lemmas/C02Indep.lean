import BreezyVerif.Lemmas.C02
/-
C02: file ids are recorded independently of each other.  Restricting every
committed tree to a set of file ids restricts every recorded inventory and the
per-file graph to that set and changes nothing else.  (This is what justifies
leaving the root directory out of the model for the non-rich-root formats,
where it is not a text key.)
-/
namespace BreezyVerif.C02

def keepCommit (k : FileId → Bool) (c : Commit) : Commit :=
  { c with tree := c.tree.filter fun x => k x.1 }

def keepRec (k : FileId → Bool) (r : Rec) : Rec :=
  { r with inv := r.inv.filter (fun x => k x.1), texts := r.texts.filter fun x => k x.1 }

theorem lookup_filter_keep {α : Type} (l : List (Nat × α)) (k : Nat → Bool) (f : Nat) (hk : k f = true) :
    (l.filter fun x => k x.1).lookup f = l.lookup f := by
  induction l with
  | nil => rfl
  | cons t l ih =>
    obtain ⟨g, v⟩ := t
    simp only [List.filter_cons]
    by_cases hg : k g = true
    · simp only [hg, if_true, List.lookup_cons, ih]
    · have hne : (f == g) = false := by
        simp only [beq_eq_false_iff_ne, ne_eq]
        intro e; exact hg (e ▸ hk)
      have hg' : k g = false := by simpa using hg
      simp only [hg', Bool.false_eq_true, ↓reduceIte, List.lookup_cons, hne, ih]

theorem invOf_keep (k : FileId → Bool) (st : State) (p : Rev) :
    invOf (st.map (keepRec k)) p = (invOf st p).map fun i => i.filter fun x => k x.1 := by
  induction st with
  | nil => rfl
  | cons r st ih =>
    simp only [List.map_cons, invOf, keepRec]
    by_cases e : r.id = p
    · simp [e]
    · simp only [e, if_false]; exact ih

theorem entryIn_keep (k : FileId → Bool) (st : State) (f : FileId) (p : Rev) (hk : k f = true) :
    entryIn (st.map (keepRec k)) f p = entryIn st f p := by
  simp only [entryIn, invOf_keep]
  cases invOf st p with
  | none => rfl
  | some i => simp only [Option.map_some]; exact lookup_filter_keep i k f hk

theorem candEntries_keep (k : FileId → Bool) (st : State) (ps : List Rev) (f : FileId)
    (hk : k f = true) : candEntries (st.map (keepRec k)) ps f = candEntries st ps f := by
  simp only [candEntries]
  congr 1
  funext p
  exact entryIn_keep k st f p hk

theorem textsOf_keep (k : FileId → Bool) (st : State) :
    textsOf (st.map (keepRec k)) = (textsOf st).filter fun x => k x.1.1 := by
  induction st with
  | nil => rfl
  | cons r st ih =>
    simp only [List.map_cons, textsOf_cons, ih, List.filter_append, keepRec]
    congr 1
    induction r.texts with
    | nil => rfl
    | cons t ts iht =>
      simp only [List.filter_cons]
      by_cases ht : k t.1 = true
      · simp only [ht, if_true, List.map_cons, List.filter_cons, iht]
      · have ht' : k t.1 = false := by simpa using ht
        simp only [ht', Bool.false_eq_true, ↓reduceIte, List.map_cons, List.filter_cons, iht]

theorem fanc_keep (k : FileId → Bool) (f : FileId) (hk : k f = true) :
    ∀ (g : TGraph) (c : Rev), fanc (g.filter fun x => k x.1.1) f c = fanc g f c
  | [], _ => rfl
  | (key, ps) :: older, c => by
    have ih := fanc_keep k f hk older
    simp only [List.filter_cons]
    by_cases hkey : k key.1 = true
    · simp only [hkey, if_true, fanc, ih]
    · have hne : ¬ key = (f, c) := by
        intro e
        apply hkey
        rw [e]; exact hk
      have hkey' : k key.1 = false := by simpa using hkey
      simp only [hkey', Bool.false_eq_true, ↓reduceIte, fanc, hne, ih]

theorem heads_keep (k : FileId → Bool) (st : State) (f : FileId) (cands : List Rev) (hk : k f = true) :
    heads (textsOf (st.map (keepRec k))) f cands = heads (textsOf st) f cands := by
  apply heads_congr
  intro c _
  rw [textsOf_keep]
  exact fanc_keep k f hk _ c

theorem recordOne_keep (k : FileId → Bool) (st : State) (c : Commit) (f : FileId) (a : Attr)
    (hk : k f = true) :
    recordOne (st.map (keepRec k)) (keepCommit k c) f a = recordOne st c f a := by
  simp only [recordOne, keepCommit, candidates, entryWithRev, candEntries_keep k st _ f hk,
    heads_keep k st f _ hk]

theorem map_filter_agree {β : Type} (l : Tree) (k : FileId → Bool) (F G : FileId → Attr → β)
    (h : ∀ f a, k f = true → F f a = G f a) :
    ((l.filter fun x => k x.1).map fun t => (t.1, F t.1 t.2))
      = (l.map fun t => (t.1, G t.1 t.2)).filter fun x => k x.1 := by
  induction l with
  | nil => rfl
  | cons t l ih =>
    simp only [List.filter_cons, List.map_cons]
    by_cases ht : k t.1 = true
    · simp only [ht, if_true, List.map_cons, ih, h t.1 t.2 ht]
    · have ht' : k t.1 = false := by simpa using ht
      simp only [ht', Bool.false_eq_true, ↓reduceIte, ih]

theorem filterMap_filter_agree {β : Type} (l : Tree) (k : FileId → Bool) (F G : FileId → Attr → Option β)
    (h : ∀ f a, k f = true → F f a = G f a) :
    ((l.filter fun x => k x.1).filterMap fun t => (F t.1 t.2).map fun b => (t.1, b))
      = (l.filterMap fun t => (G t.1 t.2).map fun b => (t.1, b)).filter fun x => k x.1 := by
  induction l with
  | nil => rfl
  | cons t l ih =>
    simp only [List.filter_cons, List.filterMap_cons]
    by_cases ht : k t.1 = true
    · simp only [ht, if_true, List.filterMap_cons, ih, h t.1 t.2 ht]
      cases G t.1 t.2 with
      | none => rfl
      | some b => simp [List.filter_cons, ht]
    · have ht' : k t.1 = false := by simpa using ht
      simp only [ht', Bool.false_eq_true, ↓reduceIte, ih]
      cases G t.1 t.2 with
      | none => rfl
      | some b => simp [List.filter_cons, ht']

theorem mkRec_keep (k : FileId → Bool) (st : State) (c : Commit) :
    mkRec (st.map (keepRec k)) (keepCommit k c) = keepRec k (mkRec st c) := by
  have hinv := map_filter_agree c.tree k
    (fun f a => (recordOne (st.map (keepRec k)) (keepCommit k c) f a).1)
    (fun f a => (recordOne st c f a).1) fun f a hk => by rw [recordOne_keep k st c f a hk]
  have htx := filterMap_filter_agree c.tree k
    (fun f a => (recordOne (st.map (keepRec k)) (keepCommit k c) f a).2)
    (fun f a => (recordOne st c f a).2) fun f a hk => by rw [recordOne_keep k st c f a hk]
  simp only [mkRec, keepRec]
  congr 1

theorem build_keep (k : FileId → Bool) : ∀ (h : List Commit),
    build (h.map (keepCommit k)) = (build h).map (keepRec k)
  | [] => rfl
  | c :: older => by
    simp only [List.map_cons, build, record, build_keep k older, mkRec_keep]

end BreezyVerif.C02
