import BreezyVerif.Lemmas.C25Rbd
import BreezyVerif.Lemmas.C25Touch
import BreezyVerif.Lemmas.C25Steps
import BreezyVerif.Lemmas.C25Inv
import BreezyVerif.Props.C22
/-!
C25 — theorems.  All view lists, all graphs (`wf` = topologically numbered),
all tips; no bound on sizes.
-/
namespace BreezyVerif.C25
open BreezyVerif.C22

/-! ## reverse_by_depth -/

/-- **`reverse_by_depth` always terminates** when called at depth 0 (the only
way `log.py` calls it): the fuel `rbdFuel` is never exhausted. -/
theorem rbd_total (l : List V) : ∃ r, reverseByDepth l = some r := by
  obtain ⟨r, hr, _⟩ := rbd_core (rbdFuel l) 0 l (fun _ _ => Nat.zero_le _) (need_zero_lt_fuel l)
  exact ⟨r.filter fun v => !v.revno.isEmpty, by simp [reverseByDepth, hr]⟩

/-- **`reverse_by_depth` is a permutation** of the revisions that have a revno
(those without one are dropped together with the fake revisions). -/
theorem rbd_perm (l r : List V) (h : reverseByDepth l = some r) :
    r.Perm (l.filter fun v => !v.revno.isEmpty) := by
  obtain ⟨r0, hr0, hok⟩ := rbd_core (rbdFuel l) 0 l (fun _ _ => Nat.zero_le _) (need_zero_lt_fuel l)
  simp only [reverseByDepth, hr0, Option.map_some, Option.some.injEq] at h
  subst h
  exact hok.1.filter _

theorem rbd_length (l r : List V) (h : reverseByDepth l = some r) :
    r.length = (l.filter fun v => !v.revno.isEmpty).length :=
  (rbd_perm l r h).length_eq

/-- **The top-level (depth 0) revisions come out in exactly the opposite order.** -/
theorem rbd_depth0_reversed (l r : List V) (h : reverseByDepth l = some r) :
    r.filter (fun v => v.depth == 0) =
      ((l.filter fun v => !v.revno.isEmpty).filter fun v => v.depth == 0).reverse := by
  obtain ⟨r0, hr0, hok⟩ := rbd_core (rbdFuel l) 0 l (fun _ _ => Nat.zero_le _) (need_zero_lt_fuel l)
  simp only [reverseByDepth, hr0, Option.map_some, Option.some.injEq] at h
  subst h
  have comm : ∀ x : List V, (x.filter fun v => !v.revno.isEmpty).filter (fun v => v.depth == 0)
      = (x.filter fun v => v.depth == 0).filter fun v => !v.revno.isEmpty := by
    intro x
    simp only [List.filter_filter]
    congr 1; funext a; exact Bool.and_comm _ _
  rw [comm r0, hok.2, List.filter_reverse, comm l]

example : reverseByDepth [⟨5, [3], 0⟩, ⟨4, [1, 1, 2], 1⟩, ⟨3, [1, 2, 1], 2⟩, ⟨2, [1, 1, 1], 1⟩, ⟨1, [2], 0⟩, ⟨0, [1], 0⟩]
    = some [⟨0, [1], 0⟩, ⟨1, [2], 0⟩, ⟨5, [3], 0⟩, ⟨2, [1, 1, 1], 1⟩, ⟨4, [1, 1, 2], 1⟩, ⟨3, [1, 2, 1], 2⟩] := by decide

/-! ## _rebase_merge_depth -/

theorem minDepth_le : ∀ (l : List V) (v : V), v ∈ l → minDepth l ≤ v.depth
  | [], _, h => by cases h
  | [a], v, h => by
    rw [List.mem_singleton.mp h]; exact Nat.le_refl _
  | a :: b :: l, v, h => by
    have ih := minDepth_le (b :: l)
    show min a.depth (minDepth (b :: l)) ≤ v.depth
    rcases List.mem_cons.mp h with rfl | h
    · exact Nat.min_le_left _ _
    · exact Nat.le_trans (Nat.min_le_right _ _) (ih v h)

/-- **`_rebase_merge_depth` only shifts all depths by one common amount** that
no depth is smaller than; revisions, revnos and order are untouched. -/
theorem rebase_shape (l : List V) :
    ∃ m, (∀ v ∈ l, m ≤ v.depth) ∧
      rebaseMergeDepth l = l.map fun v => { v with depth := v.depth - m } := by
  have hid : l = l.map fun v => ({ v with depth := v.depth - 0 } : V) := by
    have : (fun v : V => ({ v with depth := v.depth - 0 } : V)) = id := by funext v; rfl
    rw [this, List.map_id]
  unfold rebaseMergeDepth
  split
  · split
    · dsimp only
      split
      · exact ⟨minDepth l, minDepth_le l, rfl⟩
      · exact ⟨0, fun _ _ => Nat.zero_le _, hid⟩
    · exact ⟨0, fun _ _ => Nat.zero_le _, hid⟩
  · exact ⟨0, fun _ _ => Nat.zero_le _, hid⟩

example : rebaseMergeDepth [⟨4, [1, 1, 2], 1⟩, ⟨3, [1, 2, 1], 2⟩] = [⟨4, [1, 1, 2], 0⟩, ⟨3, [1, 2, 1], 1⟩] := by decide

/-! ## the view of a whole branch -/

theorem adjustDepths_zero : ∀ l : List V, adjustDepths (some 0) l = l
  | [] => rfl
  | v :: l => by
    simp [adjustDepths, adjustDepths_zero l]

theorem adjustDepths_head_zero (v : V) (l : List V) (h : v.depth = 0) :
    adjustDepths none (v :: l) = v :: l := by
  simp [adjustDepths, h, adjustDepths_zero l]

/-- the complete merge-sorted view of a branch, as `_graph_view_revisions` produces it -/
theorem graphView_full (b : Branch) (t : Nat) (hw : wf b.g = true) (htip : b.tip = some t)
    (ht : t < b.g.length) (rebase : Bool) :
    ∃ ms, mergeSort b.g t = some ms ∧ graphView b none none rebase false = .ok (ms.map ofMS) := by
  obtain ⟨ms, hms⟩ := mergeSort_total b.g t hw ht
  obtain ⟨e, rest, hcons, _, hdepth⟩ := mergeSort_tip_first b.g t ms hw ht hms
  refine ⟨ms, hms, ?_⟩
  have hfilter : filterStartNonAncestors b.g ms = ms := by
    rw [hcons]; simp [filterStartNonAncestors, hdepth]
  have hiter : b.iterMergeSorted none none .withMerges false = .ok ms := by
    simp [Branch.iterMergeSorted, Branch.mergeSorted, htip, hms, applyStop, hfilter, bind, Except.bind,
      pure, Except.pure]
  unfold graphView
  simp only [Option.isNone_none, Bool.and_true, Bool.false_eq_true, if_false, Option.map_none, hiter, liftE]
  cases rebase
  · rfl
  · simp only [if_true]
    rw [hcons, List.map_cons, adjustDepths_head_zero _ _ (by simpa [ofMS] using hdepth)]

/-- **A full log lists every revision of the tip's ancestry exactly once, with
its merge-sorted dotted revno and depth.** -/
theorem view_complete_once (b : Branch) (t : Nat) (hw : wf b.g = true) (htip : b.tip = some t)
    (ht : t < b.g.length) :
    ∃ ms, mergeSort b.g t = some ms ∧ logRequest b none none false 0 0 false = .ok (ms.map ofMS) ∧
      ((ms.map ofMS).map (·.rev)).Nodup ∧ (∀ x, x ∈ (ms.map ofMS).map (·.rev) ↔ Reach b.g t x) ∧
      ((ms.map ofMS).map (·.revno)).Nodup := by
  obtain ⟨ms, hms, hgv⟩ := graphView_full b t hw htip ht true
  refine ⟨ms, hms, ?_, ?_, ?_, ?_⟩
  · simp [logRequest, revisionLimits, calcView, generateAll, htip, hgv, levelLimit]
  · have := mergeSort_nodup b.g t ms hw ht hms
    simpa [List.map_map, Function.comp_def, ofMS] using this
  · intro x
    have := mergeSort_covers b.g t ms hw ht hms x
    simpa [List.map_map, Function.comp_def, ofMS] using this
  · have := dotted_injective b.g t ms hw ht hms
    simpa [List.map_map, Function.comp_def, ofMS] using this

/-- **The forward log is `_rebase_merge_depth ∘ reverse_by_depth` of the reverse log.** -/
theorem forward_is_rbd_of_reverse (b : Branch) (t : Nat) (hw : wf b.g = true) (htip : b.tip = some t)
    (ht : t < b.g.length) :
    ∃ rev r, logRequest b none none false 0 0 false = .ok rev ∧ reverseByDepth rev = some r ∧
      logRequest b none none true 0 0 false = .ok (rebaseMergeDepth r) := by
  obtain ⟨ms, hms, hrev, _⟩ := view_complete_once b t hw htip ht
  obtain ⟨ms', hms', hgv⟩ := graphView_full b t hw htip ht false
  rw [hms] at hms'; cases hms'
  obtain ⟨r, hr⟩ := rbd_total (ms.map ofMS)
  refine ⟨_, r, hrev, hr, ?_⟩
  simp [logRequest, revisionLimits, calcView, generateAll, htip, hgv, levelLimit, hr]

/-- the left-hand history, newest first, numbered from the tip's revno downwards, all at depth 0 -/
def mainlineViews (b : Branch) : List V :=
  (b.history.zipIdx).map fun (r, i) => (⟨r, [b.lastRevno - i], 0⟩ : V)

theorem mainlineViews_revs (b : Branch) : (mainlineViews b).map (·.rev) = b.history := by
  unfold mainlineViews
  rw [List.map_map]
  have : ((fun v : V => v.rev) ∘ fun (x : Nat × Nat) => (⟨x.1, [b.lastRevno - x.2], 0⟩ : V)) = Prod.fst := by
    funext x; rfl
  rw [this]
  exact List.zipIdx_map_fst ..

/-- every entry of `mainlineViews`: depth 0, a one-number revno, and that number names the revision -/
theorem mainlineViews_numbered (b : Branch) (v : V) (hv : v ∈ mainlineViews b) :
    v.depth = 0 ∧ ∃ k : Nat, v.revno = [k] ∧ 1 ≤ k ∧ k ≤ b.lastRevno ∧ b.getRevId k = .ok (.rev v.rev) ∧
      b.history.reverse[k - 1]? = some v.rev := by
  unfold mainlineViews at hv
  rw [List.mem_map] at hv
  obtain ⟨⟨r, i⟩, hmem, rfl⟩ := hv
  have hget : b.history[i]? = some r := List.mem_zipIdx_iff_getElem?.mp hmem
  have hL : b.lastRevno = b.history.length := rfl
  have hi : i < b.history.length := by
    rcases Nat.lt_or_ge i b.history.length with h | h
    · exact h
    · rw [List.getElem?_eq_none h] at hget; cases hget
  refine ⟨rfl, b.lastRevno - i, rfl, by omega, by omega, ?_, ?_⟩
  · apply getRevId_pos b (b.lastRevno - i) (by omega) (by omega) r
    have : b.lastRevno - (b.lastRevno - i) = i := by omega
    rw [this]; exact hget
  · rw [List.getElem?_reverse (by omega)]
    have : b.history.length - 1 - (b.lastRevno - i - 1) = i := by omega
    rw [this]; exact hget

/-- **levels=1 lists exactly the left-hand history**, in both directions, every revision once at depth 0,
numbered from the tip's revno downwards — and that number is the revision's revno (`get_rev_id`). -/
theorem level1_is_lefthand (b : Branch) (t : Nat) (htip : b.tip = some t) (fwd : Bool) :
    logRequest b none none fwd 1 0 false = .ok (if fwd then (mainlineViews b).reverse else mainlineViews b) ∧
      (mainlineViews b).map (·.rev) = b.history ∧
      ∀ v ∈ mainlineViews b, v.depth = 0 ∧ ∃ k : Nat, v.revno = [k] ∧ b.getRevId k = .ok (.rev v.rev) := by
  have hlin : linearView b none none false = some (mainlineViews b) := rfl
  have hL0 : ∀ v ∈ mainlineViews b, v.depth = 0 := fun v hv => (mainlineViews_numbered b v hv).1
  have hkeep : ∀ l : List V, (∀ v ∈ l, v.depth = 0) → levelLimit 1 0 l = l := by
    intro l hl
    simp only [levelLimit, beq_self_eq_true, if_true]
    rw [List.filter_eq_self]
    intro v hv
    simp [hl v hv]
  refine ⟨?_, mainlineViews_revs b, ?_⟩
  · cases fwd
    · simp [logRequest, revisionLimits, calcView, htip, hlin, hkeep _ hL0]
    · simp [logRequest, revisionLimits, calcView, htip, hlin,
        hkeep _ (fun v hv => hL0 v (List.mem_reverse.mp hv))]
  · intro v hv
    obtain ⟨h0, k, hk, _, _, hg, _⟩ := mainlineViews_numbered b v hv
    exact ⟨h0, k, hk, hg⟩

example : logRequest { g := [[], [0], [0], [1, 2]], tip := some 3 } none none false 1 0 false
    = .ok [⟨3, [3], 0⟩, ⟨1, [2], 0⟩, ⟨0, [1], 0⟩] := by decide

/-- **The levels=1 numbers are the numbers of the complete log**: every revision listed by levels=1 appears in
the merge-sorted numbering (`get_revision_id_to_revno_map`) with the same one-number revno, and no other
revision has a one-number revno there. -/
theorem level1_numbers_agree_with_full (b : Branch) (t : Nat) (hw : wf b.g = true) (htip : b.tip = some t)
    (ht : t < b.g.length) (hc : mainlineClean b = true) :
    ∃ m, b.revnoMap = .ok m ∧ (∀ v ∈ mainlineViews b, (v.rev, v.revno) ∈ m) ∧
      (∀ k x, (x, [k]) ∈ m → (⟨x, [k], 0⟩ : V) ∈ mainlineViews b) := by
  obtain ⟨m, hm, _, hfwd, hconv⟩ := mainline_revno b t hw htip ht hc
  have hL : b.lastRevno = b.history.length := rfl
  refine ⟨m, hm, ?_, ?_⟩
  · intro v hv
    obtain ⟨_, k, hk, h1, _, _, hrev⟩ := mainlineViews_numbered b v hv
    have := hfwd (k - 1) v.rev hrev
    have hk1 : k - 1 + 1 = k := by omega
    rw [hk1] at this
    rw [hk]; exact this
  · intro k x hx
    obtain ⟨h1, hrev⟩ := hconv k x hx
    have hklt : k - 1 < b.history.length := by
      rcases Nat.lt_or_ge (k - 1) b.history.reverse.length with h | h
      · simpa using h
      · rw [List.getElem?_eq_none h] at hrev; cases hrev
    rw [List.getElem?_reverse hklt] at hrev
    unfold mainlineViews
    rw [List.mem_map]
    refine ⟨(x, b.history.length - 1 - (k - 1)), List.mem_zipIdx_iff_getElem?.mpr hrev, ?_⟩
    have : b.lastRevno - (b.history.length - 1 - (k - 1)) = k := by omega
    simp only [this]

/-- **A levels=1 range lists exactly the left-hand ancestry of the end down to and including the start**
(the start being a left-hand ancestor of the end, other than the end itself), in both directions, all at
depth 0, each with its revno in the branch. -/
theorem level1_range (b : Branch) (t s e : Nat) (htip : b.tip = some t) (fwd : Bool) (hne : s ≠ e)
    (hlim : revisionLimits b (some (b.lazyRevno (.rev s), .rev s)) (some (b.lazyRevno (.rev e), .rev e)) = .ok ())
    (hs : (lefthand b.g (e + 1) e).contains s = true) :
    let seg : List V := ((lefthand b.g (e + 1) e).takeWhile (· != s) ++ [s]).map fun r => ⟨r, revnoStr b r, 0⟩
    logRequest b (some s) (some e) fwd 1 0 false = .ok (if fwd then seg.reverse else seg) := by
  intro seg
  have hlin : linearView b (some s) (some e) false = some seg := by
    unfold linearView
    simp only [hs, if_true, seg, Bool.false_eq_true, if_false, List.map_append, List.map_cons, List.map_nil]
  have hseg0 : ∀ v ∈ seg, v.depth = 0 := by
    intro v hv
    simp only [seg, List.mem_map] at hv
    obtain ⟨_, _, rfl⟩ := hv
    rfl
  have hkeep : ∀ l : List V, (∀ v ∈ l, v.depth = 0) → levelLimit 1 0 l = l := by
    intro l hl
    simp only [levelLimit, beq_self_eq_true, if_true]
    rw [List.filter_eq_self]
    intro v hv
    simp [hl v hv]
  have hse : (some s == some e) = false := by simpa using hne
  unfold logRequest
  simp only [Option.map_some, hlim]
  cases fwd
  · simp [calcView, htip, hse, hlin, hkeep _ hseg0]
  · simp [calcView, htip, hse, hlin, hkeep _ (fun v hv => hseg0 v (List.mem_reverse.mp hv))]

example :
    let b : Branch := { g := [[], [0], [0], [1, 2], [3], [4]], tip := some 5 }
    revisionLimits b (some (b.lazyRevno (.rev 1), .rev 1)) (some (b.lazyRevno (.rev 4), .rev 4)) = .ok () ∧
    (lefthand b.g (4 + 1) 4).contains 1 = true ∧
    logRequest b (some 1) (some 4) false 1 0 false = .ok [⟨4, [4], 0⟩, ⟨3, [3], 0⟩, ⟨1, [2], 0⟩] := by decide

/-- **levels=k is the depth filter of the complete log** (same request otherwise). -/
theorem levels_is_filter (b : Branch) (start stop : Option Nat) (fwd excl : Bool) (k : Nat) (hk : 2 ≤ k)
    (l : List V) (h : logRequest b start stop fwd 0 0 excl = .ok l) :
    logRequest b start stop fwd k 0 excl = .ok (l.filter fun v => decide (v.depth < k)) := by
  have hk1 : (k != 1) = true := by simp; omega
  have hk0 : (k == 0) = false := by simp; omega
  have h01 : ((0 : Nat) != 1) = true := rfl
  unfold logRequest at h ⊢
  simp only [hk1]
  simp only [h01] at h
  generalize revisionLimits b _ _ = R at h ⊢
  cases R with
  | error e => cases h
  | ok u =>
    simp only at h ⊢
    generalize calcView b start stop fwd true _ excl = C at h ⊢
    cases C with
    | error e => cases h
    | ok p =>
      obtain ⟨l0, flag⟩ := p
      cases flag
      · simp only [Except.ok.injEq] at h ⊢
        subst h
        simp [levelLimit, hk0]
      · simp at h

/-- **a limit yields a prefix of the unlimited listing of the same view** -/
theorem limit_is_prefix (levels limit : Nat) (l : List V) :
    levelLimit levels limit l = if limit == 0 then levelLimit levels 0 l else (levelLimit levels 0 l).take limit := by
  unfold levelLimit
  split <;> simp_all

/-- with levels=1 and no range the view does not depend on the delayed-graph-generation switch -/
theorem calcView_level1_delayed (b : Branch) (fwd excl : Bool) (d : Bool) :
    calcView b none none fwd false d excl = calcView b none none fwd false true excl := by
  have hlin : linearView b none none excl = some (mainlineViews b) := rfl
  unfold calcView
  split
  · rfl
  · split
    · rfl
    · simp [hlin]

theorem levelLimit_take (levels limit : Nat) (l : List V) (hl : limit ≠ 0) :
    levelLimit levels limit l = (levelLimit levels 0 l).take limit := by
  have : (limit == 0) = false := by simpa using hl
  simp [levelLimit, this]

/-- **A limit lists the prefix of the unlimited listing of the same request** — at request level, for every
request with a range (start or end given; any direction, levels, exclude_common_ancestry) and for every
levels=1 request.  (For an unrestricted log with merges the limit also switches on delayed graph
generation; there the equality is checked by the oracle on every run, not proved.) -/
theorem limit_is_prefix_request (b : Branch) (start stop : Option Nat) (fwd : Bool) (levels limit : Nat)
    (excl : Bool) (h : (start.isSome || stop.isSome || levels == 1) = true) (hl : limit ≠ 0) :
    logRequest b start stop fwd levels limit excl =
      (logRequest b start stop fwd levels 0 excl).map (fun l : List V => l.take limit) := by
  have hl' : (limit != 0) = true := by simpa using hl
  have key : ∀ (R : Except LErr Unit) (C : Except LErr (List V × Bool)),
      (match R with
        | .error e => (.error e : Except LErr (List V))
        | .ok () => match C with
          | .error e => .error e
          | .ok (l, false) => .ok (levelLimit levels limit l)
          | .ok (_, true) => .error .unsupported) =
      (match R with
        | .error e => (.error e : Except LErr (List V))
        | .ok () => match C with
          | .error e => .error e
          | .ok (l, false) => .ok (levelLimit levels 0 l)
          | .ok (_, true) => .error .unsupported).map (fun l : List V => l.take limit) := by
    intro R C
    cases R with
    | error e => rfl
    | ok u =>
      cases C with
      | error e => rfl
      | ok p =>
        obtain ⟨l, flag⟩ := p
        cases flag
        · simp only [Except.map, levelLimit_take levels limit l hl]
        · rfl
  by_cases hr : (start.isSome || stop.isSome) = true
  · have h1 : (limit != 0 || start.isSome || stop.isSome) = true := by
      rw [Bool.or_assoc, hr, Bool.or_true]
    have h0 : ((0 : Nat) != 0 || start.isSome || stop.isSome) = true := by
      rw [Bool.or_assoc, hr, Bool.or_true]
    unfold logRequest
    simp only [h1, h0]
    exact key _ _
  · have hr' : (start.isSome || stop.isSome) = false := by simpa using hr
    have hlv : levels = 1 := by
      rw [hr', Bool.false_or] at h
      simpa using h
    have hs : start = none := by
      cases start with
      | none => rfl
      | some _ => simp at hr'
    have he : stop = none := by
      cases stop with
      | none => rfl
      | some _ => simp [hs] at hr'
    subst hlv hs he
    unfold logRequest
    have hg : ((1 : Nat) != 1) = false := rfl
    simp only [hg, calcView_level1_delayed b fwd excl (limit != 0 || none.isSome || none.isSome),
      calcView_level1_delayed b fwd excl ((0 : Nat) != 0 || none.isSome || none.isSome)]
    exact key _ _

example : logRequest { g := [[], [0], [0], [1, 2], [3]], tip := some 4 } (some 1) none false 0 2 false
    = .ok [⟨4, [4], 0⟩, ⟨3, [3], 0⟩] ∧
    logRequest { g := [[], [0], [0], [1, 2], [3]], tip := some 4 } (some 1) none false 0 0 false
    = .ok [⟨4, [4], 0⟩, ⟨3, [3], 0⟩, ⟨2, [1, 1, 1], 1⟩, ⟨1, [2], 0⟩] := by decide

theorem adjustDepths_ids : ∀ (adj : Option Nat) (l : List V),
    (adjustDepths adj l).map (fun v => (v.rev, v.revno)) = l.map fun v => (v.rev, v.revno)
  | _, [] => rfl
  | adj, v :: l => by
    unfold adjustDepths
    simp only []
    split <;> simp [adjustDepths_ids _ l]

/-- **every graph view — with or without depth rebasing, any range, any stop rule — lists a sub-sequence of
the merge-sorted list with the merge-sorted revnos** (nothing invented, duplicated, reordered or renumbered;
rebasing touches depths only) -/
theorem graph_view_sublist_any (b : Branch) (start stop : Option Nat) (rebase excl : Bool) (ms : List MS)
    (l : List V) (hms : b.mergeSorted = .ok ms) (h : graphView b start stop rebase excl = .ok l) :
    List.Sublist (l.map fun v => (v.rev, v.revno)) (ms.map fun e => (e.rev, e.revno)) := by
  unfold graphView at h
  split at h
  · cases h
  · cases hit : b.iterMergeSorted (stop.map RevId.rev) (start.map RevId.rev)
        (if excl then .withMergesNoCommon else .withMerges) false with
    | error e =>
      rw [hit] at h
      cases e <;> simp [liftE] at h
    | ok a =>
      rw [hit] at h
      simp only [liftE, Except.ok.injEq] at h
      have hsub := iter_sublist b _ _ _ false ms a hms hit
      simp only [Bool.false_eq_true, if_false] at hsub
      have hids : l.map (fun v => (v.rev, v.revno)) = a.map fun e => (e.rev, e.revno) := by
        subst h
        cases rebase
        · simp only [Bool.false_eq_true, if_false, List.map_map]; rfl
        · simp only [if_true, adjustDepths_ids, List.map_map]; rfl
      rw [hids]
      exact hsub.map _

/-- every graph view is a sub-sequence of the merge-sorted list -/
theorem graph_view_sublist (b : Branch) (start stop : Option Nat) (excl : Bool) (ms : List MS) (l : List V)
    (hms : b.mergeSorted = .ok ms) (h : graphView b start stop false excl = .ok l) :
    List.Sublist l (ms.map ofMS) := by
  unfold graphView at h
  split at h
  · cases h
  · cases hit : b.iterMergeSorted (stop.map RevId.rev) (start.map RevId.rev)
        (if excl then .withMergesNoCommon else .withMerges) false with
    | error e =>
      rw [hit] at h
      cases e <;> simp [liftE] at h
    | ok a =>
      rw [hit] at h
      simp only [liftE, Bool.false_eq_true, if_false, Except.ok.injEq] at h
      subst h
      have := iter_sublist b _ _ _ false ms a hms hit
      simp only [Bool.false_eq_true, if_false] at this
      exact this.map _

/-! ## per-file filter -/

theorem mem_stack1 (stack : List (Option V)) (v : V) : some v ∈ pushStack stack v := by
  unfold pushStack
  split <;> simp

theorem stack1_subset (stack : List (Option V)) (v x : V) (h : some x ∈ pushStack stack v) :
    some x ∈ stack ∨ x = v := by
  unfold pushStack at h
  split at h
  · rcases List.mem_append.mp h with h | h
    · exact Or.inl h
    · right; simpa using h
  · rcases List.mem_append.mp h with h | h
    · exact Or.inl (List.mem_of_mem_take (List.dropLast_subset _ h))
    · right; simpa using h

/-- **Stack discipline.**  After a revision of depth `d` (not deeper than the
stack, as in every merge-sorted view) the stack has exactly `d + 1` slots: the
slots below `d` — the nearest enclosing merges — are untouched, slot `d` is the
revision itself, and everything deeper (merges that have ended) is gone. -/
theorem pushStack_discipline (stack : List (Option V)) (v : V) (h : v.depth ≤ stack.length) :
    (pushStack stack v).length = v.depth + 1 ∧
    (pushStack stack v).take v.depth = stack.take v.depth ∧
    (pushStack stack v)[v.depth]? = some (some v) := by
  unfold pushStack
  by_cases hd : (v.depth == stack.length) = true
  · have hd' : v.depth = stack.length := by simpa using hd
    simp only [hd, if_true]
    refine ⟨by simp [hd'], ?_, ?_⟩
    · rw [hd', List.take_length]; simp
    · rw [hd']; simp
  · have hd' : v.depth < stack.length := by
      have : v.depth ≠ stack.length := by simpa using hd
      omega
    simp only [hd, Bool.false_eq_true, if_false]
    have hlen : ((stack.take (v.depth + 1)).dropLast).length = v.depth := by
      simp [List.length_dropLast, List.length_take]; omega
    have hdl : (stack.take (v.depth + 1)).dropLast = stack.take v.depth := by
      rw [List.dropLast_eq_take, List.length_take, List.take_take]
      congr 1; omega
    refine ⟨by simp [hlen], ?_, ?_⟩
    · rw [hdl, List.take_append_of_le_length (by simp [List.length_take]; omega), List.take_take]
      congr 1; omega
    · rw [List.getElem?_append_right (by omega), hlen]; simp

/-- marking entries as listed keeps the stack's length -/
theorem touch_mark_length (inc : Bool) (s : List (Option V)) :
    (s.map fun n => match n with
      | some x => if inc || x.depth == 0 then none else some x
      | none => none).length = s.length := by simp

/-- **With merges included, every revision of the view that modified the file is listed.** -/
theorem touching_contains_modified (modified : List Nat) : ∀ (l : List V) (stack : List (Option V)) (v : V),
    v ∈ l → modified.contains v.rev = true → v ∈ touchLoop modified true stack l
  | [], _, _, h, _ => by cases h
  | x :: l, stack, v, h, hm => by
    unfold touchLoop
    simp only
    rcases List.mem_cons.mp h with rfl | h
    · simp only [hm, if_true]
      apply List.mem_append_left
      rw [List.mem_filterMap]
      exact ⟨some v, mem_stack1 stack v, by simp⟩
    · split
      · exact List.mem_append_right _ (touching_contains_modified modified l _ v h hm)
      · exact touching_contains_modified modified l _ v h hm

/-- **Nothing is invented**: whatever is listed comes from the view (or was on the initial stack). -/
theorem touching_subset (modified : List Nat) (inc : Bool) : ∀ (l : List V) (stack : List (Option V)) (x : V),
    x ∈ touchLoop modified inc stack l → x ∈ l ∨ some x ∈ stack
  | [], _, _, h => by simp [touchLoop] at h
  | v :: l, stack, x, h => by
    unfold touchLoop at h
    simp only at h
    split at h
    · rcases List.mem_append.mp h with h | h
      · rw [List.mem_filterMap] at h
        obtain ⟨n, hn, hx⟩ := h
        cases n with
        | none => simp at hx
        | some y =>
          have hy : y = x := by
            simp only at hx
            split at hx <;> simp_all
          subst hy
          rcases stack1_subset stack v y hn with h1 | h1
          · exact Or.inr h1
          · exact Or.inl (h1 ▸ List.mem_cons_self ..)
      · rcases touching_subset modified inc l _ x h with h1 | h1
        · exact Or.inl (List.mem_cons_of_mem _ h1)
        · rw [List.mem_map] at h1
          obtain ⟨n, hn, hx⟩ := h1
          cases n with
          | none => simp at hx
          | some y =>
            have hy : y = x := by
              simp only at hx
              split at hx <;> simp_all
            subst hy
            rcases stack1_subset stack v y hn with h2 | h2
            · exact Or.inr h2
            · exact Or.inl (h2 ▸ List.mem_cons_self ..)
    · rcases touching_subset modified inc l _ x h with h1 | h1
      · exact Or.inl (List.mem_cons_of_mem _ h1)
      · rcases stack1_subset stack v x h1 with h2 | h2
        · exact Or.inr h2
        · exact Or.inl (h2 ▸ List.mem_cons_self ..)

theorem touching_members (modified : List Nat) (inc : Bool) (l : List V) (x : V)
    (h : x ∈ touching modified inc l) : x ∈ l := by
  rcases touching_subset modified inc l [none] x h with h | h
  · exact h
  · simp at h

/-! ## reverse_by_depth is an involution on forests -/

/-- **`reverse_by_depth` is an involution on well-nested lists** (forests in pre-order: every list that starts
at depth 0 and whose depths go up by at most one per step, in particular every merge-sorted view of a whole
branch): applied to its own result it gives the list back.  Together with `rbd_perm` and
`rbd_depth0_reversed` (at every level: `rbd_core`) this pins the grouping: a revision keeps the revisions it
encloses right behind it. -/
theorem rbd_involution (l : List V) (hwn : wellNested l = true) (hrev : ∀ v ∈ l, v.revno ≠ []) :
    ∃ r, reverseByDepth l = some r ∧ reverseByDepth r = some l ∧ r.Perm l := by
  obtain ⟨r, h1, h2, hp⟩ := rbd_invol_core (rbdFuel l) 0 l (fun _ _ => Nat.zero_le _) (need_zero_lt_fuel l) hwn
  have hkeep : ∀ x : List V, (∀ v ∈ x, v.revno ≠ []) → x.filter (fun v => !v.revno.isEmpty) = x := by
    intro x hx
    rw [List.filter_eq_self]
    intro v hv
    have := hx v hv
    cases hr : v.revno with
    | nil => exact absurd hr this
    | cons _ _ => rfl
  have hrrev : ∀ v ∈ r, v.revno ≠ [] := fun v hv => hrev v (hp.mem_iff.mp hv)
  refine ⟨r, ?_, ?_, hp⟩
  · simp only [reverseByDepth, h1, Option.map_some, hkeep r hrrev]
  · simp only [reverseByDepth, rbdFuel_perm hp, h2, Option.map_some, hkeep l hrev]

example : wellNested [⟨5, [3], 0⟩, ⟨4, [1, 1, 2], 1⟩, ⟨3, [1, 2, 1], 2⟩, ⟨2, [1, 1, 1], 1⟩, ⟨1, [2], 0⟩, ⟨0, [1], 0⟩] = true := by
  decide
-- the hypothesis matters: a sub-range that starts inside a merge is not a forest, and not a fixed point of rbd ∘ rbd
example : wellNested [⟨3, [1, 2, 1], 2⟩, ⟨2, [1, 1, 1], 1⟩, ⟨1, [2], 0⟩] = false ∧
    (reverseByDepth [⟨3, [1, 2, 1], 2⟩, ⟨2, [1, 1, 1], 1⟩, ⟨1, [2], 0⟩]).bind reverseByDepth
      ≠ some [⟨3, [1, 2, 1], 2⟩, ⟨2, [1, 1, 1], 1⟩, ⟨1, [2], 0⟩] := by decide

/-- **Every merge-sorted view of a whole branch is a forest in pre-order.** -/
theorem mergeSort_wellNested (g : Graph) (tip : Nat) (ms : List MS) (hw : wf g = true) (ht : tip < g.length)
    (h : mergeSort g tip = some ms) : wellNested (ms.map ofMS) = true := by
  have hs := mergeSort_stepwise_core g ((wf_iff g).mp hw) tip ht ms h
  obtain ⟨e, rest, hcons, _, hdepth⟩ := mergeSort_tip_first g tip ms hw ht h
  apply wellNested_of_stepwise _ 0 _ (fun _ _ => Nat.zero_le _) (need_zero_lt_fuel _)
  rw [hcons] at hs ⊢
  simp only [List.map_cons, stepwise, Bool.and_eq_true, decide_eq_true_eq] at hs ⊢
  exact ⟨by simp [ofMS, hdepth], hs.2⟩

/-- **Forward and reverse logs of a whole branch are each other's reverse-by-depth**: the forward log is
`_rebase_merge_depth` of the reverse-by-depth `r` of the reverse log, and the reverse-by-depth of `r` is the
reverse log again. -/
theorem forward_reverse_involution (b : Branch) (t : Nat) (hw : wf b.g = true) (htip : b.tip = some t)
    (ht : t < b.g.length) :
    ∃ rev r, logRequest b none none false 0 0 false = .ok rev ∧ reverseByDepth rev = some r ∧
      logRequest b none none true 0 0 false = .ok (rebaseMergeDepth r) ∧ reverseByDepth r = some rev := by
  obtain ⟨ms, hms, hrev, _⟩ := view_complete_once b t hw htip ht
  obtain ⟨rev', r', hrev', hr', hfwd⟩ := forward_is_rbd_of_reverse b t hw htip ht
  rw [hrev] at hrev'
  cases hrev'
  have hne : ∀ v ∈ ms.map ofMS, v.revno ≠ [] := by
    intro v hv
    obtain ⟨e, he, rfl⟩ := List.mem_map.mp hv
    exact mergeSort_revno_ne_nil b.g t ms hms e he
  obtain ⟨r, h1, h2, _⟩ := rbd_involution (ms.map ofMS) (mergeSort_wellNested b.g t ms hw ht hms) hne
  rw [hr'] at h1
  cases h1
  exact ⟨_, _, hrev, hr', hfwd, h2⟩

/-! ## the per-file filter computes its specification -/

/-- **Every merge-sorted list is stepwise**: the tip is at depth 0 and from one revision to the next (older)
one the merge depth goes up by at most one (it may drop by any amount). -/
theorem mergeSort_stepwise (g : Graph) (tip : Nat) (ms : List MS) (hw : wf g = true) (ht : tip < g.length)
    (h : mergeSort g tip = some ms) : stepwise 1 (ms.map ofMS) = true :=
  mergeSort_stepwise_core g ((wf_iff g).mp hw) tip ht ms h

/-- **The merge stack computes the specification.**  On every view whose depths go up by at most one per step,
for both values of `include_merges`, `_filter_revisions_touching_path` lists exactly the revisions that
modified the file or enclose (merge) a revision that did — in view order, each once per occurrence. -/
theorem touching_eq_spec (modified : List Nat) (inc : Bool) (l : List V) (h : stepwise 1 l = true) :
    touching modified inc l = enclosingExpected modified inc l := by
  have := touchLoop_spec modified inc l [none] h
  rw [touching, this]
  simp [emitP]

-- non-vacuity: a view that drops two levels in one step (the shape the seeded change S1 broke)
example : stepwise 1 [⟨4, [3], 0⟩, ⟨3, [1, 1, 2], 1⟩, ⟨2, [1, 2, 1], 2⟩, ⟨1, [2], 0⟩, ⟨0, [1], 0⟩] = true := by decide
example : touching [2] false [⟨4, [3], 0⟩, ⟨3, [1, 1, 2], 1⟩, ⟨2, [1, 2, 1], 2⟩, ⟨1, [2], 0⟩, ⟨0, [1], 0⟩]
    = [⟨4, [3], 0⟩] := by decide
-- the hypothesis matters: when the depth jumps by two the stack algorithm loses the enclosing revision
example : stepwise 1 [⟨2, [3], 0⟩, ⟨1, [1, 2, 1], 2⟩] = false ∧
    touching [1] true [⟨2, [3], 0⟩, ⟨1, [1, 2, 1], 2⟩] ≠ enclosingExpected [1] true [⟨2, [3], 0⟩, ⟨1, [1, 2, 1], 2⟩] := by
  decide

/-- **Per-file log of a whole branch**: the filter applied to the complete view of a branch (the only way
`_log_revision_iterator_using_per_file_graph` calls it without a range) is the specification. -/
theorem touching_full_view (b : Branch) (t : Nat) (hw : wf b.g = true) (htip : b.tip = some t)
    (ht : t < b.g.length) (modified : List Nat) (inc : Bool) :
    ∃ view, logRequest b none none false 0 0 false = .ok view ∧
      touching modified inc view = enclosingExpected modified inc view := by
  obtain ⟨ms, hms, hlog, _⟩ := view_complete_once b t hw htip ht
  exact ⟨_, hlog, touching_eq_spec modified inc _ (mergeSort_stepwise b.g t ms hw ht hms)⟩

theorem enclosingExpected_sublist (modified : List Nat) (inc : Bool) : ∀ l : List V,
    List.Sublist (enclosingExpected modified inc l) l
  | [] => List.Sublist.slnil
  | v :: l => by
    unfold enclosingExpected
    split
    · exact (enclosingExpected_sublist modified inc l).cons_cons v
    · exact (enclosingExpected_sublist modified inc l).cons v

/-- a revision of the view that modified the file is in the specification (with merges: any; without: depth 0) -/
theorem enclosingExpected_contains (modified : List Nat) (inc : Bool) : ∀ (l : List V) (v : V), v ∈ l →
    modified.contains v.rev = true → (inc || v.depth == 0) = true → v ∈ enclosingExpected modified inc l
  | [], _, h, _, _ => by cases h
  | x :: l, v, h, hm, hp => by
    unfold enclosingExpected
    rcases List.mem_cons.mp h with rfl | h
    · rw [hm, hp]; simp
    · have := enclosingExpected_contains modified inc l v h hm hp
      split
      · exact List.mem_cons_of_mem _ this
      · exact this

/-- whatever the specification lists modified the file or is followed, at greater depth throughout, by a
revision that did; and it passes the merge test -/
theorem enclosingExpected_reason (modified : List Nat) (inc : Bool) : ∀ (l : List V) (x : V),
    x ∈ enclosingExpected modified inc l →
      ∃ pre post, l = pre ++ x :: post ∧
        (modified.contains x.rev || groupHasMod modified x.depth post) = true ∧ (inc || x.depth == 0) = true
  | [], _, h => by simp [enclosingExpected] at h
  | v :: l, x, h => by
    unfold enclosingExpected at h
    split at h
    · rename_i hc
      rcases List.mem_cons.mp h with rfl | h
      · simp only [Bool.and_eq_true] at hc
        exact ⟨[], l, rfl, hc.1, hc.2⟩
      · obtain ⟨pre, post, hl, h1, h2⟩ := enclosingExpected_reason modified inc l x h
        exact ⟨v :: pre, post, by rw [hl]; rfl, h1, h2⟩
    · obtain ⟨pre, post, hl, h1, h2⟩ := enclosingExpected_reason modified inc l x h
      exact ⟨v :: pre, post, by rw [hl]; rfl, h1, h2⟩

/-- **Mainline revisions that modified the file are listed** — with and without merges (levels=1 uses
`include_merges = False`). -/
theorem touching_lists_modified (modified : List Nat) (inc : Bool) (l : List V) (h : stepwise 1 l = true) (v : V)
    (hv : v ∈ l) (hm : modified.contains v.rev = true) (hp : (inc || v.depth == 0) = true) :
    v ∈ touching modified inc l := by
  rw [touching_eq_spec modified inc l h]
  exact enclosingExpected_contains modified inc l v hv hm hp

/-- **Nothing else is listed**: a listed revision modified the file or encloses a revision that did. -/
theorem touching_listed_reason (modified : List Nat) (inc : Bool) (l : List V) (h : stepwise 1 l = true) (x : V)
    (hx : x ∈ touching modified inc l) :
    ∃ pre post, l = pre ++ x :: post ∧
      (modified.contains x.rev || groupHasMod modified x.depth post) = true ∧ (inc || x.depth == 0) = true := by
  rw [touching_eq_spec modified inc l h] at hx
  exact enclosingExpected_reason modified inc l x hx

/-- the listing keeps the order of the view -/
theorem touching_sublist (modified : List Nat) (inc : Bool) (l : List V) (h : stepwise 1 l = true) :
    List.Sublist (touching modified inc l) l := by
  rw [touching_eq_spec modified inc l h]
  exact enclosingExpected_sublist modified inc l

example : touching [2] true [⟨3, [3], 0⟩, ⟨2, [1, 1, 1], 1⟩, ⟨1, [2], 0⟩, ⟨0, [1], 0⟩]
    = [⟨3, [3], 0⟩, ⟨2, [1, 1, 1], 1⟩] := by decide

end BreezyVerif.C25
