import BreezyVerif.Lemmas.C29LP
/-! ProtocolThreeDecoder framing: segmentation independence and round trip -/
namespace BreezyVerif.C29

theorem unbe32_append {u : Bytes} (y : Bytes) (h : 4 ≤ u.length) : unbe32 (u ++ y) = unbe32 u := by
  match u, h with
  | a :: b :: c :: d :: r, _ => rfl

theorem extractLP_append_inr {u p r : Bytes} (y : Bytes) (h : extractLP u = .inr (p, r)) :
    extractLP (u ++ y) = .inr (p, r ++ y) := by
  unfold extractLP at h ⊢
  by_cases h4 : u.length < 4
  · simp [h4] at h
  · have h4' : ¬ (u ++ y).length < 4 := by simp; omega
    simp only [h4, h4', if_false] at h ⊢
    rw [unbe32_append y (by omega)]
    by_cases hn : u.length < 4 + unbe32 u
    · simp [hn] at h
    · have hn' : ¬ (u ++ y).length < 4 + unbe32 u := by simp; omega
      simp only [hn, hn', if_false] at h ⊢
      simp only [Sum.inr.injEq, Prod.mk.injEq] at h ⊢
      obtain ⟨rfl, rfl⟩ := h
      constructor
      · rw [List.drop_append_of_le_length (by omega), List.take_append_of_le_length (by simp; omega)]
      · rw [List.drop_append_of_le_length (by omega)]

theorem extractLP_inl_lt {u : Bytes} {n : Nat} (h : extractLP u = .inl n) : u.length < n := by
  unfold extractLP at h
  by_cases h4 : u.length < 4
  · simp [h4] at h; omega
  · simp only [h4, if_false] at h
    by_cases hn : u.length < 4 + unbe32 u
    · simp [hn] at h; omega
    · simp [hn] at h

namespace V3

theorem feed_run (tag : V3Tag) (buf : Bytes) (evs : List Ev) (n : Nat) (x : Bytes) :
    feed (.run tag buf evs n) x = proc tag (buf ++ x) evs := rfl
theorem feed_done (evs : List Ev) (u x : Bytes) : feed (.done evs u) x = .done evs (u ++ x) := rfl
theorem feed_failed (evs : List Ev) (e : V3Err) (x : Bytes) :
    feed (.failed evs e) x = .failed evs e := rfl

theorem proc_version (buf : Bytes) (evs : List Ev) :
    proc .version buf evs =
      if buf.length < marker3.length then
        if buf.isPrefixOf marker3 then .run .version buf evs marker3.length
        else .failed evs .badVersion
      else if marker3.isPrefixOf buf then proc .headers (buf.drop marker3.length) evs
      else .failed evs .badVersion := by
  rw [proc]

theorem proc_part_nil (evs : List Ev) : proc .part [] evs = .run .part [] evs 1 := by
  rw [proc]

theorem proc_part_cons (k : UInt8) (r : Bytes) (evs : List Ev) :
    proc .part (k :: r) evs =
      if k = 111 then proc .oneByte r evs
      else if k = 115 then proc .struct r evs
      else if k = 98 then proc .bytes r evs
      else if k = 101 then .done (evs ++ [.end_]) r
      else .failed evs .badKind := by
  rw [proc]

theorem proc_oneByte_nil (evs : List Ev) : proc .oneByte [] evs = .run .oneByte [] evs 1 := by
  rw [proc]

theorem proc_oneByte_cons (b : UInt8) (r : Bytes) (evs : List Ev) :
    proc .oneByte (b :: r) evs = proc .part r (evs ++ [.byte b]) := by
  rw [proc]

/-- the three length-prefixed states share their shape -/
def lpEv : V3Tag → Bytes → Ev
  | .headers, p => .headers p
  | .struct, p => .struct p
  | _, p => .bytes p

def isLP : V3Tag → Bool
  | .headers | .bytes | .struct => true
  | _ => false

theorem proc_lp_inl {tag : V3Tag} (ht : isLP tag = true) {buf : Bytes} {n : Nat} (evs : List Ev)
    (h : extractLP buf = .inl n) : proc tag buf evs = .run tag buf evs n := by
  cases tag <;> simp [isLP] at ht <;>
  · rw [proc]
    split
    · rename_i m h2; rw [h] at h2; cases h2; rfl
    · rename_i p r h2; rw [h] at h2; cases h2

theorem proc_lp_inr {tag : V3Tag} (ht : isLP tag = true) {buf p r : Bytes} (evs : List Ev)
    (h : extractLP buf = .inr (p, r)) : proc tag buf evs = proc .part r (evs ++ [lpEv tag p]) := by
  cases tag <;> simp [isLP] at ht <;>
  · rw [proc]
    split
    · rename_i m h2; rw [h] at h2; cases h2
    · rename_i p' r' h2; rw [h] at h2; cases h2; rfl

theorem feed_proc (tag : V3Tag) (u : Bytes) (evs : List Ev) (y : Bytes) :
    feed (proc tag u evs) y = proc tag (u ++ y) evs := by
  induction hn : u.length using Nat.strongRecOn generalizing tag u evs with
  | _ n ih =>
    subst hn
    by_cases hlp : isLP tag = true
    · cases h : extractLP u with
      | inl m => rw [proc_lp_inl hlp evs h, feed_run]
      | inr pr =>
        obtain ⟨p, r⟩ := pr
        rw [proc_lp_inr hlp evs h, proc_lp_inr hlp evs (extractLP_append_inr y h)]
        exact ih _ (extractLP_length h) _ _ _ rfl
    · cases tag with
      | headers => simp [isLP] at hlp
      | bytes => simp [isLP] at hlp
      | struct => simp [isLP] at hlp
      | part =>
        cases u with
        | nil => rw [proc_part_nil, feed_run]
        | cons k r =>
          simp only [List.cons_append, proc_part_cons]
          have ihr : ∀ t e, feed (proc t r e) y = proc t (r ++ y) e :=
            fun t e => ih _ (by simp) t r e rfl
          by_cases h1 : k = 111
          · simp only [h1, if_true, ihr]
          · by_cases h2 : k = 115
            · subst h2; simp only [show (115 : UInt8) ≠ 111 by decide, if_true, if_false, ihr]
            · by_cases h3 : k = 98
              · subst h3
                simp only [show (98 : UInt8) ≠ 111 by decide, show (98 : UInt8) ≠ 115 by decide,
                  if_true, if_false, ihr]
              · by_cases h4 : k = 101
                · subst h4
                  simp only [show (101 : UInt8) ≠ 111 by decide, show (101 : UInt8) ≠ 115 by decide,
                    show (101 : UInt8) ≠ 98 by decide, if_true, if_false, feed_done]
                · simp only [h1, h2, h3, h4, if_false, feed_failed]
      | oneByte =>
        cases u with
        | nil => rw [proc_oneByte_nil, feed_run]
        | cons b r =>
          simp only [List.cons_append, proc_oneByte_cons]
          exact ih _ (by simp) _ r _ rfl
      | version =>
        rw [proc_version, proc_version]
        by_cases hl : u.length < marker3.length
        · simp only [hl, if_true]
          by_cases hp : u.isPrefixOf marker3 = true
          · simp only [hp, if_true, feed_run, proc_version]
          · simp only [hp, Bool.false_eq_true, if_false, feed_failed]
            by_cases hl2 : (u ++ y).length < marker3.length
            · simp only [hl2, if_true]
              have : ¬ (u ++ y).isPrefixOf marker3 = true := by
                intro hc
                apply hp
                rw [List.isPrefixOf_iff_prefix] at hc ⊢
                exact (List.prefix_append u y).trans hc
              simp only [this, Bool.false_eq_true, if_false]
            · simp only [hl2, if_false]
              have : ¬ marker3.isPrefixOf (u ++ y) = true := by
                intro hc
                apply hp
                rw [List.isPrefixOf_iff_prefix] at hc ⊢
                exact List.prefix_of_prefix_length_le (List.prefix_append u y) hc (by omega)
              simp only [this, Bool.false_eq_true, if_false]
        · have hl2 : ¬ (u ++ y).length < marker3.length := by simp; omega
          simp only [hl, hl2, if_false]
          by_cases hp : marker3.isPrefixOf u = true
          · have hp2 := isPrefixOf_append_right y hp
            simp only [hp, hp2, if_true]
            rw [List.drop_append_of_le_length (by omega)]
            exact ih _ (by simp [marker3] at hl ⊢; omega) _ _ _ rfl
          · have : ¬ marker3.isPrefixOf (u ++ y) = true :=
              fun hc => hp (isPrefixOf_of_append hc (by omega))
            simp only [hp, this, Bool.false_eq_true, if_false, feed_failed]

/-- one `accept_bytes(a ++ b)` ≡ `accept_bytes(a); accept_bytes(b)` — equality of the whole state -/
theorem feed_append (s : V3) (a b : Bytes) : feed (feed s a) b = feed s (a ++ b) := by
  cases s with
  | run tag buf evs n => rw [feed_run, feed_proc, feed_run, List.append_assoc]
  | done evs u => rw [feed_done, feed_done, feed_done, List.append_assoc]
  | failed evs e => rfl

/-! ### round trip -/

theorem extractLP_encode (p tail : Bytes) (h : p.length < 4294967296) :
    extractLP (be32 p.length ++ (p ++ tail)) = .inr (p, tail) := by
  unfold extractLP
  have h4 : ¬ (be32 p.length ++ (p ++ tail)).length < 4 := by simp [be32_length]
  simp only [h4, if_false, unbe32_be32_append h]
  have hn : ¬ (be32 p.length ++ (p ++ tail)).length < 4 + p.length := by
    simp [be32_length]
  simp only [hn, if_false]
  have e1 : (be32 p.length ++ (p ++ tail)).drop 4 = p ++ tail :=
    List.drop_left' (be32_length _)
  have e2 : (be32 p.length ++ (p ++ tail)).drop (4 + p.length) = tail := by
    rw [← List.drop_drop, e1]; exact List.drop_left' rfl
  rw [e1, e2]
  simp

def partsOk (parts : List Part) : Bool := parts.all (fun p => p.size < 4294967296)

theorem proc_parts (parts : List Part) (tail : Bytes) (evs : List Ev)
    (h : partsOk parts = true) :
    proc .part (encodeParts parts ++ tail) evs = proc .part tail (evs ++ parts.map Part.ev) := by
  induction parts generalizing evs with
  | nil => simp [encodeParts]
  | cons p ps ih =>
    simp only [partsOk, List.all_cons, Bool.and_eq_true, decide_eq_true_eq] at h
    have ihp := fun e => ih e (by simpa [partsOk] using h.2)
    cases p with
    | byte b =>
      simp only [encodeParts, Part.encode, List.cons_append, List.nil_append, proc_part_cons,
        if_true, proc_oneByte_cons]
      rw [ihp]; simp [Part.ev]
    | bytes b =>
      simp only [encodeParts, Part.encode, List.cons_append, List.append_assoc, proc_part_cons]
      simp only [show (98 : UInt8) ≠ 111 by decide, show (98 : UInt8) ≠ 115 by decide, if_false,
        if_true]
      rw [proc_lp_inr (tag := .bytes) rfl _ (extractLP_encode b _ h.1), ihp]
      simp [Part.ev, lpEv]
    | struct raw =>
      simp only [encodeParts, Part.encode, List.cons_append, List.append_assoc, proc_part_cons]
      simp only [show (115 : UInt8) ≠ 111 by decide, if_false, if_true]
      rw [proc_lp_inr (tag := .struct) rfl _ (extractLP_encode raw _ h.1), ihp]
      simp [Part.ev, lpEv]

theorem proc_headers_encode (headers : Bytes) (parts : List Part) (rest : Bytes) (evs : List Ev)
    (hh : headers.length < 4294967296) (hp : partsOk parts = true) :
    proc .headers (v3EncodeBody headers parts ++ rest) evs
      = .done (evs ++ .headers headers :: (parts.map Part.ev ++ [.end_])) rest := by
  have hw : v3EncodeBody headers parts ++ rest
      = be32 headers.length ++ (headers ++ (encodeParts parts ++ (101 :: rest))) := by
    simp [v3EncodeBody]
  rw [hw, proc_lp_inr (tag := .headers) rfl _ (extractLP_encode headers _ hh),
    proc_parts _ _ _ hp, proc_part_cons]
  simp only [show (101 : UInt8) ≠ 111 by decide, show (101 : UInt8) ≠ 115 by decide,
    show (101 : UInt8) ≠ 98 by decide, if_false, if_true]
  simp [lpEv]

theorem proc_version_encode (headers : Bytes) (parts : List Part) (rest : Bytes)
    (hh : headers.length < 4294967296) (hp : partsOk parts = true) :
    proc .version (v3Encode headers parts ++ rest) []
      = .done (.headers headers :: (parts.map Part.ev ++ [.end_])) rest := by
  rw [proc_version]
  have hl : ¬ (v3Encode headers parts ++ rest).length < marker3.length := by
    simp [v3Encode]
  have hpre : marker3.isPrefixOf (v3Encode headers parts ++ rest) = true := by
    rw [List.isPrefixOf_iff_prefix]
    simp only [v3Encode, List.append_assoc]
    exact List.prefix_append _ _
  simp only [hl, hpre, if_false, if_true]
  have hd : (v3Encode headers parts ++ rest).drop marker3.length
      = v3EncodeBody headers parts ++ rest := by
    simp only [v3Encode, List.append_assoc]
    exact List.drop_left' rfl
  rw [hd, proc_headers_encode _ _ _ _ hh hp]
  simp

end V3
end BreezyVerif.C29
