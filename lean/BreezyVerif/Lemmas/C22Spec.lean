import BreezyVerif.Lemmas.C22Main
/-!
C22 — lemmas about the specifier functions `matchOn` / `inHist` / `asRevId`:
the revno an `Info` carries is the revno of its revision.
-/
namespace BreezyVerif.C22

/-- the revno an `Info` carries (when it carries one) is the number of its revision -/
def Coh (b : Branch) (i : Info) : Prop := ∀ n, i.revno = some n → b.getRevId n = .ok i.revId

theorem infoOfId_coh (b : Branch) (id : RevId) : Coh b (b.infoOfId id) := by
  intro n hn
  simp only [Branch.infoOfId, Branch.lazyRevno] at hn
  split at hn
  · rename_i k hk
    cases hn
    cases id with
    | null =>
      simp only [Branch.revisionIdToRevno] at hk
      cases hk
      rfl
    | rev r => exact getRevId_of_revno b n r hk
    | other nm => simp [Branch.revisionIdToRevno] at hk
  · cases hn

theorem history_head_tip (b : Branch) (h : b.lastRevno ≠ 0) : ∃ t, b.tip = some t ∧ b.history[0]? = some t := by
  unfold Branch.lastRevno at h
  cases ht : b.tip with
  | none => simp [Branch.history, ht] at h
  | some t =>
    refine ⟨t, rfl, ?_⟩
    have hne : b.history ≠ [] := by
      intro hc; rw [hc] at h; exact h rfl
    cases hh : b.history with
    | nil => exact absurd hh hne
    | cons x rest =>
      have : x = t := by
        have h0 : b.history[0]? = some x := by rw [hh]; rfl
        unfold Branch.history at h0
        rw [ht] at h0
        exact lefthand_head b.g _ t x h0
      rw [this]; rfl

theorem getRevId_last (b : Branch) (h : b.lastRevno ≠ 0) : b.getRevId b.lastRevno = .ok b.lastRevision := by
  obtain ⟨t, ht, h0⟩ := history_head_tip b h
  have := getRevId_pos b b.lastRevno (by omega) (Nat.le_refl _) t (by simpa using h0)
  rw [this]
  simp [Branch.lastRevision, ht]

theorem revnoLookup_coh (b : Branch) (r : List Char) (n : Int) (id : RevId)
    (h : b.revnoLookup r = .ok (some n, id)) : b.getRevId n = .ok id := by
  unfold Branch.revnoLookup at h
  dsimp only at h
  split at h
  · split at h <;> cases h
  · split at h
    · cases h
    · split at h
      · split at h
        · rename_i id' hg
          cases h
          exact hg
        · cases h
        · cases h
      · split at h
        · cases h
        · split at h <;> cases h

theorem lastLookup_coh (b : Branch) (r : List Char) (n : Int) (id : RevId)
    (h : b.lastLookup r = .ok (n, id)) : b.getRevId n = .ok id := by
  unfold Branch.lastLookup at h
  split at h
  · split at h
    · cases h
    · rename_i hL
      cases h
      exact getRevId_last b (by simpa using hL)
  · split at h
    · cases h
    · split at h
      · cases h
      · dsimp only at h
        split at h
        · rename_i id' hg
          cases h
          exact hg
        · cases h


/-- an `Info` without a revno is one whose revision is not on the mainline -/
def CohNone (b : Branch) (i : Info) : Prop := i.revno = none → b.lazyRevno i.revId = none

theorem infoOfId_cohNone (b : Branch) (id : RevId) : CohNone b (b.infoOfId id) := by
  intro h; exact h

theorem check_ok (b : Branch) (i j : Info) (h : b.check i = .ok j) : j = i := by
  unfold Branch.check at h
  split at h
  · cases h; rfl
  · cases h

/-- **every `Info` the specifier functions return is coherent** -/
theorem matchOn_inHist_coh (b : Branch) : ∀ (f : Nat) (s : List Char) (i : Info),
    (matchOn b f s = .ok i → Coh b i) ∧ (inHist b f s = .ok i → Coh b i) := by
  intro f
  induction f with
  | zero =>
    intro s i
    constructor <;> intro h
    · simp [matchOn] at h
    · simp [inHist] at h
  | succ f ih =>
    intro s i
    constructor
    · intro h
      unfold matchOn at h
      split at h
      · -- revno
        simp only [bind, Except.bind, pure, Except.pure] at h
        split at h
        · cases h
        · rename_i v hv
          obtain ⟨revno, id⟩ := v
          cases revno with
          | none => simp only at h; cases h; exact infoOfId_coh b id
          | some n =>
            simp only at h
            cases h
            intro m hm
            cases hm
            exact revnoLookup_coh b _ n id hv
      · -- revid
        simp only [pure, Except.pure] at h
        cases h
        exact infoOfId_coh b _
      · -- last
        simp only [bind, Except.bind, pure, Except.pure] at h
        split at h
        · cases h
        · rename_i v hv
          obtain ⟨revno, id⟩ := v
          simp only at h
          cases h
          intro m hm
          cases hm
          exact lastLookup_coh b _ revno id hv
      · -- tag
        simp only [bind, Except.bind, pure, Except.pure] at h
        split at h
        · cases h
        · cases h; exact infoOfId_coh b _
      · -- ancestor
        simp only [bind, Except.bind, pure, Except.pure] at h
        split at h
        · cases h
        · cases h; exact infoOfId_coh b _
      · -- mainline
        simp only [bind, Except.bind, pure, Except.pure] at h
        split at h
        · cases h
        · cases h; exact infoOfId_coh b _
      · -- before
        simp only [bind, Except.bind, pure, Except.pure] at h
        split at h
        · cases h
        · rename_i inner hin
          split at h
          · cases h
          · split at h
            · split at h
              · split at h
                · cases h
                · cases h; exact infoOfId_coh b _
                · cases h; exact infoOfId_coh b _
              · cases h
              · split at h <;> cases h
            · rename_i n hn
              split at h
              · rename_i id hg
                cases h
                intro m hm
                cases hm
                exact hg
              · cases h
      · cases h
      · -- dwim
        dsimp only at h
        split at h
        · rename_i r hr
          split at hr
          · split at hr
            · cases hr
            · rename_i hne
              cases hr
              exact (ih _ i).2 h
          · cases hr
        · split at h
          · split at h
            · split at h
              · cases h
              · split at h <;> cases h
            · exact (ih _ i).2 h
          · exact (ih _ i).2 h
    · intro h
      unfold inHist at h
      split at h
      · exact (ih s i).1 h
      · simp only [bind, Except.bind] at h
        split at h
        · cases h
        · rename_i i2 hi2
          have := check_ok b i2 i h
          subst this
          exact (ih s _).1 hi2

/-- … and an `Info` without a revno names a revision off the mainline -/
theorem matchOn_inHist_cohNone (b : Branch) : ∀ (f : Nat) (s : List Char) (i : Info),
    (matchOn b f s = .ok i → CohNone b i) ∧ (inHist b f s = .ok i → CohNone b i) := by
  intro f
  induction f with
  | zero =>
    intro s i
    constructor <;> intro h
    · simp [matchOn] at h
    · simp [inHist] at h
  | succ f ih =>
    intro s i
    constructor
    · intro h
      unfold matchOn at h
      split at h
      · -- revno
        simp only [bind, Except.bind, pure, Except.pure] at h
        split at h
        · cases h
        · rename_i v hv
          obtain ⟨revno, id⟩ := v
          cases revno with
          | none => simp only at h; cases h; exact infoOfId_cohNone b id
          | some n =>
            simp only at h
            cases h
            intro hm
            cases hm
      · -- revid
        simp only [pure, Except.pure] at h
        cases h
        exact infoOfId_cohNone b _
      · -- last
        simp only [bind, Except.bind, pure, Except.pure] at h
        split at h
        · cases h
        · rename_i v hv
          obtain ⟨revno, id⟩ := v
          simp only at h
          cases h
          intro hm
          cases hm
      · -- tag
        simp only [bind, Except.bind, pure, Except.pure] at h
        split at h
        · cases h
        · cases h; exact infoOfId_cohNone b _
      · -- ancestor
        simp only [bind, Except.bind, pure, Except.pure] at h
        split at h
        · cases h
        · cases h; exact infoOfId_cohNone b _
      · -- mainline
        simp only [bind, Except.bind, pure, Except.pure] at h
        split at h
        · cases h
        · cases h; exact infoOfId_cohNone b _
      · -- before
        simp only [bind, Except.bind, pure, Except.pure] at h
        split at h
        · cases h
        · rename_i inner hin
          split at h
          · cases h
          · split at h
            · split at h
              · split at h
                · cases h
                · cases h; exact infoOfId_cohNone b _
                · cases h; exact infoOfId_cohNone b _
              · cases h
              · split at h <;> cases h
            · rename_i n hn
              split at h
              · rename_i id hg
                cases h
                intro hm
                cases hm
              · cases h
      · cases h
      · -- dwim
        dsimp only at h
        split at h
        · rename_i r hr
          split at hr
          · split at hr
            · cases hr
            · rename_i hne
              cases hr
              exact (ih _ i).2 h
          · cases hr
        · split at h
          · split at h
            · split at h
              · cases h
              · split at h <;> cases h
            · exact (ih _ i).2 h
          · exact (ih _ i).2 h
    · intro h
      unfold inHist at h
      split at h
      · exact (ih s i).1 h
      · simp only [bind, Except.bind] at h
        split at h
        · cases h
        · rename_i i2 hi2
          have := check_ok b i2 i h
          subst this
          exact (ih s _).1 hi2


/-! ### one-step unfoldings of the mutual specifier functions, per kind of specifier -/

def nonRec : Kind → Bool
  | .revno | .revid | .last | .tag | .ancestor | .unsupportedPrefix => true
  | _ => false

/-- the body of `before:` in `_match_on`, given the inner result -/
def beforeStep (b : Branch) (inner : Info) : Except Err Info :=
  if inner.revno == some 0 then .error .invalidRevisionSpec
  else match inner.revno with
    | none =>
      match inner.revId with
      | .rev n =>
        match b.g[n]? with
        | none => .error .noSuchRevision
        | some [] => pure (b.infoOfId .null)
        | some (p :: _) => pure (b.infoOfId (.rev p))
      | .null => .error .internal
      | .other nm => if nm.isEmpty then .error .unsupported else .error .noSuchRevision
    | some n =>
      match b.getRevId (n - 1) with
      | .ok id => pure ⟨some (n - 1), id⟩
      | .error _ => .error .invalidRevisionSpec

/-- the body of `before:` in `as_revision_id` -/
def beforeId (b : Branch) (base : RevId) : Except Err RevId :=
  match base with
  | .null => .error .invalidRevisionSpec
  | .other _ => .error .invalidRevisionSpec
  | .rev n =>
    match b.g[n]? with
    | none => .error .invalidRevisionSpec
    | some [] => pure .null
    | some (p :: _) => pure (.rev p)

def mainlineId (b : Branch) (id : RevId) : Except Err RevId :=
  match findLefthandMerger b id with
  | some m => pure m
  | none => .error .invalidRevisionSpec

def dwimCombine (s : List Char) (A T V : Except Err Info) : Except Err Info :=
  let tryRevno : Option (Except Err Info) :=
    if revnoRegex s then
      match A with
      | .error .invalidRevisionSpec => none
      | r => some r
    else none
  match tryRevno with
  | some r => r
  | none =>
    match T with
    | .error .noSuchTag =>
      (match V with
        | .error .invalidRevisionSpec =>
          if looksLikeDate s || ["yesterday", "today", "tomorrow"].contains (String.ofList (lower s))
          then .error .unsupported
          else if s.contains ':' then .error .unsupported
          else .error .invalidRevisionSpec
        | r => r)
    | r => r

theorem matchOn_nonrec (b : Branch) (f : Nat) (s r : List Char) (k : Kind) (hcl : classify s = (k, r))
    (hk : nonRec k = true) : matchOn b (f + 1) s = matchOn b 1 s := by
  rw [matchOn, matchOn]
  cases k <;> simp only [hcl] <;> simp [nonRec] at hk

theorem asRevId_nonrec (b : Branch) (f : Nat) (s r : List Char) (k : Kind) (hcl : classify s = (k, r))
    (hk : nonRec k = true) : asRevId b (f + 1) s = asRevId b 1 s := by
  rw [asRevId, asRevId]
  cases k <;> simp only [hcl] <;> simp [nonRec] at hk

theorem matchOn_mainline (b : Branch) (f : Nat) (s r : List Char) (hcl : classify s = (.mainline, r)) :
    matchOn b (f + 1) s = (asRevId b f s).bind fun id => pure (b.infoOfId id) := by
  rw [matchOn]; simp only [hcl]; rfl

theorem matchOn_before (b : Branch) (f : Nat) (s r : List Char) (hcl : classify s = (.before, r)) :
    matchOn b (f + 1) s = (matchOn b f r).bind (beforeStep b) := by
  rw [matchOn]; simp only [hcl]; rfl

theorem matchOn_dwim (b : Branch) (f : Nat) (s r : List Char) (hcl : classify s = (.dwim, r)) :
    matchOn b (f + 1) s = dwimCombine s (inHist b f (pRevno ++ s)) (inHist b f (pTag ++ s)) (inHist b f (pRevid ++ s)) := by
  rw [matchOn]; simp only [hcl]; rfl

theorem inHist_dwim (b : Branch) (f : Nat) (s r : List Char) (hcl : classify s = (.dwim, r)) :
    inHist b (f + 1) s = matchOn b f s := by
  rw [inHist]; simp only [hcl]

theorem inHist_nondwim (b : Branch) (f : Nat) (s r : List Char) (k : Kind) (hcl : classify s = (k, r))
    (hk : k ≠ .dwim) : inHist b (f + 1) s = (matchOn b f s).bind b.check := by
  rw [inHist]
  cases k <;> simp only [hcl] <;> first | rfl | exact absurd rfl hk

theorem asRevId_before (b : Branch) (f : Nat) (s r : List Char) (hcl : classify s = (.before, r)) :
    asRevId b (f + 1) s = (asRevId b f r).bind (beforeId b) := by
  rw [asRevId]; simp only [hcl]; rfl

theorem asRevId_mainline (b : Branch) (f : Nat) (s r : List Char) (hcl : classify s = (.mainline, r)) :
    asRevId b (f + 1) s = if specGetBranch r then .error .unsupported else (asRevId b f r).bind (mainlineId b) := by
  rw [asRevId]; simp only [hcl]; rfl

theorem asRevId_dwim (b : Branch) (f : Nat) (s r : List Char) (hcl : classify s = (.dwim, r)) :
    asRevId b (f + 1) s = (inHist b f s).bind fun i => pure i.revId := by
  rw [asRevId]; simp only [hcl]; rfl

/-! ### what `classify` strips -/

theorem classify_pRevno (r : List Char) : classify (pRevno ++ r) = (.revno, r) := by
  simp [classify, prefixes, stripPrefix?, pRevno]

theorem classify_pTag (r : List Char) : classify (pTag ++ r) = (.tag, r) := by
  simp [classify, prefixes, stripPrefix?, pRevno, pRevid, pLast, pBefore, pTag, List.findSome?]

theorem classify_pRevid (r : List Char) : classify (pRevid ++ r) = (.revid, r) := by
  simp [classify, prefixes, stripPrefix?, pRevno, pRevid, List.findSome?]

theorem findSome_prefix (s : List Char) : ∀ (l : List (List Char × Kind)) (k : Kind) (r : List Char),
    (∀ e ∈ l, 4 ≤ e.1.length ∧ e.2 ≠ .dwim) →
    l.findSome? (fun (p, k) => (stripPrefix? p s).map fun r => (k, r)) = some (k, r) →
    k ≠ .dwim ∧ r.length + 4 ≤ s.length
  | [], _, _, _, h => by simp at h
  | (p, k') :: l, k, r, hall, h => by
    rw [List.findSome?_cons] at h
    split at h
    · rename_i v hv
      cases h
      simp only [stripPrefix?] at hv
      split at hv
      · rename_i hp
        simp only [Option.map_some, Option.some.injEq, Prod.mk.injEq] at hv
        obtain ⟨rfl, rfl⟩ := hv
        have := hall (p, k') (List.mem_cons_self ..)
        have h4 : 4 ≤ p.length := this.1
        refine ⟨this.2, ?_⟩
        have hle : p.length ≤ s.length := (List.IsPrefix.length_le (List.isPrefixOf_iff_prefix.mp hp))
        simp only [List.length_drop]
        omega
      · simp at hv
    · exact findSome_prefix s l k r (fun e he => hall e (List.mem_cons_of_mem _ he)) h

theorem classify_shorter (s : List Char) (k : Kind) (r : List Char) (h : classify s = (k, r)) :
    (k = .dwim ∧ r = s) ∨ (k ≠ .dwim ∧ r.length + 4 ≤ s.length) := by
  unfold classify at h
  split at h
  · rename_i v hv
    subst h
    right
    exact findSome_prefix s prefixes k r (by decide) hv
  · cases h; left; exact ⟨rfl, rfl⟩

/-! ### the fuel is adequate -/

theorem inHist_nonrec_stable (b : Branch) (t r : List Char) (k : Kind) (hcl : classify t = (k, r))
    (hk : nonRec k = true) (f : Nat) : inHist b (f + 2) t = inHist b 2 t := by
  have hnd : k ≠ .dwim := by intro h; subst h; simp [nonRec] at hk
  rw [inHist_nondwim b (f + 1) t r k hcl hnd, inHist_nondwim b 1 t r k hcl hnd,
    matchOn_nonrec b f t r k hcl hk, matchOn_nonrec b 0 t r k hcl hk]

theorem matchOn_dwim_stable (b : Branch) (s r : List Char) (hcl : classify s = (.dwim, r)) (f : Nat) :
    matchOn b (f + 3) s = matchOn b 3 s := by
  rw [matchOn_dwim b (f + 2) s r hcl, matchOn_dwim b 2 s r hcl,
    inHist_nonrec_stable b _ _ _ (classify_pRevno s) rfl f,
    inHist_nonrec_stable b _ _ _ (classify_pTag s) rfl f,
    inHist_nonrec_stable b _ _ _ (classify_pRevid s) rfl f]

theorem inHist_dwim_stable (b : Branch) (s r : List Char) (hcl : classify s = (.dwim, r)) (f : Nat) :
    inHist b (f + 4) s = inHist b 4 s := by
  rw [inHist_dwim b (f + 3) s r hcl, inHist_dwim b 3 s r hcl, matchOn_dwim_stable b s r hcl f]

theorem asRevId_dwim_stable (b : Branch) (s r : List Char) (hcl : classify s = (.dwim, r)) (f : Nat) :
    asRevId b (f + 5) s = asRevId b 5 s := by
  rw [asRevId_dwim b (f + 4) s r hcl, asRevId_dwim b 4 s r hcl, inHist_dwim_stable b s r hcl f]

/-- **the fuel is adequate**: from `length + 5 / 6 / 7` on, one more unit of fuel changes nothing -/
theorem stable_all (b : Branch) : ∀ (n : Nat) (s : List Char), s.length ≤ n →
    (∀ f, s.length + 5 ≤ f → asRevId b (f + 1) s = asRevId b f s) ∧
    (∀ f, s.length + 6 ≤ f → matchOn b (f + 1) s = matchOn b f s) ∧
    (∀ f, s.length + 7 ≤ f → inHist b (f + 1) s = inHist b f s) := by
  intro n
  induction n with
  | zero =>
    intro s hs
    -- the empty string is a dwim specifier
    have hs0 : s = [] := List.eq_nil_of_length_eq_zero (by omega)
    subst hs0
    have hcl : classify ([] : List Char) = (.dwim, []) := by decide
    refine ⟨?_, ?_, ?_⟩
    · intro f hf
      obtain ⟨k, rfl⟩ : ∃ k, f = k + 5 := ⟨f - 5, by omega⟩
      rw [asRevId_dwim_stable b _ _ hcl (k + 1), asRevId_dwim_stable b _ _ hcl k]
    · intro f hf
      obtain ⟨k, rfl⟩ : ∃ k, f = k + 3 := ⟨f - 3, by omega⟩
      rw [matchOn_dwim_stable b _ _ hcl (k + 1), matchOn_dwim_stable b _ _ hcl k]
    · intro f hf
      obtain ⟨k, rfl⟩ : ∃ k, f = k + 4 := ⟨f - 4, by omega⟩
      rw [inHist_dwim_stable b _ _ hcl (k + 1), inHist_dwim_stable b _ _ hcl k]
  | succ n ih =>
    intro s hs
    cases hcl : classify s with
    | mk k r =>
    rcases classify_shorter s k r hcl with ⟨hk, hr⟩ | ⟨hk, hr⟩
    · subst hk
      refine ⟨?_, ?_, ?_⟩
      · intro f hf
        obtain ⟨k, rfl⟩ : ∃ k, f = k + 5 := ⟨f - 5, by omega⟩
        rw [asRevId_dwim_stable b _ _ hcl (k + 1), asRevId_dwim_stable b _ _ hcl k]
      · intro f hf
        obtain ⟨k, rfl⟩ : ∃ k, f = k + 3 := ⟨f - 3, by omega⟩
        rw [matchOn_dwim_stable b _ _ hcl (k + 1), matchOn_dwim_stable b _ _ hcl k]
      · intro f hf
        obtain ⟨k, rfl⟩ : ∃ k, f = k + 4 := ⟨f - 4, by omega⟩
        rw [inHist_dwim_stable b _ _ hcl (k + 1), inHist_dwim_stable b _ _ hcl k]
    · have hrn : r.length ≤ n := by omega
      obtain ⟨ihA, ihM, _⟩ := ih r hrn
      -- as_revision_id first
      have hA : ∀ f, s.length + 5 ≤ f → asRevId b (f + 1) s = asRevId b f s := by
        intro f hf
        obtain ⟨f', rfl⟩ : ∃ k, f = k + 1 := ⟨f - 1, by omega⟩
        by_cases hnr : nonRec k = true
        · rw [asRevId_nonrec b (f' + 1) s r k hcl hnr, asRevId_nonrec b f' s r k hcl hnr]
        · cases k <;> simp [nonRec] at hnr
          · rw [asRevId_before b (f' + 1) s r hcl, asRevId_before b f' s r hcl, ihA f' (by omega)]
          · rw [asRevId_mainline b (f' + 1) s r hcl, asRevId_mainline b f' s r hcl, ihA f' (by omega)]
          · exact absurd rfl hk
      have hM : ∀ f, s.length + 6 ≤ f → matchOn b (f + 1) s = matchOn b f s := by
        intro f hf
        obtain ⟨f', rfl⟩ : ∃ k, f = k + 1 := ⟨f - 1, by omega⟩
        by_cases hnr : nonRec k = true
        · rw [matchOn_nonrec b (f' + 1) s r k hcl hnr, matchOn_nonrec b f' s r k hcl hnr]
        · cases k <;> simp [nonRec] at hnr
          · rw [matchOn_before b (f' + 1) s r hcl, matchOn_before b f' s r hcl, ihM f' (by omega)]
          · rw [matchOn_mainline b (f' + 1) s r hcl, matchOn_mainline b f' s r hcl, hA f' (by omega)]
          · exact absurd rfl hk
      refine ⟨hA, hM, ?_⟩
      intro f hf
      obtain ⟨f', rfl⟩ : ∃ k, f = k + 1 := ⟨f - 1, by omega⟩
      rw [inHist_nondwim b (f' + 1) s r k hcl hk, inHist_nondwim b f' s r k hcl hk, hM f' (by omega)]

/-! ### `before:`: the two entry points meet -/

theorem lefthand_mem_lt (g : Graph) : ∀ (fuel r x : Nat), x ∈ lefthand g fuel r → x < g.length := by
  intro fuel
  induction fuel with
  | zero => intro r x h; simp [lefthand] at h
  | succ fuel ih =>
    intro r x h
    rw [lefthand_succ] at h
    split at h
    · cases h
    · rename_i ps hps
      rcases List.mem_cons.mp h with rfl | h
      · rcases List.getElem?_eq_some_iff.mp hps with ⟨hlt, _⟩; exact hlt
      · split at h
        · exact ih _ x h
        · cases h

theorem history_mem_lt (b : Branch) (x : Nat) (h : x ∈ b.history) : x < b.g.length := by
  unfold Branch.history at h
  split at h
  · cases h
  · exact lefthand_mem_lt _ _ _ _ h

/-- `get_rev_id(n - 1)` is the left-hand parent of `get_rev_id(n)` (n ≥ 2) -/
theorem getRevId_pred (b : Branch) (n : Nat) (r : Nat) (h1 : 2 ≤ n) (h : b.getRevId n = .ok (.rev r)) :
    ∃ p, lpOf b.g r = some p ∧ b.getRevId ((n : Int) - 1) = .ok (.rev p) := by
  obtain ⟨n', hn', h1', h2', hget⟩ := getRevId_rev_inv b n r h
  have hnn : n' = n := by omega
  subst hnn
  have hL : b.lastRevno = b.history.length := rfl
  have hlt : b.lastRevno - n' + 1 < b.history.length := by omega
  refine ⟨b.history[b.lastRevno - n' + 1], history_next b _ r _ hget (List.getElem?_eq_getElem hlt), ?_⟩
  have : ((n' : Int) - 1) = ((n' - 1 : Nat) : Int) := by omega
  rw [this]
  apply getRevId_pos b (n' - 1) (by omega) (by omega)
  have : b.lastRevno - (n' - 1) = b.lastRevno - n' + 1 := by omega
  rw [this]
  exact List.getElem?_eq_getElem hlt

/-- the first revision of the mainline has no left-hand parent at all (clean mainline) -/
theorem getRevId_one_root (b : Branch) (hw : WF b.g) (htip : ∀ t, b.tip = some t → t < b.g.length)
    (hclean : ChainClean b.g b.history) (r : Nat) (h : b.getRevId 1 = .ok (.rev r)) : b.g[r]? = some [] := by
  obtain ⟨n', hn', h1', h2', hget⟩ := getRevId_rev_inv b 1 r h
  have hn1 : n' = 1 := by omega
  subst hn1
  have hL : b.lastRevno = b.history.length := rfl
  have hlast : b.history.getLast? = some r := by
    rw [List.getLast?_eq_getElem?]
    rw [← hL]; exact hget
  have hmem : r ∈ b.history := List.mem_of_getElem? hget
  have hlp : lpOf b.g r = none := by
    unfold Branch.history at hlast
    split at hlast
    · simp at hlast
    · rename_i t ht
      exact lefthand_last_root hw (t + 1) t r (by omega) (htip t ht) hlast
  have hps := hclean r hmem hlp
  have hlt := history_mem_lt b r hmem
  unfold parentsD at hps
  rw [List.getElem?_eq_getElem hlt] at hps ⊢
  simp only at hps
  rw [hps]

/-- **the step of `before:`**: the mainline shortcut of `in_history` (revno − 1)
and the graph walk of `as_revision_id` (left-hand parent) give the same revision -/
theorem before_agree (b : Branch) (hw : WF b.g) (htip : ∀ t, b.tip = some t → t < b.g.length)
    (hclean : ChainClean b.g b.history) (inner j : Info) (hcoh : Coh b inner)
    (h : beforeStep b inner = .ok j) : beforeId b inner.revId = .ok j.revId := by
  unfold beforeStep at h
  split at h
  · cases h
  · rename_i h0
    split at h
    · -- no revno: both walk the graph
      unfold beforeId
      split at h
      · rename_i n hid
        rw [hid]
        simp only
        split at h
        · cases h
        · cases h; rfl
        · cases h; rfl
      · cases h
      · split at h <;> cases h
    · rename_i n hn
      have hget := hcoh n hn
      split at h
      · rename_i id hpred
        cases h
        simp only
        have hn0 : n ≠ 0 := by
          intro hc; subst hc; rw [hn] at h0; simp at h0
        -- n is a mainline number
        have hpos : 1 ≤ n ∧ n ≤ (b.lastRevno : Int) := by
          unfold Branch.getRevId at hget
          split at hget
          · omega
          · split at hget
            · cases hget
            · omega
        obtain ⟨m, rfl⟩ : ∃ m : Nat, n = (m : Int) := ⟨n.toNat, by omega⟩
        obtain ⟨r, hr⟩ : ∃ r, inner.revId = .rev r := by
          obtain ⟨r, _, hr⟩ := getRevId_nth b m (by omega) (by omega)
          rw [hr] at hget
          exact ⟨r, (Except.ok.inj hget).symm⟩
        rw [hr] at hget ⊢
        unfold beforeId
        simp only
        by_cases hm2 : 2 ≤ m
        · obtain ⟨p, hlp, hp⟩ := getRevId_pred b m r hm2 hget
          rw [hp] at hpred
          cases hpred
          unfold lpOf at hlp
          split at hlp
          · rename_i ps hps
            rw [hps]
            unfold leftParent at hlp
            cases ps with
            | nil => cases hlp
            | cons q t =>
              simp only at hlp
              split at hlp
              · cases hlp; rfl
              · cases hlp
          · cases hlp
        · have hm1 : m = 1 := by omega
          subst hm1
          have hroot := getRevId_one_root b hw htip hclean r hget
          rw [hroot]
          have : b.getRevId ((1 : Nat) - 1 : Int) = .ok .null := rfl
          rw [this] at hpred
          cases hpred
          rfl
      · cases h

/-! ### the two entry points agree -/

theorem except_bind_ok {ε α β : Type} {x : Except ε α} {f : α → Except ε β} {v : β}
    (h : x.bind f = .ok v) : ∃ a, x = .ok a ∧ f a = .ok v := by
  cases x with
  | error e => cases h
  | ok a => exact ⟨a, rfl, h⟩

/-- the non-recursive kinds: both entry points read the same lookup -/
theorem nonrec_agree (b : Branch) (s r : List Char) (k : Kind) (hcl : classify s = (k, r)) (hk : nonRec k = true)
    (i : Info) (h : matchOn b 1 s = .ok i) : asRevId b 1 s = .ok i.revId := by
  rw [matchOn] at h
  rw [asRevId]
  cases k <;> simp [nonRec] at hk <;> simp only [hcl] at h ⊢
  · -- revno
    simp only [bind, Except.bind, pure, Except.pure] at h ⊢
    split at h
    · cases h
    · rename_i v hv
      obtain ⟨revno, id⟩ := v
      cases revno <;> (simp only at h ⊢; cases h; rfl)
  · -- revid
    simp only [pure, Except.pure] at h ⊢
    cases h; rfl
  · -- last
    simp only [bind, Except.bind, pure, Except.pure] at h ⊢
    split at h
    · cases h
    · rename_i v hv
      obtain ⟨revno, id⟩ := v
      simp only at h ⊢; cases h; rfl
  · -- tag
    simp only [bind, Except.bind, pure, Except.pure] at h
    split at h
    · cases h
    · rename_i v hv
      cases h; exact hv
  · -- ancestor
    simp only [bind, Except.bind, pure, Except.pure] at h
    split at h
    · cases h
    · rename_i v hv
      cases h; exact hv
  · cases h

/-- **`in_history` and `as_revision_id` name the same revision** — every specifier string, fuel from `length + 7` on -/
theorem agree_all (b : Branch) (hw : WF b.g) (htip : ∀ t, b.tip = some t → t < b.g.length)
    (hclean : ChainClean b.g b.history) : ∀ (n : Nat) (s : List Char), s.length ≤ n → ∀ (f : Nat), s.length + 7 ≤ f →
    ∀ i, (matchOn b f s = .ok i → asRevId b f s = .ok i.revId) ∧ (inHist b f s = .ok i → asRevId b f s = .ok i.revId) := by
  intro n
  induction n using Nat.strongRecOn with
  | _ n ih =>
    intro s hs f hf i
    obtain ⟨f', rfl⟩ : ∃ k, f = k + 1 := ⟨f - 1, by omega⟩
    obtain ⟨stA, stM, stH⟩ := stable_all b s.length s (Nat.le_refl _)
    cases hcl : classify s with
    | mk k r =>
    have hMpart : ∀ i, matchOn b (f' + 1) s = .ok i → asRevId b (f' + 1) s = .ok i.revId := by
      intro i h
      rcases classify_shorter s k r hcl with ⟨hk, hr⟩ | ⟨hk, hr⟩
      · -- dwim: as_revision_id goes through in_history
        subst hk
        obtain ⟨f2, rfl⟩ : ∃ k, f' = k + 4 := ⟨f' - 4, by omega⟩
        rw [asRevId_dwim b _ s r hcl]
        have e1 : inHist b (f2 + 4) s = matchOn b (f2 + 3) s := inHist_dwim b _ s r hcl
        have e2 : matchOn b (f2 + 4 + 1) s = matchOn b (f2 + 3) s := by
          rw [show f2 + 4 + 1 = (f2 + 2) + 3 from rfl, matchOn_dwim_stable b s r hcl (f2 + 2),
            matchOn_dwim_stable b s r hcl f2]
        rw [e1, ← e2, h]
        rfl
      · by_cases hnr : nonRec k = true
        · rw [matchOn_nonrec b f' s r k hcl hnr] at h
          rw [asRevId_nonrec b f' s r k hcl hnr]
          exact nonrec_agree b s r k hcl hnr i h
        · cases k <;> simp [nonRec] at hnr
          · -- before
            rw [matchOn_before b f' s r hcl] at h
            obtain ⟨inner, hin, hstep⟩ := except_bind_ok h
            have hrl : r.length < n := by omega
            have hA := ((ih r.length hrl r (Nat.le_refl _) f' (by omega) inner).1 hin)
            rw [asRevId_before b f' s r hcl, hA]
            exact before_agree b hw htip hclean inner i ((matchOn_inHist_coh b f' r inner).1 hin) hstep
          · -- mainline: in_history IS as_revision_id
            rw [matchOn_mainline b f' s r hcl] at h
            obtain ⟨id, hid, hp⟩ := except_bind_ok h
            simp only [pure, Except.pure] at hp
            cases hp
            rw [stA f' (by omega), hid]
            rfl
          · exact absurd rfl hk
    refine ⟨hMpart i, ?_⟩
    intro h
    rcases classify_shorter s k r hcl with ⟨hk, hr⟩ | ⟨hk, hr⟩
    · subst hk
      obtain ⟨f2, rfl⟩ : ∃ k, f' = k + 4 := ⟨f' - 4, by omega⟩
      rw [asRevId_dwim b _ s r hcl]
      have e : inHist b (f2 + 4) s = inHist b (f2 + 4 + 1) s := by
        rw [show f2 + 4 + 1 = (f2 + 1) + 4 from rfl, inHist_dwim_stable b s r hcl (f2 + 1),
          inHist_dwim_stable b s r hcl f2]
      rw [e, h]
      rfl
    · rw [inHist_nondwim b f' s r k hcl hk] at h
      obtain ⟨i', hi', hchk⟩ := except_bind_ok h
      have := check_ok b i' i hchk
      subst this
      rw [← stM f' (by omega)] at hi'
      exact hMpart _ hi'

end BreezyVerif.C22
