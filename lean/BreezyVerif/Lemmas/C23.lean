import BreezyVerif.Model.C23
/-! C23 — helper lemmas: the symmetry between the two heavyweight checkouts,
the shape of a step's effect on the log of tip writes. -/
namespace BreezyVerif.C23

/-! ### the symmetry -/

theorem Entry.swap_swap (e : Entry) : e.swap.swap = e := by
  cases e with
  | mk br rev cause => cases br <;> rfl

theorem map_swap_swap (l : List Entry) : (l.map Entry.swap).map Entry.swap = l := by
  induction l with
  | nil => rfl
  | cons e l ih => simp [Entry.swap_swap, ih]

theorem swap_comp_swap : Entry.swap ∘ Entry.swap = id := funext Entry.swap_swap

theorem swapH_swapH (s : St) : swapH (swapH s) = s := by
  cases s
  simp [swapH, swap_comp_swap]

/-! ### tree parents -/

@[simp, grind =] theorem mkTree_basis (g : Graph) (b : Rev) (ms : List Rev) : (mkTree g b ms).basis = b := rfl

/-- what `set_parent_trees` keeps is duplicate-free and disjoint from what was kept before -/
theorem acceptParents_nodup (g : Graph) (all : List Rev) :
    ∀ (ms acc : List Rev), (acceptParents g all acc ms).Nodup ∧ ∀ x ∈ acceptParents g all acc ms, x ∉ acc := by
  intro ms
  induction ms with
  | nil => intro acc; simp [acceptParents]
  | cons m rest ih =>
    intro acc
    unfold acceptParents
    split
    · exact ih acc
    · rename_i hc
      have hm : m ∉ acc := by
        intro hin
        apply hc
        simp [hin]
      obtain ⟨h1, h2⟩ := ih (m :: acc)
      refine ⟨List.nodup_cons.mpr ⟨fun hin => (h2 m hin) (by simp), h1⟩, ?_⟩
      intro x hx
      rcases List.mem_cons.mp hx with hx | hx
      · rw [hx]; exact hm
      · exact fun hin => (h2 x hx) (by simp [hin])

/-- the pending merges of a tree are duplicate-free and do not repeat the basis -/
def TreeOK (t : Tree) : Prop := t.basis ∉ t.merges ∧ t.merges.Nodup

theorem treeOK_mkTree (g : Graph) (b : Rev) (ms : List Rev) : TreeOK (mkTree g b ms) := by
  obtain ⟨h1, h2⟩ := acceptParents_nodup g (b :: ms) ms [b]
  exact ⟨fun hin => (h2 b hin) (by simp), h1⟩

theorem treeOK_single (r : Rev) : TreeOK ⟨r, []⟩ := ⟨by simp, by simp⟩

theorem treeOK_parents (t : Tree) (h : TreeOK t) : t.parents.Nodup := by
  unfold Tree.parents
  split
  · simp
  · exact List.nodup_cons.mpr ⟨h.1, h.2⟩

theorem treeOK_updateTree (g : Graph) (t : Tree) (target : Rev) (o : Option Rev) (h : TreeOK t) :
    TreeOK (updateTree g t target o) := by
  unfold updateTree
  split
  · exact treeOK_mkTree _ _ _
  · exact h

theorem treeOK_pulledTree (g : Graph) (t : Tree) (old new : Rev) (h : TreeOK t) :
    TreeOK (pulledTree g t old new) := by
  unfold pulledTree
  split
  · exact treeOK_mkTree _ _ _
  · exact h

/-! ### the log -/

/-- not the write of a checkout's own branch by a bound commit -/
def notBC (e : Entry) : Bool := !(e.br != .master && e.cause == .boundCommit)

theorem notBC_swap (e : Entry) : notBC e.swap = notBC e := by
  cases e with
  | mk br rev cause => cases br <;> rfl

/-- what a step may do to the log: push entries that are not bound-commit
writes of a checkout branch, or the (checkout, master) pair of a bound commit -/
def LogShape (s : St) (x : St × Out) : Prop :=
  (∃ es : List Entry, (∀ e ∈ es, notBC e = true) ∧ x.1.log = es ++ s.log) ∨
  (∃ (b : Br) (r : Rev), b ≠ .master ∧ x.1.log = ⟨b, r, .boundCommit⟩ :: ⟨.master, r, .boundCommit⟩ :: s.log)

theorem LogShape.same {s : St} {x : St × Out} (h : x.1.log = s.log) : LogShape s x :=
  Or.inl ⟨[], by simp, by simpa using h⟩

theorem LogShape.one {s : St} {x : St × Out} (e : Entry) (he : notBC e = true) (h : x.1.log = e :: s.log) :
    LogShape s x :=
  Or.inl ⟨[e], by intro e' he'; simp at he'; subst he'; exact he, by simpa using h⟩

theorem commitH_logShape (s : St) (r : Rev) (l : Bool) : LogShape s (commitH s r l) := by
  unfold commitH
  split
  · exact .same rfl
  · split
    · split
      · exact .same rfl
      · split
        · exact .same rfl
        · split
          · exact .same rfl
          · exact Or.inr ⟨.loc, r, by simp, rfl⟩
    · split
      · exact .same rfl
      · exact .one ⟨.loc, r, .commit⟩ (by simp [notBC]) rfl

theorem commitMaster_logShape (s : St) (w : Who) (r : Rev) (l : Bool) : LogShape s (commitMaster s w r l) := by
  by_cases hmb : s.masterBound = true
  · exact .same (by simp [commitMaster, hmb])
  · cases l with
    | true => exact .same (by simp [commitMaster, hmb])
    | false =>
      by_cases hw : (w == Who.M) = true
      · by_cases h2 : (!treeUpToDate s.tM s.master) = true
        · exact .same (by simp [commitMaster, hmb, hw, h2])
        · exact .one ⟨.master, r, .commit⟩ (by simp [notBC]) (by simp [commitMaster, hmb, hw, h2])
      · by_cases h2 : (!treeUpToDate s.tL s.master) = true
        · exact .same (by simp [commitMaster, hmb, hw, h2])
        · exact .one ⟨.master, r, .commit⟩ (by simp [notBC]) (by simp [commitMaster, hmb, hw, h2])

theorem updateH_logShape (s : St) : LogShape s (updateH s) := by
  by_cases hb : s.bound = true
  · by_cases hc : ((if s.master == null then s.loc else s.master) != s.loc) = true
    · exact .one ⟨.loc, (if s.master == null then s.loc else s.master), .update⟩ (by simp [notBC])
        (by simp only [updateH, hb, if_true, hc])
    · exact .same (by simp only [updateH, hb, if_true, hc]; simp)
  · have hb' : s.bound = false := by simpa using hb
    exact .same (by simp [updateH, hb'])

theorem pullH_logShape (s : St) : LogShape s (pullH s) := by
  unfold pullH
  split
  · exact .same rfl
  · split
    · exact .same rfl
    · split
      · exact .same rfl
      · exact .one ⟨.loc, s.master, .pull⟩ (by simp [notBC]) rfl

theorem logIf_shape (c : Bool) (e : Entry) (l : List Entry) (he : notBC e = true) :
    ∃ es : List Entry, (∀ x ∈ es, notBC x = true) ∧ logIf c e l = es ++ l := by
  cases c
  · exact ⟨[], by simp, rfl⟩
  · refine ⟨[e], ?_, rfl⟩
    intro x hx; simp at hx; subst hx; exact he

theorem pullOtherH_logShape (s : St) (stop : Option Rev) (ow l : Bool) : LogShape s (pullOtherH s stop ow l) := by
  unfold pullOtherH
  split
  · exact .same rfl
  · split
    · exact .same rfl
    · simp only
      split
      · exact .same rfl
      · rename_i m' _
        obtain ⟨es1, h1, e1⟩ := logIf_shape (m' != s.master) ⟨.master, m', .pull⟩ s.log (by simp [notBC])
        split
        · left; exact ⟨es1, h1, e1⟩
        · rename_i l' _
          obtain ⟨es2, h2, e2⟩ := logIf_shape (l' != s.loc) ⟨.loc, l', .pull⟩
            (logIf (m' != s.master) ⟨.master, m', .pull⟩ s.log) (by simp [notBC])
          left
          refine ⟨es2 ++ es1, ?_, ?_⟩
          · intro e he
            rcases List.mem_append.mp he with h | h
            · exact h2 e h
            · exact h1 e h
          · show logIf (l' != s.loc) ⟨.loc, l', .pull⟩ (logIf (m' != s.master) ⟨.master, m', .pull⟩ s.log) = _
            rw [e2, e1, List.append_assoc]

theorem pullOtherMaster_logShape (s : St) (w : Who) (stop : Option Rev) (ow l : Bool) :
    LogShape s (pullOtherMaster s w stop ow l) := by
  unfold pullOtherMaster
  split
  · exact .same rfl
  · split
    · exact .same rfl
    · split
      · exact .same rfl
      · rename_i m' _
        obtain ⟨es1, h1, e1⟩ := logIf_shape (m' != s.master) ⟨.master, m', .pull⟩ s.log (by simp [notBC])
        left
        refine ⟨es1, h1, ?_⟩
        simp only
        split <;> exact e1

theorem pushTo_log (s : St) (src : Rev) : (pushTo s src).1.log = s.log := by
  unfold pushTo
  split <;> rfl

theorem updateMasterTree_log (s : St) (w : Who) : (updateMasterTree s w).1.log = s.log := by
  unfold updateMasterTree
  split
  · rfl
  · split <;> rfl

/-- the shape carries over to the second checkout -/
theorem logShape_swap (s : St) (x : St × Out) (h : LogShape (swapH s) x) : LogShape s (swapH x.1, x.2) := by
  rcases h with ⟨es, hes, h2⟩ | ⟨b, r, hb, h2⟩
  · left
    refine ⟨es.map Entry.swap, ?_, ?_⟩
    · intro e he
      obtain ⟨e0, he0, rfl⟩ := List.mem_map.mp he
      rw [notBC_swap]; exact hes e0 he0
    · show (x.1.log.map Entry.swap) = _
      rw [h2]
      simp [swapH, swap_comp_swap]
  · right
    refine ⟨(Entry.swap ⟨b, r, .boundCommit⟩).br, r, ?_, ?_⟩
    · cases b <;> simp [Entry.swap] at hb ⊢
    · show (x.1.log.map Entry.swap) = _
      rw [h2]
      cases b <;> simp [swapH, swap_comp_swap, Entry.swap] at hb ⊢

theorem step_logShape (s : St) (op : Op) : LogShape s (step s op) := by
  induction op generalizing s with
  | commit w r l =>
    cases w with
    | H => exact commitH_logShape s r l
    | M => exact commitMaster_logShape s .M r l
    | L => exact commitMaster_logShape s .L r l
  | update w =>
    cases w with
    | H => exact updateH_logShape s
    | M => exact .same (updateMasterTree_log s .M)
    | L => exact .same (updateMasterTree_log s .L)
  | pull => exact pullH_logShape s
  | bind => exact .same rfl
  | unbind => exact .same rfl
  | commitO r => exact .same rfl
  | syncO => exact .same rfl
  | pullOther w st ow l =>
    cases w with
    | H => exact pullOtherH_logShape s st ow l
    | M => exact pullOtherMaster_logShape s .M st ow l
    | L => exact pullOtherMaster_logShape s .L st ow l
  | push w => cases w <;> exact .same (pushTo_log _ _)
  | bindM => exact .same rfl
  | unbindM => exact .same rfl
  | onH2 op ih => exact logShape_swap s _ (ih (swapH s))

theorem masterFirst_cons_other (e : Entry) (l : List Entry) (he : notBC e = true) :
    masterFirst (e :: l) = masterFirst l := by
  have he' : (e.br != .master && e.cause == .boundCommit) = false := by
    unfold notBC at he
    cases hh : (e.br != .master && e.cause == .boundCommit)
    · rfl
    · rw [hh] at he; cases he
  cases l with
  | nil => simp [masterFirst, he']
  | cons m rest => simp [masterFirst, he']

theorem masterFirst_append_other (es l : List Entry) (h : ∀ e ∈ es, notBC e = true) :
    masterFirst (es ++ l) = masterFirst l := by
  induction es with
  | nil => rfl
  | cons e rest ih =>
    rw [List.cons_append, masterFirst_cons_other _ _ (h e (by simp))]
    exact ih (fun x hx => h x (by simp [hx]))

theorem masterFirst_pair (b : Br) (hb : b ≠ .master) (r : Rev) (l : List Entry) :
    masterFirst (⟨b, r, .boundCommit⟩ :: ⟨.master, r, .boundCommit⟩ :: l) = masterFirst l := by
  cases b <;> simp [masterFirst] at hb ⊢

theorem step_master_first (s : St) (op : Op) (h : masterFirst s.log = true) :
    masterFirst (step s op).1.log = true := by
  rcases step_logShape s op with ⟨es, hes, h2⟩ | ⟨b, r, hb, h2⟩
  · rw [h2, masterFirst_append_other es s.log hes]; exact h
  · rw [h2, masterFirst_pair b hb]; exact h

end BreezyVerif.C23
