#!/usr/bin/env python3
"""Regenerate lean/lakefile.toml: one library (all modules under BreezyVerif/)
and one executable `vd_Cxx` per driver module BreezyVerif/Driver/Cxx.lean."""
import os
import re

HERE = os.path.dirname(os.path.abspath(__file__))
LEAN = os.path.join(os.path.dirname(HERE), "lean")
# a property is "ready" (part of the default build) when tools/manifest.d/Cxx.json exists
ids = sorted(f[:-5] for f in os.listdir(os.path.join(HERE, "manifest.d")) if re.fullmatch(r"C\d+\.json", f))
mods = ["BreezyVerif.Common"]
for i in ids:
    for sub, suf in (("Model", ""), ("Props", ""), ("Props", "T1"), ("Generated", ""), ("Driver", "")):
        if os.path.exists(os.path.join(LEAN, "BreezyVerif", sub, i + suf + ".lean")):
            mods.append("BreezyVerif.%s.%s%s" % (sub, i, suf))
out = ['name = "BreezyVerif"', 'version = "0.1.0"',
       "defaultTargets = [%s]" % ", ".join(['"BreezyVerif"'] + ['"vd_%s"' % i for i in ids]), "",
       "[[lean_lib]]", 'name = "BreezyVerif"', 'roots = ["BreezyVerif"]', 'globs = [%s]' % ", ".join('"%s"' % m for m in mods), "",
       "# every module under BreezyVerif/ is buildable by name through this library (not a default target)",
       "[[lean_lib]]", 'name = "BreezyVerifAll"', 'roots = ["BreezyVerif"]', 'globs = ["BreezyVerif.+"]', ""]
alld = sorted(f[:-5] for f in os.listdir(os.path.join(LEAN, "BreezyVerif", "Driver"))
              if re.fullmatch(r"C\d+\.lean", f))
for i in alld:
    out += ["[[lean_exe]]", 'name = "vd_%s"' % i, 'root = "BreezyVerif.Driver.%s"' % i, ""]
text = "\n".join(out)
p = os.path.join(LEAN, "lakefile.toml")
if not os.path.exists(p) or open(p).read() != text:
    tmp = p + ".tmp%d" % os.getpid()
    open(tmp, "w").write(text)
    os.replace(tmp, p)
print("lakefile.toml: %d drivers" % len(ids))
