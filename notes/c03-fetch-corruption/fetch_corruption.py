"""fetch (2a -> 2a) stores a text that differs from the source text (and from its recorded sha1).
usage: /venv/bin/python fetch_corruption.py [minimise]"""
import sys, os, pickle, hashlib
sys.path.insert(0, "/verif/harness")
from vlib import env
env.boot()

def attempt(triples):
    names = ["f%d" % i for i in range(len(triples))]
    wt = env.make_tree("2a"); root = wt.basedir
    def write(d, idx):
        for n, t in zip(names, triples):
            with open(os.path.join(d, n), "wb") as f: f.write(t[idx])
    write(root, 0); wt.add(names); wt.commit("base")
    odir = env.fresh_dir("other")
    owt = wt.controldir.sprout(odir).open_workingtree()
    write(odir, 2)
    other_rev = owt.commit("other", allow_pointless=True)
    write(root, 1); wt.commit("this", allow_pointless=True)
    wt.branch.fetch(owt.branch, other_rev)
    t2 = wt.branch.repository.revision_tree(other_rev)
    bad = []
    with t2.lock_read():
        for n, tr in zip(names, triples):
            got = t2.get_file_text(n)
            if got != tr[2]:
                bad.append((n, tr[2], got, t2.get_file_sha1(n), hashlib.sha1(got).hexdigest()))
    return bad

triples = pickle.load(open("/var/tmp/c19dev/sc714.pkl", "rb"))["triples"]
if len(sys.argv) > 1:
    i = 0
    while i < len(triples):
        cand = triples[:i] + triples[i+1:]
        if attempt(cand):
            triples = cand
        else:
            i += 1
    print("minimal (base, this, other) per file:")
    for t in triples: print("  ", t)
for b in attempt(triples):
    print("CORRUPT %s: source %r fetched %r recorded-sha1 %s actual-sha1 %s" % b)
