import BreezyVerif.Lemmas.C34
/-!
C34 — importing then exporting a git commit reproduces it.

`exp_imp_id_partial`: for EVERY commit record (any field values, any number of
parents / mergetags / extra headers, any of the modelled encodings, strict or
not) that `import_commit` accepts and that is `Canon`, `export_commit` of the
imported revision is exactly the original record.  `Canon` excludes the three
input families on which the code does not round-trip (each has a `_witness`
theorem and is reproduced on the real code by the check): missing message,
person identifiers that are not a fixed point of `fix_person_identifier`,
extra-header values with an embedded newline (continuation lines) — plus three
well-formedness facts of parsed commits (40-byte parent
shas, non-empty gpgsig if present, only recognised extra headers).
Record level: dulwich's (de)serialisation and SHA-1 are external, so "equal
record" is what the model can say about "identical bytes".
-/
namespace BreezyVerif.C34

/-- the accepted-and-round-trippable domain -/
def Canon (c : Commit) : Bool :=
  c.message.isSome &&
  decide (fixPerson c.committer = some c.committer) &&
  decide (fixPerson c.author = some c.author) &&
  decide (firstAuthor c.author = c.author) &&
  decide (c.gpgsig ≠ some []) &&
  c.parents.all (fun p => p.length = 40) &&
  extraOK c.extra

theorem fixPerson_ne_nil {t : Bytes} (h : fixPerson t = some t) : t ≠ [] := by
  rintro rfl
  exact absurd h (by decide)

/-- **Round trip** (partial: on `Canon` commits, see the `_witness` theorems). -/
theorem exp_imp_id_partial (strict : Bool) (id : Bytes) (c : Commit) (rev : Rev)
    (himp : importCommit strict id c = .ok rev) (hcanon : Canon c = true) :
    exportCommit rev c.tree = .ok c := by
  simp only [Canon, Bool.and_eq_true, decide_eq_true_eq, List.all_eq_true] at hcanon
  obtain ⟨⟨⟨⟨⟨⟨hmsg, hfc⟩, hfa⟩, hfirst⟩, hsig⟩, hpar⟩, hextra⟩ := hcanon
  unfold importCommit at himp
  cases hd : importDecode c with
  | error e => simp [hd] at himp
  | ok p =>
    obtain ⟨⟨cm, au, msg⟩, impl⟩ := p
    simp only [hd] at himp
    cases hx : importExtra strict c.extra with
    | error e => simp [hx] at himp
    | ok q =>
      obtain ⟨ls, un⟩ := q
      simp only [hx] at himp
      obtain ⟨hls, hun⟩ := importExtra_ok strict c.extra ls un hextra hx
      subst hun
      simp only [ne_eq, not_true_eq_false, false_and, if_false, Except.ok.injEq] at himp
      obtain ⟨k, hk, rfl, rfl, rfl⟩ := importDecode_ok hd
      obtain ⟨m, hm⟩ := Option.isSome_iff_exists.mp hmsg
      subst himp
      have hparents := exportParents_map c.parents (fun p hp => by simpa using hpar p hp)
      have hne : c.author ≠ [] := fixPerson_ne_nil hfa
      have hcomm : exportIdent k ⟨k, c.committer⟩ = .ok c.committer := by
        simp [exportIdent, encode, hfc]
      have hauth : ∀ (rev : Rev), rev.committer = ⟨k, c.committer⟩ →
          rev.props.author = (if c.committer ≠ c.author then some ⟨k, c.author⟩ else none) →
          exportAuthor k rev = .ok c.author := by
        intro rev h1 h2
        unfold exportAuthor
        rw [h1, h2]
        by_cases h : c.committer = c.author
        · simp [h, hne, hfirst, exportIdent, encode, hfa]
        · simp [h, hne, hfirst, exportIdent, encode, hfa]
      have hgpg : exportGpgsig (importGpgsig c.gpgsig) = .ok c.gpgsig := by
        cases hg : c.gpgsig with
        | none => rfl
        | some g =>
          have : g ≠ [] := fun e => hsig (by rw [hg, e])
          simp [this, importGpgsig, exportGpgsig, encode, Except.map]
      have hextra' : exportGitExtra (importGitExtra ls) = .ok c.extra := by
        unfold importGitExtra
        by_cases hnil : c.extra = []
        · simp [hls, hnil, exportGitExtra]
        · have : ls ≠ [] := by rw [hls]; simpa using hnil
          simp only [this, ne_eq, not_false_eq_true, if_true, exportGitExtra, encode]
          rw [hls]
          exact extra_roundtrip c.extra hextra
      have hmm : (match (Option.map (fun m => (⟨k, m⟩ : PStr)) c.message) with
          | some m => m
          | none => ⟨k, []⟩) = ⟨k, m⟩ := by rw [hm]; rfl
      unfold exportCommit
      simp only [importProps, hparents, hk, hcomm, hgpg, hextra', hmm, hm, Option.map_some,
        Option.isNone_some, mapM_encode_se, encode, if_true]
      rw [hauth _ rfl rfl]
      simp only [Bool.false_eq_true, if_false, Except.ok.injEq]
      cases c
      simp_all
      constructor <;> split <;> simp_all

/-- the revision id depends on the sha only -/
theorem revid_stable (strict : Bool) (id : Bytes) (c : Commit) (rev : Rev)
    (himp : importCommit strict id c = .ok rev) : rev.revisionId = bs "git-v1:" ++ id := by
  unfold importCommit at himp
  split at himp
  · simp at himp
  · split at himp
    · simp at himp
    · split at himp
      · simp at himp
      · simp only [Except.ok.injEq] at himp
        subst himp
        rfl

theorem revid_independent (s s' : Bool) (id : Bytes) (c c' : Commit) (rev rev' : Rev)
    (h : importCommit s id c = .ok rev) (h' : importCommit s' id c' = .ok rev') :
    rev.revisionId = rev'.revisionId := by
  rw [revid_stable s id c rev h, revid_stable s' id c' rev' h']

/-- strict import refuses a commit with an extra header it does not know -/
theorem imp_rejects_unknown_extra (id : Bytes) (c : Commit) (k v : Bytes)
    (hk : k ≠ bs "HG:rename-source" ∧ k ≠ bs "HG:extra") (hmem : (k, v) ∈ c.extra) :
    ∀ rev, importCommit true id c ≠ .ok rev := by
  intro rev h
  unfold importCommit at h
  split at h
  · simp at h
  · split at h
    · simp at h
    · rename_i ls un hx
      have := importExtra_unknown true k v hk c.extra ls un hmem hx
      simp [this] at h

/-- strict import refuses an `HG:extra` header whose key is not in the known list
(when nothing earlier in the commit is refused first, the error is this one) -/
theorem imp_rejects_unknown_hg_extra (strict : Bool) (rest : List (Bytes × Bytes)) (hgk v : Bytes)
    (hb : beforeColon v = some hgk) (hk : hgk ∉ hgExtraKeys) :
    importExtra true ((bs "HG:extra", v) :: rest) = .error .unknownHgExtra ∧
    (strict = false → ∀ ls un, importExtra false rest = .ok (ls, un) →
      importExtra false ((bs "HG:extra", v) :: rest) = .ok ((bs "HG:extra" ++ [32] ++ v ++ [10]) :: ls, un)) := by
  have hne : bs "HG:extra" ≠ bs "HG:rename-source" := by decide
  constructor
  · unfold importExtra; simp [hne, hb, hk]
  · intro _ ls un hr
    unfold importExtra; simp [hne, hb, hr, bind, Except.bind, pure, Except.pure]

/-! ### the excluded families are real failures (findings) -/

/-- import followed by export -/
def roundTrip (strict : Bool) (id : Bytes) (c : Commit) : Except Err (Except Err Commit) :=
  match importCommit strict id c with
  | .error e => .error e
  | .ok rev => .ok (exportCommit rev c.tree)

def wCommit : Commit :=
  { tree := bs "cc9462f7f8263ef5adfbeff2fb936bb36b504cba", parents := [bs "aaaaaaaaaaaaaaaaaaaaaaaaaaaaaaaaaaaaaaaa"],
    author := bs "A <a@x>", authorTime := 10, authorTz := 3600, authorNegUtc := false,
    committer := bs "C <c@x>", commitTime := 12, commitTz := 0, commitNegUtc := true,
    encoding := some (bs "latin1"), mergetags := [bs "object x\n"],
    extra := [(bs "HG:rename-source", bs "a b"), (bs "HG:extra", bs "source:abc")],
    gpgsig := some (bs "sig"), message := some (bs "msg\n") }

/-- non-vacuity: a commit with an encoding header, distinct author, times, zones,
`-0000`, a mergetag, two extra headers and a signature is `Canon`, accepted, and
round-trips -/
theorem canon_example_ok : Canon wCommit = true ∧
    roundTrip true (bs "1234") wCommit = .ok (.ok wCommit) := by
  decide

/-- finding `missing-message`: accepted by import, export raises (AttributeError) -/
theorem missing_message_witness :
    roundTrip true (bs "1234") { wCommit with message := none } = .ok (.error .attr) := by
  decide

/-- finding `person-ident-noncanonical`: `A<a@x>` comes back as `A <a@x>`, and an
identifier ending in `>` without `<` is accepted by import but export raises -/
theorem person_ident_witness :
    roundTrip true (bs "1234") { wCommit with author := bs "A<a@x>" } =
      .ok (.ok { wCommit with author := bs "A <a@x>" }) ∧
    roundTrip true (bs "1234") { wCommit with author := bs "foo>" } = .ok (.error .value) := by
  decide

/-- finding `git-extra-embedded-newline`: a continuation line in an
`HG:rename-source` value is accepted by import; export raises (ValueError in
`l.split(" ", 1)`) or, when the continuation contains a space, invents a header -/
theorem git_extra_embedded_newline_witness :
    roundTrip true (bs "1234") { wCommit with extra := [(bs "HG:rename-source", [97, 10, 98])] } =
      .ok (.error .value) ∧
    roundTrip true (bs "1234") { wCommit with extra := [(bs "HG:rename-source", [97, 10, 98, 32, 99])] } =
      .ok (.ok { wCommit with extra := [(bs "HG:rename-source", [97]), ([98], [99])] }) := by
  decide

/-- (fixed in b3a449a) the other `str.splitlines()` boundaries — form feed, CR,
U+2028 … — in an extra-header value now round-trip -/
theorem git_extra_formfeed_roundtrips :
    roundTrip true (bs "1234")
        { wCommit with extra := [(bs "HG:rename-source", [97, 12, 98, 13, 0xe2, 0x80, 0xa8])] } =
      .ok (.ok { wCommit with extra := [(bs "HG:rename-source", [97, 12, 98, 13, 0xe2, 0x80, 0xa8])] }) := by
  decide

theorem decodeUsing_latin1_ok (c : Commit) : ∃ d, decodeUsing .latin1 c = .ok d := by
  unfold decodeUsing
  cases c.message <;> simp [decodable]

/-- (fixed in b3a449a) EVERY `Canon` commit with `encoding false` (and no extra
headers) is accepted by import — the utf-8/latin-1 fallback cannot fail — and
round-trips -/
theorem encoding_false_roundtrips (strict : Bool) (id : Bytes) (c : Commit)
    (he : c.encoding = some (bs "false")) (hx : c.extra = []) (hcanon : Canon c = true) :
    ∃ rev, importCommit strict id c = .ok rev ∧ exportCommit rev c.tree = .ok c := by
  have hd : ∃ d, importDecode c = .ok d := by
    unfold importDecode decodeFallback
    rw [he]
    have : isAscii (bs "false") = true := by decide
    simp only [this, Bool.not_true, Bool.false_eq_true, if_false, ne_eq, not_true_eq_false]
    cases h8 : decodeUsing .utf8 c with
    | ok d => exact ⟨_, rfl⟩
    | error e =>
      obtain ⟨d, hl⟩ := decodeUsing_latin1_ok c
      exact ⟨(d, some (bs "latin1")), by simp [hl, Except.map]⟩
  obtain ⟨⟨⟨cm, au, msg⟩, impl⟩, hd⟩ := hd
  have hxx : importExtra strict c.extra = .ok ([], []) := by rw [hx]; rfl
  cases hi : importCommit strict id c with
  | ok rev => exact ⟨rev, rfl, exp_imp_id_partial strict id c rev hi hcanon⟩
  | error e =>
    unfold importCommit at hi
    simp only [hd, hxx] at hi
    simp at hi

/-- non-vacuity of `encoding_false_roundtrips` -/
example : Canon { wCommit with encoding := some (bs "false"), extra := [] } = true := by decide

/-- **Canonical identifiers are fixed points.**  `name <email>` with no `<` in the
name and no `<`/`>` in the email is returned unchanged (the name may contain `>`). -/
theorem fixPerson_canonical (name email : Bytes) (hn : 60 ∉ name) (he : 60 ∉ email)
    (he' : 62 ∉ email) :
    fixPerson (name ++ bs " <" ++ email ++ bs ">") = some (name ++ bs " <" ++ email ++ bs ">") := by
  have hb1 : bs " <" = [32, 60] := by decide
  have hb2 : bs ">" = [62] := by decide
  rw [hb1, hb2]
  generalize ht' : name ++ [32, 60] ++ email ++ [62] = t
  have ht : t = name ++ [32, 60] ++ email ++ [62] := ht'.symm
  have m62 : (62 : UInt8) ∈ t := by simp [ht]
  have m60 : (60 : UInt8) ∈ t := by simp [ht]
  have hg : ridx 62 t = some (t.length - 1) := by
    unfold ridx
    have : t.reverse = 62 :: (name ++ [32, 60] ++ email).reverse := by simp [ht]
    rw [this]; simp [idx]
  obtain ⟨i, hi, hil⟩ := idx_some_of_mem 60 t.reverse (by simpa using m60)
  have hl : ridx 60 t = some (t.length - 1 - i) := by unfold ridx; simp [hi]
  have hsplit : lastTwoOfSplit2 t = some (name ++ [32], email ++ [62]) := by
    unfold lastTwoOfSplit2
    have h1 : t = (name ++ [32]) ++ 60 :: (email ++ [62]) := by simp [ht]
    have hn' : (60 : UInt8) ∉ name ++ [32] := by simp [hn]
    have he2 : (60 : UInt8) ∉ email ++ [62] := by simp [he]
    rw [h1, split1_nosep 60 _ _ hn']
    simp [split1_none 60 _ he2]
  unfold fixPerson
  have c1 : ¬ ((60 : UInt8) ∉ t ∧ (62 : UInt8) ∉ t) := fun h => h.1 m60
  have c2 : ¬ ((62 : UInt8) ∉ t) := fun h => h m62
  rw [if_neg c1, if_neg c2]
  simp only [hg, hl, hsplit]
  have : ¬ (t.length - 1 < t.length - 1 - i) := by omega
  rw [if_neg this]
  have hemail : (email ++ [62]).takeWhile (· ≠ 62) = email := takeWhile_append_sep 62 email [] he'
  simp only [ne_eq, decide_not] at hemail
  simp [hemail, ht, hb1, hb2]

example : fixPerson (bs "A b <a@x>") = some (bs "A b <a@x>") := by decide
example : fixPerson (bs " <>") = some (bs " <>") := by decide

end BreezyVerif.C34
