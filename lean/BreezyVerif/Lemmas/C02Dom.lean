import BreezyVerif.Lemmas.C02Anc
/-
C02: per-file ancestry of a built repository is a strict partial order; a
single per-file head dominates every other candidate.
-/
namespace BreezyVerif.C02

theorem flatMap_congr_mem {l : List Nat} {F G : Nat → List Nat} (h : ∀ a ∈ l, F a = G a) :
    l.flatMap F = l.flatMap G := by
  induction l with
  | nil => rfl
  | cons a l ih =>
    simp only [List.flatMap_cons, h a List.mem_cons_self,
      ih fun b hb => h b (List.mem_cons_of_mem _ hb)]

/-- no key `(f, x)` in the graph: no ancestors -/
theorem fanc_no_key (g : TGraph) (f : FileId) (x : Rev) (h : ∀ k ∈ g, k.1 ≠ (f, x)) :
    fanc g f x = [] := by
  have := fanc_append g [] f x h
  simpa [fanc] using this

/-- the new texts of one commit do not hold `f`: the key `(f, cid)` is looked up further down -/
theorem fanc_new_none (l : List (FileId × List Rev)) (cid : Rev) (g : TGraph) (f : FileId)
    (hn : f ∉ l.map (·.1)) :
    fanc (l.map (fun t => ((t.1, cid), t.2)) ++ g) f cid = fanc g f cid := by
  apply fanc_append
  intro k hk e
  simp only [List.mem_map] at hk
  obtain ⟨t, ht, hte⟩ := hk
  apply hn
  have : t.1 = f := by
    have := congrArg (fun z => z.1.1) hte
    simp only at this
    rw [this, e]
  exact List.mem_map.mpr ⟨t, ht, this⟩

/-- the new texts of one commit hold `(f, ps)`: the ancestors of `(f, cid)` are
`ps` and their ancestors in the older graph -/
theorem fanc_new_prefix (l : List (FileId × List Rev)) (cid : Rev) (g : TGraph) (f : FileId)
    (ps : List Rev) (hn : (l.map (·.1)).Nodup) (hm : (f, ps) ∈ l) (hp : ∀ p ∈ ps, p ≠ cid) :
    fanc (l.map (fun t => ((t.1, cid), t.2)) ++ g) f cid = ps ++ ps.flatMap (fanc g f) := by
  induction l with
  | nil => simp at hm
  | cons t l ih =>
    simp only [List.map_cons, List.nodup_cons] at hn
    simp only [List.map_cons, List.cons_append, fanc]
    by_cases e : t.1 = f
    · have ht : t = (f, ps) := by
        rcases List.mem_cons.mp hm with h | h
        · exact h.symm
        · exact absurd (List.mem_map.mpr ⟨(f, ps), h, e.symm⟩) hn.1
      subst ht
      simp only [if_true]
      congr 1
      apply flatMap_congr_mem
      intro p hp'
      apply fanc_append
      intro k hk e'
      simp only [List.mem_map] at hk
      obtain ⟨u, _, hu⟩ := hk
      have : cid = p := by
        have := congrArg (fun z => z.1.2) hu
        simp only at this
        rw [this, e']
      exact hp p hp' this.symm
    · have : ¬ (t.1, cid) = (f, cid) := fun h => e (congrArg Prod.fst h)
      simp only [this, if_false]
      rcases List.mem_cons.mp hm with h | h
      · exact absurd (by rw [← h]) e
      · exact ih hn.2 h

theorem mkRec_texts_keys_nodup (st : State) (c : Commit) (hnd : (c.tree.map (·.1)).Nodup) :
    ((mkRec st c).texts.map (·.1)).Nodup :=
  hnd.sublist (filterMap_keys_sublist c.tree (fun f a => (recordOne st c f a).2))

/-- **per-file ancestry is transitive** on the repository of any well-formed history -/
theorem fanc_trans_build : ∀ (h : List Commit), hist h → ∀ (f : FileId) (x y z : Rev),
    x ∈ fanc (textsOf (build h)) f z → y ∈ fanc (textsOf (build h)) f x →
      y ∈ fanc (textsOf (build h)) f z
  | [], _, f, x, y, z, hx, _ => by simp [build, textsOf, fanc] at hx
  | c :: older, hh, f, x, y, z, hx, hy => by
    have ih := fanc_trans_build older hh.1 f
    have w := build_WF older hh.1
    obtain ⟨hment, _, hnd⟩ := hh.2
    have hid : c.id ∉ ids (build older) := fun h => hment (id_mem_mentioned h)
    -- keys of older revisions are not affected by the new revision
    have A : ∀ v, v ≠ c.id → fanc (textsOf (build (c :: older))) f v
        = fanc (textsOf (build older)) f v := fun v hv =>
      fanc_textsOf_append [mkRec (build older) c] (build older) f v (by
        simp only [ids, List.map_cons, List.map_nil, List.mem_singleton]
        exact hv)
    -- per-file ancestors in the older repository are not the new id
    have B : ∀ u v, u ∈ fanc (textsOf (build older)) f v → u ≠ c.id := fun u v hu e =>
      hment (e ▸ ranc_mem_mentioned (fanc_sub_ranc_build older hh.1 f v u hu))
    by_cases ez : z = c.id
    · subst ez
      have hg : textsOf (build (c :: older))
          = (mkRec (build older) c).texts.map (fun t => ((t.1, c.id), t.2))
            ++ textsOf (build older) := textsOf_cons _ _
      by_cases hm : f ∈ (mkRec (build older) c).texts.map (·.1)
      · obtain ⟨t, ht, htf⟩ := List.mem_map.mp hm
        have hps := (mkRec_texts_mem w hid ht).1
        have hpne : ∀ p ∈ t.2, p ≠ c.id := by
          intro p hp e
          rw [hps] at hp
          exact hid (e ▸ w.cand_mem (heads_subset hp))
        have ht' : (f, t.2) ∈ (mkRec (build older) c).texts := by rw [← htf]; exact ht
        have hfan := fanc_new_prefix (mkRec (build older) c).texts c.id (textsOf (build older)) f
          t.2 (mkRec_texts_keys_nodup _ c hnd) ht' hpne
        rw [hg, hfan] at hx ⊢
        simp only [List.mem_append, List.mem_flatMap] at hx ⊢
        rcases hx with hx | ⟨p, hp, hx⟩
        · rw [A x (hpne x hx)] at hy
          exact Or.inr ⟨x, hx, hy⟩
        · rw [A x (B x p hx)] at hy
          exact Or.inr ⟨p, hp, ih x y p hx hy⟩
      · rw [hg, fanc_new_none _ _ _ _ hm, fanc_no_key] at hx
        · simp at hx
        · intro k hk e
          have := textsOf_key_mem hk
          rw [e] at this
          exact hid this
    · rw [A z ez] at hx ⊢
      rw [A x (B x z hx)] at hy
      exact ih x y z hx hy

/-- **no text version is its own per-file ancestor** -/
theorem fanc_irrefl_build (h : List Commit) (hh : hist h) (f : FileId) (x : Rev) :
    x ∉ fanc (textsOf (build h)) f x := fun hx =>
  ranc_irrefl (build_Fresh h hh) x (fanc_sub_ranc_build h hh f x x hx)

/-- a non-empty finite set has a maximal element for any strict partial order -/
theorem exists_maximal (R : Nat → Nat → Prop) (trans : ∀ a b c, R a b → R b c → R a c)
    (irrefl : ∀ a, ¬ R a a) : ∀ (l : List Nat), l ≠ [] → ∃ m ∈ l, ∀ d ∈ l, ¬ R m d
  | [], h => absurd rfl h
  | [a], _ => ⟨a, List.mem_cons_self, fun d hd => by
      simp only [List.mem_singleton] at hd; subst hd; exact irrefl _⟩
  | a :: b :: l, _ => by
    obtain ⟨m, hm, hmax⟩ := exists_maximal R trans irrefl (b :: l) (by simp)
    by_cases hr : R m a
    · refine ⟨a, List.mem_cons_self, fun d hd => ?_⟩
      rcases List.mem_cons.mp hd with h | h
      · subst h; exact irrefl _
      · exact fun had => hmax d h (trans m a d hr had)
    · refine ⟨m, List.mem_cons_of_mem _ hm, fun d hd => ?_⟩
      rcases List.mem_cons.mp hd with h | h
      · subst h; exact hr
      · exact hmax d h

/-- when the candidates have a single head, every other candidate is a per-file
ancestor of it (for any graph whose ancestry is a strict partial order) -/
theorem single_head_dominates {g : TGraph} {f : FileId} {cands : List Rev} {x : Rev}
    (trans : ∀ a b c, a ∈ fanc g f b → b ∈ fanc g f c → a ∈ fanc g f c)
    (irrefl : ∀ a, a ∉ fanc g f a)
    (hh : heads g f cands = [x]) : ∀ c ∈ cands, c ≠ x → c ∈ fanc g f x := by
  intro c hc hcx
  -- a candidate other than `x` is not a head, so it is below another candidate
  have below : ∀ d ∈ cands, d ≠ x → ∃ d' ∈ cands, d' ≠ d ∧ d ∈ fanc g f d' := by
    intro d hd hdx
    apply Classical.byContradiction
    intro hno
    have : d ∈ heads g f cands :=
      mem_heads_iff.mpr ⟨hd, fun d' hd' hne hx => hno ⟨d', hd', hne, hx⟩⟩
    rw [hh] at this
    exact hdx (List.mem_singleton.mp this)
  let S := cands.filter fun d => (fanc g f d).contains c
  have hS : ∀ d, d ∈ S ↔ d ∈ cands ∧ c ∈ fanc g f d := by
    intro d; simp [S]
  obtain ⟨d0, hd0, _, hcd0⟩ := below c hc hcx
  have hne : S ≠ [] := List.ne_nil_of_mem ((hS d0).mpr ⟨hd0, hcd0⟩)
  obtain ⟨m, hm, hmax⟩ := exists_maximal (fun a b => a ∈ fanc g f b) trans irrefl S hne
  obtain ⟨hmc, hcm⟩ := (hS m).mp hm
  by_cases hmx : m = x
  · exact hmx ▸ hcm
  · obtain ⟨d', hd', _, hmd'⟩ := below m hmc hmx
    exact absurd hmd' (hmax d' ((hS d').mpr ⟨hd', trans c m d' hcm hmd'⟩))

end BreezyVerif.C02
