import BreezyVerif.Model.C46World
import BreezyVerif.Lemmas.C46Fixed
/-! C46 — the file-system refinement (`Model/C46World.lean`) agrees with the
abstract layout model on the paths `clean_tree` selects. -/
namespace BreezyVerif.C46
open Forest

theorem primFor_lstat_accepts (k : Kind) : (primFor false k).accepts k = true := by
  cases k <;> decide

/-- on a path whose upper components are real directories, deleting in the
world is removing the entry from the tree's layout; nothing else changes -/
theorem delIn_of_dirsAbove {out : Forest} {tg : List (Path × Path)} {pre : Path} {f : Forest} {p : Path}
    (h : dirsAbove f p = true) :
    delIn false out tg pre f p = (f.remove p).map fun t => (t, out) := by
  induction f generalizing p pre with
  | nil => simp [dirsAbove] at h
  | cons i kids rest ih1 ih2 =>
    cases p with
    | nil => simp [dirsAbove] at h
    | cons n q =>
      by_cases e : i.name = n
      · subst e
        cases q with
        | nil => simp [delIn, Forest.remove, primFor_lstat_accepts]
        | cons a b =>
          simp only [dirsAbove, if_true, Bool.and_eq_true, beq_iff_eq] at h
          simp only [delIn, Forest.remove, if_true, h.1, beq_self_eq_true]
          rw [ih1 h.2]
          cases kids.remove (a :: b) <;> simp
      · simp only [dirsAbove, if_neg e] at h
        simp only [delIn, Forest.remove, if_neg e]
        rw [ih2 h]
        cases rest.remove (n :: q) <;> simp

/-- removing an unrelated entry keeps the directories above a path in place -/
theorem dirsAbove_remove {f f' : Forest} {p q : Path} (hr : f.remove p = some f')
    (hq : dirsAbove f q = true) (hn : ¬ p <+: q) : dirsAbove f' q = true := by
  induction f generalizing p q f' with
  | nil => simp [dirsAbove] at hq
  | cons i kids rest ih1 ih2 =>
    cases p with
    | nil => simp [Forest.remove] at hr
    | cons n t =>
      cases q with
      | nil => simp [dirsAbove] at hq
      | cons m s =>
        by_cases e : i.name = n
        · subst e
          cases t with
          | nil =>
            rw [remove_cons_self] at hr
            simp only [Option.some.injEq] at hr
            subst hr
            by_cases e' : i.name = m
            · subst e'
              exact absurd (List.cons_prefix_cons.mpr ⟨rfl, List.nil_prefix⟩) hn
            · simpa [dirsAbove, e'] using hq
          | cons a b =>
            rw [remove_cons_down] at hr
            cases hk : kids.remove (a :: b) with
            | none => simp [hk] at hr
            | some k' =>
              simp only [hk, Option.map_some, Option.some.injEq] at hr
              subst hr
              by_cases e' : i.name = m
              · subst e'
                cases s with
                | nil => simp [dirsAbove]
                | cons c d =>
                  simp only [dirsAbove, if_true, Bool.and_eq_true, beq_iff_eq] at hq ⊢
                  refine ⟨hq.1, ih1 hk hq.2 ?_⟩
                  intro hpre
                  exact hn (List.cons_prefix_cons.mpr ⟨rfl, hpre⟩)
              · simpa [dirsAbove, e'] using hq
        · rw [remove_cons_ne e] at hr
          cases hk : rest.remove (n :: t) with
          | none => simp [hk] at hr
          | some r' =>
            simp only [hk, Option.map_some, Option.some.injEq] at hr
            subst hr
            by_cases e' : i.name = m
            · subst e'
              simpa [dirsAbove] using hq
            · simp only [dirsAbove, if_neg e'] at hq ⊢
              exact ih2 hk hq hn

/-- `delete_items` in the world on pairwise unrelated paths whose upper
components are real directories: exactly the abstract `deleteItems` on the
tree's layout; the outside area and the link targets are untouched -/
theorem deleteItemsW_refines (w : World) (ps : List Path)
    (hd : ∀ p ∈ ps, dirsAbove w.tree p = true)
    (hpw : ps.Pairwise (fun a b => ¬ a <+: b)) :
    deleteItemsW false false w ps =
      ({ w with tree := (deleteItems w.tree ps).1 }, (deleteItems w.tree ps).2) := by
  induction ps generalizing w with
  | nil => simp [deleteItemsW, deleteItems]
  | cons p ps ih =>
    rw [List.pairwise_cons] at hpw
    simp only [deleteItemsW, deleteItems, Bool.false_eq_true, if_false]
    rw [delIn_of_dirsAbove (hd p (by simp))]
    cases hr : w.tree.remove p with
    | none => simp
    | some t =>
      simp only [Option.map_some]
      have := ih { w with tree := t, outside := w.outside }
        (fun p' hp' => dirsAbove_remove hr (hd p' (by simp [hp'])) (hpw.1 p' hp')) hpw.2
      simpa using this

/-- a dry run of `delete_items` touches nothing, whatever it is given -/
theorem deleteItemsW_dry (follow : Bool) (w : World) (ps : List Path) :
    deleteItemsW follow true w ps = (w, false) := by
  induction ps with
  | nil => simp [deleteItemsW]
  | cons p ps ih => simpa [deleteItemsW] using ih

/-! ### `extras()` only descends into real directories -/

theorem dirsAbove_push {i : Info} {kids rest : Forest} {t : Item} (hk : i.kind = .dir)
    (h : dirsAbove kids t.path = true) : dirsAbove (cons i kids rest) (t.push i.name).path = true := by
  cases hp : t.path with
  | nil => rw [hp] at h; cases kids <;> simp [dirsAbove] at h
  | cons a b =>
    rw [hp] at h
    simp [Item.push, hp, dirsAbove, hk, h]

theorem dirsAbove_skip {i : Info} {kids rest : Forest} {p : Path} (hn : ∀ n t, p = n :: t → i.name ≠ n)
    (h : dirsAbove rest p = true) : dirsAbove (cons i kids rest) p = true := by
  cases p with
  | nil => cases rest <;> simp [dirsAbove] at h
  | cons n t => simpa [dirsAbove, hn n t rfl] using h

theorem extrasB_dirsAbove {f : Forest} {it : Item} (hw : f.wf = true) (h : it ∈ extrasB f) :
    dirsAbove f it.path = true := by
  induction f generalizing it with
  | nil => simp [extrasB] at h
  | cons i kids rest ih1 ih2 =>
    obtain ⟨hn, _, _, _, _, _, hk, hr⟩ := wf_cons hw
    simp only [extrasB, List.mem_append] at h
    rcases h with h | h
    · split at h
      · simp at h
      · split at h
        · simp at h; subst h; simp [dirsAbove]
        · split at h
          · rename_i hd
            simp only [Bool.and_eq_true, beq_iff_eq] at hd
            simp only [List.mem_map] at h
            obtain ⟨t, ht, rfl⟩ := h
            exact dirsAbove_push hd.1 (ih1 hk ht)
          · simp at h
    · obtain ⟨a, t, e, ha⟩ := items_head (extrasB_sub h)
      apply dirsAbove_skip _ (ih2 hr h)
      intro n t' e' hne
      rw [e] at e'
      simp only [List.cons.injEq] at e'
      exact hn (hne ▸ e'.1 ▸ ha)

theorem filesG_dirsAbove {f : Forest} {it : Item} (hw : f.wf = true) (h : it ∈ filesG f) :
    dirsAbove f it.path = true := by
  induction f generalizing it with
  | nil => simp [filesG] at h
  | cons i kids rest ih1 ih2 =>
    obtain ⟨hn, _, _, _, _, _, hk, hr⟩ := wf_cons hw
    simp only [filesG, List.mem_append] at h
    rcases h with h | h
    · split at h
      · rename_i hd
        split at h
        · simp at h
        · simp only [List.mem_map] at h
          obtain ⟨t, ht, rfl⟩ := h
          exact dirsAbove_push hd (ih1 hk ht)
      · simp at h
      · split at h
        · simp at h
        · simp at h; subst h; simp [dirsAbove]
    · obtain ⟨a, t, e, ha⟩ := items_head (filesG_sub h)
      apply dirsAbove_skip _ (ih2 hr h)
      intro n t' e' hne
      rw [e] at e'
      simp only [List.cons.injEq] at e'
      exact hn (hne ▸ e'.1 ▸ ha)

theorem extras_dirsAbove {fmt : Fmt} {f : Forest} {it : Item} (hw : f.wf = true) (h : it ∈ extras fmt f) :
    dirsAbove f it.path = true := by
  cases fmt with
  | bzr => exact extrasB_dirsAbove hw h
  | git => exact filesG_dirsAbove hw (List.mem_filter.mp h).1

/-- `dirsAbove` in terms of lookups: every proper non-empty prefix is a real directory -/
theorem dirsAbove_get {f : Forest} {r s : Path} (h : dirsAbove f (r ++ s) = true) (hr : r ≠ [])
    (hs : s ≠ []) : ∃ i k, f.get r = some (i, k) ∧ i.kind = .dir := by
  induction f generalizing r with
  | nil => simp [dirsAbove] at h
  | cons j kids rest ih1 ih2 =>
    obtain ⟨n, q, rfl⟩ := List.exists_cons_of_ne_nil hr
    by_cases e : j.name = n
    · subst e
      cases q with
      | nil =>
        obtain ⟨a, b, rfl⟩ := List.exists_cons_of_ne_nil hs
        simp only [List.cons_append, List.nil_append, dirsAbove, if_true, Bool.and_eq_true, beq_iff_eq] at h
        exact ⟨j, kids, get_cons_self, h.1⟩
      | cons a b =>
        simp only [List.cons_append, dirsAbove, if_true, Bool.and_eq_true, beq_iff_eq] at h
        rw [get_cons_down]
        exact ih1 (r := a :: b) h.2 (by simp)
    · simp only [List.cons_append, dirsAbove, if_neg e] at h
      rw [get_cons_ne e]
      exact ih2 (r := n :: q) (by simpa using h) (by simp)

/-! ### inventory shape -/

theorem allUnv_of_invShaped {k : Forest} (h : invShaped k = true) (ht : topUnversioned k = true) :
    k.allUnversioned = true := by
  induction k with
  | nil => rfl
  | cons i kids rest ih1 ih2 =>
    simp only [invShaped, Bool.and_eq_true, Bool.or_eq_true] at h
    simp only [topUnversioned, Bool.and_eq_true, Bool.not_eq_true'] at ht
    obtain ⟨⟨h1, h2⟩, h3⟩ := h
    have hk : topUnversioned kids = true := by
      rcases h1 with h1 | h1
      · rw [ht.1] at h1; simp at h1
      · exact h1
    simp only [Forest.allUnversioned, Bool.and_eq_true, Bool.not_eq_true']
    exact ⟨⟨ht.1, ih1 h2 hk⟩, ih2 h3 ht.2⟩

theorem unvClosed_of_invShaped {f : Forest} (h : invShaped f = true) : f.unvClosed = true := by
  induction f with
  | nil => rfl
  | cons i kids rest ih1 ih2 =>
    simp only [invShaped, Bool.and_eq_true, Bool.or_eq_true] at h
    obtain ⟨⟨h1, h2⟩, h3⟩ := h
    simp only [Forest.unvClosed, Bool.and_eq_true, Bool.or_eq_true]
    refine ⟨⟨?_, ih1 h2⟩, ih2 h3⟩
    rcases h1 with h1 | h1
    · exact Or.inl h1
    · exact Or.inr (allUnv_of_invShaped h2 h1)

theorem topUnv_of_allUnv {k : Forest} (h : k.allUnversioned = true) : topUnversioned k = true := by
  induction k with
  | nil => rfl
  | cons i kids rest _ ih2 =>
    simp only [Forest.allUnversioned, Bool.and_eq_true, Bool.not_eq_true'] at h
    simp only [topUnversioned, Bool.and_eq_true, Bool.not_eq_true']
    exact ⟨h.1.1, ih2 h.2⟩

theorem invShaped_of_unvClosed {f : Forest} (h : f.unvClosed = true) : invShaped f = true := by
  induction f with
  | nil => rfl
  | cons i kids rest ih1 ih2 =>
    simp only [Forest.unvClosed, Bool.and_eq_true, Bool.or_eq_true] at h
    obtain ⟨⟨h1, h2⟩, h3⟩ := h
    simp only [invShaped, Bool.and_eq_true, Bool.or_eq_true]
    refine ⟨⟨?_, ih1 h2⟩, ih2 h3⟩
    rcases h1 with h1 | h1
    · exact Or.inl h1
    · exact Or.inr (topUnv_of_allUnv h1)

/-! ### paths are prefix closed -/

theorem paths_prefix_closed {f : Forest} {r s : Path} (h : r ++ s ∈ f.paths) (hr : r ≠ []) :
    r ∈ f.paths := by
  induction f generalizing r with
  | nil => simp [Forest.paths] at h
  | cons i kids rest ih1 ih2 =>
    obtain ⟨n, q, rfl⟩ := List.exists_cons_of_ne_nil hr
    rw [List.cons_append] at h
    simp only [Forest.paths, List.mem_cons, List.mem_append, List.mem_map] at h ⊢
    rcases h with (h | ⟨t, ht, e⟩) | h
    · simp only [List.cons.injEq, List.append_eq_nil_iff] at h
      left; left; simp [h.1, h.2.1]
    · simp only [List.cons.injEq] at e
      cases q with
      | nil => left; left; simp [e.1]
      | cons a b =>
        left; right
        refine ⟨a :: b, ih1 (r := a :: b) (by rw [e.2] at ht; exact ht) (by simp), by simp [e.1]⟩
    · right; exact ih2 (r := n :: q) h (by simp)

end BreezyVerif.C46
