import BreezyVerif.Model.C31
/-
Helper lemmas for C31, part 1: split/join on '/', joinpath, escape / pctDecode,
the `Canon` predicate (what `urlutils.escape` produces).
-/
namespace BreezyVerif.C31

deriving instance DecidableEq for Except

/-! ### splitSl / joinSl -/

theorem splitSl_ne_nil (b : Bytes) : splitSl b ≠ [] := by
  induction b with
  | nil => simp [splitSl]
  | cons c rest ih =>
    unfold splitSl
    split
    · simp
    · split <;> simp

theorem splitSl_cons_sl (r : Bytes) : splitSl (SL :: r) = [] :: splitSl r := by
  simp [splitSl]

theorem splitSl_cons_ne {c : UInt8} (h : c ≠ SL) (r : Bytes) :
    ∃ s ss, splitSl r = s :: ss ∧ splitSl (c :: r) = (c :: s) :: ss := by
  cases hr : splitSl r with
  | nil => exact absurd hr (splitSl_ne_nil r)
  | cons s ss => exact ⟨s, ss, rfl, by simp [splitSl, h, hr]⟩

theorem splitSl_cons_ne' {c : UInt8} (h : c ≠ SL) {r : Bytes} {s : Seg} {ss : List Seg}
    (hr : splitSl r = s :: ss) : splitSl (c :: r) = (c :: s) :: ss := by
  simp [splitSl, h, hr]

theorem splitSl_noSl (b : Bytes) : ∀ s ∈ splitSl b, SL ∉ s := by
  induction b with
  | nil => simp [splitSl]
  | cons c rest ih =>
    by_cases h : c = SL
    · subst h
      rw [splitSl_cons_sl]
      intro s hs
      cases hs with
      | head => simp
      | tail _ h' => exact ih s h'
    · obtain ⟨s, ss, h1, h2⟩ := splitSl_cons_ne h rest
      rw [h2]
      intro t ht
      rw [h1] at ih
      cases ht with
      | head =>
        intro hm
        cases hm with
        | head => exact h rfl
        | tail _ h' => exact ih s (by simp) h'
      | tail _ h' => exact ih t (List.mem_cons_of_mem _ h')

theorem joinSl_splitSl (b : Bytes) : joinSl (splitSl b) = b := by
  induction b with
  | nil => simp [splitSl, joinSl]
  | cons c rest ih =>
    by_cases h : c = SL
    · subst h
      rw [splitSl_cons_sl]
      cases hr : splitSl rest with
      | nil => exact absurd hr (splitSl_ne_nil rest)
      | cons s ss => rw [hr] at ih; simp [joinSl, ih]
    · obtain ⟨s, ss, h1, h2⟩ := splitSl_cons_ne h rest
      rw [h2]
      rw [h1] at ih
      cases ss with
      | nil => simp [joinSl] at ih ⊢; exact ih
      | cons t ts => simp [joinSl] at ih ⊢; exact ih

theorem splitSl_append_sl {a : Bytes} (ha : SL ∉ a) (b : Bytes) :
    splitSl (a ++ SL :: b) = a :: splitSl b := by
  induction a with
  | nil => simp [splitSl_cons_sl]
  | cons c r ih =>
    have hc : c ≠ SL := fun h => ha (by simp [h])
    have hr : SL ∉ r := fun h => ha (by simp [h])
    have := ih hr
    simp only [List.cons_append]
    obtain ⟨s, ss, h1, h2⟩ := splitSl_cons_ne hc (r ++ SL :: b)
    rw [h2]
    rw [this] at h1
    cases h1
    rfl

theorem splitSl_of_noSl {a : Bytes} (ha : SL ∉ a) : splitSl a = [a] := by
  induction a with
  | nil => simp [splitSl]
  | cons c r ih =>
    have hc : c ≠ SL := fun h => ha (by simp [h])
    have hr : SL ∉ r := fun h => ha (by simp [h])
    obtain ⟨s, ss, h1, h2⟩ := splitSl_cons_ne hc r
    rw [h2]
    rw [ih hr] at h1
    cases h1
    rfl

theorem splitSl_joinSl : ∀ (segs : List Seg), segs ≠ [] → (∀ s ∈ segs, SL ∉ s) →
    splitSl (joinSl segs) = segs
  | [], h, _ => absurd rfl h
  | [s], _, hs => by simp [joinSl, splitSl_of_noSl (hs s (by simp))]
  | s :: t :: ss, _, hs => by
    have h1 : SL ∉ s := hs s (by simp)
    have ih := splitSl_joinSl (t :: ss) (by simp) (fun x hx => hs x (by simp [hx]))
    simp only [joinSl]
    rw [splitSl_append_sl h1, ih]

theorem joinSl_cons_cons (s t : Seg) (ss : List Seg) :
    joinSl (s :: t :: ss) = s ++ SL :: joinSl (t :: ss) := rfl

theorem joinSl_nil_cons (segs : List Seg) (h : segs ≠ []) : joinSl ([] :: segs) = SL :: joinSl segs := by
  cases segs with
  | nil => exact absurd rfl h
  | cons t ts => simp [joinSl]

/-! ### joinpath -/

/-- a path segment that cannot change the directory level: no '/', not "." and not ".." -/
def Clean (s : Seg) : Prop := SL ∉ s ∧ s ≠ dotSeg ∧ s ≠ dotdot

theorem clean_nil : Clean [] := by
  refine ⟨by simp, ?_, ?_⟩ <;> simp [dotSeg, dotdot]

theorem jpStep_inv {pre : List Seg} {chunk : Seg} {stk' : List Seg}
    (hpre : ∀ s ∈ pre, Clean s) (hc : SL ∉ chunk)
    (h : jpStep (pre ++ [[]]) chunk = .ok stk') :
    ∃ pre', stk' = pre' ++ [[]] ∧ ∀ s ∈ pre', Clean s := by
  unfold jpStep at h
  split at h
  · cases h; exact ⟨pre, rfl, hpre⟩
  · split at h
    · split at h
      · cases h
      · cases pre with
        | nil => simp at *
        | cons x t =>
          simp at h
          cases h
          exact ⟨t, rfl, fun s hs => hpre s (by simp [hs])⟩
    · cases h
      rename_i h1 h2
      exact ⟨chunk :: pre, rfl, fun s hs => by
        cases hs with
        | head => exact ⟨hc, h1, h2⟩
        | tail _ h' => exact hpre s h'⟩

theorem jpFold_inv : ∀ (cs : List Seg) (pre : List Seg) (stk' : List Seg),
    (∀ s ∈ pre, Clean s) → (∀ c ∈ cs, SL ∉ c) →
    jpFold (pre ++ [[]]) cs = .ok stk' →
    ∃ pre', stk' = pre' ++ [[]] ∧ ∀ s ∈ pre', Clean s
  | [], pre, stk', hpre, _, h => by
    simp [jpFold] at h; cases h; exact ⟨pre, rfl, hpre⟩
  | c :: cs, pre, stk', hpre, hcs, h => by
    unfold jpFold at h
    split at h
    · cases h
    · rename_i s hs
      obtain ⟨pre1, rfl, h1⟩ := jpStep_inv hpre (hcs c (by simp)) hs
      exact jpFold_inv cs pre1 stk' h1 (fun x hx => hcs x (by simp [hx])) h

theorem joinpath_clean_aux {a r : Bytes} (h : joinpathRoot a = .ok r) :
    ∃ segs, r = SL :: joinSl segs ∧ ∀ s ∈ segs, Clean s := by
  unfold joinpathRoot at h
  -- both starting states reach `jpFold [[]] cs` for slash-free chunks `cs`
  have key : ∃ cs : List Seg, (∀ c ∈ cs, SL ∉ c) ∧
      jpFold (if a.head? = some SL then [] else [[]]) (splitSl a) = jpFold ([] ++ [[]]) cs := by
    cases a with
    | nil => exact ⟨splitSl [], splitSl_noSl [], by simp⟩
    | cons c rest =>
      by_cases hc : c = SL
      · subst hc
        refine ⟨splitSl rest, splitSl_noSl rest, ?_⟩
        rw [splitSl_cons_sl]
        simp [jpFold, jpStep, dotSeg, dotdot]
      · refine ⟨splitSl (c :: rest), splitSl_noSl _, ?_⟩
        simp [hc]
  obtain ⟨cs, hcs, hk⟩ := key
  simp only [] at h
  rw [hk] at h
  cases hf : jpFold ([] ++ [[]]) cs with
  | error e => rw [hf] at h; cases h
  | ok stk =>
    rw [hf] at h
    obtain ⟨pre, rfl, hpre⟩ := jpFold_inv cs [] stk (by simp) hcs hf
    refine ⟨pre.reverse, ?_, fun s hs => hpre s (by simpa using hs)⟩
    simp only [] at h
    split at h
    · rename_i heq
      cases h
      cases pre with
      | nil => simp [joinSl]
      | cons x t => simp at heq
    · cases h
      rename_i hne
      cases pre with
      | nil => simp at hne
      | cons x t =>
        simp only [List.reverse_append, List.reverse_cons, List.reverse_nil, List.nil_append,
          List.singleton_append]
        rw [joinSl_nil_cons]
        simp

/-! ### escape / pctDecode -/

theorem isSafe_SL : isSafe SL = true := by decide
theorem isSafe_DOT : isSafe DOT = true := by decide
theorem isSafe_PCT : isSafe PCT = false := by decide

theorem escape_append (a b : Bytes) : escape (a ++ b) = escape a ++ escape b := by
  induction a with
  | nil => simp [escape]
  | cons c r ih =>
    simp only [List.cons_append, escape]
    split <;> simp [ih]

theorem escape_joinSl : ∀ segs : List Seg, escape (joinSl segs) = joinSl (segs.map escape)
  | [] => by simp [joinSl, escape]
  | [s] => by simp [joinSl]
  | s :: t :: ss => by
    have ih := escape_joinSl (t :: ss)
    simp only [joinSl, List.map] at ih ⊢
    rw [escape_append]
    simp only [escape, isSafe_SL, if_true]
    rw [ih]

theorem hexV_hexU (x : Nat) (h : x < 16) : hexV (hexU x) = some x := by
  have : ∀ x : Fin 16, hexV (hexU x.val) = some x.val := by decide
  exact this ⟨x, h⟩

theorem hexU_ne_SL (x : Nat) (h : x < 16) : hexU x ≠ SL := by
  have : ∀ x : Fin 16, hexU x.val ≠ SL := by decide
  exact this ⟨x, h⟩

theorem hexU_ne_PCT (x : Nat) (h : x < 16) : hexU x ≠ PCT := by
  have : ∀ x : Fin 16, hexU x.val ≠ PCT := by decide
  exact this ⟨x, h⟩

theorem isSafe_hexU (x : Nat) (h : x < 16) : isSafe (hexU x) = true := by
  have : ∀ x : Fin 16, isSafe (hexU x.val) = true := by decide
  exact this ⟨x, h⟩

theorem byte_split (c : UInt8) : UInt8.ofNat (16 * (c.toNat / 16) + c.toNat % 16) = c := by
  rw [Nat.div_add_mod]
  exact UInt8.ofNat_toNat

theorem pctDecode_cons_ne {c : UInt8} (h : c ≠ PCT) (r : Bytes) :
    pctDecode (c :: r) = c :: pctDecode r := by
  match r with
  | [] => simp [pctDecode]
  | [a] => simp [pctDecode]
  | a :: b :: r' => simp [pctDecode, h]

theorem pctDecode_esc {a b : UInt8} {x y : Nat} (ha : hexV a = some x) (hb : hexV b = some y)
    (r : Bytes) : pctDecode (PCT :: a :: b :: r) = UInt8.ofNat (16 * x + y) :: pctDecode r := by
  simp [pctDecode, ha, hb]

theorem normPct_cons_ne {c : UInt8} (h : c ≠ PCT) (r : Bytes) :
    normPct (c :: r) = c :: normPct r := by
  match r with
  | [] => simp [normPct]
  | [a] => simp [normPct]
  | a :: b :: r' => simp [normPct, h]

theorem normPct_esc {a b : UInt8} {x y : Nat} (ha : hexV a = some x) (hb : hexV b = some y)
    (r : Bytes) : normPct (PCT :: a :: b :: r) =
      if isUnreserved (UInt8.ofNat (16 * x + y)) then UInt8.ofNat (16 * x + y) :: normPct r
      else PCT :: hexU x :: hexU y :: normPct r := by
  simp [normPct, ha, hb]

/-! ### canonical escaped strings -/

/-- what `escape` produces: safe bytes and upper-case triples of bytes that are not safe -/
inductive Canon : Bytes → Prop
  | nil : Canon []
  | safe (c : UInt8) (r : Bytes) : isSafe c = true → Canon r → Canon (c :: r)
  | esc (x y : Nat) (r : Bytes) : x < 16 → y < 16 → isSafe (UInt8.ofNat (16 * x + y)) = false →
      Canon r → Canon (PCT :: hexU x :: hexU y :: r)

theorem canon_escape (s : Bytes) : Canon (escape s) := by
  induction s with
  | nil => exact .nil
  | cons c r ih =>
    unfold escape
    split
    · exact .safe c _ (by assumption) ih
    · rename_i h
      refine .esc (c.toNat / 16) (c.toNat % 16) _ ?_ (Nat.mod_lt _ (by decide)) ?_ ih
      · have := c.toNat_lt
        omega
      · rw [byte_split]; simpa using h

theorem canon_append {a b : Bytes} (ha : Canon a) (hb : Canon b) : Canon (a ++ b) := by
  induction ha with
  | nil => simpa
  | safe c r hc _ ih => exact .safe c _ hc ih
  | esc x y r hx hy hv _ ih => exact .esc x y _ hx hy hv ih

theorem canon_drop {s : Bytes} (h : Canon s) : ∀ n, Canon (s.drop n) := by
  induction h with
  | nil => intro n; simp; exact .nil
  | safe c r hc hr ih =>
    intro n
    cases n with
    | zero => exact .safe c r hc hr
    | succ n => simpa using ih n
  | esc x y r hx hy hv hr ih =>
    intro n
    match n with
    | 0 => exact .esc x y r hx hy hv hr
    | 1 => exact .safe _ _ (isSafe_hexU x hx) (.safe _ _ (isSafe_hexU y hy) hr)
    | 2 => exact .safe _ _ (isSafe_hexU y hy) hr
    | n + 3 => simpa using ih n

theorem canon_joinSl : ∀ segs : List Seg, (∀ s ∈ segs, Canon s) → Canon (joinSl segs)
  | [], _ => .nil
  | [s], h => by simpa [joinSl] using h s (by simp)
  | s :: t :: ss, h => by
    simp only [joinSl]
    exact canon_append (h s (by simp))
      (.safe SL _ isSafe_SL (canon_joinSl (t :: ss) (fun x hx => h x (by simp [hx]))))

theorem canon_normPct {s : Bytes} (h : Canon s) : normPct s = s := by
  induction h with
  | nil => simp [normPct]
  | safe c r hc _ ih =>
    have : c ≠ PCT := fun e => by subst e; simp [isSafe_PCT] at hc
    rw [normPct_cons_ne this, ih]
  | esc x y r hx hy hv _ ih =>
    rw [normPct_esc (hexV_hexU x hx) (hexV_hexU y hy), ih]
    have : isUnreserved (UInt8.ofNat (16 * x + y)) = false := by
      unfold isSafe at hv
      exact (Bool.or_eq_false_iff.mp hv).1
    simp only [this, Bool.false_eq_true, ↓reduceIte]

theorem canon_splitSl {p : Bytes} (h : Canon p) : ∀ s ∈ splitSl p, Canon s := by
  induction h with
  | nil => simp [splitSl]; exact .nil
  | safe c r hc hr ih =>
    by_cases hsl : c = SL
    · subst hsl
      rw [splitSl_cons_sl]
      intro s hs
      cases hs with
      | head => exact .nil
      | tail _ h' => exact ih s h'
    · obtain ⟨s, ss, h1, h2⟩ := splitSl_cons_ne hsl r
      rw [h2]
      rw [h1] at ih
      intro t ht
      cases ht with
      | head => exact .safe c s hc (ih s (by simp))
      | tail _ h' => exact ih t (List.mem_cons_of_mem _ h')
  | esc x y r hx hy hv hr ih =>
    have hP : PCT ≠ SL := by decide
    obtain ⟨s, ss, h1, _⟩ := splitSl_cons_ne (hexU_ne_SL y hy) r
    have e1 : splitSl (hexU y :: r) = (hexU y :: s) :: ss := splitSl_cons_ne' (hexU_ne_SL y hy) h1
    have e2 : splitSl (hexU x :: hexU y :: r) = (hexU x :: hexU y :: s) :: ss :=
      splitSl_cons_ne' (hexU_ne_SL x hx) e1
    have e3 : splitSl (PCT :: hexU x :: hexU y :: r) = (PCT :: hexU x :: hexU y :: s) :: ss :=
      splitSl_cons_ne' hP e2
    rw [e3]
    rw [h1] at ih
    intro t ht
    cases ht with
    | head => exact .esc x y s hx hy hv (ih s (by simp))
    | tail _ h' => exact ih t (List.mem_cons_of_mem _ h')

/-- decoding a canonical string commutes with splitting on '/' -/
theorem canon_split_decode {p : Bytes} (h : Canon p) :
    splitSl (pctDecode p) = (splitSl p).map pctDecode := by
  induction h with
  | nil => simp [splitSl, pctDecode]
  | safe c r hc hr ih =>
    have hne : c ≠ PCT := fun e => by subst e; simp [isSafe_PCT] at hc
    rw [pctDecode_cons_ne hne]
    by_cases hsl : c = SL
    · subst hsl
      rw [splitSl_cons_sl, splitSl_cons_sl, ih]
      simp [pctDecode]
    · obtain ⟨s, ss, h1, h2⟩ := splitSl_cons_ne hsl r
      obtain ⟨s', ss', h1', h2'⟩ := splitSl_cons_ne hsl (pctDecode r)
      rw [h2, h2']
      rw [h1, h1'] at ih
      simp only [List.map_cons, List.cons.injEq] at ih ⊢
      refine ⟨?_, ih.2⟩
      rw [pctDecode_cons_ne hne, ih.1]
  | esc x y r hx hy hv hr ih =>
    have hP : PCT ≠ SL := by decide
    have hvs : UInt8.ofNat (16 * x + y) ≠ SL := fun e => by rw [e] at hv; simp [isSafe_SL] at hv
    rw [pctDecode_esc (hexV_hexU x hx) (hexV_hexU y hy)]
    obtain ⟨s, ss, h1, _⟩ := splitSl_cons_ne (hexU_ne_SL y hy) r
    have e1 : splitSl (hexU y :: r) = (hexU y :: s) :: ss := splitSl_cons_ne' (hexU_ne_SL y hy) h1
    have e2 : splitSl (hexU x :: hexU y :: r) = (hexU x :: hexU y :: s) :: ss :=
      splitSl_cons_ne' (hexU_ne_SL x hx) e1
    have e3 : splitSl (PCT :: hexU x :: hexU y :: r) = (PCT :: hexU x :: hexU y :: s) :: ss :=
      splitSl_cons_ne' hP e2
    obtain ⟨s', ss', h1', h2'⟩ := splitSl_cons_ne hvs (pctDecode r)
    rw [e3, h2']
    rw [h1, h1'] at ih
    simp only [List.map_cons, List.cons.injEq] at ih ⊢
    refine ⟨?_, ih.2⟩
    rw [pctDecode_esc (hexV_hexU x hx) (hexV_hexU y hy), ih.1]

theorem canon_decode_nil {r : Bytes} (h : Canon r) (hd : pctDecode r = []) : r = [] := by
  cases h with
  | nil => rfl
  | safe c r' hc _ =>
    have hne : c ≠ PCT := fun e => by subst e; simp [isSafe_PCT] at hc
    rw [pctDecode_cons_ne hne] at hd; cases hd
  | esc x y r' hx hy _ _ =>
    rw [pctDecode_esc (hexV_hexU x hx) (hexV_hexU y hy)] at hd; cases hd

theorem canon_decode_head {r t : Bytes} {c : UInt8} (h : Canon r) (hd : pctDecode r = c :: t)
    (hc : isSafe c = true) : ∃ r', r = c :: r' ∧ Canon r' ∧ pctDecode r' = t := by
  cases h with
  | nil => simp [pctDecode] at hd
  | safe c' r' hc' hr' =>
    have hne : c' ≠ PCT := fun e => by subst e; simp [isSafe_PCT] at hc'
    rw [pctDecode_cons_ne hne] at hd
    cases hd
    exact ⟨r', rfl, hr', rfl⟩
  | esc x y r' hx hy hv _ =>
    rw [pctDecode_esc (hexV_hexU x hx) (hexV_hexU y hy)] at hd
    cases hd
    rw [hc] at hv; cases hv

/-- a canonical segment decodes to ".." only if it is ".." -/
theorem canon_decode_dotdot {s : Bytes} (h : Canon s) (hd : pctDecode s = dotdot) : s = dotdot := by
  obtain ⟨r1, rfl, h1, d1⟩ := canon_decode_head h hd isSafe_DOT
  obtain ⟨r2, rfl, h2, d2⟩ := canon_decode_head h1 d1 isSafe_DOT
  rw [canon_decode_nil h2 d2]
  rfl

theorem pctDecode_escape (s : Bytes) : pctDecode (escape s) = s := by
  induction s with
  | nil => simp [escape, pctDecode]
  | cons c r ih =>
    unfold escape
    split
    · rename_i h
      have hne : c ≠ PCT := fun e => by subst e; simp [isSafe_PCT] at h
      rw [pctDecode_cons_ne hne, ih]
    · have h1 : c.toNat / 16 < 16 := by have := c.toNat_lt; omega
      have h2 : c.toNat % 16 < 16 := Nat.mod_lt _ (by decide)
      rw [pctDecode_esc (hexV_hexU _ h1) (hexV_hexU _ h2), ih, byte_split]

end BreezyVerif.C31
