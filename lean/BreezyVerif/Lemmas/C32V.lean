import BreezyVerif.Lemmas.C32U
/-
Helper lemmas for the lock-scope session model, part 4: the logical lock keeps
coherence (`acquire_coh`, `release_coh`), lifting of the body lemmas through
`with lock:` (`withLk_spec`) and through a whole step (`sessStep_spec`).
-/
namespace BreezyVerif.C32

theorem acquire_coh (wr : Bool) (tok : Option Nat) (o : Obj) (st : St) (k1 : LockSt) (s1 : St) (hc : Coherent o st)
    (h : acquire primLock true wr tok o.lk st = .ok (k1, s1)) :
    Coherent { o with lk := k1 } s1 ∧ (wr = true → k1.mode = .w) ∧ k1.mode ≠ .unlocked
      ∧ s1.tip = st.tip ∧ s1.tags = st.tags ∧ s1.revs = st.revs ∧ s1.owner = st.owner := by
  obtain ⟨h1, h2, h3, h4, h5⟩ := hc
  unfold acquire at h
  cases hm : o.lk.mode with
  | unlocked =>
    simp only [hm] at h
    cases wr with
    | true =>
      simp only [if_true, primLock] at h
      cases tok with
      | none =>
        simp only [] at h
        cases hlk : st.lock with
        | some x => simp [hlk] at h
        | none =>
          simp only [hlk] at h
          injection h with h
          injection h with ha hb
          subst ha hb
          exact ⟨⟨h1, h2, h3, h4, fun _ => ⟨rfl, rfl⟩⟩, fun _ => rfl, by simp, rfl, rfl, rfl, rfl⟩
      | some t =>
        simp only [] at h
        by_cases hlk : st.lock = some t
        · simp only [hlk, if_true] at h
          injection h with h
          injection h with ha hb
          subst ha hb
          exact ⟨⟨h1, h2, h3, h4, fun _ => ⟨rfl, hlk⟩⟩, fun _ => rfl, by simp, rfl, rfl, rfl, rfl⟩
        · simp [hlk] at h
    | false =>
      simp only [Bool.false_eq_true, if_false] at h
      injection h with h
      injection h with ha hb
      subst ha hb
      exact ⟨⟨h1, h2, h3, h4, fun hx => by simp at hx⟩, fun hx => by simp at hx, by simp, rfl, rfl, rfl, rfl⟩
  | r =>
    simp only [hm] at h
    cases wr with
    | true => simp at h
    | false =>
      simp only [Bool.false_eq_true, if_false] at h
      injection h with h
      injection h with ha hb
      subst ha hb
      exact ⟨⟨h1, h2, h3, h4, fun hx => by simp at hx⟩, fun hx => by simp at hx, by simp, rfl, rfl, rfl, rfl⟩
  | w =>
    simp only [hm] at h
    cases wr with
    | true =>
      simp only [if_true] at h
      cases tok with
      | none =>
        simp only [] at h
        injection h with h
        injection h with ha hb
        subst ha hb
        exact ⟨⟨h1, h2, h3, h4, fun _ => h5 hm⟩, fun _ => rfl, by simp, rfl, rfl, rfl, rfl⟩
      | some t =>
        simp only [] at h
        split at h
        · injection h with h
          injection h with ha hb
          subst ha hb
          exact ⟨⟨h1, h2, h3, h4, fun _ => h5 hm⟩, fun _ => rfl, by simp, rfl, rfl, rfl, rfl⟩
        · cases h
    | false =>
      simp only [Bool.false_eq_true, if_false] at h
      injection h with h
      injection h with ha hb
      subst ha hb
      exact ⟨⟨h1, h2, h3, h4, fun _ => h5 hm⟩, fun hx => by simp at hx, by simp, rfl, rfl, rfl, rfl⟩

theorem clear_coh (o : Obj) (st : St) (k : LockSt) (hk : k.mode = .unlocked) :
    Coherent ({ o with lk := k }.clear) st :=
  ⟨cacheOK_none _, cacheOK_none _, cacheOK_none _, cacheOK_none _, fun hx => by simp [Obj.clear, hk] at hx⟩

theorem release_coh (o : Obj) (st : St) (hc : Coherent o st) :
    Coherent (if (release primRelease o.lk st).2.2.2 then { o with lk := (release primRelease o.lk st).2.1 }.clear
              else { o with lk := (release primRelease o.lk st).2.1 }) (release primRelease o.lk st).2.2.1 := by
  obtain ⟨h1, h2, h3, h4, h5⟩ := hc
  unfold release
  cases hm : o.lk.mode with
  | unlocked => exact ⟨h1, h2, h3, h4, h5⟩
  | r =>
    simp only []
    by_cases hcnt : o.lk.count > 1
    · simp only [hcnt, if_true]
      exact ⟨h1, h2, h3, h4, fun hx => by simp at hx⟩
    · simp only [hcnt, if_false]
      exact clear_coh o st _ rfl
  | w =>
    simp only []
    by_cases hcnt : o.lk.count > 1
    · simp only [hcnt, if_true]
      exact ⟨h1, h2, h3, h4, fun _ => h5 hm⟩
    · simp only [hcnt, if_false]
      cases htk : o.lk.token with
      | none => exact clear_coh o st _ rfl
      | some t =>
        simp only []
        cases hlv : o.lk.leave with
        | true => simp only [if_true]; exact clear_coh o st _ rfl
        | false =>
          simp only [Bool.false_eq_true, if_false, primRelease]
          by_cases hl : st.lock = some t
          · simp only [hl, if_true]
            exact clear_coh o _ _ rfl
          · simp only [hl, if_false]
            exact clear_coh o st _ rfl
/-- an invariant of objects that ignores the lock state and survives dropping the caches -/
structure LkStable (P : Obj → Prop) : Prop where
  lk : ∀ o k, P o → P { o with lk := k }
  clear : ∀ o, P o → P o.clear


theorem coherent_known (o : Obj) (st : St) (kn : Option Nat) (hc : Coherent o st) :
    Coherent o { st with known := kn } := hc

theorem setLeave_coh (b : Bool) (o : Obj) (st : St) (k1 : LockSt) (hc : Coherent o st)
    (h : setLeave b o.lk = .ok k1) : Coherent { o with lk := k1 } st := by
  obtain ⟨h1, h2, h3, h4, h5⟩ := hc
  unfold setLeave at h
  split at h
  · rename_i hm
    injection h with h
    subst h
    exact ⟨h1, h2, h3, h4, fun _ => h5 hm⟩
  · cases h

/-- the second holder's lock / unlock keeps the object coherent -/
theorem ownerStep_coh (lock : Bool) (o : Obj) (st : St) (hc : Coherent o st) :
    Coherent o (ownerStep lock o.lk st).2 := by
  obtain ⟨h1, h2, h3, h4, h5⟩ := hc
  unfold ownerStep
  cases lock with
  | true =>
    simp only [if_true]
    cases st.owner with
    | some x => exact ⟨h1, h2, h3, h4, h5⟩
    | none =>
      simp only [primLock]
      cases hlk : st.lock with
      | some x => exact ⟨h1, h2, h3, h4, by simpa [hlk] using h5⟩
      | none =>
        refine ⟨h1, h2, h3, h4, ?_⟩
        intro hm
        have := (h5 hm)
        rw [hlk] at this
        obtain ⟨a, b⟩ := this
        rw [← b] at a
        simp at a
  | false =>
    simp only [Bool.false_eq_true, if_false]
    cases hown : st.owner with
    | none => exact ⟨h1, h2, h3, h4, h5⟩
    | some ht =>
      simp only []
      split
      · exact ⟨h1, h2, h3, h4, h5⟩
      · rename_i hnl
        split
        · rename_i hlk
          refine ⟨h1, h2, h3, h4, ?_⟩
          intro hm
          exfalso
          apply hnl
          obtain ⟨_, b⟩ := h5 hm
          exact ⟨hm, by rw [← b, hlk]⟩
        · exact ⟨h1, h2, h3, h4, h5⟩

/-- lifting a body lemma through `with lock:` -/
theorem withLk_spec (wr : Bool) (o : Obj) (st : St) (body : Obj → St → Res × Obj × St) (sbody : St → Res × St)
    (P : Obj → Prop) (hP : LkStable P) (hc : Coherent o st) (hp : P o)
    (hbody : ∀ o' st', Coherent o' st' → P o' → (wr = true → o'.lk.mode = .w) →
      ((body o' st').1, (body o' st').2.2) = sbody st' ∧ (body o' st').2.1.lk = o'.lk ∧
      Coherent (body o' st').2.1 (body o' st').2.2 ∧ P (body o' st').2.1) :
    (withLk primLock primRelease true wr o st body).1 = (withLkS wr o.lk st sbody).1
      ∧ (withLk primLock primRelease true wr o st body).2.1.lk = (withLkS wr o.lk st sbody).2.1
      ∧ (withLk primLock primRelease true wr o st body).2.2 = (withLkS wr o.lk st sbody).2.2
      ∧ Coherent (withLk primLock primRelease true wr o st body).2.1 (withLk primLock primRelease true wr o st body).2.2
      ∧ P (withLk primLock primRelease true wr o st body).2.1 := by
  unfold withLk withLkS
  cases ha : acquire primLock true wr none o.lk st with
  | error e => exact ⟨rfl, rfl, rfl, hc, hp⟩
  | ok p =>
    obtain ⟨k1, s1⟩ := p
    obtain ⟨c1, w1, _⟩ := acquire_coh wr none o st k1 s1 hc ha
    obtain ⟨b1, b2, b3, b4⟩ := hbody { o with lk := k1 } s1 c1 (hP.lk o k1 hp) w1
    simp only []
    have e1 : (body { o with lk := k1 } s1).1 = (sbody s1).1 := congrArg Prod.fst b1
    have e2 : (body { o with lk := k1 } s1).2.2 = (sbody s1).2 := congrArg Prod.snd b1
    have e3 : (body { o with lk := k1 } s1).2.1.lk = k1 := b2
    have rc := release_coh _ _ b3
    rw [e3, e2] at rc
    rw [e1, e2, e3]
    refine ⟨rfl, ?_, rfl, rc, ?_⟩
    · split <;> rfl
    · split
      · exact hP.clear _ (hP.lk _ _ b4)
      · exact hP.lk _ _ b4


/-- one step of an object whose bodies satisfy the body lemma = one step of the specification -/
theorem sessStep_spec (src : Graph) (body : SOp → Obj → St → Res × Obj × St) (P : Obj → Prop) (hP : LkStable P)
    (o : Obj) (st : St) (op : SOp) (hc : Coherent o st) (hp : P o)
    (hbody : ∀ o' st', Coherent o' st' → P o' → (op.needsWrite = true → o'.lk.mode = .w) →
      ((body op o' st').1, (body op o' st').2.2) = specBody src op st' ∧ (body op o' st').2.1.lk = o'.lk ∧
      Coherent (body op o' st').2.1 (body op o' st').2.2 ∧ P (body op o' st').2.1) :
    (sessStep primLock primRelease true body o st op).1 = (specStep src o.lk st op).1
      ∧ (sessStep primLock primRelease true body o st op).2.1.lk = (specStep src o.lk st op).2.1
      ∧ (sessStep primLock primRelease true body o st op).2.2 = (specStep src o.lk st op).2.2
      ∧ Coherent (sessStep primLock primRelease true body o st op).2.1 (sessStep primLock primRelease true body o st op).2.2
      ∧ P (sessStep primLock primRelease true body o st op).2.1 := by
  cases op with
  | lockW =>
    simp only [sessStep, specStep]
    cases ha : acquire primLock true true none o.lk st with
    | error e => exact ⟨rfl, rfl, rfl, hc, hp⟩
    | ok p =>
      obtain ⟨k1, s1⟩ := p
      exact ⟨rfl, rfl, rfl, coherent_known _ _ _ (acquire_coh true none o st k1 s1 hc ha).1, hP.lk o k1 hp⟩
  | lockTok good =>
    simp only [sessStep, specStep]
    cases ha : acquire primLock true true (sessTok st good) o.lk st with
    | error e => exact ⟨rfl, rfl, rfl, hc, hp⟩
    | ok p =>
      obtain ⟨k1, s1⟩ := p
      exact ⟨rfl, rfl, rfl, (acquire_coh true _ o st k1 s1 hc ha).1, hP.lk o k1 hp⟩
  | lockR =>
    simp only [sessStep, specStep]
    cases ha : acquire primLock true false none o.lk st with
    | error e => exact ⟨rfl, rfl, rfl, hc, hp⟩
    | ok p =>
      obtain ⟨k1, s1⟩ := p
      exact ⟨rfl, rfl, rfl, (acquire_coh false none o st k1 s1 hc ha).1, hP.lk o k1 hp⟩
  | unlock =>
    simp only [sessStep, specStep]
    refine ⟨by first | rfl | trivial, ?_, by first | rfl | trivial, release_coh o st hc, ?_⟩
    · split <;> rfl
    · split
      · exact hP.clear _ (hP.lk _ _ hp)
      · exact hP.lk _ _ hp
  | leave =>
    simp only [sessStep, specStep]
    cases hs : setLeave true o.lk with
    | error e => exact ⟨rfl, rfl, rfl, hc, hp⟩
    | ok k1 => exact ⟨rfl, rfl, rfl, setLeave_coh true o st k1 hc hs, hP.lk o k1 hp⟩
  | dontLeave =>
    simp only [sessStep, specStep]
    cases hs : setLeave false o.lk with
    | error e => exact ⟨rfl, rfl, rfl, hc, hp⟩
    | ok k1 => exact ⟨rfl, rfl, rfl, setLeave_coh false o st k1 hc hs, hP.lk o k1 hp⟩
  | ownerLock => exact ⟨rfl, rfl, rfl, ownerStep_coh true o st hc, hp⟩
  | ownerUnlock => exact ⟨rfl, rfl, rfl, ownerStep_coh false o st hc, hp⟩
  | tip => exact withLk_spec _ o st _ _ P hP hc hp hbody
  | setTip n r => exact withLk_spec _ o st _ _ P hP hc hp hbody
  | pull ow n r stags => exact withLk_spec _ o st _ _ P hP hc hp hbody
  | tagSet name r => exact withLk_spec _ o st _ _ P hP hc hp hbody
  | tagDict => exact withLk_spec _ o st _ _ P hP hc hp hbody

end BreezyVerif.C32
