import BreezyVerif.Model.C47
import BreezyVerif.Lemmas.C47Path
import BreezyVerif.Lemmas.C47Join
import BreezyVerif.Lemmas.C47Lines
import BreezyVerif.Lemmas.C47Date
/-!
C47 — theorems.  Every statement is for *all* inputs (path lists, byte strings,
chunkings, nanosecond counts); nothing is bounded.
-/
namespace BreezyVerif.C47

/-! ## minimum_path_selection / is_inside / is_inside_any -/

/-- the selection is a subset of the input -/
theorem mps_subset (ps : List Path) : ∀ q ∈ mps ps, q ∈ ps := mps_subset' ps

/-- no selected path lies inside another selected path -/
theorem mps_antichain (ps : List Path) :
    ∀ q ∈ mps ps, ∀ q' ∈ mps ps, isInside q q' = true → q = q' := by
  intro q hq q' hq' h
  exact mps_antichain' ps q hq q' hq' ((isInside_iff _ _).mp h)

/-- every input path lies inside exactly one selected path -/
theorem mps_covers_exactly_one (ps : List Path) (p : Path) (hp : p ∈ ps) :
    ∃ q ∈ mps ps, isInside q p = true ∧ ∀ q' ∈ mps ps, isInside q' p = true → q' = q := by
  obtain ⟨q, hq, hqp⟩ := mps_cover' ps p hp
  refine ⟨q, hq, (isInside_iff _ _).mpr hqp, ?_⟩
  intro q' hq' hq'p
  have hq'p := (isInside_iff _ _).mp hq'p
  -- two prefixes of the same path are comparable; the antichain property makes them equal
  rcases Nat.le_total q'.length q.length with hl | hl
  · exact mps_antichain' ps q' hq' q hq (List.prefix_of_prefix_length_le hq'p hqp hl)
  · exact (mps_antichain' ps q hq q' hq' (List.prefix_of_prefix_length_le hqp hq'p hl)).symm

/-- order-independent characterisation: the selected paths are exactly the
input paths that have no other input path as a proper ancestor -/
theorem mps_characterisation (ps : List Path) (q : Path) :
    q ∈ mps ps ↔ q ∈ ps ∧ ∀ p ∈ ps, isInside p q = true → p = q := by
  constructor
  · intro hq
    refine ⟨mps_subset ps q hq, fun p hp hpq => ?_⟩
    have hpq := (isInside_iff _ _).mp hpq
    obtain ⟨q0, hq0, hq0p⟩ := mps_cover' ps p hp
    have : q0 = q := mps_antichain' ps q0 hq0 q hq (hq0p.trans hpq)
    subst this
    exact prefix_antisymm _ _ hpq hq0p
  · rintro ⟨hq, hmin⟩
    obtain ⟨q0, hq0, hq0q⟩ := mps_cover' ps q hq
    have := hmin q0 (mps_subset ps q0 hq0) ((isInside_iff _ _).mpr hq0q)
    exact this ▸ hq0

/-- `is_inside_any` is containment in some listed directory -/
theorem inside_any_iff (dirs : List Path) (f : Path) :
    isInsideAny dirs f = true ↔ ∃ d ∈ dirs, d <+: f := by
  unfold isInsideAny
  simp [isInside_iff]

/-- the selection covers exactly what the input covers -/
theorem inside_any_mps (ps : List Path) (f : Path) :
    isInsideAny (mps ps) f = isInsideAny ps f := by
  rw [Bool.eq_iff_iff, inside_any_iff, inside_any_iff]
  constructor
  · rintro ⟨d, hd, hdf⟩
    exact ⟨d, mps_subset ps d hd, hdf⟩
  · rintro ⟨d, hd, hdf⟩
    obtain ⟨q, hq, hqd⟩ := mps_cover' ps d hd
    exact ⟨q, hq, hqd.trans hdf⟩

/-- the scan on the sorted list `a, a/b, ab, b, b/a` keeps `ab, b` after `a` -/
example : scan [[97]] [[[97], [98]], [[97, 98]], [[98]], [[98], [97]]] = [[[97, 98]], [[98]]] := by
  decide

/-! ## splitpath / joinpath -/

/-- a normalised relative path: empty, or `/`-separated non-empty segments none of which is `.` or `..` -/
def normalised (p : Bytes) : Bool :=
  p = [] ∨ (splitOn slash p).all (fun s => s ≠ [] ∧ s ≠ [dot] ∧ s ≠ [dot, dot])

/-- splitting a normalised path and joining the parts gives the path back -/
theorem split_join_id (p : Bytes) (h : normalised p = true) :
    ∃ cs, splitpath p = .ok cs ∧ joinpath cs = .ok p := by
  simp only [normalised, Bool.decide_or, Bool.or_eq_true, decide_eq_true_eq] at h
  rcases h with rfl | h
  · exact ⟨[], by simp [splitpath, splitOn, splitpathAux], by simp [joinpath, pathjoin]⟩
  · have hv : ∀ c ∈ splitOn slash p, validComp c = true := by
      intro c hc
      have := List.all_eq_true.mp h c hc
      simp only [Bool.decide_and, Bool.and_eq_true, decide_eq_true_eq] at this
      simp only [validComp, decide_eq_true_eq]
      exact ⟨this.1, splitOn_no_sep slash p c hc, this.2.1, this.2.2⟩
    refine ⟨splitOn slash p, splitpathAux_valid _ hv, ?_⟩
    rw [joinpath_valid _ hv, joinSlash_splitOn]

/-- joining valid components and splitting the result gives the components back -/
theorem join_split_id (cs : List Bytes) (h : ∀ c ∈ cs, validComp c = true) :
    ∃ p, joinpath cs = .ok p ∧ splitpath p = .ok cs := by
  refine ⟨joinSlash cs, joinpath_valid cs h, ?_⟩
  unfold splitpath
  cases cs with
  | nil => simp [joinSlash, splitOn, splitpathAux]
  | cons c rest =>
    have hs : ∀ x ∈ c :: rest, slash ∉ x := by
      intro x hx
      have := h x hx
      simp only [validComp, decide_eq_true_eq] at this
      exact this.2.1
    rw [splitOn_joinSlash _ (by simp) hs]
    exact splitpathAux_valid _ h

/-- `splitpath` normalises: whatever it returns is reproduced by join-then-split -/
theorem split_join_split (p : Bytes) (cs : List Bytes) (h : splitpath p = .ok cs) :
    ∃ p', joinpath cs = .ok p' ∧ splitpath p' = .ok cs :=
  join_split_id cs (splitpathAux_ok_valid _ cs (splitOn_no_sep slash p) h)

example : normalised [97, 47, 98, 99] = true ∧ splitpath [97, 47, 98, 99] = .ok [[97], [98, 99]] := by decide
example : validComp [97] = true ∧ validComp [46, 46] = false ∧ validComp [] = false := by decide
example : splitpath [97, 47, 46, 47, 47, 98] = .ok [[97], [98]] := by decide

/-! ## split_lines / chunks_to_lines -/

/-- concatenating the lines gives the text back -/
theorem split_lines_concat (t : Bytes) : (splitLines t).flatten = t := splitLines_flatten t

/-- the result is a sequence of complete lines (exactly one `\\n`, at the end)
followed by at most one non-empty unterminated line -/
theorem split_lines_shape (t : Bytes) :
    ∃ ls tl, splitLines t = ls ++ tl ∧ (∀ l ∈ ls, IsLine l) ∧ (tl = [] ∨ ∃ x, tl = [x] ∧ IsTail x) :=
  splitLines_shape t

/-- `lib.rs: chunks_to_lines` equals `split_lines` of the concatenation, for every chunking -/
theorem chunks_to_lines_eq (chunks : List Bytes) : c2lCore [] chunks = splitLines chunks.flatten := by
  rw [c2lCore_eq]; simp

/-- the Python-visible iterator equals `split_lines` of the concatenation, for every chunking -/
theorem chunks_to_lines_py_eq (chunks : List Bytes) : c2lPy none chunks = splitLines chunks.flatten := by
  rw [c2lPy_eq none chunks (by simp)]; simp [pyTail]

/-- the Python-visible `split_lines` is the crate's `split_lines` -/
theorem split_lines_py_eq (t : Bytes) : splitLinesPy t = splitLines t := by
  unfold splitLinesPy; rw [chunks_to_lines_py_eq]; simp

/-- the result does not depend on how the text was chunked -/
theorem chunks_to_lines_chunking_independent (cs ds : List Bytes) (h : cs.flatten = ds.flatten) :
    c2lPy none cs = c2lPy none ds ∧ c2lCore [] cs = c2lCore [] ds := by
  rw [chunks_to_lines_py_eq, chunks_to_lines_py_eq, chunks_to_lines_eq, chunks_to_lines_eq, h]
  exact ⟨rfl, rfl⟩

example : c2lPy none [[97], [10, 98], [], [10]] = [[97, 10], [98, 10]] := by
  rw [chunks_to_lines_py_eq]
  simp [splitLines, takeLine, nl]

/-! ## format_highres_date / unpack_highres_date -/

/-- the calendar used for `%Y-%m-%d` is inverted by the parser's day count, for every day -/
theorem calendar_inverse (z : Int) : daysFromCivil (civilFromDays z) = z := days_civil z

/-- **intended behaviour** (seconds taken from the floor, offset printed as
sign/|hh|/|mm| — the proposed patch): for every nanosecond count and every
whole-minute offset below 100 h whose local date has a four-digit year,
unpacking the formatted string returns exactly the inputs. -/
theorem date_roundtrip (nanos offset : Int)
    (hr : inRange (nanos / 1000000000 + offset) = true)
    (h60 : offset % 60 = 0) (hb : offset.natAbs < 360000) :
    unpackHighres (formatHighresFixed nanos offset) = .ok (nanos, offset) := by
  unfold formatHighresFixed
  have hf : (nanos % 1000000000).toNat < 1000000000 := by
    have := Int.emod_lt_of_pos nanos (show (0 : Int) < 1000000000 by omega)
    omega
  rw [unpack_assemble _ _ _ hr hf, parseI32_fixed_offset offset hb]
  simp only []
  have := offsetSeconds_fixed offset h60
  unfold offsetSeconds at this
  rw [this]
  congr 2
  have h0 := Int.emod_nonneg nanos (show (1000000000 : Int) ≠ 0 by omega)
  rw [Int.toNat_of_nonneg h0]
  omega

/-- outside the two defect families the code as written formats exactly like the intended behaviour -/
theorem format_eq_fixed (nanos offset : Int)
    (ho : 0 ≤ offset ∨ offset % 3600 = 0) (hn : 0 ≤ nanos ∨ nanos % 1000000000 = 0) :
    formatHighres nanos offset = formatHighresFixed nanos offset := by
  unfold formatHighres formatHighresFixed
  have hs : tdiv nanos 1000000000 = nanos / 1000000000 := by
    unfold tdiv; split <;> omega
  rw [hs]
  congr 1
  by_cases hneg : offset < 0
  · have h3600 : offset % 3600 = 0 := by omega
    have e1 : tdiv offset 3600 = -((offset.natAbs / 3600 : Nat) : Int) := by
      unfold tdiv; split <;> omega
    have e2 : tmod (tdiv offset 60) 60 = 0 := by
      unfold tmod tdiv; split <;> split <;> omega
    have e3 : offset.natAbs / 60 % 60 = 0 := by omega
    have hk0 : offset.natAbs / 3600 ≠ 0 := by omega
    rw [e1, e2, e3]
    generalize offset.natAbs / 3600 = k at *
    unfold fmtPlus03 fmt02
    have hk : (-(-((k : Nat) : Int))).toNat = k := by omega
    rw [if_neg (by omega), if_pos (by omega), if_pos hneg, hk]
    rfl
  · have e1 : tdiv offset 3600 = ((offset.natAbs / 3600 : Nat) : Int) := by
      unfold tdiv; split <;> omega
    have e2 : tmod (tdiv offset 60) 60 = ((offset.natAbs / 60 % 60 : Nat) : Int) := by
      unfold tmod tdiv; split <;> split <;> omega
    rw [e1, e2]
    generalize offset.natAbs / 3600 = k
    generalize offset.natAbs / 60 % 60 = m
    unfold fmtPlus03 fmt02
    rw [if_pos (by omega), if_pos (by omega), if_neg hneg, Int.toNat_natCast, Int.toNat_natCast]
    rfl

/-- **partial** (the code as written): the round trip holds when the offset is
non-negative or a whole number of hours *and* the timestamp is non-negative or
a whole number of seconds.  Missing: negative offsets that are not whole hours
and negative fractional timestamps — there the real code fails, see the two
witnesses below (DESIGN §7-F11). -/
theorem date_roundtrip_partial (nanos offset : Int)
    (hr : inRange (nanos / 1000000000 + offset) = true)
    (h60 : offset % 60 = 0) (hb : offset.natAbs < 360000)
    (ho : 0 ≤ offset ∨ offset % 3600 = 0) (hn : 0 ≤ nanos ∨ nanos % 1000000000 = 0) :
    unpackHighres (formatHighres nanos offset) = .ok (nanos, offset) := by
  rw [format_eq_fixed nanos offset ho hn]
  exact date_roundtrip nanos offset hr h60 hb

/-- offset −01:30: the code prints ` -01-30`, which its own parser rejects -/
theorem date_roundtrip_witness_offset :
    unpackHighres (formatHighres 0 (-5400)) = .error .badOffset := by
  decide +kernel

/-- t = −1.5 s: the code prints the seconds of −1 with the fraction of −2 + 0.5 and reads back −0.5 s -/
theorem date_roundtrip_witness_negfrac :
    unpackHighres (formatHighres (-1500000000) 0) = .ok (-500000000, 0) := by
  decide +kernel

/-- non-vacuity: a modern timestamp with offset −05:30 satisfies the hypotheses of `date_roundtrip`,
and a negative fractional one too -/
example : inRange (1700000000123456789 / 1000000000 + (-19800)) = true ∧ (-19800 : Int) % 60 = 0 ∧
    (-19800 : Int).natAbs < 360000 := by decide +kernel
example : inRange (-1500000000 / 1000000000 + 5400) = true := by decide +kernel
example : unpackHighres (formatHighresFixed (-1500000000) (-5400)) = .ok (-1500000000, -5400) := by
  decide +kernel
/-- non-vacuity of `date_roundtrip_partial`: offset −02:00, negative whole-second time -/
example : ((0 : Int) ≤ -7200 ∨ (-7200 : Int) % 3600 = 0) ∧ ((0 : Int) ≤ -3000000000 ∨ (-3000000000 : Int) % 1000000000 = 0) ∧
    inRange (-3000000000 / 1000000000 + (-7200)) = true := by decide +kernel

end BreezyVerif.C47
