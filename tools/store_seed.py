#!/usr/bin/env python3
"""tools/store_seed.py <worktree> <seed-id> <property> <change> <needs> <tests> <detected_by>: store a confirmed seeded change"""
import json, os, subprocess, sys, shutil
wt, sid, pid, change, needs, tests, det = sys.argv[1:8]
d = "/verif/seeded/" + sid
os.makedirs(d, exist_ok=True)
diff = subprocess.run(["git", "-C", wt, "diff"], capture_output=True, text=True).stdout
open(d + "/patch.diff", "w").write(diff)
shutil.copy(wt + "/demo.py", d + "/demo.py")
json.dump({"property": pid, "source": "fresh sub-agent given only the property text and a scratch worktree",
           "change": change, "needs_to_manifest": needs,
           "confirmed": {"demo": "cd <worktree> && /venv/bin/python demo.py -> exit 1 with the change, exit 0 without", "tests": tests},
           "detected_by": det}, open(d + "/meta.json", "w"), indent=1)
print(d, len(diff))
