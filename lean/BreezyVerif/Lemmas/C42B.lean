import BreezyVerif.Lemmas.C42
/-!
C42 — helper lemmas, part 2: `rstrip`, the per-entry step, parents.
-/
namespace BreezyVerif.C42

theorem dropWhile_replicate_append (p : Char → Bool) (c : Char) (k : Nat) (l : Str) (hc : p c = true) :
    (List.replicate k c ++ l).dropWhile p = l.dropWhile p := by
  induction k with
  | zero => rfl
  | succ k ih => simp [List.replicate_succ, hc, ih]

theorem pathStr_ends_lastName (s : List Name) : ∃ pre, pathStr s = pre ++ lastName s := by
  induction s with
  | nil => exact ⟨[], rfl⟩
  | cons a s ih =>
    cases s with
    | nil => exact ⟨[], rfl⟩
    | cons b r =>
      obtain ⟨pre, h⟩ := ih
      exact ⟨a ++ '/' :: pre, by simp [pathStr, lastName, h]⟩

theorem lastName_good {s : List Name} (hs : s.all goodName = true) (hne : s ≠ []) :
    goodName (lastName s) = true := by
  induction s with
  | nil => exact absurd rfl hne
  | cons a s ih =>
    simp only [List.all_cons, Bool.and_eq_true] at hs
    cases s with
    | nil => exact hs.1
    | cons b r => exact ih hs.2 (by simp)

/-- `(subdir + "/"*k).rstrip("/")` is `subdir` -/
theorem rstrip_pathStr {s : List Name} (hs : s.all goodName = true) (hne : s ≠ []) (k : Nat) :
    rstripSlash (pathStr s ++ List.replicate k '/') = pathStr s := by
  obtain ⟨pre, h⟩ := pathStr_ends_lastName s
  have g := goodName_iff.mp (lastName_good hs hne)
  unfold rstripSlash
  rw [h]
  simp only [List.reverse_append, List.reverse_replicate, List.append_assoc]
  rw [dropWhile_replicate_append _ _ _ _ (by decide)]
  -- the last name is non-empty and slash-free: nothing more is dropped
  have : ∃ c l, (lastName s).reverse = c :: l ∧ c ≠ '/' := by
    cases hr : (lastName s).reverse with
    | nil => exact absurd (List.reverse_eq_nil_iff.mp hr) g.1
    | cons c l =>
      refine ⟨c, l, rfl, ?_⟩
      intro hc
      apply g.2
      have : c ∈ (lastName s).reverse := by rw [hr]; exact List.mem_cons_self
      rw [← hc]
      exact List.mem_reverse.mp this
  obtain ⟨c, l, hr, hc⟩ := this
  rw [hr]
  have : ((c :: l) ++ pre.reverse).dropWhile (· == '/') = (c :: l) ++ pre.reverse := by
    simp [hc]
  rw [this, ← hr]
  simp

theorem rstrip_slashes (k : Nat) : rstripSlash (List.replicate k '/') = [] := by
  unfold rstripSlash
  have := dropWhile_replicate_append (· == '/') '/' k [] (by decide)
  simp only [List.append_nil] at this
  simp [List.reverse_replicate, this]

theorem pathStr_ne_nil {p : List Name} (hp : p.all goodName = true) (h : p ≠ []) : pathStr p ≠ [] :=
  fun e => h (pathStr_eq_nil hp e)

/-- the loop body of `_export_iter_entries` computes the component-level step
(selection given) -/
theorem step_some_eq (special : Str → Bool) {s : List Name} (c : CEnt)
    (hs : s.all goodName = true) (hne : s ≠ []) (hc : c.cpath.all goodName = true) :
    step special (some (pathStr s)) (render c) = (specStep special (some s) c).map renderItem := by
  unfold step specStep
  by_cases h0 : c.cpath = []
  · simp [h0, render, pathStr]
  · have hp0 : pathStr c.cpath ≠ [] := pathStr_ne_nil hc h0
    simp only [render, hp0, h0, if_false]
    by_cases hsp : special (pathStr c.cpath) = true
    · simp [hsp]
    · simp only [hsp, if_false, Bool.false_eq_true]
      by_cases heq : c.cpath = s
      · have : (some (pathStr c.cpath) = some (pathStr s)) := by rw [heq]
        simp only [this, heq, if_true]
        by_cases hk : c.kind = .dir
        · simp [hk]
        · simp [hk, renderItem, render, pathStr, heq]
      · have hne' : ¬ (some (pathStr c.cpath) = some (pathStr s)) := by
          intro e
          exact heq (pathStr_inj hc hs (Option.some.inj e))
        simp only [hne', heq, if_false]
        obtain ⟨p1, p2⟩ := prefix_iff_below hs hc hne
        simp only [p1]
        by_cases hb : below s c.cpath = true
        · simp [hb, renderItem, render, p2 hb]
        · simp [hb]

/-- … and without a selection -/
theorem step_none_eq (special : Str → Bool) (c : CEnt) (hc : c.cpath.all goodName = true) :
    step special none (render c) = (specStep special none c).map renderItem := by
  unfold step specStep
  by_cases h0 : c.cpath = []
  · simp [h0, render, pathStr]
  · have hp0 : pathStr c.cpath ≠ [] := pathStr_ne_nil hc h0
    simp only [render, hp0, h0, if_false]
    by_cases hsp : special (pathStr c.cpath) = true
    · simp [hsp]
    · simp [hsp, renderItem, render]

/-- a selection made of slashes only (`"/"`) is normalised to the empty text,
which no path equals and which no path lies under -/
theorem step_slash_empty (special : Str → Bool) (c : CEnt) (hc : c.cpath.all goodName = true) :
    step special (some []) (render c) = none := by
  unfold step
  by_cases h0 : c.cpath = []
  · simp [h0, render, pathStr]
  · have hp0 : pathStr c.cpath ≠ [] := pathStr_ne_nil hc h0
    simp only [render, hp0, if_false]
    by_cases hsp : special (pathStr c.cpath) = true
    · simp [hsp]
    · have h1 : ¬ (some (pathStr c.cpath) = some ([] : Str)) := fun e => hp0 (Option.some.inj e)
      simp only [hsp, Bool.false_eq_true, if_false, h1, List.nil_append]
      -- the path does not start with "/": its first name is good
      have : (['/'] : Str).isPrefixOf (pathStr c.cpath) = false := by
        cases hcp : c.cpath with
        | nil => exact absurd hcp h0
        | cons a r =>
          rw [hcp] at hc
          simp only [List.all_cons, Bool.and_eq_true] at hc
          have ga := goodName_iff.mp hc.1
          cases a with
          | nil => exact absurd rfl ga.1
          | cons x a =>
            have hx : x ≠ '/' := fun e => ga.2 (e ▸ List.mem_cons_self)
            cases r with
            | nil => simp [pathStr, List.isPrefixOf, Ne.symm hx]
            | cons b r => simp [pathStr, List.isPrefixOf, Ne.symm hx]
      simp [this]

end BreezyVerif.C42
