import BreezyVerif.Lemmas.C46Fixed
/-!
C46 — clean-tree deletes only what was asked for.

Theorems about the model of `Model/C46.lean` (`extras` of bzr and git trees,
`iter_deletables`, `_filter_out_nested_controldirs`, `delete_items`,
`clean_tree`), for every layout (no bound on size or depth), every option
combination and both tree formats.  Hypotheses: `f.wf` (sibling names distinct
and proper, only directories have content) and, for `never_versioned`,
`f.unvClosed` (nothing versioned below an unversioned entry) — both hold for
every layout a file system + inventory/index can produce; examples below.
-/
namespace BreezyVerif.C46
open Forest

/-- the candidate is in one of the requested classes (`iter_deletables`) -/
def InClass (o : Opts) (it : Item) : Prop :=
  (o.detritus = true ∧ isDetritus (joinPath it.path) = true) ∨
  (o.ignored = true ∧ it.info.ignored = true) ∨
  (o.unknown = true ∧ it.info.ignored = false)

variable {keep : Item → Bool} {fmt : Fmt} {o : Opts} {f : Forest} {it : Item}

/-- every path handed to `delete_items` names an entry of the layout, and the
flags the selection looked at are that entry's flags -/
theorem selected_at (hw : f.wf = true) (h : it ∈ selectedWith keep fmt o f) :
    f.get it.path = some (it.info, it.kids) :=
  get_of_mem_items hw (extras_sub (selected_sub h).1)

/-- every selected path is unversioned, in a requested class, and passed the
final filter -/
theorem deletables_subset (hw : f.wf = true) (h : it ∈ selectedWith keep fmt o f) :
    f.get it.path = some (it.info, it.kids) ∧ it.info.versioned = false ∧ InClass o it ∧
      keep it = true := by
  obtain ⟨he, hwant, hkeep⟩ := selected_sub h
  refine ⟨selected_at hw h, extras_unversioned he, ?_, hkeep⟩
  · unfold wanted at hwant
    unfold InClass
    by_cases hd : (o.detritus && isDetritus (joinPath it.path)) = true
    · left; simpa using hd
    · rw [if_neg hd] at hwant
      by_cases hi : it.info.ignored = true
      · rw [if_pos hi] at hwant; right; left; exact ⟨hwant, hi⟩
      · rw [if_neg hi] at hwant; right; right; exact ⟨hwant, by simpa using hi⟩

/-- never a versioned path, never a directory containing a versioned path:
nothing at or below a selected path is versioned -/
theorem never_versioned (hw : f.wf = true) (hc : f.unvClosed = true) (h : it ∈ selectedWith keep fmt o f)
    {q : Path} {i : Info} {k : Forest} (hq : it.path <+: q) (hg : f.get q = some (i, k)) :
    i.versioned = false := by
  obtain ⟨r, rfl⟩ := hq
  have hit := extras_sub (selected_sub h).1
  have hv := extras_unversioned (selected_sub h).1
  have hget := get_of_mem_items hw hit
  by_cases hr : r = []
  · subst hr
    simp only [List.append_nil] at hg
    rw [hget] at hg
    simp at hg
    rw [← hg.1]; exact hv
  · rw [get_append hget hr] at hg
    exact allUnv_get (unvClosed_items hc hit hv) hg

/-- a dry run deletes nothing -/
theorem dry_run_noop (h : o.dryRun = true) : cleanTreeWith keep fmt o f = (f, false) :=
  cleanTree_noop (Or.inl h)

/-- a declined prompt deletes nothing -/
theorem declined_noop (h : o.prompt = some false) : cleanTreeWith keep fmt o f = (f, false) :=
  cleanTree_noop (Or.inr h)

/-- everything selected is inside the tree: a non-empty relative path of the
layout whose components are proper names (no `..`, no `/`) -/
theorem inside_tree (hw : f.wf = true) (h : it ∈ selectedWith keep fmt o f) :
    it.path ≠ [] ∧ it.path ∈ f.paths ∧
      ∀ c ∈ it.path, c ≠ "" ∧ c ≠ "." ∧ c ≠ ".." ∧ '/' ∉ c.toList := by
  have hm := selected_path_mem h
  refine ⟨?_, hm, paths_components hw hm⟩
  obtain ⟨n, t, e, _⟩ := paths_head hm
  simp [e]

/-- the candidates of `extras()` are pairwise unrelated: none is at or below another -/
theorem extras_antichain (hw : f.wf = true) {a b : Item} (ha : a ∈ extras fmt f)
    (hb : b ∈ extras fmt f) (hp : a.path <+: b.path) : a = b := by
  rcases pairwise_mem_sym (extras_antichain' hw) (fun _ _ h => ⟨h.2, h.1⟩) ha hb with h | h
  · exact h
  · exact absurd hp h.1

/-- exact effect of a real run: no error escapes, and a path survives iff no
selected path is a prefix of it -/
theorem clean_exact (hw : f.wf = true) (hd : o.dryRun = false) (hp : o.prompt ≠ some false) :
    (cleanTreeWith keep fmt o f).2 = false ∧
      ∀ q, q ∈ (cleanTreeWith keep fmt o f).1.paths ↔
        (q ∈ f.paths ∧ ∀ s ∈ selectedWith keep fmt o f, ¬ s.path <+: q) :=
  ⟨(cleanTree_spec (keep := keep) hw hd hp).1, (cleanTree_spec (keep := keep) hw hd hp).2.2⟩

/-- for all options: no error, nothing is created, and whatever disappears lies
at or below a selected path -/
theorem clean_only_selected (hw : f.wf = true) :
    (cleanTreeWith keep fmt o f).2 = false ∧ (∀ q ∈ (cleanTreeWith keep fmt o f).1.paths, q ∈ f.paths) ∧
      ∀ q ∈ f.paths, q ∉ (cleanTreeWith keep fmt o f).1.paths → ∃ s ∈ selectedWith keep fmt o f, s.path <+: q := by
  by_cases hd : o.dryRun = true
  · rw [cleanTree_noop (Or.inl hd)]
    exact ⟨rfl, fun _ h => h, fun _ h h' => absurd h h'⟩
  · by_cases hp : o.prompt = some false
    · rw [cleanTree_noop (Or.inr hp)]
      exact ⟨rfl, fun _ h => h, fun _ h h' => absurd h h'⟩
    · obtain ⟨h1, _, h3⟩ := cleanTree_spec (keep := keep) (fmt := fmt) hw (by simpa using hd) hp
      refine ⟨h1, fun q hq => ((h3 q).mp hq).1, ?_⟩
      intro q hq hnq
      apply Classical.byContradiction
      intro hne
      exact hnq ((h3 q).mpr ⟨hq, fun s hs hpre => hne ⟨s, hs, hpre⟩⟩)

/-- a candidate of `extras()` that the final filter rejects is kept with
everything below it (the candidates are pairwise unrelated, so no other
candidate can take it along) -/
theorem rejected_candidate_kept (hw : f.wf = true) (h : it ∈ extras fmt f) (hk : keep it = false)
    {q : Path} (hq : it.path <+: q) (hm : q ∈ f.paths) :
    q ∈ (cleanTreeWith keep fmt o f).1.paths := by
  apply survives hw hm
  intro s hs hpre
  have hse := (selected_sub hs).1
  have : s = it := by
    rcases List.prefix_or_prefix_of_prefix hpre hq with h' | h'
    · exact extras_antichain hw hse h h'
    · exact (extras_antichain hw h hse h').symm
  subst this
  have := (selected_sub hs).2.2
  rw [hk] at this
  exact absurd this (by simp)

/-- bzr trees: a nested branch directly inside a versioned directory (so that
`extras()` yields it) is kept with everything below it — by the filter as
found and by the proposed repair -/
theorem nested_branch_top_level_kept (flt : Filter) (hw : f.wf = true) (h : it ∈ extras .bzr f)
    (hd : it.info.kind = .dir) (hc : hasCtl it.kids = true) {q : Path} (hq : it.path <+: q)
    (hm : q ∈ f.paths) : q ∈ (cleanTreeWith (keepOf flt f) .bzr o f).1.paths := by
  apply rejected_candidate_kept hw h ?_ hq hm
  cases flt with
  | asFound => simp [keepOf, keepNested, hd, hc]
  | fixed => simp [keepOf, keepFixed, hd, hasCtl_containsCtlName hc]

/-- git trees: a directory holding a `.git` entry (nested git repository,
submodule, worktree link) is kept with everything below it -/
theorem git_nested_git_kept (hw : f.wf = true) {d : Path} {i : Info} {k : Forest}
    (hg : f.get d = some (i, k)) (hd : i.kind = .dir) (hc : k.hasName ".git" = true)
    {q : Path} (hq : d <+: q) (hm : q ∈ f.paths) : q ∈ (cleanTreeWith keep .git o f).1.paths := by
  apply survives hw hm
  intro s hs hpre
  have hse := (selected_sub hs).1
  have hsf : s ∈ filesG f := (List.mem_filter.mp hse).1
  have hnb := filesG_not_below_gitdir hw hg hd hc hsf
  rcases List.prefix_or_prefix_of_prefix hpre hq with h' | h'
  · obtain ⟨r, hr⟩ := h'
    by_cases hr0 : r = []
    · subst hr0
      simp only [List.append_nil] at hr
      exact hnb (hr ▸ List.prefix_refl _)
    · have hget := get_of_mem_items hw (filesG_sub hsf)
      rw [← hr, get_append hget hr0] at hg
      rcases wf_items_kids hw (filesG_sub hsf) with hk | hk
      · exact (filesG_kind hsf).1 hk
      · rw [hk, get_nil] at hg
        simp at hg
  · exact hnb h'

/-- the proposed repair of `_filter_out_nested_controldirs` (`keepFixed`, see
the report of the check) protects every control directory of every layout: no
selected path is an entry with a control name, contains one at any depth, or
lies in a directory below the tree root that holds one -/
theorem fixed_filter_protects (hw : f.wf = true) {s : Item}
    (hs : s ∈ selectedWith (keepFixed f) fmt o f) {d : Path} {c : String}
    (hc : isCtlName c = true) (hm : d ++ [c] ∈ f.paths) :
    ¬ s.path <+: d ++ [c] ∧ (d ≠ [] → ¬ d <+: s.path) :=
  fixed_protects hw hs hc hm

/-! ### what the unchanged code gets wrong (witnesses) -/

private def fl (n : String) (v : Bool := false) : Info :=
  { name := n, kind := .file, versioned := v, ignored := false, valid := false }
private def dr (n : String) (v : Bool := false) (valid : Bool := false) : Info :=
  { name := n, kind := .dir, versioned := v, ignored := false, valid := valid }
private def unknownOnly : Opts := { unknown := true, ignored := false, detritus := false, dryRun := false }

/-- F10: bzr tree, `unk/sub/.bzr`: the unknown directory `unk` is not itself a
branch, so the filter keeps it as a candidate and `rmtree` destroys the nested
branch `unk/sub` -/
theorem nested_branch_deep_witness :
    let f := cons (dr ".bzr" false true) nil <|
      cons (dr "unk") (cons (dr "sub") (cons (dr ".bzr" false true) nil (cons (fl "file") nil nil)) nil) nil
    f.wf = true ∧ f.unvClosed = true ∧ nestedRoots f = [["unk", "sub"]] ∧
      (selected .bzr unknownOnly f).map (·.path) = [["unk"]] ∧
      (cleanTree .bzr unknownOnly f).1.paths = [[".bzr"]] ∧
      selectedWith (keepFixed f) .bzr unknownOnly f = [] := by
  decide

/-- git tree, `nest/.bzr/README`, `nest/file`: the walk prunes `.git` only, the
files of the nested bzr branch and of its control directory are candidates one
by one and are all deleted -/
theorem git_tree_nested_bzr_witness :
    let f := cons (dr ".git" false true) nil <|
      cons (dr "nest") (cons (dr ".bzr" false true) (cons (fl "README") nil nil) (cons (fl "file") nil nil)) nil
    f.wf = true ∧ f.unvClosed = true ∧ nestedRoots f = [["nest"]] ∧
      (selected .git unknownOnly f).map (·.path) = [["nest", ".bzr", "README"], ["nest", "file"]] ∧
      (cleanTree .git unknownOnly f).1.paths = [[".git"], ["nest"], ["nest", ".bzr"]] ∧
      selectedWith (keepFixed f) .git unknownOnly f = [] := by
  decide

/-- bzr tree with a git repository colocated at the root (or in a versioned
directory): `.git` is an unknown directory, `ControlDir.open(".git")` fails, so
it is deleted -/
theorem bzr_tree_git_controldir_witness :
    let f := cons (dr ".bzr" false true) nil <| cons (dr ".git" false true) (cons (fl "HEAD") nil nil) <|
      cons (fl "a" true) nil nil
    f.wf = true ∧ f.unvClosed = true ∧
      (selected .bzr unknownOnly f).map (·.path) = [[".git"]] ∧
      (cleanTree .bzr unknownOnly f).1.paths = [[".bzr"], ["a"]] ∧
      selectedWith (keepFixed f) .bzr unknownOnly f = [] := by
  decide

/-! ### non-vacuity -/

/-- a layout satisfying `wf` and `unvClosed` on which every branch of the
selection is taken: a versioned directory with unknown, ignored and
detritus-named content, a top-level nested branch, an unknown directory -/
private def sample : Forest :=
  cons (dr ".bzr" false true) nil <|
  cons (dr "src" true) (cons (fl "main.c" true) nil <|
    cons { fl "main.o" with ignored := true } nil <| cons (fl "main.c~") nil <| cons (fl "notes") nil nil) <|
  cons (dr "nest") (cons (dr ".bzr" false true) nil (cons (fl "inner") nil nil)) <|
  cons (dr "build") (cons (fl "out") nil nil) nil

example : sample.wf = true ∧ sample.unvClosed = true := by decide

example :
    (selected .bzr { unknown := true, ignored := false, detritus := false, dryRun := false } sample).map (·.path)
      = [["src", "main.c~"], ["src", "notes"], ["build"]] ∧
    (selected .bzr { unknown := false, ignored := true, detritus := true, dryRun := false } sample).map (·.path)
      = [["src", "main.o"], ["src", "main.c~"]] := by decide

/-- hypotheses of `nested_branch_top_level_kept` are satisfiable: `nest` -/
example : ∃ it ∈ extras .bzr sample, it.path = ["nest"] ∧ it.info.kind = .dir ∧ hasCtl it.kids = true := by
  decide

/-- hypotheses of `git_nested_git_kept` are satisfiable -/
example :
    let f := cons (dr ".git" false true) nil <|
      cons (dr "sub") (cons (dr ".git" false true) nil (cons (fl "x") nil nil)) (cons (fl "y") nil nil)
    f.wf = true ∧ (f.get ["sub"]).map (fun x => (x.1.kind, x.2.hasName ".git")) = some (.dir, true) ∧
      (cleanTree .git unknownOnly f).1.paths = [[".git"], ["sub"], ["sub", ".git"], ["sub", "x"]] := by
  decide

/-- a real run that deletes: hypotheses of `clean_exact` -/
example : unknownOnly.dryRun = false ∧ unknownOnly.prompt ≠ some false ∧
    (cleanTree .bzr unknownOnly sample).1.paths =
      [[".bzr"], ["src"], ["src", "main.c"], ["src", "main.o"], ["nest"],
       ["nest", ".bzr"], ["nest", "inner"]] := by decide

end BreezyVerif.C46
