import BreezyVerif.Common
import BreezyVerif.Model.C03
/-
Line-protocol parsing / printing of repositories, shared by the C03 and C08 drivers.

revs  = `id:meta:p.p.p` joined by `;`   (parents `-` when there are none; whole field `-` when empty)
invs  = `id:f.n.t.s,f.n.t.s` joined by `;` (entries `-` when the inventory is empty)
texts = `f.t.c` joined by `;`
-/
namespace BreezyVerif.C03

def parseDots (s : String) : Option (List Nat) :=
  if s == "-" then some [] else (s.splitOn ".").mapM String.toNat?

def parseSemi {α : Type} (f : String → Option α) (s : String) : Option (List α) :=
  if s == "-" then some [] else (s.splitOn ";").mapM f

def parseRev (s : String) : Option (Rev × RevRec) :=
  match s.splitOn ":" with
  | [i, m, ps] => do
      let i ← i.toNat?
      let m ← m.toNat?
      let ps ← parseDots ps
      pure (i, ⟨ps, m⟩)
  | _ => none

def parseEntry (s : String) : Option Entry :=
  match s.splitOn "." with
  | [f, n, t, c] => do pure ⟨← f.toNat?, ← n.toNat?, ← t.toNat?, ← c.toNat?⟩
  | _ => none

def parseInv (s : String) : Option (Rev × Inv) :=
  match s.splitOn ":" with
  | [i, es] => do
      let i ← i.toNat?
      let es ← if es == "-" then some [] else (es.splitOn ",").mapM parseEntry
      pure (i, es)
  | _ => none

def parseText (s : String) : Option (TextKey × Nat) :=
  match s.splitOn "." with
  | [f, t, c] => do pure ((← f.toNat?, ← t.toNat?), ← c.toNat?)
  | _ => none

def parseRepo (r i t : String) : Option Repo := do
  pure ⟨← parseSemi parseRev r, ← parseSemi parseInv i, ← parseSemi parseText t⟩

def dedupSorted : List Nat → List Nat
  | [] => []
  | [x] => [x]
  | x :: y :: rest => if x = y then dedupSorted (y :: rest) else x :: dedupSorted (y :: rest)

def showIds (l : List Nat) : String :=
  joinList ((dedupSorted (l.mergeSort (fun a b => decide (a ≤ b)))).map toString)

def tripleLe (a b : Nat × Nat × Nat) : Bool :=
  a.1 < b.1 || (a.1 == b.1 && (a.2.1 < b.2.1 || (a.2.1 == b.2.1 && a.2.2 ≤ b.2.2)))

/-- first value per key (dictionary semantics), sorted -/
def showTexts (l : List (TextKey × Nat)) : String :=
  let firsts := l.filter fun kv => get l kv.1 == some kv.2
  let keys := (firsts.map fun kv => (kv.1.1, kv.1.2, kv.2)).mergeSort tripleLe
  let rec dd : List (Nat × Nat × Nat) → List (Nat × Nat × Nat)
    | [] => []
    | [x] => [x]
    | x :: y :: rest => if x == y then dd (y :: rest) else x :: dd (y :: rest)
  joinList ((dd keys).map fun t => s!"{t.1}.{t.2.1}.{t.2.2}")

def showRepo (r : Repo) : String :=
  s!"{showIds (r.revs.map (·.1))} {showIds (r.invs.map (·.1))} {showTexts r.texts}"

def parseX (s : String) : Option Exclusion :=
  if s == "found" then some .asFound else if s == "revpresent" then some .revisionPresent else none

end BreezyVerif.C03
