import BreezyVerif.Lemmas.C43E
/-!
C43 — helper lemmas, part 6: kind changes, additions, modifications; the full
upload onto an empty remote.
-/
namespace BreezyVerif.C43

theorem obs_dir {e : TEnt} (h : e.kind = .dir) : e.obs = .dir := by simp [TEnt.obs, h]

theorem obs_ne_dir {e : TEnt} (h : e.kind ≠ .dir) : e.obs ≠ .dir := by
  unfold TEnt.obs
  cases hk : e.kind <;> simp_all

theorem tlook_of_find {t : Tree} {p : Path} {e : TEnt} (h : t.find p = some e) : t.look p = some e.obs := by
  simp [Tree.look, h]

theorem dropLast_ne (p : Path) (hp : p ≠ []) : p.dropLast ≠ p := by
  intro he
  have := congrArg List.length he
  simp at this
  have : p.length ≠ 0 := by simpa using hp
  omega

theorem look_parent' (root : Node) (p : Path) (hp : p ≠ []) (h : look root p ≠ none) :
    look root p.dropLast = some .dir := by
  obtain ⟨par, x, rfl⟩ : ∃ par x, p = par ++ [x] := ⟨_, _, path_split p hp⟩
  rw [dropLast_snoc]
  exact look_parent root par x (by intro hl; apply h; simp [look, hl])

/-! ### kind changes -/

def kcSteps (c : Cfg) (t : Tree) (k : KindChanged) : List Step :=
  (match k.oldKind with
    | .dir => [Step.rmdir (if c.kindChangeAtNew then k.path else k.old)]
    | _ => [Step.delete (if c.kindChangeAtNew then k.path else k.old)]) ++ createSteps c t k.path

def KcOK (t : Tree) (root : Node) (k : KindChanged) : Prop :=
  k.old = k.path ∧ k.path ≠ [] ∧ (∃ e, t.find k.path = some e) ∧
  (k.oldKind = .dir → look root k.path = some .dir ∧ ∀ x, look root (k.path ++ [x]) = none) ∧
  (k.oldKind ≠ .dir → ∃ o, look root k.path = some o ∧ o ≠ .dir)

theorem KcOK.present {t : Tree} {root : Node} {k : KindChanged} (h : KcOK t root k) : look root k.path ≠ none := by
  obtain ⟨_, _, _, h4, h5⟩ := h
  by_cases hk : k.oldKind = .dir
  · rw [(h4 hk).1]; simp
  · obtain ⟨o, ho, _⟩ := h5 hk
    rw [ho]; simp

theorem run_kinds (c : Cfg) (t : Tree) (hrob : c.robustSymlinks = true) (hbad : c.badLinks = []) (ks : List KindChanged) (s : State)
    (h : ∀ k ∈ ks, KcOK t s.root k) (hn : (ks.map (·.path)).Nodup) :
    ∃ r', run c t s (ks.flatMap (kcSteps c t)) = ({ s with root := r' }, none) ∧
      ∀ q, look r' q = if q ∈ ks.map (·.path) then t.look q else look s.root q := by
  induction ks generalizing s with
  | nil => exact ⟨s.root, by cases s; simp [run], by simp⟩
  | cons k ks ih =>
    simp only [List.map_cons, List.nodup_cons] at hn
    have hk := h k List.mem_cons_self
    have hkp := hk.present
    obtain ⟨hold, hp, ⟨e, he⟩, hdir, hnd⟩ := hk
    have hpar : look s.root k.path.dropLast = some .dir := look_parent' s.root k.path hp hkp
    -- remove the old object
    have hstep : ∃ r1, run c t s (match k.oldKind with
          | .dir => [Step.rmdir (if c.kindChangeAtNew then k.path else k.old)]
          | _ => [Step.delete (if c.kindChangeAtNew then k.path else k.old)]) = ({ s with root := r1 }, none) ∧
        ∀ q, look r1 q = if q = k.path then none else look s.root q := by
      have hif : (if c.kindChangeAtNew then k.path else k.old) = k.path := by rw [hold]; simp
      rw [hif]
      cases hkk : k.oldKind with
      | dir =>
        obtain ⟨r1, e1, e2⟩ := exec_rmdir c t s k.path hp (hdir hkk).1 (hdir hkk).2
        exact ⟨r1, by simp [run, e1], e2⟩
      | file =>
        obtain ⟨o, ho1, ho2⟩ := hnd (by simp [hkk])
        obtain ⟨r1, e1, e2⟩ := exec_delete c t s k.path o hp ho1 ho2
        exact ⟨r1, by simp [run, e1], e2⟩
      | symlink =>
        obtain ⟨o, ho1, ho2⟩ := hnd (by simp [hkk])
        obtain ⟨r1, e1, e2⟩ := exec_delete c t s k.path o hp ho1 ho2
        exact ⟨r1, by simp [run, e1], e2⟩
    obtain ⟨r1, e1, e2⟩ := hstep
    -- create the new one
    have hpar1 : look ({ s with root := r1 } : State).root k.path.dropLast = some .dir := by
      show look r1 _ = _
      rw [e2]; simp [dropLast_ne k.path hp, hpar]
    have hslot1 : look ({ s with root := r1 } : State).root k.path = none := by
      show look r1 _ = _
      rw [e2]; simp
    obtain ⟨r2, c1, c2⟩ := run_create c t { s with root := r1 } k.path e hp hrob hbad he hpar1 hslot1
    simp only at c2
    have hr2 : ∀ q, look r2 q = if q = k.path then some e.obs else look s.root q := by
      intro q; rw [c2 q, e2 q]; by_cases hq : q = k.path <;> simp [hq]
    -- the remaining kind changes still see what they need
    have h' : ∀ k' ∈ ks, KcOK t ({ s with root := r2 } : State).root k' := by
      intro k' hk'
      have hne : k'.path ≠ k.path := fun e => hn.1 (List.mem_map.mpr ⟨k', hk', e⟩)
      have hk0 := h k' (List.mem_cons_of_mem _ hk')
      obtain ⟨a1, a2, a3, a4, a5⟩ := hk0
      refine ⟨a1, a2, a3, ?_, ?_⟩
      · intro hd
        obtain ⟨b1, b2⟩ := a4 hd
        refine ⟨by show look r2 _ = _; rw [hr2]; simp [hne, b1], ?_⟩
        intro x
        show look r2 _ = _
        rw [hr2]
        by_cases hx : k'.path ++ [x] = k.path
        · exfalso
          have := b2 x
          rw [hx] at this
          exact hkp this
        · simp [hx, b2 x]
      · intro hd
        obtain ⟨o, b1, b2⟩ := a5 hd
        exact ⟨o, by show look r2 _ = _; rw [hr2]; simp [hne, b1], b2⟩
    obtain ⟨r', f1, f2⟩ := ih { s with root := r2 } h' hn.2
    refine ⟨r', ?_, ?_⟩
    · rw [List.flatMap_cons]
      unfold kcSteps
      rw [run_append, run_append, e1]
      simp only
      rw [c1]
      simp only
      exact f1
    · intro q
      rw [f2 q]
      simp only
      rw [hr2 q]
      by_cases hq : q = k.path
      · subst hq
        simp [tlook_of_find he]
      · simp [hq]

/-! ### additions -/

def AddOK (t : Tree) (root : Node) (ps : List Path) (p : Path) : Prop :=
  p ≠ [] ∧ (∃ e, t.find p = some e) ∧ look root p = none ∧
    (look root p.dropLast = some .dir ∨ (p.dropLast ∈ ps ∧ kindAt t p.dropLast = some .dir))

theorem run_adds (c : Cfg) (t : Tree) (hrob : c.robustSymlinks = true) (hbad : c.badLinks = []) (ps : List Path) (s : State)
    (h : ∀ p ∈ ps, AddOK t s.root ps p) (hord : ps.Pairwise fun a b => a ≠ b ∧ ∀ x, a ≠ b ++ [x]) :
    ∃ r', run c t s (ps.flatMap (createSteps c t)) = ({ s with root := r' }, none) ∧
      ∀ q, look r' q = if q ∈ ps then t.look q else look s.root q := by
  induction ps generalizing s with
  | nil => exact ⟨s.root, by cases s; simp [run], by simp⟩
  | cons p ps ih =>
    rw [List.pairwise_cons] at hord
    obtain ⟨hp, ⟨e, he⟩, hslot, hparent⟩ := h p List.mem_cons_self
    have hpar : look s.root p.dropLast = some .dir := by
      rcases hparent with h1 | ⟨h1, _⟩
      · exact h1
      · rcases List.mem_cons.mp h1 with h2 | h2
        · exact absurd h2 (dropLast_ne p hp)
        · exact absurd (path_split p hp) ((hord.1 _ h2).2 _)
    obtain ⟨r1, c1, c2⟩ := run_create c t s p e hp hrob hbad he hpar hslot
    have h' : ∀ p' ∈ ps, AddOK t ({ s with root := r1 } : State).root ps p' := by
      intro p' hp'
      have hne : p' ≠ p := fun e => (hord.1 p' hp').1 e.symm
      obtain ⟨a1, a2, a3, a4⟩ := h p' (List.mem_cons_of_mem _ hp')
      refine ⟨a1, a2, by show look r1 _ = _; rw [c2]; simp [hne, a3], ?_⟩
      show look r1 _ = _ ∨ _
      rw [c2]
      by_cases hd : p'.dropLast = p
      · left
        simp only [hd, if_true]
        rcases a4 with b | ⟨_, b⟩
        · rw [hd, hslot] at b; cases b
        · rw [hd] at b
          simp only [kindAt, he, Option.map_some, Option.some.injEq] at b
          rw [obs_dir b]
      · simp only [hd, if_false]
        rcases a4 with b | ⟨b1, b2⟩
        · exact Or.inl b
        · rcases List.mem_cons.mp b1 with b3 | b3
          · exact absurd b3 hd
          · exact Or.inr ⟨b3, b2⟩
    obtain ⟨r', f1, f2⟩ := ih { s with root := r1 } h' hord.2
    refine ⟨r', ?_, ?_⟩
    · rw [List.flatMap_cons, run_append, c1]
      simp only
      exact f1
    · intro q
      rw [f2 q]
      simp only
      rw [c2 q]
      by_cases hq : q = p
      · subst hq
        simp [tlook_of_find he]
      · simp [hq]

/-! ### modifications -/

def modSteps (c : Cfg) (t : Tree) (p : Path) : List Step :=
  match t.find p with
  | some e =>
    (match e.kind with
      | .file => [Step.uploadFile p p]
      | .symlink => [symlinkStep c p e.target]
      | .dir => [Step.fail .notImplemented])
  | none => [Step.fail .treeError]

def ModOK (t : Tree) (root : Node) (p : Path) : Prop :=
  p ≠ [] ∧ (∃ e, t.find p = some e ∧ e.kind ≠ .dir) ∧ look root p.dropLast = some .dir ∧ look root p ≠ some .dir

theorem run_mods (c : Cfg) (t : Tree) (hrob : c.robustSymlinks = true) (hbad : c.badLinks = []) (ps : List Path) (s : State)
    (h : ∀ p ∈ ps, ModOK t s.root p) :
    ∃ r', run c t s (ps.flatMap (modSteps c t)) = ({ s with root := r' }, none) ∧
      ∀ q, look r' q = if q ∈ ps then t.look q else look s.root q := by
  induction ps generalizing s with
  | nil => exact ⟨s.root, by cases s; simp [run], by simp⟩
  | cons p ps ih =>
    obtain ⟨hp, ⟨e, he, hk⟩, hpar, hslot⟩ := h p List.mem_cons_self
    have hstep : ∃ r1, run c t s (modSteps c t p) = ({ s with root := r1 }, none) ∧
        ∀ q, look r1 q = if q = p then some e.obs else look s.root q := by
      unfold modSteps
      rw [he]
      cases hkk : e.kind with
      | dir => exact absurd hkk hk
      | file =>
        obtain ⟨r1, e1, e2⟩ := exec_uploadFile c t s p e hp he hkk hpar hslot
        exact ⟨r1, by simp [hkk, run, e1], e2⟩
      | symlink =>
        obtain ⟨r1, e1, e2⟩ := exec_symlinkRobust c t s p e.target hp (Or.inl hrob) hbad hpar hslot
        refine ⟨r1, by simp [hkk, run, symlinkStep, hrob, e1], ?_⟩
        intro q; rw [e2 q]; simp [TEnt.obs, hkk]
    obtain ⟨r1, c1, c2⟩ := hstep
    have h' : ∀ p' ∈ ps, ModOK t ({ s with root := r1 } : State).root p' := by
      intro p' hp'
      obtain ⟨a1, a2, a3, a4⟩ := h p' (List.mem_cons_of_mem _ hp')
      refine ⟨a1, a2, ?_, ?_⟩
      · show look r1 _ = _
        rw [c2]
        have : p'.dropLast ≠ p := by
          intro hd; rw [hd] at a3; exact hslot a3
        simp [this, a3]
      · show look r1 _ ≠ _
        rw [c2]
        by_cases hq : p' = p
        · simp only [hq, if_true, ne_eq, Option.some.injEq]
          exact obs_ne_dir hk
        · simp only [hq, if_false]; exact a4
    obtain ⟨r', f1, f2⟩ := ih { s with root := r1 } h'
    refine ⟨r', ?_, ?_⟩
    · rw [List.flatMap_cons, run_append, c1]
      simp only
      exact f1
    · intro q
      rw [f2 q]
      simp only
      rw [c2 q]
      by_cases hq : q = p
      · subst hq
        simp [tlook_of_find he]
      · simp [hq]

/-! ### the full upload onto an empty remote -/

theorem ignored_prefix (ign : List String) (par : Path) (x : String) (h : ignored ign (par ++ [x]) = false) :
    ignored ign par = false := by
  unfold ignored at h ⊢
  rw [List.any_append] at h
  simp only [Bool.or_eq_false_iff] at h
  exact h.1

theorem ignored_dropLast (ign : List String) (p : Path) (hp : p ≠ []) (h : ignored ign p = false) :
    ignored ign p.dropLast = false := by
  rw [path_split p hp] at h
  exact ignored_prefix ign _ _ h

theorem find_append_single (pre : Tree) (e : TEnt) (q : Path) :
    Tree.find (pre ++ [e]) q = (match Tree.find pre q with
      | some d => some d
      | none => if e.path = q then some e else none) := by
  unfold Tree.find
  rw [List.find?_append]
  cases List.find? (fun e => e.path == q) pre with
  | some d => rfl
  | none =>
    by_cases h : e.path = q
    · simp [List.find?, h]
    · have : (e.path == q) = false := by simp [h]
      simp [List.find?, h, this]

theorem find_none_of_not_any (pre : Tree) (p : Path) (h : (pre.any fun d => d.path == p) = false) :
    Tree.find pre p = none := by
  unfold Tree.find
  rw [List.find?_eq_none]
  intro d hd
  rw [List.any_eq_false] at h
  exact h d hd

/-- the step of the full upload for entry `e` -/
def fullStep (e : TEnt) : Step :=
  match e.kind with
  | .file => Step.fileRobust e.path
  | .symlink => Step.symlinkRobust e.path e.target
  | .dir => Step.mkdirRobust e.path

def keepFull (ign : List String) (e : TEnt) : Bool :=
  e.path != [] && e.path != [".bzrignore"] && e.path != [".bzrignore-upload"] && !ignored ign e.path

theorem planFull_eq (ign : List String) (t : Tree) : planFull ign t = (t.filter (keepFull ign)).map fullStep := by
  unfold planFull
  congr 1

theorem keepFull_iff (ign : List String) (e : TEnt) (hp : e.path ≠ []) :
    keepFull ign e = (!(ignored ign e.path || special e.path)) := by
  unfold keepFull special
  have : (e.path != []) = true := by simp [hp]
  rw [this]
  cases ignored ign e.path <;> cases h1 : (e.path == [".bzrignore"]) <;> cases h2 : (e.path == [".bzrignore-upload"]) <;>
    simp_all [bne]

/-- the remote after the entries `pre` have been uploaded -/
def FullInv (ign : List String) (pre : Tree) (root : Node) : Prop :=
  look root [] = some .dir ∧
    ∀ q, q ≠ [] → look root q = if ignored ign q || special q then none else pre.look q

theorem exec_full_step (c : Cfg) (t : Tree) (s : State) (e : TEnt) (hbad : c.badLinks = []) (hp : e.path ≠ [])
    (he : t.find e.path = some e)
    (hpar : look s.root e.path.dropLast = some .dir) (hslot : look s.root e.path = none) :
    ∃ r', exec c t s (fullStep e) = ({ s with root := r' }, none) ∧
      ∀ q, look r' q = if q = e.path then some e.obs else look s.root q := by
  unfold fullStep
  cases hk : e.kind with
  | file =>
    have hl := look_none hslot
    have hs := path_split e.path hp
    have hslot' : look s.root e.path ≠ some .dir := by simp [hslot]
    rw [hs] at hslot'
    obtain ⟨r', h1, h2⟩ := tPut_spec s.root _ _ e.content e.exec hpar hslot'
    rw [← hs] at h1 h2
    refine ⟨r', by simp [exec, forceClear, hl, lift, doUploadFile, he, hk, h1], ?_⟩
    intro q; rw [h2 q]; simp [TEnt.obs, hk]
  | symlink =>
    obtain ⟨r', h1, h2⟩ := exec_symlinkRobust c t s e.path e.target hp (Or.inr hslot) hbad hpar (by simp [hslot])
    refine ⟨r', h1, ?_⟩
    intro q; rw [h2 q]; simp [TEnt.obs, hk]
  | dir =>
    have hl := look_none hslot
    have hs := path_split e.path hp
    rw [hs] at hslot
    obtain ⟨r', h1, h2⟩ := tMkdir_spec s.root _ _ hpar hslot
    rw [← hs] at h1 h2
    refine ⟨r', by simp [exec, hl, lift, h1], ?_⟩
    intro q; rw [h2 q]; simp [TEnt.obs, hk]

theorem run_full (c : Cfg) (ign : List String) (t : Tree) (hbad : c.badLinks = []) (rest : Tree) (pre : Tree) (s : State)
    (hwf : wfFrom pre rest = true) (hfind : ∀ e ∈ rest, t.find e.path = some e)
    (hsp : ∀ d ∈ pre, special d.path = true → d.kind ≠ .dir)
    (hinv : FullInv ign pre s.root) :
    ∃ r', run c t s ((rest.filter (keepFull ign)).map fullStep) = ({ s with root := r' }, none) ∧
      FullInv ign (pre ++ rest) r' := by
  induction rest generalizing pre s with
  | nil => exact ⟨s.root, by cases s; simp [run], by simpa using hinv⟩
  | cons e rest ih =>
    simp only [wfFrom, Bool.and_eq_true] at hwf
    obtain ⟨hok, hwf'⟩ := hwf
    simp only [parentOK, Bool.and_eq_true, bne_iff_ne, ne_eq, Bool.not_eq_true', Bool.or_eq_true, beq_iff_eq] at hok
    obtain ⟨⟨⟨hp, hnew⟩, hparent⟩, hspe⟩ := hok
    have hpre_none : Tree.find pre e.path = none := find_none_of_not_any pre e.path hnew
    have hsp' : ∀ d ∈ pre ++ [e], special d.path = true → d.kind ≠ .dir := by
      intro d hd hs
      rcases List.mem_append.mp hd with h | h
      · exact hsp d h hs
      · simp only [List.mem_singleton] at h
        subst h
        intro hk
        simp [hs, hk] at hspe
    have hfind' : ∀ e' ∈ rest, t.find e'.path = some e' := fun e' he' => hfind e' (List.mem_cons_of_mem _ he')
    have hlook_ext : ∀ q, q ≠ e.path → Tree.look (pre ++ [e]) q = Tree.look pre q := by
      intro q hq
      unfold Tree.look
      rw [find_append_single]
      cases Tree.find pre q with
      | some d => rfl
      | none => simp [Ne.symm hq]
    by_cases hkeep : keepFull ign e = true
    · -- uploaded
      have hskip : (ignored ign e.path || special e.path) = false := by
        have := keepFull_iff ign e hp
        rw [hkeep] at this
        simpa using this.symm
      simp only [Bool.or_eq_false_iff] at hskip
      have hpar : look s.root e.path.dropLast = some .dir := by
        by_cases h0 : e.path.dropLast = []
        · rw [h0]; exact hinv.1
        · rcases hparent with h | h
          · exact absurd h h0
          · rw [hinv.2 _ h0, ignored_dropLast ign e.path hp hskip.1]
            simp only [kindAt, Option.map_eq_some_iff] at h
            obtain ⟨d, hd, hdk⟩ := h
            have hsd : special e.path.dropLast = false := by
              cases hs : special e.path.dropLast with
              | false => rfl
              | true =>
                exfalso
                have := hsp d (find_mem hd) (by rw [find_path hd]; exact hs)
                exact this hdk
            simp [hsd, tlook_of_find hd, obs_dir hdk]
      have hslot : look s.root e.path = none := by
        rw [hinv.2 _ hp]
        simp [hskip.1, hskip.2, Tree.look, hpre_none]
      obtain ⟨r1, e1, e2⟩ := exec_full_step c t s e hbad hp (hfind e List.mem_cons_self) hpar hslot
      have hinv' : FullInv ign (pre ++ [e]) ({ s with root := r1 } : State).root := by
        refine ⟨by show look r1 [] = _; rw [e2]; simp [Ne.symm hp, hinv.1], ?_⟩
        intro q hq
        show look r1 q = _
        rw [e2]
        by_cases hqe : q = e.path
        · subst hqe
          simp only [if_true, hskip.1, hskip.2, Bool.or_false, Bool.false_eq_true, if_false]
          rw [Tree.look, find_append_single, hpre_none]
          simp
        · simp only [hqe, if_false]
          rw [hinv.2 q hq, hlook_ext q hqe]
      obtain ⟨r', f1, f2⟩ := ih (pre ++ [e]) { s with root := r1 } hwf' hfind' hsp' hinv'
      refine ⟨r', ?_, by simpa [List.append_assoc] using f2⟩
      simp only [List.filter_cons, hkeep, if_true, List.map_cons, run, e1]
      exact f1
    · -- skipped: ignored, or one of the two special files
      have hskip : (ignored ign e.path || special e.path) = true := by
        have := keepFull_iff ign e hp
        cases hk : keepFull ign e with
        | true => exact absurd hk hkeep
        | false =>
          rw [hk] at this
          cases hi : ignored ign e.path <;> cases hs : special e.path <;> simp [hi, hs] at this ⊢
      have hinv' : FullInv ign (pre ++ [e]) s.root := by
        refine ⟨hinv.1, ?_⟩
        intro q hq
        rw [hinv.2 q hq]
        by_cases hqe : q = e.path
        · subst hqe; simp [hskip]
        · rw [hlook_ext q hqe]
      obtain ⟨r', f1, f2⟩ := ih (pre ++ [e]) s hwf' hfind' hsp' hinv'
      refine ⟨r', ?_, by simpa [List.append_assoc] using f2⟩
      simp only [List.filter_cons, hkeep, if_false]
      exact f1

theorem wf_find (pre rest : Tree) (hwf : wfFrom pre rest = true) (hpre : ∀ e ∈ pre, Tree.find pre e.path = some e) :
    ∀ e ∈ pre ++ rest, Tree.find (pre ++ rest) e.path = some e := by
  induction rest generalizing pre with
  | nil => simpa using hpre
  | cons e rest ih =>
    simp only [wfFrom, Bool.and_eq_true] at hwf
    obtain ⟨hok, hwf'⟩ := hwf
    simp only [parentOK, Bool.and_eq_true, bne_iff_ne, ne_eq, Bool.not_eq_true'] at hok
    have hnone : Tree.find pre e.path = none := find_none_of_not_any pre e.path hok.1.1.2
    have := ih (pre ++ [e]) hwf' (by
      intro d hd
      rw [find_append_single]
      rcases List.mem_append.mp hd with h | h
      · rw [hpre d h]
      · simp only [List.mem_singleton] at h
        subst h
        rw [hnone]; simp)
    simpa [List.append_assoc] using this

/-- every entry of a well-formed tree has a real path and a parent directory in the tree -/
theorem wf_parent (pre rest : Tree) (hwf : wfFrom pre rest = true) :
    ∀ e ∈ rest, e.path ≠ [] ∧ (e.path.dropLast = [] ∨ kindAt (pre ++ rest) e.path.dropLast = some .dir)
      ∧ (special e.path = true → e.kind ≠ .dir) := by
  induction rest generalizing pre with
  | nil => intro e he; cases he
  | cons e rest ih =>
    simp only [wfFrom, Bool.and_eq_true] at hwf
    obtain ⟨hok, hwf'⟩ := hwf
    simp only [parentOK, Bool.and_eq_true, bne_iff_ne, ne_eq, Bool.not_eq_true', Bool.or_eq_true, beq_iff_eq] at hok
    obtain ⟨⟨⟨hp, _⟩, hparent⟩, hspe⟩ := hok
    intro d hd
    rcases List.mem_cons.mp hd with rfl | hd
    · refine ⟨hp, ?_, ?_⟩
      · rcases hparent with h | h
        · exact Or.inl h
        · right
          simp only [kindAt, Option.map_eq_some_iff] at h ⊢
          obtain ⟨x, hx, hxk⟩ := h
          refine ⟨x, ?_, hxk⟩
          unfold Tree.find at hx ⊢
          rw [List.find?_append, hx]; rfl
      · intro hs hk
        simp [hs, hk] at hspe
    · have := ih (pre ++ [e]) hwf' d hd
      simpa [List.append_assoc] using this

end BreezyVerif.C43
