import BreezyVerif.Model.C48
/-! helper lemmas for Props/C48.lean -/
namespace BreezyVerif.C48

/-! ### generic list facts -/

theorem find?_congr_mem {α : Type} {p q : α → Bool} {l : List α} (h : ∀ x ∈ l, p x = q x) :
    l.find? p = l.find? q := by
  induction l with
  | nil => rfl
  | cons a l ih =>
    have ha := h a (by simp)
    have ih' := ih (fun x hx => h x (by simp [hx]))
    simp only [List.find?_cons, ha, ih']

theorem findSome?_ite_eq_find? {α : Type} (c : α → Bool) (l : List α) :
    l.findSome? (fun p => if c p then some p else none) = l.find? c := by
  induction l with
  | nil => rfl
  | cons a l ih =>
    simp only [List.findSome?_cons, List.find?_cons]
    cases h : c a <;> simp [ih]

theorem findSome?_const_ite {α β : Type} (m : α → Bool) (b : β) (l : List α) :
    l.findSome? (fun s => if m s then some b else none) = if l.any m then some b else none := by
  induction l with
  | nil => rfl
  | cons a l ih =>
    simp only [List.findSome?_cons, List.any_cons]
    by_cases h : m a = true
    · simp [h]
    · have h' : m a = false := by simpa using h
      simp [h', ih]

/-! ### chunks -/

theorem chunksF_flatten {α : Type} (g : Nat) (hg : 0 < g) :
    ∀ (n : Nat) (l : List α), l.length ≤ n → (chunksF g n l).flatten = l := by
  intro n
  induction n with
  | zero =>
    intro l h
    have : l = [] := List.eq_nil_of_length_eq_zero (by omega)
    subst this; rfl
  | succ n ih =>
    intro l h
    unfold chunksF
    by_cases he : l.isEmpty
    · simp only [he, if_true]
      have : l = [] := by simpa using he
      subst this; rfl
    · simp only [he]
      have hne : l ≠ [] := by simpa using he
      have hlen : 0 < l.length := List.length_pos_iff.mpr hne
      have : (l.drop g).length ≤ n := by simp only [List.length_drop]; omega
      simp [ih _ this]

theorem chunks_flatten {α : Type} (g : Nat) (hg : 0 < g) (l : List α) : (chunks g l).flatten = l :=
  chunksF_flatten g hg l.length l (Nat.le_refl _)

theorem chunksF_sub {α : Type} (g : Nat) :
    ∀ (n : Nat) (l : List α), ∀ grp ∈ chunksF g n l, ∀ x ∈ grp, x ∈ l := by
  intro n
  induction n with
  | zero => intro l grp h; simp [chunksF] at h
  | succ n ih =>
    intro l grp h x hx
    unfold chunksF at h
    by_cases he : l.isEmpty
    · simp [he] at h
    · simp only [he] at h
      rcases List.mem_cons.mp h with h | h
      · subst h; exact List.mem_of_mem_take hx
      · exact List.mem_of_mem_drop (ih _ grp h x hx)

theorem chunks_sub {α : Type} (g : Nat) (l : List α) : ∀ grp ∈ chunks g l, ∀ x ∈ grp, x ∈ l :=
  chunksF_sub g l.length l

/-! ### matching of one pattern by kind -/

theorem cpMatches_eq (p : CPat) (name : List Char) : cpMatches p name = kindMatches p.kind p name := by
  unfold cpMatches kindMatches; cases p.kind <;> rfl

theorem groupMatch_some {k : Kind} {grp : List CPat} {name : List Char} {p : CPat}
    (h : groupMatch k grp name = some p) : p ∈ grp ∧ kindMatches k p name = true := by
  cases k with
  | full =>
    simp only [groupMatch] at h
    exact ⟨List.mem_of_find?_eq_some h, by simpa [kindMatches] using List.find?_some h⟩
  | base =>
    simp only [groupMatch] at h
    exact ⟨List.mem_of_find?_eq_some h, by simpa [kindMatches] using List.find?_some h⟩
  | ext =>
    simp only [groupMatch] at h
    obtain ⟨s, hs, hf⟩ := List.exists_of_findSome?_eq_some h
    refine ⟨List.mem_of_find?_eq_some hf, ?_⟩
    have := List.find?_some hf
    simp only [kindMatches, List.any_eq_true]
    exact ⟨s, by simpa using hs, this⟩

theorem groupMatch_isSome {k : Kind} {grp : List CPat} {name : List Char} {p : CPat}
    (hp : p ∈ grp) (hm : kindMatches k p name = true) : (groupMatch k grp name).isSome = true := by
  cases k with
  | full =>
    simp only [groupMatch, List.find?_isSome]
    exact ⟨p, hp, by simpa [kindMatches] using hm⟩
  | base =>
    simp only [groupMatch, List.find?_isSome]
    exact ⟨p, hp, by simpa [kindMatches] using hm⟩
  | ext =>
    simp only [kindMatches, List.any_eq_true] at hm
    obtain ⟨s, hs, hms⟩ := hm
    simp only [groupMatch, List.findSome?_isSome_iff, List.find?_isSome]
    exact ⟨s, by simpa using hs, p, hp, hms⟩

theorem find?_singleton {α : Type} (f : α → Bool) (a : α) :
    [a].find? f = if f a then some a else none := by
  cases h : f a <;> simp [h]

theorem groupMatch_single (k : Kind) (p : CPat) (name : List Char) :
    groupMatch k [p] name = if kindMatches k p name then some p else none := by
  cases k with
  | full => simp only [groupMatch, kindMatches, find?_singleton]; rfl
  | base => simp only [groupMatch, kindMatches, find?_singleton]; rfl
  | ext =>
    simp only [groupMatch, kindMatches, find?_singleton]
    rw [findSome?_const_ite, List.any_reverse]
    rfl

theorem mem_ofKind {k : Kind} {cps : List CPat} {p : CPat} : p ∈ ofKind k cps ↔ p ∈ cps ∧ p.kind = k := by
  simp [ofKind]

theorem mem_groups {g : Nat} {cps : List CPat} {k : Kind} {grp : List CPat}
    (h : (k, grp) ∈ groups g cps) : grp ∈ chunks g (ofKind k cps) := by
  simp only [groups, typeOrder, List.mem_flatMap, List.mem_map] at h
  obtain ⟨k', _, grp', hg, he⟩ := h
  cases he
  exact hg

theorem groups_mem {g : Nat} {cps : List CPat} {k : Kind} {grp : List CPat}
    (h : grp ∈ chunks g (ofKind k cps)) : (k, grp) ∈ groups g cps := by
  simp only [groups, typeOrder, List.mem_flatMap, List.mem_map]
  exact ⟨k, by cases k <;> simp, grp, h, rfl⟩

/-! ### the extension group when at most one dot-suffix is matched -/

theorem ext_group_unamb (exts grp : List CPat) (hsub : ∀ p ∈ grp, p ∈ exts) :
    ∀ (L : List (List Char)),
      (L.filter fun s => exts.any fun p => bodyMatch p s).length ≤ 1 →
      L.findSome? (fun s => grp.find? fun p => bodyMatch p s) = grp.find? fun p => L.any (bodyMatch p) := by
  intro L
  induction L with
  | nil =>
    intro _
    simp only [List.findSome?_nil, List.any_nil]
    exact (List.find?_eq_none.mpr (by simp)).symm
  | cons s L ih =>
    intro h
    by_cases hs : (exts.any fun p => bodyMatch p s) = true
    · -- `s` is matched: nothing in `L` is
      simp only [List.filter_cons, hs, if_true, List.length_cons] at h
      have hnil : (L.filter fun s => exts.any fun p => bodyMatch p s) = [] :=
        List.eq_nil_of_length_eq_zero (by omega)
      have hnone : ∀ p ∈ grp, L.any (bodyMatch p) = false := by
        intro p hp
        apply Bool.eq_false_iff.mpr
        intro hany
        obtain ⟨t, ht, hm⟩ := List.any_eq_true.mp hany
        have : t ∈ L.filter fun s => exts.any fun p => bodyMatch p s := by
          simp only [List.mem_filter, List.any_eq_true]
          exact ⟨ht, p, hsub p hp, hm⟩
        rw [hnil] at this
        exact absurd this (by simp)
      have hrhs : (grp.find? fun p => (s :: L).any (bodyMatch p)) = grp.find? fun p => bodyMatch p s := by
        apply find?_congr_mem
        intro p hp
        simp [hnone p hp]
      rw [hrhs, List.findSome?_cons]
      cases hf : grp.find? (fun p => bodyMatch p s) with
      | some q => rfl
      | none =>
        simp only
        rw [ih (by rw [hnil]; simp)]
        rw [List.find?_eq_none]
        intro p hp
        simp [hnone p hp]
    · -- `s` is matched by nothing
      have hs' : (exts.any fun p => bodyMatch p s) = false := by simpa using hs
      simp only [List.filter_cons, hs', Bool.false_eq_true, if_false] at h
      have hno : ∀ p ∈ grp, bodyMatch p s = false := by
        intro p hp
        apply Bool.eq_false_iff.mpr
        intro hm
        have : (exts.any fun p => bodyMatch p s) = true := List.any_eq_true.mpr ⟨p, hsub p hp, hm⟩
        rw [hs'] at this
        exact absurd this (by simp)
      have hfn : grp.find? (fun p => bodyMatch p s) = none := by
        rw [List.find?_eq_none]; intro p hp; simp [hno p hp]
      rw [List.findSome?_cons, hfn]
      simp only
      rw [ih h]
      apply find?_congr_mem
      intro p hp
      simp [hno p hp]

/-! ### matcher facts -/

theorem matchToks_lits (full : Bool) (e s : List Char) :
    matchToks full (e.map Tok.lit) s = true ↔ s = e := by
  induction e generalizing s with
  | nil => cases s <;> simp [matchToks]
  | cons c e ih =>
    cases s with
    | nil => simp [matchToks]
    | cons x s =>
      simp only [List.map_cons, matchToks, Bool.and_eq_true, beq_iff_eq, ih, List.cons.injEq]

theorem afterSlash_iff (k : List Char → Bool) (s : List Char) :
    afterSlash k s = true ↔ ∃ d r, s = d ++ '/' :: r ∧ k r = true := by
  induction s with
  | nil => simp [afterSlash]
  | cons x s ih =>
    simp only [afterSlash, Bool.or_eq_true, Bool.and_eq_true, beq_iff_eq, ih]
    constructor
    · rintro (⟨hx, hk⟩ | ⟨d, r, hs, hk⟩)
      · exact ⟨[], s, by simp [hx], hk⟩
      · exact ⟨x :: d, r, by simp [hs], hk⟩
    · rintro ⟨d, r, hs, hk⟩
      cases d with
      | nil =>
        simp only [List.nil_append, List.cons.injEq] at hs
        left; exact ⟨hs.1, hs.2 ▸ hk⟩
      | cons y d =>
        simp only [List.cons_append, List.cons.injEq] at hs
        right; exact ⟨d, r, hs.2, hk⟩

theorem afterSlash_no_slash (k : List Char → Bool) (s : List Char) (h : '/' ∉ s) :
    afterSlash k s = false := by
  apply Bool.eq_false_iff.mpr
  intro ht
  obtain ⟨d, r, hs, _⟩ := (afterSlash_iff k s).mp ht
  exact h (by simp [hs])

theorem starLoop_iff (ok : Char → Bool) (k : List Char → Bool) (s : List Char) :
    starLoop ok k s = true ↔ ∃ u v, s = u ++ v ∧ (∀ c ∈ u, ok c = true) ∧ k v = true := by
  induction s with
  | nil =>
    simp only [starLoop]
    constructor
    · intro h; exact ⟨[], [], rfl, by simp, h⟩
    · rintro ⟨u, v, hs, _, hk⟩
      have := List.append_eq_nil_iff.mp hs.symm
      rw [this.2] at hk; exact hk
  | cons x s ih =>
    simp only [starLoop, Bool.or_eq_true, Bool.and_eq_true, ih]
    constructor
    · rintro (hk | ⟨hx, u, v, hs, hu, hk⟩)
      · exact ⟨[], x :: s, rfl, by simp, hk⟩
      · exact ⟨x :: u, v, by simp [hs], by simpa [hx] using hu, hk⟩
    · rintro ⟨u, v, hs, hu, hk⟩
      cases u with
      | nil => left; simp only [List.nil_append] at hs; rw [hs]; exact hk
      | cons y u =>
        simp only [List.cons_append, List.cons.injEq] at hs
        right
        refine ⟨?_, u, v, hs.2, fun c hc => hu c (by simp [hc]), hk⟩
        rw [hs.1]; exact hu y (by simp)

theorem starLoop_congr (ok1 ok2 : Char → Bool) (k1 k2 : List Char → Bool) (P : Char → Prop)
    (hok : ∀ c, P c → ok1 c = ok2 c) (hk : ∀ s, (∀ c ∈ s, P c) → k1 s = k2 s) :
    ∀ s, (∀ c ∈ s, P c) → starLoop ok1 k1 s = starLoop ok2 k2 s := by
  intro s
  induction s with
  | nil => intro h; simp [starLoop, hk [] h]
  | cons x s ih =>
    intro h
    simp only [starLoop]
    rw [hk (x :: s) h, hok x (h x (by simp)), ih (fun c hc => h c (by simp [hc]))]

/-! ### basename / dotSuffixes -/

theorem contains_slash_iff (s : List Char) : s.contains '/' = true ↔ '/' ∈ s := by
  simp

theorem basename_no_slash (b : List Char) (h : '/' ∉ b) : basename b = b := by
  cases b with
  | nil => rfl
  | cons c s =>
    have hs : '/' ∉ s := fun hm => h (by simp [hm])
    have hc : c ≠ '/' := fun he => h (by simp [he])
    simp [basename, hs, hc]

theorem basename_dir (d b : List Char) (h : '/' ∉ b) : basename (d ++ '/' :: b) = b := by
  induction d with
  | nil =>
    simp [basename, h]
  | cons c d ih =>
    have : (d ++ '/' :: b).contains '/' = true := by simp
    simp only [List.cons_append, basename, this, if_true, ih]

theorem mem_dotSuffixes (b s : List Char) : s ∈ dotSuffixes b ↔ ∃ pre, b = pre ++ '.' :: s := by
  induction b with
  | nil => simp [dotSuffixes]
  | cons c b ih =>
    unfold dotSuffixes
    by_cases hc : c = '.'
    · subst hc
      simp only [beq_self_eq_true, if_true, List.mem_cons, ih]
      constructor
      · rintro (h | ⟨pre, h⟩)
        · exact ⟨[], by simp [h]⟩
        · exact ⟨'.' :: pre, by simp [h]⟩
      · rintro ⟨pre, h⟩
        cases pre with
        | nil => left; simp only [List.nil_append, List.cons.injEq] at h; exact h.2.symm
        | cons y pre =>
          simp only [List.cons_append, List.cons.injEq] at h
          right; exact ⟨pre, h.2⟩
    · have : (c == '.') = false := by simpa using hc
      simp only [this, Bool.false_eq_true, if_false, ih]
      constructor
      · rintro ⟨pre, h⟩; exact ⟨c :: pre, by simp [h]⟩
      · rintro ⟨pre, h⟩
        cases pre with
        | nil => simp only [List.nil_append, List.cons.injEq] at h; exact absurd h.1 hc
        | cons y pre =>
          simp only [List.cons_append, List.cons.injEq] at h
          exact ⟨pre, h.2⟩

end BreezyVerif.C48
