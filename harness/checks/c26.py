"""C26 — directory locks provide mutual exclusion (breezy/lockdir.py: LockDir,
src/lockdir.rs: LockHeldInfo.is_lock_holder_known_dead).

Model: lean/BreezyVerif/Model/C26.lean — any number of lockers as step machines
whose steps are exactly the transport calls; events start an operation, perform
the pending call, inject a fault into it, or crash the locker.

T2: real `LockDir` objects, one thread each, on one MemoryTransport (thorough:
also a local directory).  Every transport call goes through `GateTransport`,
which blocks until the scheduler grants that locker a step, so the real code
executes exactly the schedule that is given to the model.  After every event
the directory contents, each locker's pending call, `is_held`, nonce serial and
last result are rendered and compared with the model's rendering.
  * exhaustive: all interleavings of 2 lockers running attempt;unlock / attempt
  * sampled: 2-4 lockers, random programs over attempt/unlock/confirm/break_lock,
    crashes (the crashed locker's pid is the pid of a killed child process, so
    the real `is_lock_holder_known_dead` sees a dead pid), steal on/off,
    foreign host / foreign user lockers
  * decision table of `is_lock_holder_known_dead` on crafted info objects
Oracle (on the real objects only): (O1) at most one live locker has is_held
unless a break was decided against a live holder; (O2) the `held` directory a
break renames away carries the info that break examined; (O3) a steal is only
started against a holder whose recorded host and user are ours and whose
process is dead, with locks.steal_dead on; (O4) while nobody has broken
anything, is_held implies held/info is owned by that locker.

Mutants this was built against (scratch worktrees; result of the run in brackets):
  M1 `_attempt_lock`: FileExists on the rename treated as success and the nonce comparison dropped
     [oracle O4: "locker 2 has is_held but held/info is o0.1"; exhaustive 2-locker schedules]
  M2 `unlock`: `self.confirm()` dropped [oracle: "unlock of locker 0 renames away held/ of o2.1 although it did
     not see its own lock there"; needs break + re-acquisition between]
  M3 `force_break`: first `current_info != dead_holder_info` check dropped [oracle O2, family None: "decided to
     break o0.1 (force_break then saw o4.1) but renames away held/ of o4.1"; needs the holder to change between
     break_lock's peek and force_break's peek]
  M4 `_handle_lock_contention`: `is_lock_holder_known_dead()` ignored [oracle O3: steals a live holder's lock]
  M5 src/lockdir.rs `is_lock_holder_known_dead`: user comparison dropped [decision-table oracle: known dead for
     another user's dead pid; plus T2 on schedules with a foreign-user stealer]
  M6 `unlock`: info deleted before `held` is renamed away [oracle O4: held/ without info while is_held]
  M7 `_attempt_lock`: `_lock_held = True` before the confirming peek [T2 only: is_held differs at the pending
     confirm; no property failure without faults — C27 catches it with a fault]
  M8 `unlock`: `_lock_held` not cleared [oracle O4: is_held with held/ absent]
  H1 harmless: `_remove_pending_dir` rewritten as a loop, releasing name built with % [clean: 0 mismatches, only
     the F7 family reported]
"""
import itertools
import os
import queue
import subprocess
import threading

from vlib import env

THEOREMS = [
    "claim_on_disk", "mutex_no_break", "mutex_single_breaker_partial",
    "break_removes_examined_partial", "break_race_witness",
    "steal_only_if_dead_and_ours", "known_dead_table",
]
RUST = ("cmd-py",)
RULE = ("a case is (number of lockers, per-locker host/user/steal, initial held/, event list); events are "
        "start-op / perform pending transport call / crash; non-trivial = some locker performs a step while "
        "another locker is in the middle of an operation")
ASSUMPTIONS = [
    "rand_chars never collides: temporary directory names and nonces are unique",
    "transport rename of a directory onto an existing directory fails (MemoryTransport, POSIX non-empty target)",
    "the lock directory itself exists (LockDir.create was called)",
    "a crashed locker's pid is dead and pids are not reused; host names identify machines",
]
TRUSTED = [
    "thread scheduling is modelled as interleaving at transport-call granularity",
    "the 'localhost' rule of is_lock_holder_known_dead is only exercised when the machine's host name is localhost",
]

LOCK = "lock"
OUR_HOST, OTHER_HOST, LOCALHOST = 1, 2, 0
FAMILY_F7 = "force-break-holder-changed-between-peek-and-rename"


class _Abort(BaseException):
    pass


def _fault_classes():
    from dromedary import errors as te

    class FaultT(te.TransportError):
        pass

    class FaultP(te.PathError):
        pass
    return FaultT, FaultP


def _kind_of(path):
    rest = path[len(LOCK) + 1:] if path.startswith(LOCK + "/") else path
    first = rest.split("/")[0]
    if first == "held":
        return "H"
    if first.startswith("releasing."):
        return "R"
    if first.startswith("broken."):
        return "B"
    return "P"


class GateTransport:
    """What LockDir sees: every call is announced to the scheduler and performed
    only when the scheduler grants this locker a step."""

    def __init__(self, world, lid):
        self._w = world
        self._lid = lid
        self.base = world.t.base

    def abspath(self, p):
        return self._w.t.abspath(p)

    def _gate(self, call):
        w = self._w.workers[self._lid]
        if w.aborted:
            raise _Abort()
        w.pending = call
        self._w.rep.release()
        w.go.acquire()
        d = w.directive
        if d == "abort":
            w.aborted = True
            raise _Abort()
        w.pending = None
        if d == "T":
            raise self._w.FaultT("injected")
        if d == "P":
            raise self._w.FaultP(call, "injected")

    def mkdir(self, p, mode=None):
        self._gate("mkdir:" + _kind_of(p))
        return self._w.t.mkdir(p, mode=mode)

    def put_bytes_non_atomic(self, p, b, *a, **kw):
        self._gate("put:" + _kind_of(p))
        return self._w.t.put_bytes_non_atomic(p, b, *a, **kw)

    def rename(self, a, b):
        self._gate("rename:%s>%s" % (_kind_of(a), _kind_of(b)))
        if not self._w.t.has(a):
            # MemoryTransport.rename silently ignores a missing source; every real
            # transport raises NoSuchFile, and so does the gate
            from dromedary.errors import NoSuchFile
            raise NoSuchFile(a)
        return self._w.t.rename(a, b)

    def get_bytes(self, p):
        self._gate("get:" + _kind_of(p))
        return self._w.t.get_bytes(p)

    def delete(self, p):
        self._gate("delete:" + _kind_of(p))
        return self._w.t.delete(p)

    def rmdir(self, p):
        self._gate("rmdir:" + _kind_of(p))
        return self._w.t.rmdir(p)

    def delete_tree(self, p):
        self._gate("delete_tree:" + _kind_of(p))
        return self._w.t.delete_tree(p)


class _NoStealConfig:
    def get(self, name):
        if name == "locks.steal_dead":
            return False
        raise KeyError(name)


class Worker(threading.Thread):
    """A locker's thread.  Threads are pooled and re-bound to the next case."""

    def __init__(self, lid):
        super().__init__(daemon=True)
        self.lid = lid
        self.inbox = queue.Queue()
        self.go = threading.Semaphore(0)
        self.bind(None)

    def bind(self, world):
        self.world = world
        self.directive = None
        self.pending = None       # pending transport call, None = idle
        self.aborted = False
        self.last = "~"
        self.busy = False
        self.op = None
        self.calls = 0
        self.examined = None
        self.decided = None
        self.confirm_seen = None
        self.contention_seen = "-"
        self.in_steal = False
        self.prev_call = None

    def run(self):
        _TLS.lid = self.lid
        _TLS.events = ev = []
        while True:
            op = self.inbox.get()
            w = self.world
            _TLS.world = w
            del ev[:]
            try:
                self.last = w.do_op(self.lid, op, ev)
            except _Abort:
                pass
            self.busy = False
            self.pending = None
            w.rep.release()


_POOL = []
_POOL_PID = [None]


def _workers(world, n):
    if _POOL_PID[0] != os.getpid():
        # forked child (ctx.pmap): the parent's threads do not exist here
        del _POOL[:]
        _POOL_PID[0] = os.getpid()
    while len(_POOL) < n:
        w = Worker(len(_POOL))
        _POOL.append(w)
        w.start()
    for w in _POOL[:n]:
        w.bind(world)
    return _POOL[:n]


class World:
    """One case: a lock directory, n real LockDir objects, their threads."""

    def __init__(self, cfgs, held="-", local=False, crashers=()):
        from breezy import lockdir
        self.lockdir = lockdir
        self.FaultT, self.FaultP = _FAULTS
        if local:
            import dromedary
            self.t = dromedary.get_transport_from_path(env.fresh_dir("lk"))
        else:
            from dromedary.memory import MemoryTransport
            self.t = MemoryTransport()
        self.t.mkdir(LOCK)
        self.cfgs = cfgs
        self.n = len(cfgs)
        self.tls = _TLS
        self.rep = threading.Semaphore(0)
        self.nonce_map = {}
        self.bad_map = {}
        self.serial = [0] * self.n
        self.seen_nonce = [None] * self.n
        self.crashed = [False] * self.n
        self.children = {}
        self.pids = []
        for i in range(self.n):
            if i in crashers:
                p = subprocess.Popen(["/bin/sleep", "100000"])
                self.children[i] = p
                self.pids.append(p.pid)
            else:
                self.pids.append(os.getpid())
        self.lds = []
        self.workers = _workers(self, self.n)
        for i in range(self.n):
            ld = lockdir.LockDir(GateTransport(self, i), LOCK)
            if not cfgs[i][2]:
                ld.get_config = _NoStealConfig
            self.lds.append(ld)
        # oracle bookkeeping
        self.break_decisions = 0
        self.broke_alive = False
        self.misrenamed = False
        self.oracle = []                      # (what, family)
        self._craft_initial(held)

    # ---- identity shim (harness side of LockHeldInfo.for_this_process) -----
    def ident(self, lid):
        host = {OUR_HOST: _REAL_HOST, OTHER_HOST: "elsewhere.example", LOCALHOST: "localhost"}[self.cfgs[lid][0]]
        return host, self.pids[lid]

    def _craft_initial(self, held):
        if held == "-":
            return
        self.t.mkdir(LOCK + "/held")
        if held == "e":
            return
        if held == "o98.0":
            # an empty info file parses to holder info without a nonce (bug 185013)
            self.nonce_map[None] = (98, 0)
            data = b""
        elif held.startswith("o"):
            owner, serial = held[1:].split(".")
            nonce = ("crafted%s-%s" % (owner, serial)).encode()
            self.nonce_map[nonce] = (int(owner), int(serial))
            data = b"nonce: " + nonce + b"\nhostname: elsewhere.example\nuser: somebody\npid: 1\n"
        else:
            tag = int(held[1:])
            data = BAD_INFOS[tag % len(BAD_INFOS)]
            self.bad_map[data] = tag
        self.t.put_bytes(LOCK + "/held/info", data)

    # ---- running operations ---------------------------------------------------
    def do_op(self, lid, op, events):
        ld = self.lds[lid]
        errors = self.lockdir.errors
        from dromedary.errors import NoSuchFile
        try:
            if op == "a":
                ld.attempt_lock()
                return "ok"
            if op == "u":
                ld.unlock()
                return "ok" if "released" in events else "swallowed"
            if op == "c":
                ld.confirm()
                return "ok"
            if op == "b":
                ld.break_lock()
                return "broken" if "broken" in events else "none"
            raise ValueError(op)
        except _Abort:
            raise
        except self.FaultP:
            return "E:FaultP"
        except self.FaultT:
            return "E:FaultT"
        except errors.LockNotHeld:
            return "E:NotHeld"
        except errors.LockBroken:
            return "E:LockBroken"
        except errors.LockBreakMismatch:
            return "E:Mismatch"
        except errors.LockContention:
            return "E:Contention"
        except errors.LockFailed:
            return "E:LockFailed"
        except errors.LockCorrupt:
            return "E:Corrupt"
        except NoSuchFile:
            return "E:NoSuchFile"
        except AssertionError:
            return "E:Assert"
        except Exception as e:
            return "E:" + type(e).__name__

    def _set_env(self, lid):
        os.environ["LOGNAME"] = "verifuser%d" % self.cfgs[lid][1]

    def _wait(self, w):
        self.rep.acquire()
        self._note_nonce(w.lid)

    def _note_nonce(self, lid):
        nonce = getattr(self.lds[lid], "nonce", None)
        if nonce is not None and nonce != self.seen_nonce[lid]:
            self.seen_nonce[lid] = nonce
            self.serial[lid] += 1
            self.nonce_map[nonce] = (lid, self.serial[lid])

    def event(self, ev):
        """execute one event (same syntax as the driver's)"""
        kind = ev[0]
        if kind == "x":
            lid = int(ev[1:])
            self.crashed[lid] = True
            p = self.children.pop(lid, None)
            if p is not None:
                p.kill()
                p.wait()
            return
        if kind == "s":
            lid, op = int(ev[1:-1]), ev[-1]
            w = self.workers[lid]
            if self.crashed[lid] or w.busy:
                return
            self._set_env(lid)
            w.busy = True
            w.op = op
            w.calls = 0
            w.confirm_seen = None
            w.inbox.put(op)
            self._wait(w)
            return
        if kind == "t":
            lid, directive = int(ev[1:]), "go"
        else:
            lid, directive = int(ev[1:-1]), ev[-1]
        w = self.workers[lid]
        if self.crashed[lid] or not w.busy:
            return
        self._set_env(lid)
        if directive == "go":
            self._oracle_before_call(w)
        w.calls += 1
        w.directive = directive
        w.go.release()
        self._wait(w)
        if directive == "go":
            self._oracle_after_call(w)

    def close(self):
        for w in self.workers:
            if w.busy:
                w.directive = "abort"
                w.go.release()
                self.rep.acquire()
        for p in self.children.values():
            p.kill()
            p.wait()
        self.children = {}

    # ---- observation ------------------------------------------------------------
    def _content(self, d):
        from dromedary.errors import NoSuchFile
        try:
            data = self.t.get_bytes(d + "/info")
        except NoSuchFile:
            return "e"
        return self._classify(data)

    def _classify(self, data):
        nonce = _PARSED.get(data, 0)
        if nonce == 0:
            from breezy._cmd_rs import LockHeldInfo
            try:
                nonce = LockHeldInfo.from_info_file_bytes(data).nonce
            except self.lockdir.errors.LockCorrupt:
                nonce = 1
            if len(_PARSED) > 20000:
                _PARSED.clear()
            _PARSED[data] = nonce
        if nonce == 1:
            if data not in self.bad_map:
                self.bad_map[data] = 900 + len(self.bad_map)
            return "b%d" % self.bad_map[data]
        o = self.nonce_map.get(nonce)
        return "o%d.%d" % o if o else "o?%r" % nonce

    def held_content(self):
        if not self.t.has(LOCK + "/held"):
            return "-"
        return self._content(LOCK + "/held")

    def show(self):
        names = sorted(self.t.list_dir(LOCK))
        dirs = sorted("%s:%s" % (_kind_of(LOCK + "/" + nm), self._content(LOCK + "/" + nm))
                      for nm in names if nm != "held")
        parts = ["H=" + self.held_content(), "D=" + (",".join(dirs) or "-")]
        for i, w in enumerate(self.workers):
            parts.append("%s/%s/%d/%s" % (w.pending if w.busy and w.pending else "-",
                                          "T" if self.lds[i].is_held else "F", self.serial[i], w.last))
        return " ".join(parts)

    # ---- oracle --------------------------------------------------------------------
    def _owner_alive(self, content):
        if content.startswith("o") and "." in content and "?" not in content:
            owner = int(content[1:].split(".")[0])
            return owner >= self.n or not self.crashed[owner]
        return True

    def _oracle_before_call(self, w):
        call = w.pending
        lid = w.lid
        breaking = w.op == "b" or (w.op == "a" and w.in_steal)
        if call == "get:H":
            cur = self.held_content()
            if w.op == "b" and w.calls == 0:
                # the peek of break_lock: the user (always "yes") decides on this info
                if cur not in ("-", "e"):
                    self.break_decisions += 1
                    if self._owner_alive(cur):
                        self.broke_alive = True
                w.decided = cur
                w.examined = None
            elif breaking:
                w.examined = cur            # force_break's own peek
            elif w.op == "a" and w.calls >= 3:
                w.contention_seen = cur     # the peek after a failed rename (or the confirming peek)
            elif w.op == "u":
                w.confirm_seen = cur
        if call == "rename:H>B":
            removed = self.held_content()
            if removed != "-" and removed != w.decided:
                self.misrenamed = True
                # F7 proper: force_break re-checked the holder (saw the info the decision was based on) and the
                # holder changed only after that re-check.  Anything else (e.g. the re-check is missing or wrong)
                # is a different failure.
                fam = FAMILY_F7 if w.examined == w.decided else None
                self.oracle.append((
                    "locker %d decided to break the lock %s (force_break then saw %s) but renames away held/ of %s "
                    "(the later holder's lock is removed and not restored)" % (lid, w.decided, w.examined, removed),
                    fam))
        if call == "rename:H>R":
            removed = self.held_content()
            if removed != "-" and not removed.startswith("o%d." % lid):
                seen = w.confirm_seen
                if seen is None or not seen.startswith("o%d." % lid):
                    self.oracle.append((
                        "unlock of locker %d renames away held/ of %s although it did not see its own lock there "
                        "(confirm saw %s)" % (lid, removed, seen), None))

    def _oracle_after_call(self, w):
        lid = w.lid
        # detect the start of a steal: inside an attempt, a contention peek is followed by another get:H
        if w.op == "a" and w.busy:
            prev = w.prev_call
            if prev == "get:H" and w.pending == "get:H" and not w.in_steal:
                w.in_steal = True
                seen = w.contention_seen
                w.decided = seen
                w.examined = None
                self.break_decisions += 1
                ok = seen.startswith("o") and "?" not in seen
                if ok:
                    owner = int(seen[1:].split(".")[0])
                    ok = (owner < self.n and self.crashed[owner] and self.cfgs[owner][0] == OUR_HOST
                          and self.cfgs[owner][1] == self.cfgs[lid][1] and self.cfgs[lid][2])
                if not ok:
                    self.oracle.append((
                        "locker %d steals the lock %s whose holder is not known dead / not ours / stealing is off"
                        % (lid, seen), None))
                    self.broke_alive = True
            if w.pending == "rename:P>H":
                w.in_steal = False
            w.prev_call = w.pending
        if not w.busy:
            w.in_steal = False
            w.prev_call = None
        # O1 / O4 on the state after the step
        holders = [i for i in range(self.n) if self.lds[i].is_held and not self.crashed[i]]
        if len(holders) > 1 and not self.broke_alive:
            self.oracle.append((
                "live lockers %r all have is_held although no live holder's lock was broken deliberately" % holders,
                FAMILY_F7 if self.misrenamed else None))
        if self.break_decisions == 0:
            cur = self.held_content()
            for i in range(self.n):
                if self.lds[i].is_held and not cur.startswith("o%d." % i):
                    self.oracle.append((
                        "locker %d has is_held but held/info is %s and nobody broke the lock" % (i, cur), None))


_TLS = threading.local()
_PARSED = {}
_FAULTS = None
_REAL_HOST = None
_installed = False
BAD_INFOS = [b"\x00\xff\xfe", b"nonce: [", b"pid: 12\nuser: me\nnonce: abc\nhostn", b"- a\n- b\n"]


class _Meta(type):
    def __instancecheck__(cls, obj):
        return isinstance(obj, cls._real)


def install():
    """process-wide set-up: identity shim, hooks, UI that answers yes"""
    global _installed, _FAULTS, _REAL_HOST
    if _installed:
        return
    _installed = True
    from breezy import lock, lockdir, ui
    from breezy._cmd_rs import LockHeldInfo as Real
    _FAULTS = _fault_classes()
    _REAL_HOST = Real.for_this_process(None).hostname

    class Shim(metaclass=_Meta):
        """`LockHeldInfo` as seen by lockdir.py: real objects, but the recorded
        host name / pid are those of the simulated process of the calling locker"""
        _real = Real
        from_info_file_bytes = Real.from_info_file_bytes

        @staticmethod
        def for_this_process(extra):
            info = Real.for_this_process(extra)
            w = getattr(_TLS, "world", None)
            lid = getattr(_TLS, "lid", None)
            if w is not None and lid is not None:
                host, pid = w.ident(lid)
                info.hostname = host
                info.pid = pid
            return info

    lockdir.LockHeldInfo = Shim

    def released(result):
        _TLS.events.append("released")

    def broken(result):
        _TLS.events.append("broken")

    lock.Lock.hooks.install_named_hook("lock_released", released, "verif")
    lock.Lock.hooks.install_named_hook("lock_broken", broken, "verif")

    class YesUI(ui.SilentUIFactory):
        def get_boolean(self, prompt):
            return True

        def confirm_action(self, *a, **kw):
            return True

        def show_user_warning(self, *a, **kw):
            pass

        def show_message(self, *a, **kw):
            pass

    ui.ui_factory = YesUI()


def run_case(case):
    """execute one case on the real code; returns (observations, oracle failures)"""
    install()
    cfgs = [tuple(c) for c in case["cfgs"]]
    crashers = {int(e[1:]) for e in case["events"] if e[0] == "x"}
    w = World(cfgs, held=case.get("held", "-"), local=case.get("local", False), crashers=crashers)
    try:
        obs = [w.show()]
        for ev in case["events"]:
            w.event(ev)
            obs.append(w.show())
        return obs, list(w.oracle)
    finally:
        w.close()


def model_line(case):
    cfgs = ",".join("%d.%d.%s" % (h, u, "T" if s else "F") for h, u, s in case["cfgs"])
    return "run %d %s %s %s" % (len(case["cfgs"]), cfgs, case.get("held", "-"), ",".join(case["events"]) or "-")


# ---- schedule generation ----------------------------------------------------------

def explore(cfgs, programs, held="-", limit=None, root=()):
    """stateless depth-first enumeration of ALL interleavings of the given
    per-locker programs (a choice = one locker: start its next operation if it is
    idle, otherwise perform its pending call).  Yields (case, obs, oracle)."""
    install()
    n = len(cfgs)
    prefix = [(c, []) for c in root]          # list of (choice, alternatives still to try)
    count = 0
    while True:
        w = World([tuple(c) for c in cfgs], held=held)
        events = []
        obs = [w.show()]
        pcs = [0] * n
        depth = 0
        try:
            while True:
                enabled = [i for i in range(n) if w.workers[i].busy or pcs[i] < len(programs[i])]
                if not enabled:
                    break
                if depth < len(prefix):
                    i = prefix[depth][0]
                else:
                    i = enabled[0]
                    prefix.append((i, enabled[1:]))
                depth += 1
                if w.workers[i].busy:
                    ev = "t%d" % i
                else:
                    ev = "s%d%s" % (i, programs[i][pcs[i]])
                    pcs[i] += 1
                    w.event(ev)
                    events.append(ev)
                    obs.append(w.show())
                    if not w.workers[i].busy:
                        continue
                    ev = "t%d" % i
                w.event(ev)
                events.append(ev)
                obs.append(w.show())
            oracle = list(w.oracle)
        finally:
            w.close()
        yield dict(cfgs=[list(c) for c in cfgs], held=held, events=events), obs, oracle
        count += 1
        if limit and count >= limit:
            return
        # backtrack
        while prefix and not prefix[-1][1]:
            prefix.pop()
        if len(prefix) <= len(root) and not (prefix and prefix[-1][1]):
            return
        _, alts = prefix.pop()
        prefix.append((alts[0], alts[1:]))


def random_case(rng, faults=False):
    n = rng.choice([2, 3, 3, 3, 4])
    cfgs = []
    for i in range(n):
        r = rng.random()
        if r < 0.72:
            cfgs.append([OUR_HOST, 1, rng.random() < 0.6])
        elif r < 0.85:
            cfgs.append([OUR_HOST, 2, rng.random() < 0.6])       # another user on our machine
        elif r < 0.95:
            cfgs.append([OTHER_HOST, 1, False])
        else:
            cfgs.append([LOCALHOST, 1, False])
    progs = []
    for i in range(n):
        k = rng.choice([1, 2, 2, 3, 3, 4])
        p = []
        for _ in range(k):
            p.append(rng.choice("aaaauuucbb" if not p else "auuuacbb"))
        progs.append(p)
    crash_p = rng.choice([0.0, 0.0, 0.03, 0.08])
    fault_p = rng.choice([0.0, 0.05, 0.15]) if faults else 0.0
    # the schedule is produced blindly (ids only); starts are spread over it
    events = []
    pcs = [0] * n
    steps = rng.randrange(6, 60)
    sticky = rng.choice([0.0, 0.5, 0.8])
    cur = rng.randrange(n)
    for _ in range(steps):
        if rng.random() >= sticky:
            cur = rng.randrange(n)
        r = rng.random()
        if r < crash_p:
            events.append("x%d" % cur)
        elif r < crash_p + fault_p:
            events.append("f%d%s" % (cur, rng.choice("TP")))
        elif r < crash_p + fault_p + 0.22 and pcs[cur] < len(progs[cur]):
            events.append("s%d%s" % (cur, progs[cur][pcs[cur]]))
            pcs[cur] += 1
        else:
            events.append("t%d" % cur)
    return dict(cfgs=cfgs, held="-", events=events)


F7_CASES = [
    # user break racing with unlock + re-acquisition (DESIGN §7-F7)
    dict(cfgs=[[1, 1, False]] * 4, held="-",
         events=["s0a", "t0", "t0", "t0", "t0",           # X = locker 0 holds
                 "s1b", "t1", "t1",                       # A = locker 1: break_lock peeks X, force_break peeks X
                 "s0u", "t0", "t0", "t0", "t0",           # X unlocks
                 "s2a", "t2", "t2", "t2", "t2",           # B = locker 2 acquires
                 "t1", "t1",                              # A renames B's held/ away, LockBreakMismatch
                 "s3a", "t3", "t3", "t3", "t3"]),         # C = locker 3 acquires: B and C both hold
    # only dead holders are ever broken: two stealers race on the lock of a crashed holder
    dict(cfgs=[[1, 1, True]] * 4, held="-",
         events=["s0a", "t0", "t0", "t0", "t0", "x0",     # X holds, then dies
                 "s1a", "t1", "t1", "t1", "t1", "t1",     # A: contention, steal decided, force_break peeks X
                 "s2a", "t2", "t2", "t2", "t2", "t2", "t2", "t2", "t2", "t2", "t2", "t2",   # B steals X's lock and acquires
                 "t1", "t1",                              # A renames B's held/ away
                 "s3a", "t3", "t3", "t3", "t3"]),         # C acquires
]


def break_race_case(rng):
    """X holds (alive or dead); breaker A (user break_lock or a stealing attempt) is stopped after p of its
    calls; meanwhile the lock is released / broken by somebody else and re-acquired by B; A continues; C attempts."""
    steal = rng.random() < 0.5
    dead = steal or rng.random() < 0.5
    cfgs = [[1, 1, rng.random() < 0.5] for _ in range(5)]
    cfgs[1][2] = steal
    X, A, B, C, D = 0, 1, 2, 3, 4
    ev = ["s0a"] + ["t0"] * 4
    if dead:
        ev.append("x0")
        cfgs[4][2] = True
    ev.append("s1a" if steal else "s1b")
    p = rng.randrange(0, 8)
    ev += ["t1"] * p
    if dead:
        ev += ["s4a"] + ["t4"] * rng.choice([11, 11, 11, rng.randrange(0, 12)])   # D steals X's lock and acquires
        if rng.random() < 0.7:
            ev += ["s4u"] + ["t4"] * rng.choice([4, 4, rng.randrange(0, 5)])
    else:
        ev += ["s0u"] + ["t0"] * rng.choice([4, 4, rng.randrange(0, 5)])
    if rng.random() < 0.8:
        ev += ["s2a"] + ["t2"] * rng.choice([4, 4, 6, rng.randrange(0, 7)])
    ev += ["t1"] * rng.randrange(0, 10)
    ev += ["s3a"] + ["t3"] * rng.choice([4, 6, 11])
    ev += ["t1"] * rng.randrange(0, 4) + ["t2"] * rng.randrange(0, 3)
    if rng.random() < 0.3:
        ev += ["s2c", "t2", "s3c", "t3"]
    return dict(cfgs=cfgs, held="-", events=ev)


def _interleaved(events):
    """some locker performs a step while another one is mid-operation"""
    busy = set()
    for e in events:
        if e[0] == "s":
            busy.add(int(e[1:-1]))
        elif e[0] == "t":
            i = int(e[1:])
            if busy - {i}:
                return True
    return False


def _known_dead_table(ctx):
    """all combinations of crafted holder info against the real Rust function"""
    install()
    from breezy._cmd_rs import LockHeldInfo
    p = subprocess.Popen(["/bin/true"])
    p.wait()
    dead = p.pid
    cases, lines, outs = [], [], []
    os.environ["LOGNAME"] = "verifuser1"
    for host in (_REAL_HOST, "elsewhere.example", "localhost"):
        for user in ("verifuser1", "verifuser2", None):
            for pid in (None, os.getpid(), dead, 1):
                info = LockHeldInfo.for_this_process(None)
                info.hostname, info.user, info.pid = host, user, pid
                info = LockHeldInfo.from_info_file_bytes(info.to_bytes())
                got = info.is_lock_holder_known_dead()
                bits = (host == _REAL_HOST, host == "localhost", user == "verifuser1", pid is not None, pid == dead)
                want = bits[0] and not bits[1] and bits[2] and bits[3] and bits[4]
                case = dict(kd=[host == _REAL_HOST and "ours" or host, user, {None: None, dead: "dead"}.get(pid, "live")])
                if got != want:
                    ctx.violation(case, "is_lock_holder_known_dead=%s for host/user/pid %r" % (got, case["kd"]))
                ctx.case(case, nontrivial=True)
                ctx.count("known_dead:%s" % got)
                cases.append(case)
                lines.append("kd " + " ".join("T" if b else "F" for b in bits))
                outs.append("T" if got else "F")
    ctx.diff(cases, lines, outs)


def _record(ctx, case, obs, oracle, cases, lines, outs):
    for what, fam in oracle[:3]:
        ctx.violation(case, what, family=fam)
    ctx.case(case, nontrivial=_interleaved(case["events"]))
    ctx.count("lockers:%d" % len(case["cfgs"]))
    for e in case["events"]:
        ctx.count("ev:" + (e[0] + e[-1] if e[0] in "sf" else e[0]))
    for o in obs[-1].split(" ")[2:]:
        ctx.count("last:" + o.split("/")[3])
    cases.append(case)
    lines.append(model_line(case))
    outs.append("|".join(obs))


def _explore_job(job):
    cfgs, progs, root = job
    return list(explore(cfgs, progs, root=root))


def _case_job(case):
    obs, oracle = run_case(case)
    return case, obs, oracle


def run(ctx):
    install()
    cases, lines, outs = [], [], []
    corpus = os.path.join(env.VERIF, "corpus", "C26")
    if os.path.isdir(corpus):
        import json
        for fn in sorted(os.listdir(corpus)):
            case = json.load(open(os.path.join(corpus, fn)))
            obs, oracle = run_case(case)
            _record(ctx, case, obs, oracle, cases, lines, outs)
    _known_dead_table(ctx)
    for case in F7_CASES:
        obs, oracle = run_case(case)
        _record(ctx, case, obs, oracle, cases, lines, outs)
        ctx.count("directed:F7")
    # exhaustive: every interleaving of two lockers
    plain = [[1, 1, False], [1, 1, False]]
    suites = [(plain, [["a", "u"], ["a"]]), (plain, [["a"], ["a"]]), (plain, [["a", "c"], ["a", "c"]])]
    if ctx.thorough():
        suites.append((plain, [["a", "u"], ["a", "u"]]))
    jobs = [(cfgs, progs, root) for cfgs, progs in suites for root in itertools.product((0, 1), repeat=3)]
    total = 0
    for res in ctx.pmap(_explore_job, jobs, chunksize=1):
        for case, obs, oracle in res:
            _record(ctx, case, obs, oracle, cases, lines, outs)
            total += 1
    ctx.extra["exhaustive_interleavings"] = total
    # sampled
    rnd = [break_race_case(ctx.rng) for _ in range(ctx.pick(400, 6000))]
    ctx.count("directed:break-race", len(rnd))
    for _ in range(ctx.pick(1800, 40000)):
        case = random_case(ctx.rng)
        if ctx.thorough() and ctx.rng.random() < 0.1:
            case["local"] = True
        rnd.append(case)
    for case, obs, oracle in ctx.pmap(_case_job, rnd):
        _record(ctx, case, obs, oracle, cases, lines, outs)
    ctx.diff(cases, lines, outs)
    ctx.exhaustive = True
    # report violations outside the known F7 family first
    ctx.violations.sort(key=lambda v: v["family"] is not None)


def replay(ctx, case):
    install()
    if "kd" in case:
        _known_dead_table(ctx)
        return dict(case=case, oracle_failures=[v["what"] for v in ctx.violations])
    obs, oracle = run_case(case)
    for what, fam in oracle:
        ctx.violation(case, what, family=fam)
    m = ctx.model([model_line(case)])[0].split("|")
    first = next((i for i, (a, b) in enumerate(itertools.zip_longest(obs, m)) if a != b), None)
    return dict(case=case, impl=obs, model=m, first_difference=first,
                oracle_failures=[w for w, _ in oracle])
