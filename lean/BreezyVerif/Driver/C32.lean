import BreezyVerif.Common
import BreezyVerif.Model.C32
import BreezyVerif.Model.C32S
/-
C32 driver.

  run <fx T|F> <src> <ops>   →  L=<results>|<state> R=<results>|<state>

src  = `rev:par,par;rev:~;…` (hex fields, `~` = no parents, `-` = empty graph)
ops  = `;`-joined: ts:<revno>:<rev> | tg:<name>:<rev> | td:<name> | tD | cs:<name>:<value> |
       cg:<name> | ll | rr:<T|F> | tt:<T|F>:<revno>:<rev> | pm:<k,k,…> | tp | fe:<rev>
results = `;`-joined: ok | token | E:… | tags=<n>=<r>,… | val=<hex|~> | pm=<k>=<p+p…>,… | info=<n>:<rev>
state   = tip=<n>:<rev> tags=… conf=… lock=<T|F> revs=<k,k…>   (dictionaries sorted)
The remote run lets the server add the whole source graph to every get_parent_map answer.

  sess <tipCoherent T|F> <tagsOwn T|F> <tagsReal T|F> <src> <sops>          (leaveReset = T)
  sessv <tipCoherent> <tagsOwn> <tagsReal> <leaveReset T|F> <src> <sops>
      →  L=<res@obj;…>|<state> R=<res@obj;…>|<state> S=<res;…>|<state>
sops = `;`-joined: lw | lr | ul | lt:<T|F> (lock_write(token)) | lv | dl (leave / dont_leave_lock_in_place) |
       ol | ou (the second holder locks / unlocks) | tp | st:<revno>:<rev> | pl:<T|F>:<revno>:<rev>:<name=rev,…|-> | tg:<name>:<rev> | tD
res@obj@<physical lock T|F> per operation;
obj  = <u|r|w><count><L if write-locked with the leave flag set>/<tip cache>/<tags cache>/<real T|F>/<VFS branch tip cache>/<VFS branch tags cache>
       (caches: `~` = empty, tip `n:rev`, tags sorted `name=rev,…` or `-`)
L = the local object, R = the remote object of the given variant, S = the cache-free specification.
-/
namespace BreezyVerif.C32

def sortStrs (l : List String) : List String := l.mergeSort (fun a b => decide (a ≤ b))

def hexOr (s : String) : Option Bytes := fromHex s

def parseGraph (s : String) : Option Graph :=
  if s == "-" then some [] else
  (s.splitOn ";").mapM fun e =>
    match e.splitOn ":" with
    | [r, ps] => do
      let r ← fromHex r
      let ps ← if ps == "~" then some [] else (ps.splitOn ",").mapM fromHex
      pure (r, ps)
    | _ => none

def parseOp (s : String) : Option Op :=
  match s.splitOn ":" with
  | ["ts", n, r] => do pure (.tipSet (← n.toNat?) (← fromHex r))
  | ["tg", n, r] => do pure (.tagSet (← fromHex n) (← fromHex r))
  | ["td", n] => do pure (.tagDel (← fromHex n))
  | ["tD"] => some .tagDict
  | ["cs", n, v] => do pure (.confSet (← fromHex n) (← fromHex v))
  | ["cg", n] => do pure (.confGet (← fromHex n))
  | ["ll"] => some .lockLeave
  | ["rr", g] => do pure (.relockRelease (← parseBool g))
  | ["tt", g, n, r] => do pure (.tipSetTok (← parseBool g) (← n.toNat?) (← fromHex r))
  | ["pm", ks] => do pure (.parentMap (← (ks.splitOn ",").mapM fromHex))
  | ["tp"] => some .tip
  | ["fe", r] => do pure (.fetch (← fromHex r))
  | _ => none

def showDict (d : List (Bytes × Bytes)) : String :=
  joinList (sortStrs (d.map fun e => s!"{toHex e.1}={toHex e.2}"))

def showRes : Res → String
  | .ok => "ok"
  | .token => "token"
  | .err e => e.toString
  | .tags d => "tags=" ++ showDict d
  | .value none => "val=~"
  | .value (some v) => "val=" ++ toHex v
  | .pmap m => "pm=" ++ joinList (sortStrs (m.map fun e =>
      s!"{toHex e.1}={if e.2.isEmpty then "~" else "+".intercalate (e.2.map toHex)}"))
  | .info n r => s!"info={n}:{toHex r}"
  | .moved o n k => s!"moved={o.1}:{toHex o.2}>{n.1}:{toHex n.2}/{k}"

def showSt (st : St) : String :=
  s!"tip={st.tip.1}:{toHex st.tip.2} tags={showDict st.tags} conf={showDict st.conf} " ++
  s!"lock={showBool st.lock.isSome} revs={joinList (sortStrs (st.revs.map fun e => toHex e.1))}"

def showRun (r : List Res × St) : String :=
  (if r.1.isEmpty then "-" else ";".intercalate (r.1.map showRes)) ++ "|" ++ showSt r.2

def parseTags (s : String) : Option Tags :=
  (splitList s).mapM fun e =>
    match e.splitOn "=" with
    | [n, r] => do pure (← fromHex n, ← fromHex r)
    | _ => none

def parseSOp (s : String) : Option SOp :=
  match s.splitOn ":" with
  | ["lw"] => some .lockW
  | ["lr"] => some .lockR
  | ["ul"] => some .unlock
  | ["lt", g] => do pure (.lockTok (← parseBool g))
  | ["lv"] => some .leave
  | ["dl"] => some .dontLeave
  | ["ol"] => some .ownerLock
  | ["ou"] => some .ownerUnlock
  | ["tp"] => some .tip
  | ["st", n, r] => do pure (.setTip (← n.toNat?) (← fromHex r))
  | ["pl", ow, n, r, tg] => do pure (.pull (← parseBool ow) (← n.toNat?) (← fromHex r) (← parseTags tg))
  | ["tg", n, r] => do pure (.tagSet (← fromHex n) (← fromHex r))
  | ["tD"] => some .tagDict
  | _ => none

def showTipC : Option (Nat × RevId) → String
  | none => "~"
  | some c => s!"{c.1}:{toHex c.2}"

def showTagsC : Option Tags → String
  | none => "~"
  | some d => showDict d

def showMode : Mode → String
  | .unlocked => "u"
  | .r => "r"
  | .w => "w"

def showObj (o : Obj) : String :=
  s!"{showMode o.lk.mode}{o.lk.count}{if o.lk.mode == .w && o.lk.leave then "L" else ""}/{showTipC o.tipC}/{showTagsC o.tagsC}/{showBool o.real}/" ++
  s!"{showTipC o.realTipC}/{showTagsC o.realTagsC}"

/-- run a session, recording the object after every operation -/
def traceSess (step : Obj → St → SOp → Res × Obj × St) : Obj → St → List SOp → List String × St
  | _, st, [] => ([], st)
  | o, st, op :: ops =>
    let (r, o1, s1) := step o st op
    let (rs, s2) := traceSess step o1 s1 ops
    (s!"{showRes r}@{showObj o1}@{showBool s1.lock.isSome}" :: rs, s2)

def showTrace (r : List String × St) : String :=
  (if r.1.isEmpty then "-" else ";".intercalate r.1) ++ "|" ++ showSt r.2

def handleSess (tc go gr lr src ops : String) : String :=
  match parseBool tc, parseBool go, parseBool gr, parseBool lr, parseGraph src,
      (if ops == "-" then some [] else (ops.splitOn ";").mapM parseSOp) with
  | some tc, some go, some gr, some lr, some src, some ops =>
    let v : Variant := { tipCoherent := tc, tagsOwn := go, tagsReal := gr, leaveReset := lr }
    let l := traceSess (lsStep src) {} St.init ops
    let r := traceSess (rsStep v src (src.map (·.1))) {} St.init ops
    let sp := runSpec src {} St.init ops
    s!"L={showTrace l} R={showTrace r} S={showRun (sp.1, sp.2.2)}"
  | _, _, _, _, _, _ => "bad-op"

def handle : List String → String
  | ["sess", tc, go, gr, src, ops] => handleSess tc go gr "T" src ops
  | ["sessv", tc, go, gr, lr, src, ops] => handleSess tc go gr lr src ops
  | ["run", fx, src, ops] =>
    match parseBool fx, parseGraph src, (if ops == "-" then some [] else (ops.splitOn ";").mapM parseOp) with
    | some fx, some src, some ops =>
      let l := runWith (localStep src) St.init ops
      let r := runWith (remoteStep fx src (src.map (·.1))) St.init ops
      s!"L={showRun l} R={showRun r}"
    | _, _, _ => "bad-op"
  | _ => "bad-op"

end BreezyVerif.C32

def main : IO Unit := BreezyVerif.runDriver BreezyVerif.C32.handle
