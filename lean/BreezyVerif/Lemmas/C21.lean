import BreezyVerif.Model.C21
/-! C21 — graph lemmas (shared with C16): ancestry is a partial order on
well-formed graphs; left-hand walks. -/
namespace BreezyVerif.C21

theorem mentioned_cons (n : Rev) (ps : List Rev) (g : Graph) :
    mentioned ((n, ps) :: g) = n :: ps ++ mentioned g := by
  simp [mentioned]

theorem wf_cons {n : Rev} {ps : List Rev} {g : Graph} (h : wf ((n, ps) :: g) = true) :
    n ∉ ps ∧ n ∉ mentioned g ∧ wf g = true := by
  simp [wf] at h
  exact ⟨h.1.1, h.1.2, h.2⟩

theorem anc_self (g : Graph) (r : Rev) : r ∈ anc g r := by
  induction g with
  | nil => simp [anc]
  | cons e g ih =>
    obtain ⟨n, ps⟩ := e
    unfold anc
    split
    · simp
    · exact ih

/-- every ancestor other than the start is mentioned in the graph -/
theorem anc_sub (g : Graph) : ∀ (r x : Rev), x ∈ anc g r → x = r ∨ x ∈ mentioned g := by
  induction g with
  | nil => intro r x h; simp [anc] at h; exact Or.inl h
  | cons e g ih =>
    obtain ⟨n, ps⟩ := e
    intro r x h
    unfold anc at h
    rw [mentioned_cons]
    split at h
    · rename_i hn
      simp only [List.mem_cons, List.mem_flatMap] at h
      rcases h with h | ⟨p, hp, hx⟩
      · exact Or.inl h
      · rcases ih p x hx with h1 | h1
        · right; simp [h1 ▸ hp]
        · right; simp [h1]
    · rcases ih r x h with h1 | h1
      · exact Or.inl h1
      · right; simp [h1]

theorem anc_not_mentioned (g : Graph) (r : Rev) (h : r ∉ mentioned g) : anc g r = [r] := by
  induction g with
  | nil => simp [anc]
  | cons e g ih =>
    obtain ⟨n, ps⟩ := e
    rw [mentioned_cons] at h
    simp only [List.cons_append, List.mem_cons, List.mem_append, not_or] at h
    unfold anc
    have : ¬ n = r := fun e => h.1 e.symm
    simp only [this, if_false]
    exact ih h.2.2

theorem anc_trans (g : Graph) (hwf : wf g = true) :
    ∀ (a b c : Rev), a ∈ anc g b → b ∈ anc g c → a ∈ anc g c := by
  induction g with
  | nil =>
    intro a b c h1 h2
    simp [anc] at h1 h2 ⊢
    rw [h1, h2]
  | cons e g ih =>
    obtain ⟨n, ps⟩ := e
    obtain ⟨_, hnm, hwf'⟩ := wf_cons hwf
    have ih := ih hwf'
    intro a b c h1 h2
    by_cases hc : n = c
    · -- c is the head entry
      rw [show anc ((n, ps) :: g) c = c :: ps.flatMap (fun p => anc g p) by simp [anc, hc]] at h2 ⊢
      simp only [List.mem_cons, List.mem_flatMap] at h2 ⊢
      rcases h2 with h2 | ⟨p, hp, hb⟩
      · subst h2
        rw [show anc ((n, ps) :: g) b = b :: ps.flatMap (fun p => anc g p) by simp [anc, hc]] at h1
        simpa using h1
      · -- b is an ancestor of a parent p, inside g
        have hbn : ¬ n = b := by
          intro e
          rcases anc_sub g p b hb with h | h
          · subst e; subst h; exact absurd hp (wf_cons hwf).1
          · exact hnm (e ▸ h)
        rw [show anc ((n, ps) :: g) b = anc g b by simp [anc, hbn]] at h1
        exact Or.inr ⟨p, hp, ih a b p h1 hb⟩
    · rw [show anc ((n, ps) :: g) c = anc g c by simp [anc, hc]] at h2 ⊢
      have hbn : ¬ n = b := by
        intro e
        rcases anc_sub g c b h2 with h | h
        · exact hc (e.trans h)
        · exact hnm (e ▸ h)
      rw [show anc ((n, ps) :: g) b = anc g b by simp [anc, hbn]] at h1
      exact ih a b c h1 h2

theorem anc_antisymm (g : Graph) (hwf : wf g = true) :
    ∀ (a b : Rev), a ∈ anc g b → b ∈ anc g a → a = b := by
  induction g with
  | nil => intro a b h1 _; simpa [anc] using h1
  | cons e g ih =>
    obtain ⟨n, ps⟩ := e
    obtain ⟨hnp, hnm, hwf'⟩ := wf_cons hwf
    have ih := ih hwf'
    intro a b h1 h2
    by_cases hab : a = b
    · exact hab
    · exfalso
      -- neither a nor b can be the head entry n
      have key : ∀ x y : Rev, x ≠ y → x ∈ anc ((n, ps) :: g) y → y ∈ anc ((n, ps) :: g) x → ¬ n = y := by
        intro x y hxy hx hy e
        subst e
        rw [show anc ((n, ps) :: g) n = n :: ps.flatMap (fun p => anc g p) by simp [anc]] at hx
        simp only [List.mem_cons, List.mem_flatMap] at hx
        rcases hx with hx | ⟨p, hp, hxp⟩
        · exact hxy hx
        · have hnx : ¬ n = x := fun e => hxy e.symm
          rw [show anc ((n, ps) :: g) x = anc g x by simp [anc, hnx]] at hy
          rcases anc_sub g x n hy with h | h
          · exact hxy h.symm
          · exact hnm h
      have hnb := key a b hab h1 h2
      have hna := key b a (fun e => hab e.symm) h2 h1
      rw [show anc ((n, ps) :: g) b = anc g b by simp [anc, hnb]] at h1
      rw [show anc ((n, ps) :: g) a = anc g a by simp [anc, hna]] at h2
      exact hab (ih a b h1 h2)

/-! ### tips -/

theorem isAnc_some (g : Graph) (a b : Rev) : isAnc g (some a) (some b) = true ↔ a ∈ anc g b := by
  simp [isAnc]

/-! ### left-hand walks -/

theorem lefthand_not_mentioned (g : Graph) (r : Rev) (h : r ∉ mentioned g) : lefthand g r = none := by
  induction g with
  | nil => simp [lefthand]
  | cons e g ih =>
    obtain ⟨n, ps⟩ := e
    rw [mentioned_cons] at h
    simp only [List.cons_append, List.mem_cons, List.mem_append, not_or] at h
    unfold lefthand
    have : ¬ n = r := fun e => h.1 e.symm
    simp only [this, if_false]
    exact ih h.2.2

theorem dist_not_mentioned (known : List (Rev × Nat)) (g : Graph) (r : Rev) (h : r ∉ mentioned g) :
    dist known g r = known.lookup r := by
  induction g with
  | nil => simp [dist]
  | cons e g ih =>
    obtain ⟨n, ps⟩ := e
    rw [mentioned_cons] at h
    simp only [List.cons_append, List.mem_cons, List.mem_append, not_or] at h
    unfold dist
    have : ¬ n = r := fun e => h.1 e.symm
    simp only [this, if_false]
    exact ih h.2.2

/-- `find_distance_to_null` with correct seeds computes the left-hand length -/
theorem dist_correct (known : List (Rev × Nat)) (g : Graph) (hwf : wf g = true) :
    (∀ r' k', known.lookup r' = some k' → r' ∈ mentioned g → (lefthand g r').map List.length = some k') →
    ∀ (r : Rev) (k : Nat), r ∈ mentioned g → dist known g r = some k →
      (lefthand g r).map List.length = some k := by
  induction g with
  | nil => intro _ r k hr; simp [mentioned] at hr
  | cons e g ih =>
    obtain ⟨n, ps⟩ := e
    obtain ⟨hnp, hnm, hwf'⟩ := wf_cons hwf
    intro hseed r k hr hd
    -- seeds stay correct in the tail graph
    have hseed' : ∀ r' k', known.lookup r' = some k' → r' ∈ mentioned g →
        (lefthand g r').map List.length = some k' := by
      intro r' k' hl hm
      have hne : ¬ n = r' := fun e => hnm (e ▸ hm)
      have := hseed r' k' hl (by rw [mentioned_cons]; simp [hm])
      simpa [lefthand, hne] using this
    -- a revision of the head entry that is not mentioned in the tail cannot be a seed
    have ghost_case : ∀ p k'', p ∈ mentioned ((n, ps) :: g) → ¬ n = p → p ∉ mentioned g →
        dist known g p = some k'' → False := by
      intro p k'' hpm hne hpg hdp
      rw [dist_not_mentioned known g p hpg] at hdp
      have := hseed p k'' hdp hpm
      simp [lefthand, hne, lefthand_not_mentioned g p hpg] at this
    by_cases hn : n = r
    · subst hn
      unfold dist at hd
      simp only [if_true] at hd
      cases hl : known.lookup n with
      | some k' =>
        rw [hl] at hd
        simp only [Option.some.injEq] at hd
        subst hd
        exact hseed n k' hl hr
      | none =>
        rw [hl] at hd
        cases ps with
        | nil => simp at hd; subst hd; simp [lefthand]
        | cons p rest =>
          simp only at hd
          cases hdp : dist known g p with
          | none => rw [hdp] at hd; simp at hd
          | some k'' =>
            rw [hdp] at hd
            simp at hd
            subst hd
            have hpn : ¬ n = p := by intro e; apply hnp; simp [e]
            by_cases hpg : p ∈ mentioned g
            · have := ih hwf' hseed' p k'' hpg hdp
              simp only [lefthand, if_true]
              cases hlh : lefthand g p with
              | none => rw [hlh] at this; simp at this
              | some l => rw [hlh] at this; simp at this; simp [this]
            · exact absurd (ghost_case p k'' (by rw [mentioned_cons]; simp) hpn hpg hdp) id
    · have hd' : dist known g r = some k := by simpa [dist, hn] using hd
      by_cases hrg : r ∈ mentioned g
      · have := ih hwf' hseed' r k hrg hd'
        simpa [lefthand, hn] using this
      · exact absurd (ghost_case r k hr hn hrg hd') id

/-- a successful search on the left-hand walk finds a left-hand ancestor -/
theorem lhFind_found (g : Graph) : ∀ (r t : Rev), lhFind g r t = .found →
    ∀ l, lefthand g r = some l → t ∈ l := by
  induction g with
  | nil => intro r t h; simp [lhFind] at h
  | cons e g ih =>
    obtain ⟨n, ps⟩ := e
    intro r t h l hl
    unfold lhFind at h
    unfold lefthand at hl
    split at h
    · rename_i hn
      simp only [hn, if_true] at hl
      split at h
      · rename_i hrt
        subst hrt
        cases ps with
        | nil => simp at hl; subst hl; simp
        | cons p rest =>
          simp only at hl
          cases hlp : lefthand g p with
          | none => rw [hlp] at hl; simp at hl
          | some l' => rw [hlp] at hl; simp at hl; subst hl; simp
      · cases ps with
        | nil => simp at h
        | cons p rest =>
          simp only at h hl
          cases hlp : lefthand g p with
          | none => rw [hlp] at hl; simp at hl
          | some l' =>
            rw [hlp] at hl; simp at hl; subst hl
            simp [ih p t h l' hlp]
    · rename_i hn
      simp only [hn, if_false] at hl
      exact ih r t h l hl

/-- members of the left-hand history are ancestors -/
theorem lefthand_sub_anc (g : Graph) : ∀ (r : Rev) (l : List Rev), lefthand g r = some l →
    ∀ x ∈ l, x ∈ anc g r := by
  induction g with
  | nil => intro r l h; simp [lefthand] at h
  | cons e g ih =>
    obtain ⟨n, ps⟩ := e
    intro r l h x hx
    unfold lefthand at h
    unfold anc
    split at h
    · rename_i hn
      simp only [hn, if_true]
      cases ps with
      | nil => simp at h; subst h; simpa using hx
      | cons p rest =>
        simp only at h
        cases hlp : lefthand g p with
        | none => rw [hlp] at h; simp at h
        | some l' =>
          rw [hlp] at h; simp at h; subst h
          simp only [List.mem_cons] at hx
          rcases hx with hx | hx
          · simp [hx]
          · simp only [List.flatMap_cons, List.mem_cons, List.mem_append]
            right; left
            exact ih p l' hlp x hx
    · rename_i hn
      simp only [hn, if_false]
      exact ih r l h x hx

end BreezyVerif.C21
