import BreezyVerif.Lemmas.C22Main
import BreezyVerif.Model.C22Remote
/-!
C22 — lemmas about stacked repositories served by the smart server
(`Model/C22Remote.lean`): the walk of one repository along a left-hand chain,
the chain of fallbacks, the server-side identifier → number walk.
-/
namespace BreezyVerif.C22

/-- equality of `Except` values is decidable (used by the `decide` examples and witnesses) -/
instance exceptDecEq {ε α : Type} [DecidableEq ε] [DecidableEq α] : DecidableEq (Except ε α) := fun a b =>
  match a, b with
  | .ok x, .ok y => if h : x = y then isTrue (by rw [h]) else isFalse (by intro h'; cases h'; exact h rfl)
  | .error x, .error y => if h : x = y then isTrue (by rw [h]) else isFalse (by intro h'; cases h'; exact h rfl)
  | .ok _, .error _ => isFalse (by intro h; cases h)
  | .error _, .ok _ => isFalse (by intro h; cases h)

/-! ### left-hand chains -/

theorem lpRaw_of_leftParent {g : Graph} {x : Nat} {ps : List Nat} {l : Nat} (hps : g[x]? = some ps)
    (hl : leftParent g ps = some l) : lpRaw g x = some l := by
  unfold lpRaw
  rw [hps]
  unfold leftParent at hl
  cases ps with
  | nil => cases hl
  | cons p t =>
    simp only at hl
    split at hl
    · cases hl; rfl
    · cases hl

theorem lefthand_isLeftChain (g : Graph) : ∀ (fuel x : Nat), isLeftChain g (lefthand g fuel x) = true := by
  intro fuel
  induction fuel with
  | zero => intro x; rfl
  | succ fuel ih =>
    intro x
    rw [lefthand_succ]
    split
    · rfl
    · rename_i ps hps
      split
      · rename_i l hl
        have hraw := lpRaw_of_leftParent hps hl
        have hih := ih l
        cases hrest : lefthand g fuel l with
        | nil => rfl
        | cons c rest =>
          have hc : c = l := lefthand_head g fuel l c (by rw [hrest]; rfl)
          subst hc
          rw [hrest] at hih
          simp only [isLeftChain, hraw, beq_self_eq_true, Bool.true_and]
          exact hih
      · rfl

theorem history_isLeftChain (b : Branch) : isLeftChain b.g b.history = true := by
  unfold Branch.history
  split
  · rfl
  · exact lefthand_isLeftChain _ _ _

theorem isLeftChain_cons2 {g : Graph} {a c : Nat} {rest : List Nat} (h : isLeftChain g (a :: c :: rest) = true) :
    lpRaw g a = some c ∧ isLeftChain g (c :: rest) = true := by
  simp only [isLeftChain, Bool.and_eq_true, beq_iff_eq] at h
  exact h

theorem isLeftChain_tail {g : Graph} {a : Nat} {rest : List Nat} (h : isLeftChain g (a :: rest) = true) :
    isLeftChain g rest = true := by
  cases rest with
  | nil => rfl
  | cons c rest => exact (isLeftChain_cons2 h).2

theorem isLeftChain_drop {g : Graph} : ∀ (n : Nat) (l : List Nat), isLeftChain g l = true →
    isLeftChain g (l.drop n) = true
  | 0, _, h => h
  | _ + 1, [], _ => rfl
  | n + 1, _ :: rest, h => by
    rw [List.drop_succ_cons]
    exact isLeftChain_drop n rest (isLeftChain_tail h)

theorem dropWhile_eq_drop_takeWhile {α : Type} (p : α → Bool) : ∀ l : List α,
    l.dropWhile p = l.drop (l.takeWhile p).length
  | [] => rfl
  | a :: l => by
    by_cases h : p a = true
    · rw [List.dropWhile_cons_of_pos h, List.takeWhile_cons_of_pos h, List.length_cons, List.drop_succ_cons]
      exact dropWhile_eq_drop_takeWhile p l
    · rw [List.dropWhile_cons_of_neg h, List.takeWhile_cons_of_neg h]
      rfl

theorem takeWhile_length_le {α : Type} (p : α → Bool) : ∀ l : List α, (l.takeWhile p).length ≤ l.length
  | [] => Nat.le_refl _
  | a :: l => by
    by_cases h : p a = true
    · rw [List.takeWhile_cons_of_pos h]
      simp only [List.length_cons]
      exact Nat.succ_le_succ (takeWhile_length_le p l)
    · rw [List.takeWhile_cons_of_neg h]
      simp

/-! ### one repository: `_iter_for_revno` along the chain -/

/-- the wanted revision lies within the stored part of the history, or is the
first revision that is not stored (named by its child): found -/
theorem walkFor_found (g : Graph) (R : List Nat) : ∀ (d : Nat) (H : List Nat) (x : Nat) (rest : List Nat) (k : Int)
    (r : Nat), isLeftChain g H = true → H = x :: rest → d ≤ (H.takeWhile (stores g R)).length →
    H[d]? = some r → walkFor g R d x k = .found r := by
  intro d
  induction d with
  | zero =>
    intro H x rest k r _ hH _ hr
    subst hH
    simp only [List.getElem?_cons_zero, Option.some.injEq] at hr
    subst hr
    rfl
  | succ d ih =>
    intro H x rest k r hch hH hd hr
    subst hH
    cases rest with
    | nil => simp at hr
    | cons c rest' =>
      obtain ⟨hraw, hch'⟩ := isLeftChain_cons2 hch
      have hx : stores g R x = true := by
        by_cases hx : stores g R x = true
        · exact hx
        · rw [List.takeWhile_cons_of_neg hx] at hd
          simp at hd
      rw [List.takeWhile_cons_of_pos hx, List.length_cons] at hd
      have hd' : d ≤ ((c :: rest').takeWhile (stores g R)).length := by omega
      simp only [List.getElem?_cons_succ] at hr
      unfold walkFor
      simp only [hraw]
      by_cases hc : stores g R c = true
      · simp only [hc, if_true]
        exact ih (c :: rest') c rest' (k - 1) r hch' rfl hd' hr
      · rw [List.takeWhile_cons_of_neg hc] at hd'
        have hd0 : d = 0 := by simpa using hd'
        subst hd0
        simp only [List.getElem?_cons_zero, Option.some.injEq] at hr
        subst hr
        simp [hc]

/-- the stored part of the history ends before the wanted revision:
`history-incomplete` names the first revision that is not stored, WITH ITS OWN
REVNO (the known revno minus the number of stored revisions walked) -/
theorem walkFor_incomplete (g : Graph) (R : List Nat) : ∀ (d : Nat) (H : List Nat) (x : Nat) (rest : List Nat)
    (k : Int) (y : Nat), isLeftChain g H = true → H = x :: rest → stores g R x = true →
    (H.takeWhile (stores g R)).length < d → H[(H.takeWhile (stores g R)).length]? = some y →
    walkFor g R d x k = .incomplete (k - ((H.takeWhile (stores g R)).length : Nat)) y := by
  intro d
  induction d with
  | zero => intro H x rest k y _ _ _ hd _; omega
  | succ d ih =>
    intro H x rest k y hch hH hx hd hy
    subst hH
    rw [List.takeWhile_cons_of_pos hx, List.length_cons] at hd hy ⊢
    cases rest with
    | nil => simp at hy
    | cons c rest' =>
      obtain ⟨hraw, hch'⟩ := isLeftChain_cons2 hch
      simp only [List.getElem?_cons_succ] at hy
      unfold walkFor
      simp only [hraw]
      by_cases hc : stores g R c = true
      · simp only [hc, if_true]
        have := ih (c :: rest') c rest' (k - 1) y hch' rfl hc (by omega) hy
        rw [this]
        congr 1
        push_cast
        omega
      · rw [List.takeWhile_cons_of_neg hc] at hd hy ⊢
        simp only [List.length_nil, List.getElem?_cons_zero, Option.some.injEq] at hd hy
        subst hy
        have hd0 : d ≠ 0 := by omega
        simp only [hc, Bool.false_eq_true, if_false, hd0, List.length_nil]
        congr 1

/-! ### the chain of fallbacks -/

/-- **Key lemma.**  Along a left-hand chain `H` starting at the known revision
`x` with revno `k`, a chain of repositories that covers `H` finds the revision
`d` steps down (revno `k - d`). -/
theorem chain_found (fx : Bool) (g : Graph) : ∀ (chain : List (List Nat)) (H : List Nat) (x : Nat) (rest : List Nat)
    (k : Int) (d : Nat) (r : Nat), isLeftChain g H = true → H = x :: rest → chainCovers fx g chain H = true →
    H[d]? = some r → chainRevIdForRevno fx g chain (k - (d : Int)) (k, x) = .ok (.found r) := by
  intro chain
  induction chain with
  | nil =>
    intro H x rest k d r _ hH hc _
    subst hH
    simp [chainCovers] at hc
  | cons R fbs ih =>
    intro H x rest k d r hch hH hc hr
    subst hH
    have hdist : ¬ (k - (k - (d : Int)) < 0) := by omega
    have htoNat : (k - (k - (d : Int))).toNat = d := by omega
    unfold chainCovers at hc
    by_cases hx : stores g R x = true
    · simp only [hx, if_true] at hc
      unfold chainRevIdForRevno repoRevIdForRevno
      simp only [hdist, if_false, hx, Bool.not_true, Bool.false_eq_true, htoNat]
      by_cases hd : d ≤ ((x :: rest).takeWhile (stores g R)).length
      · rw [walkFor_found g R d (x :: rest) x rest k r hch rfl hd hr]
      · have hn : ((x :: rest).takeWhile (stores g R)).length < d := by omega
        have hdl : d < (x :: rest).length := by
          rcases List.getElem?_eq_some_iff.mp hr with ⟨h, _⟩; exact h
        have hnl : ((x :: rest).takeWhile (stores g R)).length < (x :: rest).length := by omega
        have hy := List.getElem?_eq_getElem hnl
        rw [walkFor_incomplete g R d (x :: rest) x rest k _ hch rfl hx hn hy]
        simp only []
        rw [dropWhile_eq_drop_takeWhile, List.drop_eq_getElem_cons hnl] at hc
        generalize hnn : ((x :: rest).takeWhile (stores g R)).length = n at *
        have hrev : k - (d : Int) = (k - (n : Int)) - ((d - n : Nat) : Int) := by omega
        rw [hrev]
        apply ih ((x :: rest)[n] :: (x :: rest).drop (n + 1)) _ _ (k - (n : Int)) (d - n) r ?_ rfl hc ?_
        · rw [← List.drop_eq_getElem_cons hnl]
          exact isLeftChain_drop n _ hch
        · rw [← List.drop_eq_getElem_cons hnl, List.getElem?_drop]
          have : n + (d - n) = d := by omega
          rw [this]; exact hr
    · simp only [hx, Bool.false_eq_true, if_false, Bool.and_eq_true, Bool.not_eq_true'] at hc
      obtain ⟨⟨hfx, hne⟩, hc'⟩ := hc
      subst hfx
      unfold chainRevIdForRevno repoRevIdForRevno
      simp only [hdist, if_false, hx, Bool.not_false, if_true, hne, Bool.not_false, Bool.and_self]
      exact ih (x :: rest) x rest k d r hch rfl hc' hr

theorem chainCovers_ne_nil {fx : Bool} {g : Graph} {chain : List (List Nat)} {x : Nat} {rest : List Nat}
    (h : chainCovers fx g chain (x :: rest) = true) : ∃ R fbs, chain = R :: fbs := by
  cases chain with
  | nil => simp [chainCovers] at h
  | cons R fbs => exact ⟨R, fbs, rfl⟩

/-- `RemoteBranch.get_rev_id` on a covering chain is `BzrBranch.get_rev_id` on the whole graph -/
theorem remoteGetRevId_eq (fx : Bool) (b : Branch) (chain : List (List Nat)) (revno : Int)
    (htip : ∀ t, b.tip = some t → t < b.g.length) (hc : chainCovers fx b.g chain b.history = true) :
    remoteGetRevId fx b chain revno = b.getRevId revno := by
  unfold remoteGetRevId Branch.getRevId
  by_cases h0 : revno = 0
  · simp [h0]
  · simp only [h0, if_false]
    by_cases hneg : revno < 0
    · have : revno ≤ 0 ∨ revno > (b.lastRevno : Int) := Or.inl (by omega)
      simp [hneg, this]
    · simp only [hneg, if_false]
      cases htp : b.tip with
      | none =>
        have hL : b.lastRevno = 0 := by simp [Branch.lastRevno, Branch.history, htp]
        have : revno ≤ 0 ∨ revno > (b.lastRevno : Int) := Or.inr (by rw [hL]; omega)
        simp [this]
      | some t =>
        simp only []
        have htl := htip t htp
        obtain ⟨rest, hhist⟩ : ∃ rest, b.history = t :: rest := by
          unfold Branch.history; rw [htp]; exact lefthand_head_eq b.g t t htl
        by_cases hbig : revno > (b.lastRevno : Int)
        · have : revno ≤ 0 ∨ revno > (b.lastRevno : Int) := Or.inr hbig
          simp only [this, if_true]
          rw [hhist] at hc
          obtain ⟨R, fbs, hchain⟩ := chainCovers_ne_nil hc
          subst hchain
          have hd : (b.lastRevno : Int) - revno < 0 := by omega
          simp [chainRevIdForRevno, repoRevIdForRevno, hd]
        · have hno : ¬ (revno ≤ 0 ∨ revno > (b.lastRevno : Int)) := by omega
          simp only [hno, if_false]
          have hL : b.lastRevno = b.history.length := rfl
          have hlt : ((b.lastRevno : Int) - revno).toNat < b.history.length := by omega
          have hget := List.getElem?_eq_getElem hlt
          rw [hget]
          have hrev : revno = (b.lastRevno : Int) - ((((b.lastRevno : Int) - revno).toNat : Nat) : Int) := by omega
          have := chain_found fx b.g chain b.history t rest (b.lastRevno : Int) ((b.lastRevno : Int) - revno).toNat
            _ (history_isLeftChain b) hhist hc hget
          rw [← hrev] at this
          rw [this]

/-! ### the server-side identifier → number walk -/

theorem revIdIs_iff (id : RevId) (x : Nat) : revIdIs id x = true ↔ id = .rev x := by
  unfold revIdIs
  exact beq_iff_eq

theorem serverWalk_found (g : Graph) (R : List Nat) (id : RevId) : ∀ (l : List Nat) (i0 i : Nat),
    serverWalk g R id l i0 = .found i → ∃ r, id = .rev r ∧ i0 ≤ i ∧ l.idxOf? r = some (i - i0) := by
  intro l
  induction l with
  | nil => intro i0 i h; simp [serverWalk] at h
  | cons x rest ih =>
    intro i0 i h
    unfold serverWalk at h
    split at h
    · cases h
    · split at h
      · rename_i hid
        cases h
        refine ⟨x, (revIdIs_iff id x).mp hid, Nat.le_refl _, ?_⟩
        simp [List.idxOf?_cons]
      · rename_i hid
        split at h
        · split at h <;> cases h
        · rename_i c rest'
          obtain ⟨r, hr, hle, hidx⟩ := ih (i0 + 1) i h
          refine ⟨r, hr, by omega, ?_⟩
          have hne : (x == r) = false := by
            rw [beq_eq_false_iff_ne]
            intro hxr
            subst hxr
            exact hid ((revIdIs_iff id x).mpr hr)
          rw [List.idxOf?_cons, hne, hidx]
          simp only [Bool.false_eq_true, if_false, Option.map_some, Option.some.injEq]
          omega

theorem serverWalk_ended (g : Graph) (R : List Nat) (id : RevId) : ∀ (l : List Nat) (i0 : Nat),
    serverWalk g R id l i0 = .ended → ∀ r, id = .rev r → r ∉ l := by
  intro l
  induction l with
  | nil => intro i0 _ r _ hm; cases hm
  | cons x rest ih =>
    intro i0 h r hr hm
    unfold serverWalk at h
    split at h
    · cases h
    · split at h
      · cases h
      · rename_i hid
        have hxr : x ≠ r := by
          intro hxr; subst hxr
          exact hid ((revIdIs_iff id x).mpr hr)
        have hmr : r ∈ rest := by
          rcases List.mem_cons.mp hm with h1 | h1
          · exact absurd h1.symm hxr
          · exact h1
        split at h
        · cases hmr
        · exact ih (i0 + 1) h r hr hmr

/-- a mainline revision inside the part of the history that the repository
stores contiguously from the tip is found, at its index -/
theorem serverWalk_own (g : Graph) (R : List Nat) (r : Nat) : ∀ (l : List Nat) (i0 : Nat),
    r ∈ l.takeWhile (stores g R) → ∃ i, l.idxOf? r = some i ∧ serverWalk g R (.rev r) l i0 = .found (i0 + i) := by
  intro l
  induction l with
  | nil => intro i0 h; cases h
  | cons x rest ih =>
    intro i0 h
    have hx : stores g R x = true := by
      by_cases hx : stores g R x = true
      · exact hx
      · rw [List.takeWhile_cons_of_neg hx] at h; cases h
    rw [List.takeWhile_cons_of_pos hx] at h
    unfold serverWalk
    simp only [hx, Bool.not_true, Bool.false_eq_true, if_false]
    by_cases hxr : x = r
    · subst hxr
      refine ⟨0, by simp [List.idxOf?_cons], ?_⟩
      simp [revIdIs]
    · have hmr : r ∈ rest.takeWhile (stores g R) := by
        rcases List.mem_cons.mp h with h1 | h1
        · exact absurd h1.symm hxr
        · exact h1
      have hid : revIdIs (.rev r) x = false := by
        unfold revIdIs
        rw [beq_eq_false_iff_ne]
        intro hc; cases hc; exact hxr rfl
      simp only [hid, Bool.false_eq_true, if_false]
      obtain ⟨i, hi, hw⟩ := ih (i0 + 1) hmr
      cases rest with
      | nil => cases hmr
      | cons c rest' =>
        simp only []
        refine ⟨i + 1, ?_, ?_⟩
        · have hne : (x == r) = false := by rw [beq_eq_false_iff_ne]; exact hxr
          rw [List.idxOf?_cons, hne, hi]; rfl
        · rw [hw]; congr 1; omega

end BreezyVerif.C22
