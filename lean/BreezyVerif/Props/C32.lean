import BreezyVerif.Lemmas.C32B
import BreezyVerif.Lemmas.C32W
import BreezyVerif.Lemmas.C32X
/-
C32 — operations through a smart server match local operations.

`remote_step_refines_local`: for EVERY state, every source graph, every set of
extra revisions the server chooses to add to a get_parent_map answer and every
modelled operation, the remote step (verb calls through the wire codecs, the
server executing them on the stored state) returns the same result and leaves
the same state as the local step.  Hypotheses: the revision ids that travel in
the line-oriented get_parent_map response are wire-safe (`RevOK`: non-empty, no
blank, no newline, not starting with "missing:") — for the stored graph, the
server's extras and the requested keys.

Part 2 (Model/C32S.lean): lock-scope sessions on ONE long-lived object with the
client-side caches as state.  `remote_session_step_spec` / `remote_session_run_spec`
(cache coherence is an invariant of every operation; the cached remote run = the
cache-free specification), `local_session_*` (the same for the local object),
`remote_session_refines_local` (the refinement), `session_caches_scoped`,
`seeded_variant_invisible_without_lock_scope` + `stale_tip_cache_witness` (why the
sequences must stay inside one lock scope), the as-found tag-cache findings
(`…_partial`, two witnesses), and the link to the single-operation model.
-/
namespace BreezyVerif.C32

open BreezyVerif.C33 (toDec parseDec parseDec_toDec)

/-- **refinement, fixed client**: every modelled operation through the smart
server = the same operation locally (result and state) -/
theorem remote_step_refines_local (src : Graph) (ex : List RevId) (st : St) (op : Op)
    (hg : GraphOK st.revs) (hex : ∀ k ∈ ex, RevOK k) (hop : OpOK op) :
    remoteStep true src ex st op = localStep src st op := by
  cases op with
  | tipSet n r =>
    simp only [remoteStep, localStep]
    rw [rLocked_eq src st ex _ (fun s => { s with tip := (n, r) })]
    · rfl
    · intro t s hl
      simp only [serve]
      rw [withToken_held hl]
      simp [parseDec_toDec]
  | confSet name v =>
    simp only [remoteStep, localStep]
    rw [rLocked_eq src st ex _ (fun s => { s with conf := dset s.conf name v })]
    · rfl
    · intro t s hl
      simp only [serve]
      rw [withToken_held hl]
  | tagSet name r =>
    simp only [remoteStep, localStep, rLock_eq]
    cases h : primLock st none with
    | error e => rfl
    | ok p =>
      obtain ⟨t, s1⟩ := p
      have hl := primLock_none_ok h
      simp only [serve, withToken_held hl, rUnlock_eq, if_true]
  | tagDel name =>
    simp only [remoteStep, localStep, rLock_eq]
    cases h : primLock st none with
    | error e => rfl
    | ok p =>
      obtain ⟨t, s1⟩ := p
      have hl := primLock_none_ok h
      simp only [serve]
      cases hlk : lookup name s1.tags with
      | none =>
        simp only [rUnlock_eq]
      | some v =>
        simp only [withToken_held hl, rUnlock_eq, if_true]
  | tagDict => simp [remoteStep, localStep, serve]
  | confGet name =>
    simp only [remoteStep, localStep, serve]
    cases lookup name st.conf <;> rfl
  | lockLeave =>
    simp only [remoteStep, localStep, rLock_eq]
  | relockRelease good =>
    simp only [remoteStep, localStep, rLock_eq, rUnlock_eq]
  | tipSetTok good n r =>
    simp only [remoteStep, localStep, rLock_eq]
    cases h : primLock st (some ((presented st good).getD st.nextTok)) with
    | error e => rfl
    | ok p =>
      obtain ⟨t, s1⟩ := p
      obtain ⟨hl, _, _⟩ := primLock_some_ok h
      simp [serve, withToken_held hl, parseDec_toDec]
  | parentMap keys =>
    simp only [remoteStep, localStep]
    rw [remoteParentMap_eq src st ex keys hg hex hop]
  | tip =>
    simp [remoteStep, localStep, serve, parseDec_toDec]
  | fetch r =>
    simp only [remoteStep, localStep, serve]

/-- **as found** (`RemoteRepository._get_parent_map_rpc` drops the null: entry):
refinement holds for every operation except get_parent_map requests naming
null: together with another key.  PARTIAL — see `parent_map_null_dropped_witness`. -/
theorem remote_step_refines_local_partial (src : Graph) (ex : List RevId) (st : St) (op : Op)
    (hg : GraphOK st.revs) (hex : ∀ k ∈ ex, RevOK k) (hop : OpOK op) (hn : NullAlone op) :
    remoteStep false src ex st op = localStep src st op := by
  rw [← remote_step_refines_local src ex st op hg hex hop]
  cases op with
  | parentMap keys =>
    simp only [remoteStep]
    rw [remoteParentMap_as_found src st ex keys hn]
  | _ => rfl

/-- the failing input: with revision a1 stored, get_parent_map([a1, null:]) is
{a1: (null:,), null: ()} locally and {a1: (null:,)} through the server -/
theorem parent_map_null_dropped_witness :
    let st : St := { St.init with revs := [([97, 49], [])] }
    let op := Op.parentMap [[97, 49], nullRev]
    (localStep [] st op).1 = .pmap [([97, 49], [nullRev]), (nullRev, [])]
      ∧ (remoteStep false [] [] st op).1 = .pmap [([97, 49], [nullRev])]
      ∧ (remoteStep true [] [] st op).1 = .pmap [([97, 49], [nullRev]), (nullRev, [])] := by
  decide

/-! ### whole scripts -/

/-- **refinement for whole scripts**: any sequence of modelled operations gives
the same list of results and the same final state through the smart server as
locally -/
theorem remote_run_refines_local (src : Graph) (ex : List RevId) (hs : GraphOK src)
    (hex : ∀ k ∈ ex, RevOK k) :
    ∀ (ops : List Op) (st : St), GraphOK st.revs → (∀ op ∈ ops, OpOK op) →
      runWith (remoteStep true src ex) st ops = runWith (localStep src) st ops
  | [], st, _, _ => rfl
  | op :: ops, st, hg, hops => by
    simp only [runWith]
    rw [remote_step_refines_local src ex st op hg hex (hops op (by simp))]
    rw [remote_run_refines_local src ex hs hex ops (localStep src st op).2
      (localStep_graphOK src hs st op hg) (fun o ho => hops o (List.mem_cons_of_mem _ ho))]

/-- non-vacuity: a wire-safe graph, a wire-safe request, and a run that exercises locks and tokens -/
example : GraphOK [([97, 49], []), ([114, 50], [[97, 49]])] := by
  intro e he
  simp only [List.mem_cons, List.mem_nil_iff, or_false] at he
  rcases he with rfl | rfl
  · exact ⟨⟨by decide, by decide, by decide, by decide⟩, by simp⟩
  · refine ⟨⟨by decide, by decide, by decide, by decide⟩, ?_⟩
    intro p hp
    simp only [List.mem_singleton] at hp
    subst hp
    exact ⟨by decide, by decide, by decide, by decide⟩

example : OpOK (.parentMap [[97, 49], nullRev]) := by
  intro k hk
  simp only [List.mem_cons, List.mem_nil_iff, or_false] at hk
  rcases hk with rfl | rfl
  · exact ⟨by decide, by decide, by decide, by decide⟩
  · exact nullRev_ok

example :
    (runWith (localStep [([97, 49], [])]) St.init
      [.fetch [97, 49], .lockLeave, .tipSet 1 [97, 49], .tipSetTok true 1 [97, 49], .relockRelease true, .tip]).1
    = [.ok, .token, .err .lockContention, .ok, .ok, .info 1 [97, 49]] := by decide

/-! ## part 2: lock-scope sessions, caches as state -/

/-- **cache transparency, local object**: from a coherent object every operation of a `BzrBranch`-like
object (cached tip / tags) returns what the cache-free specification returns, leaves the same stored state
and lock state, and the object is coherent again -/
theorem local_session_step_spec (src : Graph) (o : Obj) (st : St) (op : SOp) (hc : Coherent o st) (hl : LocalObj o) :
    (lsStep src o st op).1 = (specStep src o.lk st op).1
      ∧ (lsStep src o st op).2.1.lk = (specStep src o.lk st op).2.1
      ∧ (lsStep src o st op).2.2 = (specStep src o.lk st op).2.2
      ∧ Coherent (lsStep src o st op).2.1 (lsStep src o st op).2.2
      ∧ LocalObj (lsStep src o st op).2.1 :=
  sessStep_spec src (lsBody src) LocalObj localObj_stable o st op hc hl
    (fun o' st' hc' hl' _ => lsBody_spec src op o' st' hc' hl')

/-- **cache transparency, remote object** (one step of the cache-invalidation invariant): for EVERY
coherent object, stored state, source graph and operation, the `RemoteBranch` step — RPC verbs through the
wire codecs, `pull` delegated to the VFS branch object with its own caches — returns the specification's
result, leaves the specification's stored state and lock state, and ALL FOUR caches (own tip / tags, VFS
branch's tip / tags) are coherent with the new stored state again.  Hypotheses: the client primes / clears
the VFS branch's tip cache after `set_last_revision_info` (`tipCoherent`, as /repo does), and either keeps
both tag caches coherent or the operation brings no source tags while the VFS branch's tags cache is empty. -/
theorem remote_session_step_spec (v : Variant) (src : Graph) (ex : List RevId) (o : Obj) (st : St) (op : SOp)
    (hv : v.tipCoherent = true) (hl : v.leaveReset = true)
    (ht : (v.tagsOwn = true ∧ v.tagsReal = true) ∨ NoSrcTags op)
    (hc : Coherent o st) (hi : TagsInv v o) :
    (rsStep v src ex o st op).1 = (specStep src o.lk st op).1
      ∧ (rsStep v src ex o st op).2.1.lk = (specStep src o.lk st op).2.1
      ∧ (rsStep v src ex o st op).2.2 = (specStep src o.lk st op).2.2
      ∧ Coherent (rsStep v src ex o st op).2.1 (rsStep v src ex o st op).2.2
      ∧ TagsInv v (rsStep v src ex o st op).2.1 := by
  unfold rsStep
  rw [rLock_fun_eq, rUnlock_fun_eq, hl]
  apply sessStep_spec src (rsBody v src ex) (TagsInv v) (tagsInv_stable v) o st op hc hi
  intro o' st' hc' hi' hw
  have hts : TagsSafe v op o' := by
    rcases ht with h | h
    · exact Or.inl h
    · rcases hi' with h' | h'
      · exact Or.inl h'
      · exact Or.inr ⟨h, h'⟩
  exact rsBody_spec v src ex op o' st' hc' hw hv hts

/-- whole sessions of the local object = the specification (induction over the script) -/
theorem local_session_run_spec (src : Graph) :
    ∀ (ops : List SOp) (o : Obj) (st : St), Coherent o st → LocalObj o →
      (runSess (lsStep src) o st ops).1 = (runSpec src o.lk st ops).1
        ∧ (runSess (lsStep src) o st ops).2.1.lk = (runSpec src o.lk st ops).2.1
        ∧ (runSess (lsStep src) o st ops).2.2 = (runSpec src o.lk st ops).2.2
        ∧ Coherent (runSess (lsStep src) o st ops).2.1 (runSess (lsStep src) o st ops).2.2
  | [], o, st, hc, _ => ⟨rfl, rfl, rfl, hc⟩
  | op :: ops, o, st, hc, hl => by
    obtain ⟨s1, s2, s3, s4, s5⟩ := local_session_step_spec src o st op hc hl
    obtain ⟨r1, r2, r3, r4⟩ := local_session_run_spec src ops _ _ s4 s5
    simp only [runSess, runSpec]
    rw [r1, r2, r3] at *
    rw [s1, s2, s3] at *
    exact ⟨rfl, rfl, rfl, by rw [← r3]; exact r4⟩


/-- **cache-invalidation invariant, by induction over the operations**: along ANY script (arbitrary
nesting of lock scopes, VFS-delegated pulls, tip and tag writes over RPC, reads) the remote object stays
coherent with the stored state, and the whole run returns the specification's results and final state -/
theorem remote_session_run_spec (v : Variant) (src : Graph) (ex : List RevId) (hv : v.tipCoherent = true)
    (hl : v.leaveReset = true) :
    ∀ (ops : List SOp) (o : Obj) (st : St), Coherent o st → TagsInv v o →
      ((v.tagsOwn = true ∧ v.tagsReal = true) ∨ ∀ op ∈ ops, NoSrcTags op) →
      (runSess (rsStep v src ex) o st ops).1 = (runSpec src o.lk st ops).1
        ∧ (runSess (rsStep v src ex) o st ops).2.1.lk = (runSpec src o.lk st ops).2.1
        ∧ (runSess (rsStep v src ex) o st ops).2.2 = (runSpec src o.lk st ops).2.2
        ∧ Coherent (runSess (rsStep v src ex) o st ops).2.1 (runSess (rsStep v src ex) o st ops).2.2
  | [], o, st, hc, _, _ => ⟨rfl, rfl, rfl, hc⟩
  | op :: ops, o, st, hc, hi, ht => by
    have ht1 : (v.tagsOwn = true ∧ v.tagsReal = true) ∨ NoSrcTags op := by
      rcases ht with h | h
      · exact Or.inl h
      · exact Or.inr (h op (by simp))
    have ht2 : (v.tagsOwn = true ∧ v.tagsReal = true) ∨ ∀ op' ∈ ops, NoSrcTags op' := by
      rcases ht with h | h
      · exact Or.inl h
      · exact Or.inr (fun op' h' => h op' (List.mem_cons_of_mem _ h'))
    obtain ⟨s1, s2, s3, s4, s5⟩ := remote_session_step_spec v src ex o st op hv hl ht1 hc hi
    obtain ⟨r1, r2, r3, r4⟩ := remote_session_run_spec v src ex hv hl ops _ _ s4 s5 ht2
    simp only [runSess, runSpec]
    rw [r1, r2, r3] at *
    rw [s1, s2, s3] at *
    exact ⟨rfl, rfl, rfl, by rw [← r3]; exact r4⟩

/-- **refinement of whole sessions** (the property, for the modelled operations): any script run on ONE
long-lived `RemoteBranch` object — whatever its lock scopes — returns the same list of results, leaves the
same stored branch / repository state and the same logical lock state as the script run on a local object.
Client with coherent tip AND tag caches (`Variant.fixed`). -/
theorem remote_session_refines_local (src : Graph) (ex : List RevId) (ops : List SOp) (ro lo : Obj) (st : St)
    (hr : Coherent ro st) (hl : Coherent lo st) (hlo : LocalObj lo) (hk : ro.lk = lo.lk) :
    (runSess (rsStep Variant.fixed src ex) ro st ops).1 = (runSess (lsStep src) lo st ops).1
      ∧ (runSess (rsStep Variant.fixed src ex) ro st ops).2.2 = (runSess (lsStep src) lo st ops).2.2
      ∧ (runSess (rsStep Variant.fixed src ex) ro st ops).2.1.lk = (runSess (lsStep src) lo st ops).2.1.lk := by
  obtain ⟨a1, a2, a3, _⟩ := remote_session_run_spec Variant.fixed src ex rfl rfl ops ro st hr (Or.inl ⟨rfl, rfl⟩)
    (Or.inl ⟨rfl, rfl⟩)
  obtain ⟨b1, b2, b3, _⟩ := local_session_run_spec src ops lo st hl hlo
  rw [a1, a2, a3, b1, b2, b3, hk]
  exact ⟨rfl, rfl, rfl⟩

/-- **as found** (`RemoteBranch` does not keep the tag caches coherent): PARTIAL — refinement holds for
every script whose pulls bring no source tags.  What is missing is exactly the family of
`stale_tags_cache_witness` / `stale_vfs_tags_cache_witness`. -/
theorem remote_session_refines_local_partial (src : Graph) (ex : List RevId) (ops : List SOp) (ro lo : Obj) (st : St)
    (hr : Coherent ro st) (hl : Coherent lo st) (hlo : LocalObj lo) (hk : ro.lk = lo.lk)
    (hn : ro.realTagsC = none) (hops : ∀ op ∈ ops, NoSrcTags op) :
    (runSess (rsStep Variant.asFound src ex) ro st ops).1 = (runSess (lsStep src) lo st ops).1
      ∧ (runSess (rsStep Variant.asFound src ex) ro st ops).2.2 = (runSess (lsStep src) lo st ops).2.2
      ∧ (runSess (rsStep Variant.asFound src ex) ro st ops).2.1.lk = (runSess (lsStep src) lo st ops).2.1.lk := by
  obtain ⟨a1, a2, a3, _⟩ := remote_session_run_spec Variant.asFound src ex rfl rfl ops ro st hr (Or.inr hn)
    (Or.inr hops)
  obtain ⟨b1, b2, b3, _⟩ := local_session_run_spec src ops lo st hl hlo
  rw [a1, a2, a3, b1, b2, b3, hk]
  exact ⟨rfl, rfl, rfl⟩

/-- caches live only inside lock scopes: for ANY client variant (also the broken ones) and any script, an
object that is not locked holds no cached tip / tags, its own or its VFS branch's — which is why stale
caches can only be observed by operation sequences INSIDE one lock scope -/
theorem session_caches_scoped (v : Variant) (src : Graph) (ex : List RevId) :
    ∀ (ops : List SOp) (o : Obj) (st : St), Scoped o → Scoped (runSess (rsStep v src ex) o st ops).2.1
  | [], _, _, hs => hs
  | op :: ops, o, st, hs => by
    simp only [runSess]
    exact session_caches_scoped v src ex ops _ _
      (sessStep_scoped _ _ _ (rsBody v src ex) (rsBody_lk v src ex) o st op hs)

/-- the same for the local object -/
theorem local_session_caches_scoped (src : Graph) :
    ∀ (ops : List SOp) (o : Obj) (st : St), Scoped o → Scoped (runSess (lsStep src) o st ops).2.1
  | [], _, _, hs => hs
  | op :: ops, o, st, hs => by
    simp only [runSess]
    exact local_session_caches_scoped src ops _ _
      (sessStep_scoped _ _ _ (lsBody src) (lsBody_lk src) o st op hs)


/-- **the property for the modelled session operations, without any hypothesis**: for every stored state,
source graph and script, a freshly opened RemoteBranch object driven through the script gives the same results,
the same stored state and the same lock state as a freshly opened local object -/
theorem fresh_remote_session_refines_local (src : Graph) (ex : List RevId) (st : St) (ops : List SOp) :
    (runSess (rsStep Variant.fixed src ex) {} st ops).1 = (runSess (lsStep src) {} st ops).1
      ∧ (runSess (rsStep Variant.fixed src ex) {} st ops).2.2 = (runSess (lsStep src) {} st ops).2.2
      ∧ (runSess (rsStep Variant.fixed src ex) {} st ops).2.1.lk = (runSess (lsStep src) {} st ops).2.1.lk :=
  remote_session_refines_local src ex ops {} {} st (coherent_fresh st) (coherent_fresh st) ⟨rfl, rfl, rfl⟩ rfl

/-- the same as found, for scripts whose pulls bring no source tags -/
theorem fresh_remote_session_refines_local_partial (src : Graph) (ex : List RevId) (st : St) (ops : List SOp)
    (hops : ∀ op ∈ ops, NoSrcTags op) :
    (runSess (rsStep Variant.asFound src ex) {} st ops).1 = (runSess (lsStep src) {} st ops).1
      ∧ (runSess (rsStep Variant.asFound src ex) {} st ops).2.2 = (runSess (lsStep src) {} st ops).2.2
      ∧ (runSess (rsStep Variant.asFound src ex) {} st ops).2.1.lk = (runSess (lsStep src) {} st ops).2.1.lk :=
  remote_session_refines_local_partial src ex ops {} {} st (coherent_fresh st) (coherent_fresh st) ⟨rfl, rfl, rfl⟩ rfl
    rfl hops


/-- **why single operations cannot see it**: a client whose `set_last_revision_info` does not clear /
prime the VFS branch's caches (`Variant.seeded`) is step-for-step IDENTICAL (result, object, stored state) to
the correct client on every operation issued on an unlocked object — each operation then has its own lock
cycle and the unlock drops every cache.  Only a sequence inside one lock scope can tell them apart
(`stale_tip_cache_witness`). -/
theorem seeded_variant_invisible_without_lock_scope (src : Graph) (ex : List RevId) (o : Obj) (st : St) (op : SOp)
    (hu : o.lk.mode = .unlocked) :
    rsStep Variant.seeded src ex o st op = rsStep Variant.fixed src ex o st op := by
  cases op with
  | setTip n r =>
    simp only [rsStep, sessStep]
    exact withLk_unlocked_mod_caches _ _ _ _ o st _ _ hu
      (fun o' st' => ⟨rsBody_lk _ src ex _ o' st', rsBody_lk _ src ex _ o' st'⟩)
      (fun o' st' => rsBody_setTip_mod_caches _ _ src ex n r o' st')
  | _ => rfl



/-- **a stale VFS-branch tip cache is observable** (the input family the generator must contain): in ONE
write-lock scope — pull a2 (the VFS branch caches the tip), set the tip to a3 over RPC, pull the rival x3 —
the local run and the correct client refuse the last pull (diverged, tip stays a3); the client that does not
prime the VFS branch's cache accepts it and the stored tip becomes x3 -/
theorem stale_tip_cache_witness :
    (runSess (lsStep wSrc) {} St.init wScript).1
        = [.token, .moved (0, nullRev) (2, wA2) 0, .moved (2, wA2) (3, wA3) 0, .err .diverged, .ok]
      ∧ (runSess (lsStep wSrc) {} St.init wScript).2.2.tip = (3, wA3)
      ∧ (runSess (rsStep Variant.fixed wSrc []) {} St.init wScript).1
        = [.token, .moved (0, nullRev) (2, wA2) 0, .moved (2, wA2) (3, wA3) 0, .err .diverged, .ok]
      ∧ (runSess (rsStep Variant.seeded wSrc []) {} St.init wScript).1
        = [.token, .moved (0, nullRev) (2, wA2) 0, .moved (2, wA2) (3, wA3) 0, .moved (2, wA2) (3, wX3) 0, .ok]
      ∧ (runSess (rsStep Variant.seeded wSrc []) {} St.init wScript).2.2.tip = (3, wX3) := by
  decide

/-- **finding, own tags cache** (as found in /repo): lock, read the tags, pull a source with tag v1 (merged
by the VFS branch), set a tag: the RemoteBranch writes its stale dictionary back and v1 is lost -/
theorem stale_tags_cache_witness :
    let ops : List SOp := [.lockW, .tagDict, .pull false 1 wA1 [(tV1, wA1)], .tagSet tMine wA1, .unlock]
    (runSess (lsStep wSrc) {} St.init ops).2.2.tags = [(tV1, wA1), (tMine, wA1)]
      ∧ (runSess (rsStep Variant.fixed wSrc []) {} St.init ops).2.2.tags = [(tV1, wA1), (tMine, wA1)]
      ∧ (runSess (rsStep Variant.asFound wSrc []) {} St.init ops).2.2.tags = [(tMine, wA1)] := by
  decide

/-- **finding, VFS branch's tags cache** (as found in /repo): lock, pull a tagged source (the VFS branch
caches the tags), set a tag over RPC, pull again with a new source tag: the VFS branch merges into its stale
dictionary and the tag set over RPC is lost -/
theorem stale_vfs_tags_cache_witness :
    let ops : List SOp := [.lockW, .pull false 1 wA1 [(tV1, wA1)], .tagSet tMine wA1,
      .pull false 1 wA1 [(tV1, wA1), (tV2, wA1)], .unlock]
    (runSess (lsStep wSrc) {} St.init ops).2.2.tags = [(tV1, wA1), (tMine, wA1), (tV2, wA1)]
      ∧ (runSess (rsStep Variant.fixed wSrc []) {} St.init ops).2.2.tags = [(tV1, wA1), (tMine, wA1), (tV2, wA1)]
      ∧ (runSess (rsStep Variant.asFound wSrc []) {} St.init ops).2.2.tags = [(tV1, wA1), (tV2, wA1)] := by
  decide


/-! ### token locks, the leave flag, a second holder of the physical lock -/

/-- **no orphaned physical lock** (invariant, by induction over the operations): along ANY script on one
long-lived RemoteBranch — lock scopes with and without tokens, borrowed locks, `dont_leave_lock_in_place()`, a
second holder object taking and releasing the physical lock, VFS pulls, tip and tag writes — that does not call
`leave_lock_in_place()`, every physical lock has a holder that will release it: it is free, or held by the
second holder, or held by the object in a scope whose last unlock releases it.  Nothing is assumed about the
leave flag the object carries over from earlier lock cycles. -/
theorem remote_session_no_orphaned_lock (src : Graph) (ex : List RevId) (ops : List SOp) (o : Obj) (st : St)
    (hc : Coherent o st) (hn : NoOrphan o.lk st) (hops : ∀ op ∈ ops, NoLeave op) :
    NoOrphan (runSess (rsStep Variant.fixed src ex) o st ops).2.1.lk (runSess (rsStep Variant.fixed src ex) o st ops).2.2 := by
  obtain ⟨_, a2, a3, _⟩ := remote_session_run_spec Variant.fixed src ex rfl rfl ops o st hc (Or.inl ⟨rfl, rfl⟩)
    (Or.inl ⟨rfl, rfl⟩)
  rw [a2, a3]
  exact runSpec_noOrphan src ops o.lk st hops hn

/-- **after the last unlock the physical lock is released, whatever earlier lock cycles did**: when such a
script ends with the object unlocked and the second holder not holding, the stored branch is not locked -/
theorem physical_lock_free_when_nobody_holds (src : Graph) (ex : List RevId) (ops : List SOp) (o : Obj) (st : St)
    (hc : Coherent o st) (hn : NoOrphan o.lk st) (hops : ∀ op ∈ ops, NoLeave op)
    (hu : (runSess (rsStep Variant.fixed src ex) o st ops).2.1.lk.mode = .unlocked)
    (ho : (runSess (rsStep Variant.fixed src ex) o st ops).2.2.owner = none) :
    (runSess (rsStep Variant.fixed src ex) o st ops).2.2.lock = none := by
  rcases remote_session_no_orphaned_lock src ex ops o st hc hn hops with h | h | h
  · exact h
  · rw [ho] at h; simp at h
  · rw [hu] at h; cases h.1

/-- a successful `lock_write()` WITHOUT a token on an unlocked object clears the leave flag — whatever value
earlier lock cycles (token locks, `leave_lock_in_place()`) left in it, for ANY object and stored state — and
holds the physical lock with the object's own token (`leaveReset`: as /repo does) -/
theorem untokened_lock_clears_leave_flag (v : Variant) (src : Graph) (ex : List RevId) (o : Obj) (st : St)
    (hl : v.leaveReset = true) (hu : o.lk.mode = .unlocked)
    (hok : (rsStep v src ex o st .lockW).1 = .token) :
    (rsStep v src ex o st .lockW).2.1.lk.leave = false
      ∧ (rsStep v src ex o st .lockW).2.1.lk.mode = .w
      ∧ (rsStep v src ex o st .lockW).2.1.lk.count = 1
      ∧ (rsStep v src ex o st .lockW).2.2.lock = (rsStep v src ex o st .lockW).2.1.lk.token
      ∧ (rsStep v src ex o st .lockW).2.1.lk.token.isSome = true := by
  revert hok
  simp only [rsStep, sessStep, acquire, hu, hl, rLock_eq, if_true, primLock]
  cases hlk : st.lock with
  | some x => simp
  | none => simp

/-- … and the last unlock of a write lock whose leave flag is clear sends `Branch.unlock`: the physical lock
is released (any client variant, any coherent object) -/
theorem last_unlock_releases (v : Variant) (src : Graph) (ex : List RevId) (o : Obj) (st : St)
    (hc : Coherent o st) (hm : o.lk.mode = .w) (hcnt : o.lk.count = 1) (hlv : o.lk.leave = false) :
    (rsStep v src ex o st .unlock).1 = .ok
      ∧ (rsStep v src ex o st .unlock).2.2.lock = none
      ∧ (rsStep v src ex o st .unlock).2.1.lk.mode = .unlocked := by
  obtain ⟨hs, hl⟩ := hc.2.2.2.2 hm
  obtain ⟨t, htk⟩ := Option.isSome_iff_exists.mp hs
  simp only [rsStep, sessStep, release, hm, hcnt, htk, hlv, rUnlock_eq, primRelease]
  simp [hl, htk, Obj.clear]

/-- **a stale leave flag is observable** (the input family the generator must contain): the second holder
locks, the object borrows the lock with the token and unlocks (the lock correctly stays), the holder releases,
the object takes and releases a lock of its own, the holder locks again.  Locally and with the correct client
the last step succeeds and the lock was free after step 6; the client that does not reset `_leave_lock` never
sent `Branch.unlock`: the branch is still locked with the object's token and the holder gets LockContention -/
theorem stale_leave_flag_witness :
    (runSess (lsStep []) {} St.init leaveScript).1 = [.token, .token, .ok, .ok, .token, .ok, .token]
      ∧ (runSess (rsStep Variant.fixed [] []) {} St.init leaveScript).1 = [.token, .token, .ok, .ok, .token, .ok, .token]
      ∧ (runSess (rsStep Variant.leaveSeeded [] []) {} St.init leaveScript).1
          = [.token, .token, .ok, .ok, .token, .ok, .err .lockContention]
      ∧ (runSess (rsStep Variant.fixed [] []) {} St.init (leaveScript.take 6)).2.2.lock = none
      ∧ (runSess (rsStep Variant.leaveSeeded [] []) {} St.init (leaveScript.take 6)).2.2.lock = some 1 := by
  decide


example : NoOrphan {} St.init ∧ (∀ op ∈ leaveScript, NoLeave op) := by decide

example :
    let r := runSess (rsStep Variant.fixed [] []) { lk := { leave := true } } St.init [.lockW]
    Coherent r.2.1 r.2.2 ∧ r.2.1.lk.mode = .w ∧ r.2.1.lk.count = 1 ∧ r.2.1.lk.leave = false := by decide

/-- the session specification extends the single-operation model of part 1: on an unlocked object an
operation of the session model is the corresponding `localStep` (here the write operation `tagSet` …) -/
theorem spec_unlocked_eq_localStep_tagSet (src : Graph) (st : St) (name : Bytes) (r : RevId) :
    ((specStep src {} st (.tagSet name r)).1, (specStep src {} st (.tagSet name r)).2.2)
      = localStep src st (.tagSet name r) := by
  simp only [specStep, withLkS, acquire, SOp.needsWrite, if_true, localStep, specBody]
  cases h : primLock st none with
  | error e => rfl
  | ok p =>
    obtain ⟨t, s1⟩ := p
    simp only [release]
    cases h2 : primRelease { s1 with tags := dset s1.tags name r } t with
    | error e => simp
    | ok s3 => simp

/-- … and the reads -/
theorem spec_unlocked_eq_localStep_reads (src : Graph) (st : St) :
    ((specStep src {} st .tip).1, (specStep src {} st .tip).2.2) = localStep src st .tip
      ∧ ((specStep src {} st .tagDict).1, (specStep src {} st .tagDict).2.2) = localStep src st .tagDict := by
  constructor <;> rfl

/-! non-vacuity: a fresh object is coherent, scoped and local; a state reached inside a lock scope with all
four caches filled is coherent; the partial theorem's hypothesis holds for a script with pulls, tip and tag
writes; `TagsInv` holds as found for a fresh object -/
example : Coherent {} St.init ∧ Scoped {} ∧ LocalObj {} ∧ TagsInv Variant.asFound {} := by decide

example :
    let r := runSess (rsStep Variant.fixed wSrc []) {} St.init
      [.lockW, .pull false 1 wA1 [(tV1, wA1)], .tip, .tagDict]
    Coherent r.2.1 r.2.2 ∧ r.2.1.tipC = some (1, wA1) ∧ r.2.1.realTipC = some (1, wA1)
      ∧ r.2.1.tagsC = some [(tV1, wA1)] ∧ r.2.1.realTagsC = some [(tV1, wA1)] ∧ r.2.1.lk.mode = .w := by decide

example : ∀ op ∈ wScript, NoSrcTags op := by decide

example : (runSpec wSrc {} St.init wScript).1
    = [.token, .moved (0, nullRev) (2, wA2) 0, .moved (2, wA2) (3, wA3) 0, .err .diverged, .ok] := by decide

end BreezyVerif.C32
