"""C28 finding `repo-unlock-in-write-group-keeps-fallbacks-locked`.

PackRepository.unlock(): releasing the last write lock while a write group is
active aborts the group, resets _write_lock_count and raises BzrError("Must end
write group ...") -- which @only_raises(LockNotHeld, LockBroken) logs and
discards, so the call returns None.  The raise leaves the method before the
`if not self.is_locked(): ... for repo in self._fallback_repositories:
repo.unlock()` block: the repository ends unlocked, its fallback repositories
(locked on the 0->1 edge) stay read-locked for ever.

Run:  /venv/bin/python repro_write_group_unlock.py [path-to-breezy-checkout]
exit 1 = defect present, 0 = absent.
"""
import os
import sys
import tempfile

repo = sys.argv[1] if len(sys.argv) > 1 else "/repo"
sys.path.insert(0, repo)
home = tempfile.mkdtemp(prefix="c28wg-", dir="/var/tmp")
os.environ.update(HOME=home, BRZ_HOME=home, BRZ_EMAIL="t <t@example.com>", BRZ_LOG="/dev/null")
import breezy
breezy.initialize()
import breezy.bzr  # noqa
import breezy.bzr.bzrdir  # noqa
import breezy.bzr.groupcompress_repo  # noqa
import breezy.bzr.workingtree_4  # noqa
from breezy.controldir import ControlDir, format_registry

wt = ControlDir.create_standalone_workingtree(os.path.join(home, "base"), format=format_registry.make_controldir("2a"))
wt.commit("one")
stacked = wt.branch.controldir.sprout(os.path.join(home, "stacked"), stacked=True).open_branch()
r = stacked.repository
fb = r._fallback_repositories[0]
assert not fb.is_locked()
r.lock_write()
r.start_write_group()
assert fb.is_locked()
res = r.unlock()        # the matching last unlock
print("unlock() returned %r; repository locked: %s; fallback locked: %s (lock count %d)"
      % (res, bool(r.is_locked()), fb.is_locked(), fb.control_files._lock_count))
if fb.is_locked():
    print("DEFECT: the repository is unlocked but its fallback repository is still locked")
    sys.exit(1)
print("ok")
