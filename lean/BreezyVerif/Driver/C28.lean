import BreezyVerif.Common
import BreezyVerif.Model.C28
namespace BreezyVerif.C28

def showMode : Option Mode → String
  | none => "-"
  | some .r => "r"
  | some .w => "w"

def showEv : Ev → Char
  | .acqR => 'R'
  | .acqW => 'W'
  | .acqT => 'T'
  | .rel => 'U'

def showLog (l : List Ev) : String := if l.isEmpty then "." else String.ofList (l.map showEv)

def showPhys (p : Phys) : String :=
  showMode p.held ++ (if p.viaTok then "t" else "f") ++ showOptNat p.disk ++ ":" ++ showLog p.log

def showCL (s : CL) : String :=
  ",".intercalate [showMode s.mode, toString s.count, showOptNat s.token, showPhys s.phys]

def showLF (s : LF) : String :=
  ",".intercalate [showMode s.mode, toString s.count, showMode s.txn, showOptNat s.tokenFromLock,
    showPhys s.phys]

def showRepo (s : Repo) : String :=
  ",".intercalate [toString s.wcount, showLF s.cf, toString s.fb, showLog s.fbLog]

def showBranch (s : Branch) : String := showLF s.cf ++ "|" ++ showRepo s.repo

def showRes : Res → String
  | .ok t => "ok:" ++ showOptNat t
  | .error .readOnly => "E:ReadOnly"
  | .error .notHeld => "E:LockNotHeld"
  | .error .tokenMismatch => "E:TokenMismatch"
  | .error .contention => "E:LockContention"
  | .error .lockError => "E:LockError"
  | .error .notWriteLocked => "E:NotWriteLocked"
  | .error .bzrError => "E:BzrError"

def parseOp (s : String) : Option Op :=
  if s == "r" then some .lockRead
  else if s == "w" then some (.lockWrite none)
  else if s == "wA" then some (.lockWrite (some 7))
  else if s == "wB" then some (.lockWrite (some 9))
  else if s == "u" then some .unlock
  else none

def parseSOp (s : String) : Option SOp :=
  match s.toList with
  | 'b' :: rest => (parseOp (String.ofList rest)).map SOp.branch
  | 'p' :: rest => (parseOp (String.ofList rest)).map SOp.repo
  | _ => none

/-- run `ops` from `s`, reporting result and complete state after every step -/
def trace {σ ω : Type} (step : σ → ω → σ × Res) (sh : σ → String) : σ → List ω → List String
  | _, [] => []
  | s, o :: ops =>
    let (s', r) := step s o
    (showRes r ++ "/" ++ sh s') :: trace step sh s' ops

def reply (l : List String) : String := if l.isEmpty then "-" else ";".intercalate l

def showTree (s : Tree) : String :=
  showLF s.cf ++ "|" ++ showBranch s.branch ++ "|" ++ showMode s.ds.held

def parseTOp (s : String) : Option TOp :=
  match s.toList with
  | 't' :: rest =>
    let r := String.ofList rest
    if r == "r" then some (.tree .lockRead)
    else if r == "t" then some (.tree .lockTreeWrite)
    else if r == "w" then some (.tree .lockWrite)
    else if r == "u" then some (.tree .unlock)
    else none
  | 'b' :: rest => (parseOp (String.ofList rest)).map TOp.branch
  | 'p' :: rest => (parseOp (String.ofList rest)).map TOp.repo
  | _ => none

def parseWOp (s : String) : Option WOp :=
  if s == "g" then some .startWG
  else if s == "a" then some .abortWG
  else (parseOp s).map WOp.op

def showRepoW (s : RepoW) : String := showRepo s.repo ++ "," ++ (if s.wg then "G" else "-")

/-- environment: `T`/`F` (a lock with the known nonce pre-exists on disk) followed by
any of the flags `x` (the object's own lock refuses `lock_read()`; kinds cl/lf/repo),
`t` / `c` / `p` (the tree's / the branch's / the repository's control-files lock does),
`d` (the dirstate file is pinned by another reader: its lock_write is refused) -/
structure Env where
  ext : Bool
  x : Bool
  t : Bool
  c : Bool
  p : Bool
  d : Bool

def parseEnv (s : String) : Option Env :=
  match s.toList with
  | e :: fl =>
    if fl.all (fun ch => ch == 'x' || ch == 't' || ch == 'c' || ch == 'p' || ch == 'd') then
      (parseBool (String.ofList [e])).map fun b =>
        { ext := b, x := fl.contains 'x', t := fl.contains 't', c := fl.contains 'c', p := fl.contains 'p',
          d := fl.contains 'd' }
    else none
  | [] => none

/-- `cl ENV OPS` | `lf ENV OPS` | `repo ENV OPS` | `branch ENV SOPS` | `branchG ENV SOPS` |
`tree ENV TOPS` | `treeG ENV TOPS` | `repow FX ENV WOPS` (OPS plus `g` start_write_group, `a`
abort_write_group; FX = T: unlock with the proposed fix) | `branchS FX ENV SOPS` (the branch's
config store raises in save_changes(); FX = T: with the proposed fix)
(OPS comma list of `r w wA wB u`, SOPS the same prefixed with `b` (branch) or `p`
(repository), TOPS additionally `tr tt tw tu` (tree lock_read / lock_tree_write /
lock_write / unlock)) -/
def handle : List String → String
  | ["cl", e, ops] =>
    match parseEnv e, (splitList ops).mapM parseOp with
    | some e, some ops => reply (trace CL.step showCL (CL.init e.ext e.x) ops)
    | _, _ => "bad-op"
  | ["lf", e, ops] =>
    match parseEnv e, (splitList ops).mapM parseOp with
    | some e, some ops => reply (trace LF.step showLF (LF.init e.ext e.x) ops)
    | _, _ => "bad-op"
  | ["repo", e, ops] =>
    match parseEnv e, (splitList ops).mapM parseOp with
    | some e, some ops => reply (trace Repo.step showRepo (Repo.init e.ext e.x) ops)
    | _, _ => "bad-op"
  | ["branch", e, ops] =>
    match parseEnv e, (splitList ops).mapM parseSOp with
    | some e, some ops => reply (trace Branch.step showBranch (Branch.init e.ext e.c e.p) ops)
    | _, _ => "bad-op"
  | ["branchG", e, ops] =>
    match parseEnv e, (splitList ops).mapM parseSOp with
    | some e, some ops => reply (trace Branch.stepG showBranch (Branch.init e.ext e.c e.p) ops)
    | _, _ => "bad-op"
  | ["tree", e, ops] =>
    match parseEnv e, (splitList ops).mapM parseTOp with
    | some e, some ops => reply (trace Tree.step showTree (Tree.init e.ext e.t e.c e.p e.d) ops)
    | _, _ => "bad-op"
  | ["repow", fx, e, ops] =>
    match parseBool fx, parseEnv e, (splitList ops).mapM parseWOp with
    | some fx, some e, some ops => reply (trace (RepoW.step fx) showRepoW (RepoW.init e.ext e.x) ops)
    | _, _, _ => "bad-op"
  | ["branchS", fx, e, ops] =>
    match parseBool fx, parseEnv e, (splitList ops).mapM parseSOp with
    | some fx, some e, some ops =>
      reply (trace (BranchS.step fx) (fun s => showBranch s.b) (BranchS.init e.ext true) ops)
    | _, _, _ => "bad-op"
  | ["treeG", e, ops] =>
    match parseEnv e, (splitList ops).mapM parseTOp with
    | some e, some ops => reply (trace Tree.stepG showTree (Tree.init e.ext e.t e.c e.p e.d) ops)
    | _, _ => "bad-op"
  | _ => "bad-op"

end BreezyVerif.C28

def main : IO Unit := BreezyVerif.runDriver BreezyVerif.C28.handle
