import BreezyVerif.Lemmas.C51Plan
/-!
C51 — theorems.  All parent maps (any size, with ghosts), all onto / stop
revisions, all topological orders `topo_sort` may return, any `generate_revid`.

`g` is the revision graph, `order` the output of `topo_sort` on the todo set,
`Reach g [] [k] a` (Lemmas/C33) says `a` is `k` or an ancestor of `k`.
-/
namespace BreezyVerif.C51
open BreezyVerif.C33

/-- `anc` computes ancestry: `a ∈ anc g k` iff `a` is reachable from `k` by parent steps -/
theorem anc_spec (g : PMap) (k a : Key) : a ∈ anc g k ↔ Reach g [] [k] a := mem_anc g k a

/-! ### the plan rewrites exactly `order` (no skipping) -/

/-- `plan_domain`: with `skip_full_merged=False`, `start=None` and `stop` either
`None` or the last revision in topological order (the `rebase` command's case),
the plan has exactly one entry per revision of `order`, in that order. -/
theorem plan_domain (g : PMap) (gen : Key → Key) (todoS order : List Key) (stop : Option Key)
    (onto : Key) (plan : Plan) (hnd : order.Nodup)
    (hstop : ∀ s, stop = some s → order.getLast? = some s)
    (h : simplePlan g gen todoS order none stop onto false = .ok plan) :
    plan.map (·.old) = order := by
  obtain ⟨sk, hl⟩ := simplePlan_loop hnd hstop h
  have := (planLoop_domain g gen onto order ([], []) (plan, sk) hl).1
  simpa using this

/-- `plan_new_ids`: every entry's new id is `generate_revid` of its old id and
differs from it (so new ids are distinct and fresh whenever `generate_revid` is
injective and fresh) -/
theorem plan_new_ids (g : PMap) (gen : Key → Key) (todoS order : List Key) (stop : Option Key)
    (onto : Key) (plan : Plan) (hnd : order.Nodup)
    (hstop : ∀ s, stop = some s → order.getLast? = some s)
    (h : simplePlan g gen todoS order none stop onto false = .ok plan) :
    ∀ e ∈ plan, e.new = gen e.old ∧ e.new ≠ e.old := by
  obtain ⟨sk, hl⟩ := simplePlan_loop hnd hstop h
  intro e he
  rcases (planLoop_domain g gen onto order ([], []) (plan, sk) hl).2.2 e he with h2 | ⟨h2, h3⟩
  · cases h2
  · exact ⟨h2, by rw [h2]; exact h3⟩

/-- `plan_domain_todo`: if `order` enumerates the present revisions of
`find_difference(tip, onto)[0]`, the plan rewrites exactly the revisions that
are in the history of `tip` but not in the history of `onto`. -/
theorem plan_domain_todo (g : PMap) (gen : Key → Key) (todoS order : List Key) (stop : Option Key)
    (tip onto : Key) (plan : Plan) (hnd : order.Nodup)
    (hstop : ∀ s, stop = some s → order.getLast? = some s)
    (hmem : ∀ k, k ∈ order ↔ (k ∈ todoSet g tip onto ∧ present g k = true))
    (h : simplePlan g gen todoS order none stop onto false = .ok plan) (k : Key) :
    k ∈ plan.map (·.old) ↔
      (Reach g [] [tip] k ∧ ¬ Reach g [] [onto] k ∧ ∃ ps, parentsOf g k = some ps) := by
  rw [plan_domain g gen todoS order stop onto plan hnd hstop h, hmem]
  unfold todoSet
  simp only [List.mem_filter, decide_eq_true_eq, mem_anc, present_iff, and_assoc]

/-! ### every new parent is the new base, an earlier new id, or a ghost -/

/-- `plan_parents_closed`: for BOTH settings of `skip_full_merged`, with
`start=None`, `stop` = `None` or the tip, and `order` a topological order of the
present revisions of `find_difference(tip, onto)[0]`: walking the plan in its
own order, every new parent is the new base `onto`, the new id of a revision
rewritten earlier, or a ghost (which cannot be rewritten).  In particular no
entry refers to a skipped (fully merged) merge revision: its children are
planned onto the parent that stands in for it. -/
theorem plan_parents_closed (g : PMap) (gen : Key → Key) (todoS order : List Key)
    (stop : Option Key) (tip onto : Key) (skip : Bool) (plan : Plan) (hnd : order.Nodup)
    (hstop : ∀ s, stop = some s → order.getLast? = some s)
    (hmem : ∀ k, k ∈ order ↔ (k ∈ todoSet g tip onto ∧ present g k = true))
    (htopo : topoFrom g order = true)
    (h : simplePlan g gen todoS order none stop onto skip = .ok plan) :
    PlanClosed g onto [] plan := by
  obtain ⟨sk, hl⟩ := simplePlan_loop hnd hstop h
  exact planLoop_closed g gen tip onto skip order [] ([], []) (plan, sk) (by simpa using hmem) htopo
    (fun k hk => by cases hk) (fun kv hkv => by cases hkv) trivial hl

/-! ### skipping fully merged merges (the command's default) -/

/-- `plan_skip_domain`: with skipping, the plan still only rewrites revisions of
`todo`; every revision left out is a merge (at least two parents) that was
recorded in `skipped` with the single new parent standing in for it -/
theorem plan_skip_domain (g : PMap) (gen : Key → Key) (onto : Key) (skip : Bool) :
    ∀ (todo : List Key) (st st' : Plan × Skipped), planLoop g gen onto skip st todo = .ok st' →
      (∀ k ∈ st'.1.map (·.old), k ∈ st.1.map (·.old) ∨ k ∈ todo) ∧
      (∀ k ∈ todo, k ∈ st'.1.map (·.old) ∨
        (k ∈ st'.2.map (·.1) ∧ ∃ p0 p1 rest, parentsOf g k = some (p0 :: p1 :: rest))) := by
  intro todo
  induction todo with
  | nil =>
    intro st st' h
    simp only [planLoop] at h
    cases h
    exact ⟨fun k hk => Or.inl hk, fun k hk => by cases hk⟩
  | cons old todo ih =>
    intro st st' h
    simp only [planLoop] at h
    split at h
    · cases h
    · rename_i st1 hstep
      obtain ⟨h1, h2⟩ := ih st1 st' h
      obtain ⟨hm1, hm2⟩ := planLoop_mono g gen onto skip todo st1 st' h
      obtain ⟨p0, rest, hps, hc | hc⟩ := planStep_cases hstep
      · obtain ⟨hp, hr, _, _⟩ := hc
        subst hp
        refine ⟨fun k hk => ?_, fun k hk => ?_⟩
        · rcases h1 k hk with h3 | h3
          · exact Or.inl h3
          · exact Or.inr (List.mem_cons_of_mem _ h3)
        · rcases List.mem_cons.mp hk with h3 | h3
          · subst h3
            right
            refine ⟨hm2 k (by simp), ?_⟩
            cases rest with
            | nil => exact absurd rfl hr
            | cons p1 r => exact ⟨p0, p1, r, hps⟩
          · exact h2 k h3
      · obtain ⟨hp, _⟩ := hc
        subst hp
        refine ⟨fun k hk => ?_, fun k hk => ?_⟩
        · rcases h1 k hk with h3 | h3
          · simp only [List.map_append, List.map_cons, List.map_nil, List.mem_append,
              List.mem_singleton] at h3
            rcases h3 with h4 | h4
            · exact Or.inl h4
            · exact Or.inr (by simp [h4])
          · exact Or.inr (List.mem_cons_of_mem _ h3)
        · rcases List.mem_cons.mp hk with h3 | h3
          · subst h3
            exact Or.inl (hm1 k (by simp))
          · exact h2 k h3

/-- F12 graph: `1 ← 2 ← 3 (onto)`, `1 ← 4 ← 5 = merge(4, 2) ← 6`;
`order = [4, 5, 6]` -/
def f12G : PMap := [(0, []), (1, [0]), (2, [1]), (3, [2]), (4, [1]), (5, [4, 2]), (6, [5])]

/-- `plan_skip_fixed` (the former counter-example DESIGN §7-F12, fixed in /repo by
eb8d299): with `skip_full_merged=True` the merge `5` is skipped and its child `6`
is now planned onto `104`, the NEW id of `4` that stands in for the skipped merge
— a revision rewritten earlier, not the old merge revision `5`.  With `False`
the merge is rewritten and `6` follows it.  The hypotheses of
`plan_parents_closed` hold on this input. -/
theorem plan_skip_fixed :
    (simplePlan f12G (· + 100) [4, 5, 6] [4, 5, 6] none (some 6) 3 true).toOption =
        some [⟨4, 104, [3]⟩, ⟨6, 106, [104]⟩] ∧
      (simplePlan f12G (· + 100) [4, 5, 6] [4, 5, 6] none (some 6) 3 false).toOption =
        some [⟨4, 104, [3]⟩, ⟨5, 105, [104]⟩, ⟨6, 106, [105]⟩] ∧
      (planLoop f12G (· + 100) 3 true ([], []) [4, 5, 6]).toOption =
        some ([⟨4, 104, [3]⟩, ⟨6, 106, [104]⟩], [(5, 104)]) ∧
      (∀ k, k ∈ [4, 5, 6] ↔ (k ∈ todoSet f12G 6 3 ∧ present f12G k = true)) ∧
      topoFrom f12G [4, 5, 6] = true := by
  refine ⟨by decide, by decide, by decide, ?_, by decide⟩
  intro k
  have h : todoSet f12G 6 3 = [6, 5, 4] := by decide
  rw [h]
  constructor
  · intro hk
    simp only [List.mem_cons, List.not_mem_nil, or_false] at hk
    rcases hk with rfl | rfl | rfl <;> decide
  · rintro ⟨hk, _⟩
    simp only [List.mem_cons, List.not_mem_nil, or_false] at hk ⊢
    rcases hk with rfl | rfl | rfl <;> simp

/-! ### the plan file -/

/-- `marshal_roundtrip`: `unmarshall_rebase_plan(marshall_rebase_plan(info, plan))
== (info, plan)` for every revno, every revid without newline, and every plan
(any number of entries and parents) whose ids contain no space / newline and
whose old ids are distinct (a dict). -/
theorem marshal_roundtrip (p : WPlan) (hrev : NL ∉ p.revid)
    (hids : ∀ e ∈ p.entries, (SP ∉ e.old ∧ NL ∉ e.old) ∧ (SP ∉ e.new ∧ NL ∉ e.new) ∧
      ∀ q ∈ e.parents, SP ∉ q ∧ NL ∉ q)
    (hnd : (p.entries.map (·.old)).Nodup) :
    unmarshal (marshal p) = .ok p := by
  have hhdr : NL ∉ header := by decide
  have hl1 : NL ∉ toDec p.revno ++ SP :: p.revid := by
    intro h
    rcases List.mem_append.mp h with h | h
    · exact nl_not_mem_toDec _ h
    · rcases List.mem_cons.mp h with h | h
      · simp [NL, SP] at h
      · exact hrev h
  have hlines : ∀ e ∈ p.entries, NL ∉ entryLine e := fun e he =>
    nl_not_mem_entryLine e (hids e he).1.2 (hids e he).2.1.2 (fun q hq => ((hids e he).2.2 q hq).2)
  unfold unmarshal marshal
  have hshape : header ++ [NL] ++ (toDec p.revno ++ SP :: p.revid ++ [NL]) ++
      p.entries.flatMap (fun e => entryLine e ++ [NL]) =
      header ++ NL :: ((toDec p.revno ++ SP :: p.revid) ++ NL ::
        p.entries.flatMap (fun e => entryLine e ++ [NL])) := by
    simp [List.append_assoc]
  rw [hshape, split_append_sep hhdr, split_append_sep hl1, split_body p.entries hlines]
  simp only [ne_eq, not_true_eq_false, if_false]
  rw [split1_append_sep (sp_not_mem_toDec _)]
  simp only [parseDec_toDec]
  rw [parseLines_entries p.entries []
    (fun e he => ⟨(hids e he).1.1, (hids e he).2.1.1, fun q hq => ((hids e he).2.2 q hq).1⟩)
    (by simpa using hnd)]
  simp

/-! ### `rebase_todo` -/

/-- `todo_is_unrewritten`: `rebase_todo` lists exactly the old ids whose new
revision is not yet in the repository -/
theorem todo_is_unrewritten (revs : List Key) (plan : Plan) (k : Key) :
    k ∈ rebaseTodo revs plan ↔ ∃ e ∈ plan, e.old = k ∧ e.new ∉ revs := by
  unfold rebaseTodo
  simp only [List.mem_map, List.mem_filter, decide_eq_true_eq]
  constructor
  · rintro ⟨e, ⟨he, hn⟩, hk⟩; exact ⟨e, he, hk, hn⟩
  · rintro ⟨e, he, hk, hn⟩; exact ⟨e, ⟨he, hn⟩, hk⟩

/-! ### `generate_transpose_plan` -/

/-- PARTIAL: only the last step of `generate_transpose_plan` is proved here —
the renamed revisions themselves never appear in the returned plan.  That every
descendant is rewritten with substituted parents is covered by the
correspondence run and the oracle, not by a theorem (the worklist loop is
modelled with fuel). -/
theorem transpose_excludes_renames_partial (ancestry : List (Key × Option (List Key)))
    (renames : List (Key × Key)) (g : PMap) (gen : Key → Key) (fuel : Nat) (plan : Plan)
    (h : transposePlan ancestry renames g gen fuel = .ok plan) :
    ∀ e ∈ plan, e.old ∉ renames.map (·.1) := by
  unfold transposePlan at h
  simp only at h
  split at h
  · cases h
  · split at h
    · cases h
    · cases h
      intro e he hm
      simp only [List.mem_filter, Bool.not_eq_true', List.any_eq_false, beq_iff_eq] at he
      obtain ⟨rv, hrv, heq⟩ := List.mem_map.mp hm
      exact he.2 rv hrv heq

/-! ### non-vacuity -/

example : [4, 5, 6].Nodup ∧ (∀ s, some 6 = some s → [4, 5, 6].getLast? = some s) := by decide
example : todoSet f12G 6 3 = [6, 5, 4] ∧ topoFrom f12G [4, 5, 6] = true := by decide
example : rebaseTodo [104] [⟨4, 104, [3]⟩, ⟨5, 105, [104]⟩] = [5] := by decide
/-- a plan with two entries, 0–2 parents, revid containing a space -/
def exW : WPlan := ⟨12, [98, 32, 99], [⟨[97], [65], [[120], [121]]⟩, ⟨[98], [66], []⟩]⟩
example : NL ∉ exW.revid ∧ (exW.entries.map (·.old)).Nodup ∧
    (∀ e ∈ exW.entries, (SP ∉ e.old ∧ NL ∉ e.old) ∧ (SP ∉ e.new ∧ NL ∉ e.new) ∧
      ∀ q ∈ e.parents, SP ∉ q ∧ NL ∉ q) := by decide
example : (unmarshal (marshal exW)).toOption = some exW := by decide
example : (transposePlan [(3, some [2]), (2, some [1]), (1, some [0])] [(2, 9)] [(9, [1])] (· + 100) 50).toOption =
    some [⟨3, 103, [9]⟩] := by decide

end BreezyVerif.C51
