import BreezyVerif.Lemmas.C45
/-!
C45 — theorems about the end-of-line filters.

All statements are for **every** byte string (no length bound, all 256 byte
values), every entry of `_eol_filter_stack_map` and both values of
`sys.platform == "win32"` (`win`).  "Canonical" is the property's notion:
content that its own reader leaves unchanged (`readIn stack c = c`).
"A freshly checked-out tree reports no changes" is, in the model, the equation
`readIn stack (writeOut stack c) = c` (the dirstate compares the SHA-1 of the
read-converted file with the recorded one; the SHA-1 itself is not modelled).
-/
namespace BreezyVerif.C45

/-! ### converter level -/

theorem toLf_of_noNul {c : Bytes} (h : hasNul c = false) : toLf c = replCrlf c := by
  simp [toLf, h]

theorem toCrlf_of_noNul {c : Bytes} (h : hasNul c = false) : toCrlf c = subUnixNl false c := by
  simp [toCrlf, h]

/-- LF reader, CRLF writer -/
theorem toLf_toCrlf (c : Bytes) (hn : hasNul c = false) (hc : toLf c = c) :
    toLf (toCrlf c) = c := by
  rw [toLf_of_noNul hn] at hc
  rw [toCrlf_of_noNul hn, toLf_of_noNul (by rw [hasNul_subUnixNl]; exact hn)]
  exact replCrlf_subUnixNl false c ((replCrlf_fix_iff c).1 hc)

/-- CRLF reader, LF writer: exactly the texts without `\r\r\n` come back -/
theorem toCrlf_toLf_iff (c : Bytes) (hn : hasNul c = false) (hc : toCrlf c = c) :
    toCrlf (toLf c) = c ↔ noCrCrLf false c = true := by
  rw [toCrlf_of_noNul hn] at hc
  rw [toLf_of_noNul hn, toCrlf_of_noNul (by rw [hasNul_replCrlf]; exact hn)]
  exact subUnixNl_replCrlf_iff false c ((subUnixNl_fix_iff false c).1 hc)

/-- **The CRLF reader always produces canonical content** (so whatever a
commit stores under a CRLF-in-repo setting is canonical). -/
theorem toCrlf_canonical (d : Bytes) : toCrlf (toCrlf d) = toCrlf d := by
  by_cases hn : hasNul d = true
  · simp [toCrlf, hn]
  · have hn' : hasNul d = false := by simpa using hn
    rw [toCrlf_of_noNul hn', toCrlf_of_noNul (by rw [hasNul_subUnixNl]; exact hn')]
    exact (subUnixNl_fix_iff false _).2 (allCrLf_subUnixNl false d)

/-- The LF reader does not: a working file `"\r\r\n"` is stored as `"\r\n"`,
which the same reader would change again (outside C45, which speaks about
canonical content only; reported as an observation). -/
theorem toLf_not_idempotent_witness : toLf (toLf [13, 13, 10]) ≠ toLf [13, 13, 10] := by decide

/-! ### every setting -/

/-- **Exact characterisation of the round trip.**  For every entry of the
table, on both platforms, and every canonical text without NUL: writing the
text to the working tree and reading it back gives the same text *iff* it is
not the case that the setting stores CRLF but writes LF (`lossy`) and the text
contains `\r\r\n`. -/
theorem roundtrip_iff (win : Bool) (name : String) (stack : List Filter)
    (h : (name, stack) ∈ eolMap win) (c : Bytes) (hn : hasNul c = false)
    (hc : readIn stack c = c) :
    readIn stack (writeOut stack c) = c ↔ (lossy stack = true → noCrCrLf false c = true) := by
  simp only [eolMap, List.mem_cons, Prod.mk.injEq, List.mem_nil_iff, or_false] at h
  rcases h with h | h | h | h | h | h | h <;> obtain ⟨rfl, rfl⟩ := h <;> cases win <;>
    simp only [readIn, writeOut, inputFile, outputBytes, Conv.apply, Conv.fn, nativeOutput, lossy,
      List.reverse_cons, List.reverse_nil, List.nil_append, List.foldl_cons, List.foldl_nil,
      List.flatten_cons, List.flatten_nil, List.append_nil, List.any_cons, List.any_nil,
      Bool.or_false, if_true, if_false, Bool.false_eq_true] at hc ⊢ <;>
    first
      | (simp; done)                                 -- no filter
      | (simp only [hc]; simp)                       -- reader = writer
      | (rw [toLf_toCrlf c hn hc]; simp)             -- LF in repo, CRLF in tree
      | (rw [toCrlf_toLf_iff c hn hc]; simp)         -- CRLF in repo, LF in tree

/-- **LF-in-repo settings (and `exact`)**: every canonical text round-trips. -/
theorem roundtrip_lf_repo (win : Bool) (name : String) (stack : List Filter)
    (h : (name, stack) ∈ eolMap win) (hlf : stack.all (·.reader = some .toLf) = true)
    (c : Bytes) (hn : hasNul c = false) (hc : readIn stack c = c) :
    readIn stack (writeOut stack c) = c := by
  rw [roundtrip_iff win name stack h c hn hc]
  intro hl
  exfalso
  simp only [eolMap, List.mem_cons, Prod.mk.injEq, List.mem_nil_iff, or_false] at h
  rcases h with h | h | h | h | h | h | h <;> obtain ⟨rfl, rfl⟩ := h <;>
    simp [lossy] at hl hlf

/-- non-vacuity: `crlf` is an LF-in-repo entry and `"a\nb\r"` is canonical for it -/
example : ("crlf", [⟨some .toLf, some .toCrlf⟩]) ∈ eolMap false
    ∧ ([⟨some Conv.toLf, some Conv.toCrlf⟩] : List Filter).all (·.reader = some .toLf) = true
    ∧ hasNul [97, 10, 98, 13] = false
    ∧ readIn [⟨some .toLf, some .toCrlf⟩] [97, 10, 98, 13] = [97, 10, 98, 13]
    ∧ writeOut [⟨some .toLf, some .toCrlf⟩] [97, 10, 98, 13] = [97, 13, 10, 98, 13] := by decide

/-- **CRLF-in-repo settings (indeed every setting)** — partial: the canonical
text must not contain `\r\r\n`.  What is missing is exactly the family of
`crlf_repo_witness` (`roundtrip_iff` shows the hypothesis is necessary for the
settings that store CRLF and write LF). -/
theorem roundtrip_crlf_repo_partial (win : Bool) (name : String) (stack : List Filter)
    (h : (name, stack) ∈ eolMap win)
    (c : Bytes) (hn : hasNul c = false) (hc : readIn stack c = c)
    (hx : noCrCrLf false c = true) :
    readIn stack (writeOut stack c) = c :=
  (roundtrip_iff win name stack h c hn hc).2 (fun _ => hx)

/-- non-vacuity: `"a\r\nb\r"` satisfies all hypotheses for `lf-with-crlf-in-repo` -/
example : ("lf-with-crlf-in-repo", [⟨some .toCrlf, some .toLf⟩]) ∈ eolMap false
    ∧ hasNul [97, 13, 10, 98, 13] = false
    ∧ readIn [⟨some .toCrlf, some .toLf⟩] [97, 13, 10, 98, 13] = [97, 13, 10, 98, 13]
    ∧ noCrCrLf false [97, 13, 10, 98, 13] = true
    ∧ writeOut [⟨some .toCrlf, some .toLf⟩] [97, 13, 10, 98, 13] = [97, 10, 98, 13] := by decide

/-- **Witness (finding F9).**  `"a\r\r\n"` has no NUL and is canonical for
`lf-with-crlf-in-repo` (and for `native-with-crlf-in-repo` off Windows), is
written to the working tree as `"a\r\n"` and read back as `"a\r\n"`. -/
theorem crlf_repo_witness :
    let c : Bytes := [97, 13, 13, 10]
    ∀ name ∈ ["lf-with-crlf-in-repo", "native-with-crlf-in-repo"],
      ∃ stack, eolLookup false name = some stack ∧ hasNul c = false ∧ readIn stack c = c ∧
        writeOut stack c = [97, 13, 10] ∧ readIn stack (writeOut stack c) = [97, 13, 10] ∧
        readIn stack (writeOut stack c) ≠ c := by
  decide

/-! ### what the settings mean for the working tree -/

/-- the writer of the stack, if it has exactly one filter with a writer -/
def writerOf : List Filter → Option Conv
  | [f] => f.writer
  | _ => none

/-- **Settings that write CRLF** (`crlf`, `crlf-with-crlf-in-repo`, and the
`native` ones on win32): whatever text is checked out, every `\n` in the
working tree follows a `\r`. -/
theorem crlf_settings_write_crlf (win : Bool) (name : String) (stack : List Filter)
    (h : (name, stack) ∈ eolMap win)
    (hname : name = "crlf" ∨ name = "crlf-with-crlf-in-repo" ∨
      (win = true ∧ (name = "native" ∨ name = "native-with-crlf-in-repo")))
    (c : Bytes) (hn : hasNul c = false) :
    writerOf stack = some .toCrlf ∧ allCrLf false (writeOut stack c) = true := by
  have key : allCrLf false (toCrlf c) = true := by
    rw [toCrlf_of_noNul hn]; exact allCrLf_subUnixNl false c
  simp only [eolMap, List.mem_cons, Prod.mk.injEq, List.mem_nil_iff, or_false] at h
  rcases h with h | h | h | h | h | h | h <;> obtain ⟨rfl, rfl⟩ := h <;> cases win <;>
    simp_all [writerOf, writeOut, outputBytes, Conv.apply, Conv.fn, nativeOutput]

/-- **`*-with-crlf-in-repo` settings store CRLF**: whatever text is in the
working tree, every `\n` of what is read (and committed) follows a `\r`. -/
theorem crlf_repo_settings_store_crlf (win : Bool) (name : String) (stack : List Filter)
    (h : (name, stack) ∈ eolMap win)
    (hname : name = "native-with-crlf-in-repo" ∨ name = "lf-with-crlf-in-repo" ∨
      name = "crlf-with-crlf-in-repo")
    (d : Bytes) (hn : hasNul d = false) :
    allCrLf false (readIn stack d) = true := by
  have key : allCrLf false (toCrlf d) = true := by
    rw [toCrlf_of_noNul hn]; exact allCrLf_subUnixNl false d
  simp only [eolMap, List.mem_cons, Prod.mk.injEq, List.mem_nil_iff, or_false] at h
  rcases h with h | h | h | h | h | h | h <;> obtain ⟨rfl, rfl⟩ := h <;> cases win <;>
    simp_all [readIn, inputFile, Conv.apply, Conv.fn]

/-- **Settings that write LF** (`lf`, `lf-with-crlf-in-repo`, and the `native`
ones off win32): a canonical text without `\r\r\n` is checked out without any
`\r\n`. -/
theorem lf_settings_write_lf (win : Bool) (name : String) (stack : List Filter)
    (h : (name, stack) ∈ eolMap win)
    (hname : name = "lf" ∨ name = "lf-with-crlf-in-repo" ∨
      (win = false ∧ (name = "native" ∨ name = "native-with-crlf-in-repo")))
    (c : Bytes) (hn : hasNul c = false) (hc : readIn stack c = c) (hx : noCrCrLf false c = true) :
    writerOf stack = some .toLf ∧ noCrLf false (writeOut stack c) = true := by
  have lfrepo : toLf c = c → noCrLf false (toLf c) = true := by
    intro e; rw [e]; rw [toLf_of_noNul hn] at e; exact (replCrlf_fix_iff c).1 e
  have crlfrepo : toCrlf c = c → noCrLf false (toLf c) = true := by
    intro e
    rw [toCrlf_of_noNul hn] at e
    rw [toLf_of_noNul hn]
    exact noCrLf_replCrlf false c ((subUnixNl_fix_iff false c).1 e) hx (by simp)
  simp only [eolMap, List.mem_cons, Prod.mk.injEq, List.mem_nil_iff, or_false] at h
  rcases h with h | h | h | h | h | h | h <;> obtain ⟨rfl, rfl⟩ := h <;> cases win <;>
    simp_all [writerOf, writeOut, readIn, inputFile, outputBytes, Conv.apply, Conv.fn, nativeOutput]

/-- non-vacuity for `lf_settings_write_lf` -/
example : ("lf-with-crlf-in-repo", [⟨some .toCrlf, some .toLf⟩]) ∈ eolMap true
    ∧ readIn [⟨some .toCrlf, some .toLf⟩] [97, 13, 10, 13] = [97, 13, 10, 13]
    ∧ noCrCrLf false [97, 13, 10, 13] = true
    ∧ writeOut [⟨some .toCrlf, some .toLf⟩] [97, 13, 10, 13] = [97, 10, 13] := by decide

/-- **Binary content is never converted**, by any setting, in either
direction, whatever the chunking. -/
theorem binary_untouched (win : Bool) (name : String) (stack : List Filter)
    (h : (name, stack) ∈ eolMap win) (chunks : List Bytes) (hn : hasNul chunks.flatten = true) :
    (outputBytes chunks stack).flatten = chunks.flatten ∧
    inputFile chunks.flatten stack = chunks.flatten := by
  simp only [eolMap, List.mem_cons, Prod.mk.injEq, List.mem_nil_iff, or_false] at h
  rcases h with h | h | h | h | h | h | h <;> obtain ⟨rfl, rfl⟩ := h <;> cases win <;>
    simp [inputFile, outputBytes, Conv.apply, Conv.fn, nativeOutput, toLf, toCrlf, hn]

/-- `exact` has no filter: chunks pass through untouched in both directions -/
theorem exact_identity (win : Bool) (chunks : List Bytes) (c : Bytes) :
    eolLookup win "exact" = some [] ∧ outputBytes chunks [] = chunks ∧ inputFile c [] = c := by
  cases win <;> simp [eolLookup, eolMap, outputBytes, inputFile]

/-- the converters only see the joined content: chunking is irrelevant -/
theorem output_chunking (stack : List Filter) (chunks chunks' : List Bytes)
    (h : chunks.flatten = chunks'.flatten) :
    (outputBytes chunks stack).flatten = (outputBytes chunks' stack).flatten := by
  unfold outputBytes
  generalize stack.reverse = l
  induction l generalizing chunks chunks' with
  | nil => simpa using h
  | cons f r ih =>
    simp only [List.foldl_cons]
    cases f.writer with
    | none => exact ih _ _ h
    | some w => apply ih; simp [Conv.apply, h]

/-- **Proposed repair.**  With the guarded LF writer
(`(?<!\r)\r\n` ↦ `\n`) the CRLF-in-repo settings round-trip every canonical
text, `\r\r\n` included. -/
theorem roundtrip_crlf_repo_fixed (c : Bytes) (hc : toCrlf c = c) :
    toCrlf (toLfGuarded c) = c := by
  by_cases hn : hasNul c = true
  · simp [toLfGuarded, toCrlf, hn]
  · have hn' : hasNul c = false := by simpa using hn
    rw [toCrlf_of_noNul hn'] at hc
    have h2 : hasNul (replCrlfGuarded false c) = false := by
      rw [hasNul_replCrlfGuarded]; exact hn'
    simp only [toLfGuarded, hn', Bool.false_eq_true, if_false]
    rw [toCrlf_of_noNul h2]
    exact subUnixNl_replCrlfGuarded false c ((subUnixNl_fix_iff false c).1 hc)

end BreezyVerif.C45
