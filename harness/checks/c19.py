"""C19 — text conflicts are reported exactly when conflict markers are written.

Mechanism: breezy/merge.py: Merge3Merger.text_merge (sentinel start marker,
`iter_merge3` flag + replace), _do_merge_contents/merge_contents in front of it,
_merge_names (final name / directory of the file), _dump_conflicts/_conflict_file
(helper files `<final name>.BASE/.THIS/.OTHER` in the final directory),
cook_conflicts (record under the final path), breezy/bzr/conflicts.py
TextConflict._resolve / ContentsConflict._resolve + breezy/conflicts.py
resolve()/cleanup (resolution works by the recorded PATH).

T1: the byte constants of text_merge (sentinel, `<`*7, `|`*7, TREE,
    MERGE-SOURCE, BASE-REVISION), the helper suffix words of _dump_conflicts +
    the `"."` of _conflict_file and CONFLICT_SUFFIXES of bzr/conflicts.py and
    git/workingtree.py are read from the source (ast) into Generated/C19.lean;
    Props/C19T1.lean proves them equal to the model's.
T2: scenarios = (format 2a|git, options reprocess/show-base/cherrypick, front
    end Merger.from_revision_ids | Merge3Merger directly, optionally one side
    renames a directory, N entries); each entry is a generated (BASE, THIS, OTHER)
    text triple TOGETHER WITH a (BASE, THIS, OTHER) location triple
    (directory, name): the file may be renamed and / or moved by THIS, by OTHER,
    by both to the same place, by both differently (path conflict), or be absent
    from BASE (added by both sides: same file id in bzr, same path in git).
    The real merge runs on real working trees; per entry EVERYTHING it owns in
    the tree (all files with their paths, the content-level conflict record
    with its path, the versioned name, the path-conflict flag) is compared with
    the Lean model `mergeEntry` (`pl`), the classical slot at the final path with
    `mergeFile` (`mf`), fed with the regions computed by the external merge3
    package (resolved to lines); then every conflict is resolved with
    take_this / take_other through breezy.conflicts.resolve BY THE RECORDED PATH
    (sometimes after deleting or editing a helper = malformed stream) and the
    entry afterwards is compared with `resolvePlaced` (`rp`) and the slot with
    `resolveText` / `resolveContents`.  Also compared: osutils.split_lines vs
    `splitLines`, the start marker (`freshMarker`) and the theorems' hypothesis
    `FromInputs` on every case.  Directory identity = file id of the directory
    (bzr) / its path (git), so a directory rename on one side does not matter.
Oracle (model-independent): record present <=> merge3 reports a conflict
    region (and both sides changed differently); record path == final path of
    the file (name and directory merged independently); file == conventional
    marker rendering of the regions / == clean merge; helpers at
    `<final path>.BASE/.THIS/.OTHER` == the three texts exactly (no .BASE when the
    file is not in BASE) / absent; the entry owns no file under any other name
    and the tree holds no unexpected file; after take_this/take_other: exactly
    one file, at the final path, == THIS/OTHER text, helpers and record gone,
    file versioned.  When the same entry also has a path conflict the same
    resolve call settles it too and may move the file: then only content,
    helpers and record are judged, not the place.
Entries whose repository text differs from the committed text (external groupcompress NUL
    corruption, a C03 finding: needs several NUL-carrying texts in one scenario) have no well-defined
    input — the merge compares the sha1s recorded at commit time but reads lines from the repository —
    and are counted (`repository-text-differs-from-committed(C03):entry-not-evaluated`) and left out.
    Every recorded case carries its whole scenario, so `--replay` runs exactly the same multi-entry merge.
Run-time-checked assumption on merge3: the regions reproduce THIS and OTHER
    (projections), and the text-level laws hold.

History: two defects found by this check were repaired in /repo (fix: commits
40e57db sentinel collision, b2b6407 contents-conflict take-this); the model
follows the repaired code.  "Fix reverted" mutants: reverting either commit
gives a VIOLATION with a concrete input (sentinel line in a clean merge; binary
both-sides take_this).
Open finding (family `git-added-by-both-other-side-detected-as-copy`): in a git
tree a file added by both sides whose OTHER version the tree comparison reports
as a *copy* of another file (similarity detection; OTHER also modified that
file) is merged as a plain add — `_compute_transform` drops the THIS slot —
so THIS's committed text is overwritten by OTHER's, without any conflict.
Classifier: fmt git, entry absent from BASE, OTHER's path in
`other_tree.iter_changes(base_tree)` with copied=True.  Any other oracle failure
is a plain VIOLATION.

Mutants this was built against (scratch worktrees, all caught with a concrete
input): (1) `startswith(start_marker)` -> `start_marker in line`; (2) flag set
only when `line == start_marker + b" TREE\n"` (CRLF / bare-CR first line of
THIS); (3) `_dump_conflicts` lines order (base, other, this) permuted -> helper
files swapped; (4) TextConflict.action_take_this resolves with "OTHER";
(5) the replacement `b"<" * 7` -> `b"<" * 6`; (6) text_merge records the
conflict but skips _dump_conflicts; (7) cleanup() skipping .BASE; (8) base_marker
always None (show_base ignored); (9) `if retval["text_conflicts"] is True` ->
`is not None` (every text merge records a conflict).
(10) the marker-extension loop removed (= fix reverted); (11) `+= b"!"` only once
(`if` instead of `while`: needs a line starting with the once-extended marker);
(12) ContentsConflict hand-over removed (= fix reverted).
Placement mutants (need a rename / move / sub-directory / absent BASE to show):
(13) text_merge names the helpers after THIS's basename instead of
tt.final_name (needs OTHER renaming + conflicting edits; resolve then fails);
(14) helpers put into tt.get_tree_parent instead of final_parent (needs OTHER
moving the file); (15) contents-conflict helpers named after OTHER's basename
(needs THIS renaming a binary file); (16) TextConflict._resolve looks up the
winner helper by basename (needs a file in a sub-directory); (17) winner_idx
"conflict" -> THIS (needs both sides renaming differently); (18) _dump_conflicts
writes an empty .BASE for a file added by both sides; (19) associated_filenames
by basename (cleanup leaves helpers in sub-directories).
Harmless rewrite kept clean: iter_merge3 building a list instead of yielding;
sentinel split differently (`b"!START OF MERGE " + b"CONFLICT!I HOPE THIS IS UNIQUE"`);
final name / parent looked up before create_file.
"""
import ast
import os
import sys

from vlib import env

THEOREMS = [
    "text_merge_spec", "render_conflict_iff", "flag_of_conflict", "render_clean", "text_merge_clean",
    "marker_fresh", "render_append", "render_content_plain", "render_content_show_base", "sentinel_line_clean",
    "join_splitLines", "helpers_exact", "merge_file_spec", "resolve_text", "resolve_take_this",
    "resolve_take_other", "merge_then_resolve", "resolve_contents_take_other",
    "resolve_contents_take_this", "markers_written_iff",
    "merge_loc_other_moved", "merge_loc_this_moved", "merge_loc_same_move", "merge_loc_components",
    "entry_text_conflict_placed", "entry_clean_placed", "entry_merge_then_resolve", "entry_contents_then_resolve",
    "merge_loc_added", "helpers_exact_opt", "entry_content_is_merge_file", "entry_added_no_base_helper",
]
T1_THEOREMS = ["sentinel_gen_eq", "replacement_gen_eq", "extension_gen_eq", "base_marker_gen_eq", "names_gen_eq",
               "helper_suffixes_gen_eq", "cleanup_suffixes_gen_eq", "cleanup_suffixes_git_gen_eq"]
RULE = ("scenario = (format, reprocess, show_base, cherrypick, front end, optional directory rename); case = one file = "
        "(BASE, THIS, OTHER) texts over an alphabet with marker look-alikes, the sentinel, CR/CRLF endings, missing "
        "final newline, NUL, x (BASE, THIS, OTHER) locations (directory, name): fixed, renamed / moved by THIS, by OTHER, "
        "by both alike, by both differently (path conflict), absent from BASE (added by both sides); plus one resolve "
        "step (by the recorded path) per recorded conflict; non-trivial = both sides changed the text differently "
        "(text_merge / contents conflict path actually taken); distinct by (options, triple, locations, action)")
ASSUMPTIONS = [
    "merge3.Merge3.merge_regions / reprocess_merge_regions (external) produce regions that reproduce THIS and OTHER "
    "(checked on every case by projection) ; their conflict regions define 'has conflicting regions'",
]
TRUSTED = ["merge3 region computation and patiencediff (external) are inputs of the model, not verified",
           "tree transform apply / rename machinery is covered by C13/C14, here only its observable result",
           "directories are opaque identities in the model (file id of the directory); how a directory's own rename is "
           "merged, and how a path conflict on the same entry is resolved, belong to other properties"]

SENT = b"!START OF MERGE CONFLICT!I HOPE THIS IS UNIQUE"


# --------------------------------------------------------------------------
# T1

def _const(e):
    if isinstance(e, ast.Constant) and isinstance(e.value, (bytes, int)):
        return e.value
    if isinstance(e, ast.BinOp) and isinstance(e.op, (ast.Add, ast.Mult)):
        l, r = _const(e.left), _const(e.right)
        return l + r if isinstance(e.op, ast.Add) else l * r
    if isinstance(e, ast.IfExp):          # b"|" * 7 if self.show_base is True else None
        return _const(e.body)
    raise ValueError("not a constant: %s" % ast.dump(e))


def extract(ctx):
    sys.path.insert(0, os.path.join(env.VERIF, "tools"))
    import extract as ex
    f = ex.find_func(os.path.join(env.REPO, "breezy/merge.py"), "Merge3Merger.text_merge")
    vals = {}
    for n in ast.walk(f):
        if isinstance(n, ast.Assign) and len(n.targets) == 1 and isinstance(n.targets[0], ast.Name):
            if n.targets[0].id in ("start_marker", "base_marker"):
                vals[n.targets[0].id] = _const(n.value)
        if isinstance(n, ast.AugAssign) and isinstance(n.target, ast.Name) and n.target.id == "start_marker" \
                and isinstance(n.op, ast.Add):
            vals["extension"] = _const(n.value)
        if isinstance(n, ast.Call) and isinstance(n.func, ast.Attribute):
            if n.func.attr == "merge_lines":
                for k in n.keywords:
                    if k.arg in ("name_a", "name_b", "name_base"):
                        vals[k.arg] = _const(k.value)
        if isinstance(n, ast.Yield) and isinstance(n.value, ast.BinOp) and isinstance(n.value.op, ast.Add):
            # yield b"<" * 7 + line[len(start_marker):]
            try:
                vals["replacement"] = _const(n.value.left)
            except ValueError:
                pass
    need = ("start_marker", "base_marker", "name_a", "name_b", "name_base", "replacement", "extension")
    if any(k not in vals or not isinstance(vals[k], bytes) for k in need):
        raise ex.ExtractError("text_merge constants not found: %r" % sorted(vals))
    # helper-file names: `_dump_conflicts` (suffix words), `_conflict_file` (name + "." + suffix) and the
    # suffixes resolution / cleanup looks for (bzr and git CONFLICT_SUFFIXES)
    words = []
    fd = ex.find_func(os.path.join(env.REPO, "breezy/merge.py"), "Merge3Merger._dump_conflicts")
    for n in ast.walk(fd):
        if isinstance(n, ast.Tuple) and len(n.elts) == 4 and isinstance(n.elts[0], ast.Constant) \
                and isinstance(n.elts[0].value, str):
            words.append((n.lineno, n.elts[0].value))
    words = [w for _, w in sorted(words)]
    sep = None
    fc = ex.find_func(os.path.join(env.REPO, "breezy/merge.py"), "Merge3Merger._conflict_file")
    for n in ast.walk(fc):
        if isinstance(n, ast.Assign) and len(n.targets) == 1 and isinstance(n.targets[0], ast.Name) \
                and n.targets[0].id == "name" and isinstance(n.value, ast.BinOp):
            v = n.value       # (name + ".") + suffix
            if isinstance(v.left, ast.BinOp) and isinstance(v.left.left, ast.Name) and v.left.left.id == "name" \
                    and isinstance(v.left.right, ast.Constant) and isinstance(v.right, ast.Name) and v.right.id == "suffix":
                sep = v.left.right.value
    if sorted(words) != ["BASE", "OTHER", "THIS"] or not isinstance(sep, str):
        raise ex.ExtractError("helper suffixes not found: %r %r" % (words, sep))

    def suffixes(path):
        v = ex.find_assign(os.path.join(env.REPO, path), "CONFLICT_SUFFIXES")
        if not isinstance(v, (ast.Tuple, ast.List)) or not all(isinstance(e, ast.Constant) and isinstance(e.value, str) for e in v.elts):
            raise ex.ExtractError("CONFLICT_SUFFIXES not a literal in %s" % path)
        return [e.value.encode() for e in v.elts]

    def lean_list(bs):
        return "[" + ", ".join(ex.lean_bytes(b) for b in bs) + "]"
    sfx_text = ("def helperSuffixesGen : List Bytes := %s\n"
                "def cleanupSuffixesGen : List Bytes := %s\n"
                "def cleanupSuffixesGitGen : List Bytes := %s\n") % (
        lean_list([(sep + w).encode() for w in words]), lean_list(suffixes("breezy/bzr/conflicts.py")),
        lean_list(suffixes("breezy/git/workingtree.py")))
    text = ("-- GENERATED by harness/checks/c19.py from breezy/merge.py (Merge3Merger.text_merge) — do not edit\n"
            "import BreezyVerif.Model.C19\nnamespace BreezyVerif.C19\n"
            "def sentinelGen : Bytes := %s\n"
            "def replacementGen : Bytes := %s\n"
            "def extensionGen : Bytes := %s\n"
            "def baseMarkerGen : Bytes := %s\n"
            "def nameAGen : Bytes := %s\n"
            "def nameBGen : Bytes := %s\n"
            "def nameBaseGen : Bytes := %s\n"
            "%s"
            "end BreezyVerif.C19\n") % (tuple(ex.lean_bytes(vals[k]) for k in
                                               ("start_marker", "replacement", "extension", "base_marker", "name_a", "name_b", "name_base"))
                                         + (sfx_text,))
    ex.write_if_changed(os.path.join(env.VERIF, "lean/BreezyVerif/Generated/C19.lean"), text)
    return "regenerated text_merge constants"


# --------------------------------------------------------------------------
# generators

BODIES = [b"a", b"b", b"c", b"d", b"e", b"x", b"y", b"", b" ", b"a", b"b", b"c",
          b"<<<<<<< TREE", b"=======", b">>>>>>> MERGE-SOURCE", b"||||||| BASE-REVISION", b"<<<<<<<", b">>>>>>>",
          b"x" + SENT, b" " + SENT]
SENT_BODIES = [SENT, SENT + b" TREE", SENT + b" x", SENT + SENT, SENT + b"\r", SENT + b"!", SENT + b"!! TREE", SENT + b"!x"]


def gen_line(rng, sent_p):
    if rng.random() < sent_p:
        body = rng.choice(SENT_BODIES)
    else:
        body = rng.choice(BODIES)
    r = rng.random()
    if r < 0.06:
        return body + b"\r\n"
    return body + b"\n"


def gen_lines(rng, sent_p, crlf=False):
    n = rng.choice([0, 1, 1, 2, 3, 3, 4, 5, 6])
    ls = [gen_line(rng, sent_p) for _ in range(n)]
    if crlf:
        ls = [l[:-1].rstrip(b"\r") + b"\r\n" for l in ls]
    return ls


def mutate(rng, lines, sent_p):
    ls = list(lines)
    for _ in range(rng.choice([0, 1, 1, 1, 2, 2, 3])):
        op = rng.random()
        if op < 0.4 and ls:
            ls[rng.randrange(len(ls))] = gen_line(rng, sent_p)
        elif op < 0.7:
            ls.insert(rng.randint(0, len(ls)), gen_line(rng, sent_p))
        elif ls:
            del ls[rng.randrange(len(ls))]
    return ls


def finish(rng, ls):
    """join; sometimes drop the final newline (-> last line without \\n, possibly ending in \\r)"""
    t = b"".join(ls)
    if t and rng.random() < 0.2:
        t = t[:-1]
    return t


LONG = b"p" * 99 + b"\n"


def long_prefix(rng):
    """1000 bytes of lines, then possibly one more line that just fits / just overflows the 1024-byte window"""
    extra = rng.choice([b"", b"q" * 19 + b"\n", b"q" * 23 + b"\n", b"q" * 24 + b"\n", b"q" * 99 + b"\n"])
    return LONG * rng.choice([9, 10, 10, 10]) + extra


def gen_triple(rng, sent_p, binary=False, long_p=0.0):
    if long_p and rng.random() < long_p:
        # texts longer than the binary-detection window: a NUL behind it does not make the file binary
        b, t, o = gen_triple(rng, sent_p, binary or rng.random() < 0.6)
        if rng.random() < 0.7:
            pb = pt = po = long_prefix(rng)
        else:
            pb, pt, po = long_prefix(rng), long_prefix(rng), long_prefix(rng)
        return pb + b, pt + t, po + o
    crlf = rng.random() < 0.08
    base = gen_lines(rng, sent_p, crlf)
    k = rng.random()
    if k < 0.06:
        this, other = mutate(rng, base, sent_p), list(base)
    elif k < 0.12:
        this, other = list(base), mutate(rng, base, sent_p)
    elif k < 0.18:
        this = mutate(rng, base, sent_p)
        other = list(this)
    elif k < 0.26:
        this, other = gen_lines(rng, sent_p, crlf), gen_lines(rng, sent_p, crlf)
    else:
        this, other = mutate(rng, base, sent_p), mutate(rng, base, sent_p)
    b, t, o = finish(rng, base), finish(rng, this), finish(rng, other)
    if binary:
        which = rng.choice([(1, 1, 1), (0, 1, 1), (1, 0, 0), (0, 1, 0), (0, 0, 1), (1, 1, 0)])
        b, t, o = [x + (b"\x00z\n" if w else b"") for x, w in zip((b, t, o), which)]
    return b, t, o


def split_lines(t):
    from breezy import osutils
    return list(osutils.split_lines(t))


def hexb(b):
    return b.hex() if b else "-"


def ob(b):
    return "~" if b is None else hexb(b)


def enc_lines(ls):
    return ",".join(l.hex() for l in ls) if ls else "_"


# --------------------------------------------------------------------------
# merge3 regions (external package), resolved to lines

def regions_for(base_l, this_l, other_l, reprocess, cherrypick):
    from merge3 import Merge3
    import patiencediff
    m3 = Merge3(base_l, this_l, other_l, is_cherrypick=cherrypick,
                sequence_matcher=patiencediff.PatienceSequenceMatcher)
    regs = m3.merge_regions()
    if reprocess:
        regs = m3.reprocess_merge_regions(regs)
    regs = list(regs)
    out = []
    for t in regs:
        w = t[0]
        if w == "unchanged":
            out.append(("u", base_l[t[1]:t[2]]))
        elif w == "a":
            out.append(("a", this_l[t[1]:t[2]]))
        elif w == "same":
            out.append(("s", this_l[t[1]:t[2]]))
        elif w == "b":
            out.append(("b", other_l[t[1]:t[2]]))
        elif w == "conflict":
            _, iz, zm, ia, am, ib, bm = t
            out.append(("c", None if iz is None else base_l[iz:zm], this_l[ia:am], other_l[ib:bm]))
        else:
            raise ValueError(w)
    return regs, out


def check_reproduce(base_l, this_l, other_l, regs, cherrypick=False):
    """the regions reproduce THIS and OTHER: projection onto each side, filling
    one-sided regions with the BASE lines they replace.  In cherrypick mode
    merge3 deliberately drops the OTHER lines of a conflict that match BASE, so
    only the THIS projection is required there."""
    def gap(i):
        lo = 0
        for t in reversed(regs[:i]):
            if t[0] == "unchanged":
                lo = t[2]; break
            if t[0] == "conflict" and t[1] is not None:
                lo = t[2]; break
        hi = len(base_l)
        for t in regs[i + 1:]:
            if t[0] == "unchanged":
                hi = t[1]; break
            if t[0] == "conflict" and t[1] is not None:
                hi = t[1]; break
        return base_l[lo:hi]
    pa, pb = [], []
    for i, t in enumerate(regs):
        w = t[0]
        if w == "unchanged":
            pa += base_l[t[1]:t[2]]; pb += base_l[t[1]:t[2]]
        elif w == "same":
            pa += this_l[t[1]:t[2]]; pb += this_l[t[1]:t[2]]
        elif w == "a":
            pa += this_l[t[1]:t[2]]; pb += gap(i)
        elif w == "b":
            pa += gap(i); pb += other_l[t[1]:t[2]]
        else:
            pa += this_l[t[3]:t[4]]; pb += other_l[t[5]:t[6]]
    return pa == this_l and (cherrypick or pb == other_l)


def enc_regions(out):
    if not out:
        return "_"
    parts = []
    for r in out:
        if r[0] == "c":
            parts.append("c:%s:%s:%s" % ("~" if r[1] is None else enc_lines(r[1]), enc_lines(r[2]), enc_lines(r[3])))
        else:
            parts.append("%s:%s" % (r[0], enc_lines(r[1])))
    return ";".join(parts)


def oracle_render(out, this_l, show_base):
    """what a user expects in the file: conventional markers around each conflict region"""
    nl = b"\n"
    if this_l:
        if this_l[0].endswith(b"\r\n"):
            nl = b"\r\n"
        elif this_l[0].endswith(b"\r"):
            nl = b"\r"
    res = []
    for r in out:
        if r[0] == "c":
            res.append(b"<<<<<<< TREE" + nl)
            res += r[2]
            if show_base:
                res.append(b"||||||| BASE-REVISION" + nl)
                res += r[1] or []
            res.append(b"=======" + nl)
            res += r[3]
            res.append(b">>>>>>> MERGE-SOURCE" + nl)
        else:
            res += r[1]
    return b"".join(res)


# --------------------------------------------------------------------------
# placement: where the file sits in BASE / THIS / OTHER

DIRS = ["", "d1", "d2"]          # index = directory identity handed to the model
SFX = (".BASE", ".THIS", ".OTHER")


def names_for(i):
    """names entry i may carry; every one has the stem `<letter><i>` up to the first dot, no other entry shares
    it, and no name is another name of the pool plus a helper suffix (a path-conflict resolution could
    otherwise rename the file onto its own helper)"""
    return ["f%d" % i, "g%d" % i, "h%d.c" % i, "k%d.THIS" % i, "m%d.OTHER.txt" % i]


def stem_entry(name, n):
    st = name.split(".")[0]
    if len(st) >= 2 and st[0] in "fghkm" and st[1:].isdigit() and int(st[1:]) < n:
        return int(st[1:])
    return None


def three_way(b, o, t):
    if b == o:
        return "this"
    if t != b and t != o:
        return "conflict"
    return "this" if t == o else "other"


def expected_loc(locs):
    """name and directory are merged independently; on a conflict OTHER's value is used
    -> ((dir, name), path_conflict)"""
    (bd, bn), (td, tn), (od, on) = (locs[0] or (None, None)), locs[1], locs[2]
    wn, wd = three_way(bn, on, tn), three_way(bd, od, td)
    return (td if wd == "this" else od, tn if wn == "this" else on), "conflict" in (wn, wd)


def fixed_locs(i):
    return [[0, "f%d" % i]] * 3


def side_path(sc, side, loc):
    """path of a location in the committed tree of `side` ('base'|'this'|'other')"""
    d = DIRS[loc[0]]
    dm = sc.get("dirmove")
    if dm and dm[0] == side and dm[1] == loc[0]:
        d = dm[2]
    return (d + "/" if d else "") + loc[1]


def read_opt(path):
    try:
        with open(path, "rb") as f:
            return f.read()
    except FileNotFoundError:
        return None


def observe_tree(wt, n, dir_ids):
    """per entry: files {(dir, name): bytes}, content-level records [(kind, dir, name, path)],
    path-conflict flag, versioned names; plus everything that belongs to no entry"""
    root = wt.basedir
    with wt.lock_read():
        dmap = {"": 0}
        if dir_ids is None:
            for i, d in enumerate(DIRS):
                dmap[d] = i
        else:
            for i, did in dir_ids.items():
                try:
                    dmap[wt.id2path(did)] = i
                except Exception:  # noqa
                    pass
        ents = [dict(files={}, recs=[], pc=False, ver=[], odd=[]) for _ in range(n)]
        extra = []
        for dp, dn, fn in os.walk(root):
            for x in (".bzr", ".git"):
                if x in dn:
                    dn.remove(x)
            rel = os.path.relpath(dp, root)
            rel = "" if rel == "." else rel
            for f in fn:
                i = stem_entry(f, n)
                relp = (rel + "/" if rel else "") + f
                if i is None or rel not in dmap:
                    extra.append(relp)
                    continue
                ents[i]["files"][(dmap[rel], f)] = read_opt(os.path.join(dp, f))
        # versioned names, including ones whose file the user deleted from disk
        for vp in wt.all_versioned_paths():
            d, _, nm = vp.rpartition("/")
            i = stem_entry(nm, n)
            if i is not None and d in dmap and vp not in dmap:
                ents[i]["ver"].append((dmap[d], nm))
        for c in wt.conflicts():
            d, _, nm = c.path.rpartition("/")
            i = stem_entry(nm, n)
            ts = c.typestring
            if i is None or d not in dmap:
                extra.append("conflict:%s:%s" % (ts, c.path))
            elif ts == "path conflict":
                ents[i]["pc"] = True
            elif ts in ("text conflict", "contents conflict"):
                ents[i]["recs"].append((ts.split()[0], dmap[d], nm, c.path))
            else:
                ents[i]["odd"].append(ts.replace(" ", "_"))
    for e in ents:
        e["ver"].sort(); e["recs"].sort()
    return ents, sorted(extra)


def slot_at(ent, loc):
    """the classical per-file slot, read at location `loc`: file, .BASE, .THIS, .OTHER, record, versioned name"""
    d, nm = loc
    rec = None
    for k, rd, rn, _ in ent["recs"]:
        if (rd, rn) == (d, nm):
            rec = k
    idon = "none"
    for key, x in (("item", nm), ("this", nm + ".THIS"), ("other", nm + ".OTHER"), ("base", nm + ".BASE")):
        if (d, x) in ent["ver"]:
            idon = key if idon == "none" else idon + "+" + key
    g = ent["files"].get
    return [g((d, nm)), g((d, nm + ".BASE")), g((d, nm + ".THIS")), g((d, nm + ".OTHER")), rec, idon]


def slot_str(s):
    return "%s %s %s %s %s %s" % (ob(s[0]), ob(s[1]), ob(s[2]), ob(s[3]), s[4] or "~", s[5])


def loc_str(loc):
    return "%d:%s" % (loc[0], loc[1].encode().hex())


def placed_str(ent):
    """canonical listing of everything an entry has in the tree (the model's `Placed`)"""
    fs = ",".join("%d:%s:%s" % (d, nm.encode().hex(), hexb(c))
                  for (d, nm), c in sorted(ent["files"].items(), key=lambda kv: (kv[0][0], kv[0][1].encode()))) or "_"
    rec = "+".join("%s:%d:%s" % (k, d, nm.encode().hex()) for k, d, nm, _ in ent["recs"]) or "~"
    ver = "+".join(loc_str(v) for v in ent["ver"]) or "~"
    return "%s %s %s %s" % (fs, rec, ver, "T" if ent["pc"] else "F")


def exc_kind(e):
    n = type(e).__name__
    return {"CantReprocessAndShowBase": "E:CantReprocessAndShowBase", "MalformedTransform": "E:Malformed"}.get(n, "E:" + n)


def run_scenario(sc):
    """sc: dict(fmt, reprocess, show_base, cherrypick, via, triples=[(b,t,o)], actions=[(action, pre)],
                locs=[[base, this, other] locations (dir index, name)], dirmove=None|[side, dir index, new name])
    returns dict(merge_exc, ents=[entry observation], resolves=[(before, action, exc|None, after)|None])"""
    from breezy import conflicts as _mod_conflicts
    from breezy.merge import Merge3Merger, Merger
    fmt = sc["fmt"]
    triples = sc["triples"]
    n = len(triples)
    locs = sc.get("locs") or [fixed_locs(i) for i in range(n)]
    wt = env.make_tree(fmt)
    root = wt.basedir

    def write(d, side, idx):
        for lc, t in zip(locs, triples):
            if lc[0] is not None:
                with open(os.path.join(d, side_path(sc, side, lc[0])), "wb") as f:   # still at the BASE path
                    f.write(t[idx])

    def move(tree, side, idx):
        for i, (lc, t) in enumerate(zip(locs, triples)):
            to = lc[1] if side == "this" else lc[2]
            if lc[0] is None:
                # added by this side (both sides add it: same file id in bzr, same path in git)
                p = side_path(sc, "base", to)
                with open(os.path.join(tree.basedir, p), "wb") as f:
                    f.write(t[idx])
                if fmt == "git":
                    tree.add([p])
                else:
                    tree.add([p], ids=[b"added-%d" % i])
            elif list(to) != list(lc[0]):
                tree.rename_one(side_path(sc, "base", lc[0]), side_path(sc, "base", to))
        dm = sc.get("dirmove")
        if dm and dm[0] == side:
            tree.rename_one(DIRS[dm[1]], dm[2])
    for d in DIRS[1:]:
        os.mkdir(os.path.join(root, d))
    write(root, "base", 0)
    base_paths = [side_path(sc, "base", lc[0]) for lc in locs if lc[0] is not None]
    if fmt == "git":
        wt.add(base_paths)
        dir_ids = None
    else:
        wt.add(DIRS[1:] + base_paths)
        dir_ids = {i: wt.path2id(DIRS[i]) for i in (1, 2)}
    base_rev = wt.commit("base")
    odir = env.fresh_dir("other")
    owt = wt.controldir.sprout(odir).open_workingtree()
    for d in DIRS[1:]:
        os.makedirs(os.path.join(odir, d), exist_ok=True)      # git does not carry empty directories over
    write(odir, "base", 2)
    move(owt, "other", 2)
    other_rev = owt.commit("other", allow_pointless=True)
    write(root, "base", 1)
    move(wt, "this", 1)
    wt.commit("this", allow_pointless=True)
    res = dict(merge_exc=None, resolves=[])
    try:
        if sc["via"] == "merger":
            with wt.lock_write():
                m = Merger.from_revision_ids(wt, other_rev, other_branch=owt.branch)
                m.merge_type = Merge3Merger
                m.reprocess = sc["reprocess"]
                m.show_base = sc["show_base"]
                m.do_merge()
        else:
            with owt.lock_read():
                Merge3Merger(wt, wt, wt.branch.repository.revision_tree(base_rev),
                             owt.branch.repository.revision_tree(other_rev),
                             reprocess=sc["reprocess"], show_base=sc["show_base"],
                             cherrypick=sc["cherrypick"], do_merge=True)
    except Exception as e:  # noqa
        res["merge_exc"] = exc_kind(e)
    res["ents"], res["extra_files"] = observe_tree(wt, n, dir_ids)
    # the texts the merge actually saw (the repository's, not the ones written to disk)
    try:
        orepo = wt.branch.repository if (sc["via"] == "merger" and not res["merge_exc"]) else owt.branch.repository
        bt, ot = wt.branch.repository.revision_tree(base_rev), orepo.revision_tree(other_rev)
        with bt.lock_read(), ot.lock_read():
            res["stored"] = [(bt.get_file_text(side_path(sc, "base", lc[0])) if lc[0] is not None else b"",
                              ot.get_file_text(side_path(sc, "other", lc[2]))) for lc in locs]
    except Exception as e:  # noqa
        res["stored"] = None
    # paths OTHER added that the tree comparison reports as copies of another file (git: similarity detection)
    res["copied"] = []
    try:
        orepo = owt.branch.repository
        bt, ot = orepo.revision_tree(base_rev), orepo.revision_tree(other_rev)
        with bt.lock_read(), ot.lock_read():
            res["copied"] = sorted(c.path[1] for c in ot.iter_changes(bt) if getattr(c, "copied", False))
    except Exception as e:  # noqa
        pass
    for i, (action, pre) in enumerate(sc["actions"]):
        ent = res["ents"][i]
        if not ent["recs"] or res["merge_exc"]:
            res["resolves"].append(None)
            continue
        cpath = ent["recs"][0][3]          # resolve by the path the conflict was recorded under
        if pre:
            kind, which = pre
            p = os.path.join(root, cpath + "." + which)
            if kind == "del":
                if os.path.exists(p):
                    os.unlink(p)
            elif kind == "edit":
                with open(p, "wb") as f:
                    f.write(b"edited by user\n")
        before = observe_tree(wt, n, dir_ids)[0][i]
        exc = None
        try:
            _mod_conflicts.resolve(wt, [cpath], action=action)
        except Exception as e:  # noqa
            exc = exc_kind(e)
        res["resolves"].append((before, action, exc, observe_tree(wt, n, dir_ids)[0][i]))
    return res


# --------------------------------------------------------------------------

def has_sentinel_line(triple):
    return any(l.startswith(SENT) for t in triple for l in t.split(b"\n"))


def is_binary_text(t):
    """textfile.check_text_lines, re-implemented: whole lines are scanned until one no longer fits into the
    1024-byte window (that one is still scanned)"""
    off = 0
    for l in split_lines(t):
        if b"\x00" in l:
            return True
        if off + len(l) > 1024:
            return False
        off += len(l)
    return False


def is_binary(triple):
    return any(is_binary_text(t) for t in triple)


def case_of(sc, i):
    b, t, o = sc["triples"][i]
    return dict(fmt=sc["fmt"], reprocess=sc["reprocess"], show_base=sc["show_base"], cherrypick=sc["cherrypick"],
                via=sc["via"], base=b.hex(), this=t.hex(), other=o.hex(),
                action=sc["actions"][i][0], pre=sc["actions"][i][1],
                locs=[None if x is None else list(x) for x in sc["locs"][i]], dirmove=sc.get("dirmove"), index=i,
                **({"scenario": sc["scj"]} if "scj" in sc else {}))


def gen_locs(rng, i, fmt):
    """(BASE, THIS, OTHER) locations of entry i.  git trees are path based (a rename is delete + add,
    never a text merge), so there the file keeps its place — but the place varies."""
    names = names_for(i)
    def pick():
        return [rng.choice([0, 0, 1, 1, 2]), rng.choice(names[:3] if rng.random() < 0.85 else names)]
    def moved(frm):
        r = rng.random()
        if r < 0.45:
            to = [frm[0], rng.choice(names)]
        elif r < 0.75:
            to = [rng.choice([0, 1, 2]), frm[1]]
        else:
            to = pick()
        return to
    base = pick()
    if rng.random() < 0.07:
        # added by both sides (not in BASE): same file id in bzr / same path in git
        if fmt == "git" or rng.random() < 0.6:
            return [None, base, base]
        return [None, base, moved(base)]
    if fmt == "git":
        return [base, base, base]
    r = rng.random()
    if r < 0.40:
        return [base, base, base]
    if r < 0.58:
        return [base, base, moved(base)]                 # only OTHER renames / moves
    if r < 0.72:
        return [base, moved(base), base]                 # only THIS
    if r < 0.80:
        m = moved(base)
        return [base, m, m]                              # both, to the same place
    return [base, moved(base), moved(base)]              # both, independently (often a path conflict)


def gen_scenario(ctx, fmt, nfiles, sent_p, bin_p):
    rng = ctx.rng
    r = rng.random()
    reprocess = show_base = False
    if r < 0.3:
        reprocess = True
    elif r < 0.6:
        show_base = True
    elif r < 0.64:
        reprocess = show_base = True
    via = "merger" if rng.random() < 0.5 else "direct"
    cherrypick = via == "direct" and rng.random() < 0.4
    triples, actions, locs = [], [], []
    dirmove = None
    if fmt == "2a" and rng.random() < 0.2:
        k = rng.choice([1, 2])
        dirmove = [rng.choice(["this", "other"]), k, DIRS[k] + "x"]     # one side renames a directory
    for i in range(nfiles):
        locs.append(gen_locs(rng, i, fmt))
        binary = fmt == "2a" and rng.random() < bin_p
        tr = gen_triple(rng, sent_p, binary, long_p=0.03 if fmt == "2a" else 0.0)
        triples.append((b"", tr[1], tr[2]) if locs[i][0] is None else tr)
        action = rng.choice(["take_this", "take_other"])
        pre = None
        if rng.random() < 0.1:
            which = rng.choice(["THIS", "OTHER", "BASE"])
            kind = rng.choice(["del", "edit"])
            if not (fmt == "git" and kind == "del"):   # git crashes with AttributeError on a missing helper: not compared
                pre = [kind, which]
        actions.append([action, pre])
    return dict(fmt=fmt, reprocess=reprocess, show_base=show_base, cherrypick=cherrypick, via=via,
                triples=triples, actions=actions, locs=locs, dirmove=dirmove)


def place_kind(locs):
    if locs[0] is None:
        return "added-by-both" + ("" if tuple(locs[1]) == tuple(locs[2]) else "-differently")
    b, t, o = [tuple(x) for x in locs]
    if t == b and o == b:
        return "fixed"
    if t == b:
        return "other-moved"
    if o == b:
        return "this-moved"
    if t == o:
        return "both-same"
    return "both-differ"


def evaluate(ctx, sc, res):
    """T2 + oracle for one executed scenario.  Returns (cases, lines, impl_outs) for the batched model call."""
    cases, lines, outs = [], [], []
    R = "T" if sc["reprocess"] else "F"
    S = "T" if sc["show_base"] else "F"
    both = sc["reprocess"] and sc["show_base"]
    per_file = []
    need_text_merge = False
    if not sc.get("locs"):
        sc = dict(sc, locs=[fixed_locs(i) for i in range(len(sc["triples"]))])
    corrupt = set()
    if res.get("stored"):
        # A repository that hands out a text different from the one committed is a defect of another
        # property (C03: fetch/commit fidelity; external groupcompress NUL corruption).  Such an entry has
        # no well-defined input for C19: the merge compares the sha1s recorded at commit time (true text)
        # but reads the lines from the repository (altered text).  It is counted and left out.
        for i, ((b, t, o), (sb, so)) in enumerate(zip(sc["triples"], res["stored"])):
            if (sb, so) != (b, o):
                corrupt.add(i)
                ctx.count("repository-text-differs-from-committed(C03):entry-not-evaluated")
                if len(ctx.extra.setdefault("repository_text_differs", [])) < 20:
                    ctx.extra["repository_text_differs"].append(
                        dict(fmt=sc["fmt"], via=sc["via"], committed=[b.hex(), o.hex()], stored=[sb.hex(), so.hex()]))
    # the whole scenario travels with every recorded case, so that a replay runs exactly the same merge
    scj = dict(fmt=sc["fmt"], reprocess=sc["reprocess"], show_base=sc["show_base"], cherrypick=sc["cherrypick"],
               via=sc["via"], triples=[[x.hex() for x in t] for t in sc["triples"]], actions=sc["actions"],
               locs=sc["locs"], dirmove=sc.get("dirmove"))
    sc = dict(sc, scj=scj)
    for i, (b, t, o) in enumerate(sc["triples"]):
        bl, tl, ol = split_lines(b), split_lines(t), split_lines(o)
        regs, out = regions_for(bl, tl, ol, sc["reprocess"], sc["cherrypick"])
        if not check_reproduce(bl, tl, ol, regs, sc["cherrypick"]):
            ctx.mismatch(case_of(sc, i), "merge3 regions do not reproduce the inputs", str(regs), tie="assumption:merge3")
        absent = sc["locs"][i][0] is None          # added by both sides: BASE is (None, None), never equal to a side
        changed_both = (t != o) if absent else (b != o and t != b and t != o)
        binary = is_binary((b, t, o))
        if changed_both and not binary and i not in corrupt:
            need_text_merge = True
        per_file.append((bl, tl, ol, regs, out, changed_both, binary))
    if sc.get("dirmove"):
        ctx.count("directory-renamed-by:" + sc["dirmove"][0])
    if res["merge_exc"]:
        # the whole merge failed: only legal reason is reprocess+show_base with at least one text merge
        case = dict(fmt=sc["fmt"], reprocess=sc["reprocess"], show_base=sc["show_base"], via=sc["via"],
                    triples=[[x.hex() for x in t] for t in sc["triples"]], locs=sc["locs"], dirmove=sc.get("dirmove"))
        ctx.count("merge-raised:" + res["merge_exc"])
        if not (both and (need_text_merge or corrupt) and res["merge_exc"] == "E:CantReprocessAndShowBase"):
            ctx.violation(case, "merge raised %s" % res["merge_exc"])
        for i, ent in enumerate(res["ents"]):
            if i in corrupt:
                continue
            tloc = tuple(sc["locs"][i][1])
            if ent["files"] != {tloc: sc["triples"][i][1]} or ent["recs"] or ent["pc"] or ent["ver"] != [tloc]:
                ctx.violation(case_of(sc, i), "failed merge changed the tree: %s" % placed_str(ent))
    elif both and need_text_merge:
        ctx.violation(dict(fmt=sc["fmt"], via=sc["via"]), "reprocess+show_base accepted although a text merge was needed")
    if res["extra_files"]:
        ctx.violation(dict(fmt=sc["fmt"], files=res["extra_files"]), "unexpected files / records after merge: %r" % res["extra_files"])

    for i, (b, t, o) in enumerate(sc["triples"]):
        if i in corrupt:
            continue
        bl, tl, ol, regs, out, changed_both, binary = per_file[i]
        case = case_of(sc, i)
        locs = sc["locs"][i]
        P, pc_exp = expected_loc(locs)
        absent = locs[0] is None
        Lb, Lt, Lo = ["~" if x is None else loc_str(x) for x in locs]
        fam = None          # every oracle failure outside the family below is a plain VIOLATION
        if sc["fmt"] == "git" and absent and side_path(sc, "other", locs[2]) in (res.get("copied") or []):
            # finding: a file added by both sides whose OTHER version is reported as a *copy* of another
            # file is treated as a plain add (THIS slot dropped): THIS's text is overwritten, no conflict
            fam = "git-added-by-both-other-side-detected-as-copy"
            ctx.count("family:" + fam)
        ctx.case([case["fmt"], R, S, sc["cherrypick"], sc["via"], case["base"], case["this"], case["other"], case["action"], case["pre"],
                  Lb, Lt, Lo],
                 nontrivial=changed_both)
        ctx.count("fmt:" + sc["fmt"]); ctx.count("opts:R%sS%sC%s" % (R, S, "T" if sc["cherrypick"] else "F"))
        ctx.count("via:" + sc["via"]); ctx.count("lines:%d" % max(len(bl), len(tl), len(ol)))
        ctx.count("relation:" + ("base-absent:" if absent else "") + ("both-changed" if changed_both else "this=other" if t == o else
                                 "other=base" if b == o else "this=base"))
        pk = place_kind(locs)
        ctx.count("place:" + pk + ("+path-conflict" if pc_exp else ""))
        if changed_both:
            ctx.count("place-x-content:%s/%s" % (pk, "binary" if binary else "text-merge"))
        if not (t.endswith(b"\n") or not t) or not (o.endswith(b"\n") or not o) or not (b.endswith(b"\n") or not b):
            ctx.count("missing-final-newline")
        if has_sentinel_line((b, t, o)):
            ctx.count("sentinel-line")
        if binary:
            ctx.count("binary")
        if max(len(b), len(t), len(o)) > 1024:
            ctx.count("longer-than-binary-window" + (":NUL-behind-window" if not binary and any(b"\x00" in x for x in (b, t, o)) else ""))
        # split_lines correspondence
        for txt, ls in ((b, bl), (t, tl), (o, ol)):
            cases.append(dict(op="split_lines", text=txt.hex())); lines.append("sl %s" % hexb(txt)); outs.append(enc_lines(ls))
        # the theorems' hypothesis (regions denote input lines) and the marker's freshness, on this case
        cases.append(dict(op="FromInputs", case=case))
        lines.append("fi %s %s %s %s %s" % (S, enc_lines(bl), enc_lines(tl), enc_lines(ol), enc_regions(out)))
        outs.append("T")
        mk = SENT
        while any(l.startswith(mk) for l in bl + ol + tl):
            mk += b"!"
        cases.append(dict(op="marker", case=case))
        lines.append("mk %s %s %s" % (enc_lines(bl), enc_lines(tl), enc_lines(ol)))
        outs.append(mk.hex())
        ctx.count("marker-extensions:%d" % (len(mk) - len(SENT)))
        margs = "%s %s %s %s" % (enc_lines(bl), enc_lines(tl), enc_lines(ol), enc_regions(out))
        if res["merge_exc"]:
            if both and need_text_merge:
                # model: this file or an earlier one raises; compare only the files that need a text merge
                if changed_both and not binary:
                    if not absent:
                        cases.append(case); outs.append(res["merge_exc"])
                        lines.append("mf %s %s %s" % (R, S, margs))
                    cases.append(dict(case, op="place")); outs.append(res["merge_exc"])
                    lines.append("pl %s %s %s %s %s %s" % (R, S, Lb, Lt, Lo, margs))
            continue
        ent = res["ents"][i]
        slot = slot_at(ent, P)
        if not absent:
            cases.append(case); outs.append(slot_str(slot))
            lines.append("mf %s %s %s" % (R, S, margs))
        # the whole entry with its paths: name merge, helper names, record path, path conflict
        if fam is None:
            cases.append(dict(case, op="place")); outs.append(placed_str(ent))
            lines.append("pl %s %s %s %s %s %s" % (R, S, Lb, Lt, Lo, margs))
        # ---- oracle: the property on the real outcome --------------------
        has_conf = changed_both and any(r[0] == "c" for r in out)
        recorded = slot[4] == "text"
        ctx.count("outcome:" + (slot[4] or "clean"))
        # everything the entry owns must be the file at its final path or one of that path's three helpers
        allowed = {P} | {(P[0], P[1] + x) for x in SFX}
        stray = sorted("%s/%s" % (DIRS[d], nm) for (d, nm) in ent["files"] if (d, nm) not in allowed)
        if stray:
            ctx.violation(case, "files of the entry away from its final path %s/%s: %r" % (DIRS[P[0]], P[1], stray), family=fam)
        badrec = [(k, "%s/%s" % (DIRS[d], nm)) for k, d, nm, _ in ent["recs"] if (d, nm) != P]
        if badrec or len(ent["recs"]) > 1:
            ctx.violation(case, "conflict recorded under %r, the file is at %s/%s" % (
                [(k, "%s/%s" % (DIRS[d], nm)) for k, d, nm, _ in ent["recs"]], DIRS[P[0]], P[1]), family=fam)
        if ent["odd"]:
            ctx.violation(case, "unexpected conflict kinds %r" % ent["odd"], family=fam)
        if binary and changed_both:
            ok = slot[4] == "contents" and slot[0] is None and slot[1:4] == [None if absent else b, t, o]
            if not ok:
                ctx.violation(case, "binary both-changed: expected contents conflict with exact helpers, got %s" % slot_str(slot), family=fam)
        else:
            if recorded != has_conf:
                ctx.violation(case, "text conflict recorded=%s but merge3 conflict regions=%s (file %r)" % (
                    recorded, has_conf, slot[0]), family=fam)
            if slot[4] not in (None, "text"):
                ctx.violation(case, "unexpected conflict kind %s" % slot[4], family=fam)
            if not changed_both:
                expect = t if (absent or b == o or t == o) else o
            else:
                expect = oracle_render(out, tl, sc["show_base"])
            if slot[0] != expect:
                ctx.violation(case, "file content %r, expected %s %r" % (
                    slot[0], "marker rendering" if has_conf else "clean merge", expect), family=fam)
            if recorded:
                if slot[1:4] != [None if absent else b, t, o]:
                    ctx.violation(case, "helper files (BASE,THIS,OTHER)=%r differ from the three texts%s" % (
                        slot[1:4], " (no BASE: added by both sides)" if absent else ""), family=fam)
            elif slot[1:4] != [None, None, None]:
                ctx.violation(case, "helper files present without a conflict: %r" % (slot[1:4],), family=fam)
            if slot[5] != "item":
                ctx.violation(case, "versioned names after merge: %s" % slot[5], family=fam)
        # ---- resolution -------------------------------------------------------
        rs = res["resolves"][i]
        if rs is None:
            continue
        bent, action, exc, aent = rs
        before, after = slot_at(bent, P), slot_at(aent, P)
        side = "this" if action == "take_this" else "other"
        pre = sc["actions"][i][1]
        ctx.count("resolve:%s:%s%s%s" % (before[4], action, (":" + pre[0] + pre[1]) if pre else "",
                                        "+path-conflict" if bent["pc"] else ""))
        if bent["pc"]:
            pass        # the same call also resolves the path conflict and may move the file: not compared
        elif before[4] == "text":
            cases.append(dict(case, step="resolve")); lines.append("rt %s %s" % (side, slot_str(before)))
            outs.append(exc if exc else slot_str(after))
        elif before[4] == "contents":
            cases.append(dict(case, step="resolve")); lines.append("rc %s %s" % (side, slot_str(before)))
            outs.append(exc if exc else slot_str(after))
        if not bent["pc"] and len(bent["recs"]) == 1 and len(bent["ver"]) <= 1:
            # path-keyed resolution of the whole entry (a path conflict on the same entry is resolved by
            # the same call and may move the file again: that part belongs to another property)
            cases.append(dict(case, step="resolve", op="place"))
            lines.append("rp %s %s" % (side, placed_str(bent)))
            outs.append(exc if exc else placed_str(aent))
        want = t if side == "this" else o
        if pre is None and exc is None:
            if bent["pc"]:
                good = (list(aent["files"].values()) == [want] and not aent["recs"] and
                        aent["ver"] == list(aent["files"].keys()))
            else:
                good = aent["files"] == {P: want} and not aent["recs"] and aent["ver"] == [P]
            if not good:
                ctx.violation(dict(case, step="resolve"), "after %s: %s, expected exactly the file %s/%s=%r, no helpers, no record, versioned" % (
                    action, placed_str(aent), DIRS[P[0]], P[1], want), family=fam)
        elif pre is None and exc is not None:
            ctx.violation(dict(case, step="resolve"), "resolve %s raised %s (tree: %s)" % (action, exc, placed_str(aent)), family=fam)
        elif exc is None and not bent["pc"]:
            # user touched a helper: the file must hold whatever p.<WINNER> held, helpers and record gone
            w = before[2] if side == "this" else before[3]
            if before[4] == "text" and (after[0] != w or after[1:5] != [None, None, None, None]):
                ctx.violation(dict(case, step="resolve"), "after %s with edited helpers: %s" % (action, slot_str(after)), family=fam)
    return cases, lines, outs


def _run_sc(sc):
    return run_scenario(sc)


def run(ctx, scale=1):
    nsc = ctx.pick(20, 900) * scale
    nfiles = ctx.pick(14, 16)
    scs = []
    # corpus first: the F3 witness, CRLF first line, bare CR, no trailing newline
    corpus = [
        (b"a\nb\n", b"a\n" + SENT + b" x\nb\n", b"a\nb\nc\n"),                 # former F3 witness: now clean
        (b"a\nb\n", b"a\n" + SENT + b"! TREE\nB\n", b"a\n" + SENT + b"\nX\n"),     # conflict + lines starting with marker and marker!

        (b"a\r\nb\r\n", b"a\r\nB\r\n", b"a\r\nX\r\n"),
        (b"a", b"b\r", b"c"),
        (b"a\nb\nc", b"a\nB\nc", b"a\nX\nc"),
        (b"a\n", b"<<<<<<< TREE\n", b"=======\n"),
        (b"a\n\x00b\n", b"a\n\x00B\n", b"a\n\x00X\n"),
    ]
    for fmt in ("2a", "git"):
        tr = [c for c in corpus if not (fmt == "git" and is_binary(c))]
        for (r, s) in ((False, False), (False, True), (True, False)):
            scs.append(dict(fmt=fmt, reprocess=r, show_base=s, cherrypick=False, via="merger", triples=tr,
                            actions=[["take_this" if (i + r) % 2 == 0 else "take_other", None] for i in range(len(tr))]))
    # placement corpus: one conflicting, one clean and one binary triple under every kind of rename / move
    ptr = [(b"a\nb\nc\n", b"a\nB\nc\n", b"a\nX\nc\n"), (b"a\nb\nc\n", b"A\nb\nc\n", b"a\nb\nC\n"),
           (b"a\n\x00b\n", b"a\n\x00B\n", b"a\n\x00X\n")]
    moves = [lambda i: [[1, "f%d" % i], [1, "f%d" % i], [1, "g%d" % i]],          # OTHER renames
             lambda i: [[1, "f%d" % i], [1, "g%d" % i], [1, "f%d" % i]],          # THIS renames
             lambda i: [[1, "f%d" % i], [1, "f%d" % i], [2, "f%d" % i]],          # OTHER moves
             lambda i: [[1, "f%d" % i], [1, "g%d" % i], [2, "f%d" % i]],          # THIS renames, OTHER moves
             lambda i: [[0, "f%d" % i], [0, "g%d" % i], [0, "h%d.c" % i]],        # both rename differently
             lambda i: [[0, "f%d" % i], [2, "k%d.THIS" % i], [2, "k%d.THIS" % i]]]  # both the same way
    ptriples = [tr for tr in ptr for _ in moves]
    plocs = [mv(i) for i, mv in enumerate(moves * len(ptr))]
    for k, (r, s_) in enumerate(((False, False), (False, True), (True, False))):
        scs.append(dict(fmt="2a", reprocess=r, show_base=s_, cherrypick=False, via="merger" if k != 1 else "direct",
                        triples=ptriples, locs=plocs, dirmove=[None, ["other", 1, "d1x"], ["this", 2, "d2x"]][k],
                        actions=[["take_this" if (i + k) % 2 == 0 else "take_other", None] for i in range(len(ptriples))]))
    # added by both sides (BASE absent): conflicting, identical, one side empty, binary against empty
    atr = [(b"", b"a\nB\nc\n", b"a\nX\nc\n"), (b"", b"a\n", b"a\n"), (b"", b"", b"x\n"), (b"", b"x", b""),
           (b"", b"\x00B\n", b""), (b"", b"", b"\x00X\n"), (b"", b"\x00B\n", b"\x00X\n"), (b"", b"a\nB\nc\n", b"a\nX\nc\n")]
    for fmt in ("2a", "git"):
        tr = [c for c in atr if not (fmt == "git" and is_binary(c))]
        for k, (r, s_) in enumerate(((False, False), (False, True), (True, False))):
            lc = [[None, [1, "g%d" % i], [1, "g%d" % i]] for i in range(len(tr))]
            if fmt == "2a":
                lc[-1] = [None, [1, "g%d" % (len(tr) - 1)], [2, "h%d.c" % (len(tr) - 1)]]
            scs.append(dict(fmt=fmt, reprocess=r, show_base=s_, cherrypick=False, via="merger" if k != 2 else "direct",
                            triples=tr, locs=lc, dirmove=None,
                            actions=[["take_this" if (i + k) % 2 == 0 else "take_other", None] for i in range(len(tr))]))
    for sc in scs:
        sc.setdefault("locs", [fixed_locs(i) for i in range(len(sc["triples"]))])
        sc.setdefault("dirmove", None)
    for k in range(nsc):
        fmt = "2a" if k % 3 != 2 else "git"
        scs.append(gen_scenario(ctx, fmt, nfiles, sent_p=0.05, bin_p=0.04))
    results = ctx.pmap(_run_sc, scs)
    cases, lines, outs = [], [], []
    for sc, res in zip(scs, results):
        c, l, o = evaluate(ctx, sc, res)
        cases += c; lines += l; outs += o
    ctx.diff(cases, lines, outs)
    ctx.extra["scenarios"] = len(scs)


def widen(ctx):
    run(ctx, scale=4)


def replay(ctx, case):
    if "base" not in case:
        return dict(note="scenario-level record", case=case)
    locs = case.get("locs") or fixed_locs(0)
    if case.get("scenario"):
        # the recorded case carries its whole scenario: run exactly the same merge
        j = case["scenario"]
        sc = dict(fmt=j["fmt"], reprocess=j["reprocess"], show_base=j["show_base"], cherrypick=j["cherrypick"], via=j["via"],
                  triples=[tuple(bytes.fromhex(x) for x in t) for t in j["triples"]], actions=j["actions"],
                  locs=j["locs"], dirmove=j.get("dirmove"))
        i = case.get("index", 0)
    else:
        i = stem_entry(locs[1][1], 10 ** 6) or 0
        pad = i        # entry names carry their index: rebuild the scenario with unchanged filler entries in front
        filler = (b"", b"", b"")
        sc = dict(fmt=case["fmt"], reprocess=case["reprocess"], show_base=case["show_base"],
                  cherrypick=case["cherrypick"], via=case["via"],
                  triples=[filler] * pad + [(bytes.fromhex(case["base"]), bytes.fromhex(case["this"]), bytes.fromhex(case["other"]))],
                  actions=[["take_this", None]] * pad + [[case["action"], case["pre"]]],
                  locs=[fixed_locs(j) for j in range(pad)] + [locs], dirmove=case.get("dirmove"))
    res = run_scenario(sc)
    cases, lines, outs = evaluate(ctx, sc, res)
    model = ctx.model(lines)
    ent = res["ents"][i]
    rs = res["resolves"][i] if res["resolves"] else None
    mine = [k for k, c in enumerate(cases) if isinstance(c, dict) and (c.get("index") == i or c.get("case", {}).get("index") == i)]
    short = {k: v for k, v in case.items() if k != "scenario"}
    return dict(case=short, whole_scenario_replayed=bool(case.get("scenario")), texts=[repr(x) for x in sc["triples"][i]],
                stored_differs=None if not res.get("stored") else
                [k for k, (tr, st) in enumerate(zip(sc["triples"], res["stored"])) if (tr[0], tr[2]) != tuple(st)],
                paths=dict(base=None if locs[0] is None else side_path(sc, "base", locs[0]), this=side_path(sc, "this", locs[1]),
                           other=side_path(sc, "other", locs[2])),
                impl=dict(after_merge=placed_str(ent), merge_exc=res["merge_exc"],
                          files={"%s/%s" % (DIRS[d], nm): repr(c) for (d, nm), c in sorted(ent["files"].items())},
                          conflicts=[(k, p) for k, _, _, p in ent["recs"]],
                          resolve=None if rs is None else dict(exc=rs[2], after=placed_str(rs[3]))),
                model=[dict(line=lines[k][:2000], model=model[k], impl=outs[k]) for k in mine
                       if lines[k].startswith(("mf", "rt", "rc", "pl", "rp"))][-5:],
                mismatching_lines=[dict(line=lines[k][:2000], model=model[k], impl=outs[k])
                                   for k in range(len(lines)) if model[k] != outs[k]][:5],
                oracle_failures=[v["what"] for v in ctx.violations if (v["case"] or {}).get("index", i) == i],
                oracle_failures_other_entries=[v["what"] for v in ctx.violations if (v["case"] or {}).get("index", i) != i][:5])
