import BreezyVerif.Model.C26
/-!
C26 — local facts about one transport step (`lstep`), proved by case analysis on
the program counter.  Everything the invariant proofs need to know about the
step function is collected here.
-/
namespace BreezyVerif.C26

/-- pcs of `break_lock` / `force_break` / `force_break_corrupt` -/
def Pc.breaky : Pc → Bool
  | .kPeek | .bPeek _ _ | .bRename _ _ | .bRead _ _ | .bDelete _ | .bRmdir _
  | .xRename _ | .xRead _ | .xDelete | .xRmdir => true
  | _ => false

/-- pcs after a decision to break was taken -/
def Pc.decided : Pc → Bool
  | .bPeek _ _ | .bRename _ _ | .bRead _ _ | .bDelete _ | .bRmdir _
  | .xRename _ | .xRead _ | .xDelete | .xRmdir => true
  | _ => false

def Pc.corruptBreak : Pc → Bool
  | .xRename _ | .xRead _ | .xDelete | .xRmdir => true
  | _ => false

/-- pcs at which `_lock_held` must be true (they are entered only through the
`if not self._lock_held` guards of `unlock` / `confirm`) -/
def Pc.needsHeld : Pc → Bool
  | .uConfirm | .uRename | .cPeek => true
  | _ => false

/-- pcs at which the pending directory exists and carries our info -/
def Pc.hasPend : Pc → Bool
  | .aRename | .aPeekC => true
  | .bPeek _ r | .bRename _ r | .bRead _ r | .bDelete r | .bRmdir r => r
  | _ => false

/-- the lock whose info this `force_break` examined and is about to rename away -/
def Pc.expects : Pc → Option Nonce
  | .bPeek x _ | .bRename x _ => some x
  | _ => none

/-- the lock a `force_break` called from `_handle_lock_contention` (a steal) is working on -/
def Pc.stealing : Pc → Option Nonce
  | .bPeek x true | .bRename x true | .bRead x true => some x
  | _ => none

/-- pcs of a break the *user* asked for: `break_lock`, its `force_break` (`ret = false`)
and `force_break_corrupt` -/
def Pc.userBreaky : Pc → Bool
  | .kPeek | .xRename _ | .xRead _ | .xDelete | .xRmdir => true
  | .bPeek _ r | .bRename _ r | .bRead _ r | .bDelete r | .bRmdir r => !r
  | _ => false

def okDir (x : Nonce) : Option Dir := some (some (.ok x))

section
variable (me : Locker) (k : Kind) (ret : Bool) (e : Res)
@[simp] theorem dropTmp_pc : (dropTmp me k).pc = me.pc := by unfold dropTmp; split <;> rfl
@[simp] theorem dropTmp_held : (dropTmp me k).held = me.held := by unfold dropTmp; split <;> rfl
@[simp] theorem dropTmp_pend : (dropTmp me k).pend = me.pend := by unfold dropTmp; split <;> rfl
@[simp] theorem dropTmp_nonce : (dropTmp me k).nonce = me.nonce := by unfold dropTmp; split <;> rfl
@[simp] theorem dropTmp_tmp : (dropTmp me k).tmp = none := by unfold dropTmp; split <;> simp_all
@[simp] theorem dropPend_pc : (dropPend me).pc = me.pc := by unfold dropPend; split <;> rfl
@[simp] theorem dropPend_held : (dropPend me).held = me.held := by unfold dropPend; split <;> rfl
@[simp] theorem dropPend_tmp : (dropPend me).tmp = me.tmp := by unfold dropPend; split <;> rfl
@[simp] theorem dropPend_nonce : (dropPend me).nonce = me.nonce := by unfold dropPend; split <;> rfl
@[simp] theorem dropPend_pend : (dropPend me).pend = none := by unfold dropPend; split <;> simp_all
@[simp] theorem done_pc : (me.done e).pc = .idle := rfl
@[simp] theorem done_held : (me.done e).held = me.held := rfl
@[simp] theorem done_pend : (me.done e).pend = me.pend := rfl
@[simp] theorem done_tmp : (me.done e).tmp = me.tmp := rfl
@[simp] theorem done_nonce : (me.done e).nonce = me.nonce := rfl
@[simp] theorem breakErr_pc : (breakErr me ret e).pc = if ret then .aCleanDel e else .idle := by
  unfold breakErr; split <;> simp_all
@[simp] theorem breakErr_held : (breakErr me ret e).held = me.held := by unfold breakErr; split <;> rfl
@[simp] theorem breakErr_pend : (breakErr me ret e).pend = me.pend := by unfold breakErr; split <;> rfl
@[simp] theorem breakErr_tmp : (breakErr me ret e).tmp = me.tmp := by unfold breakErr; split <;> rfl
@[simp] theorem breakErr_nonce : (breakErr me ret e).nonce = me.nonce := by unfold breakErr; split <;> rfl
end

macro "lstep_cases" : tactic =>
  `(tactic| (unfold lstep
             split <;> (try split) <;> (try split) <;> (try split) <;>
               (try simp_all [Locker.claims, okDir, Pc.breaky,
                  Pc.decided, Pc.corruptBreak, Pc.needsHeld, Pc.hasPend, Pc.expects, peekDir]) <;>
               (try split) <;>
               (try simp_all [Locker.claims, okDir, Pc.breaky,
                  Pc.decided, Pc.corruptBreak, Pc.needsHeld, Pc.hasPend, Pc.expects, peekDir]) <;>
               (try grind)))

theorem peekDir_ok {h : Option Dir} {x : Nonce} : peekDir h = .ok x ↔ h = okDir x := by
  unfold peekDir okDir
  split <;> simp_all

section
variable (id : Nat) (cfg : Nat → Cfg) (crashed : Nat → Bool) (me : Locker) (held : Option Dir)

/-- how a step can change `held/` -/
theorem lstep_held :
    (lstep id cfg crashed me held).2.1 = held ∨
    (me.pc = .aRename ∧ held = none ∧ (lstep id cfg crashed me held).2.1 = me.pend ∧
      (lstep id cfg crashed me held).1.pc = .aConfirm) ∨
    (me.pc = .uRename ∧ (lstep id cfg crashed me held).2.1 = none ∧
      (lstep id cfg crashed me held).1.held = false ∧ (lstep id cfg crashed me held).1.pc = .uDelete) ∨
    ((∃ x ret, me.pc = .bRename x ret) ∧ (lstep id cfg crashed me held).2.1 = none ∧
      (lstep id cfg crashed me held).1.held = me.held ∧ (lstep id cfg crashed me held).1.pc ≠ .aConfirm) ∨
    ((∃ t, me.pc = .xRename t) ∧ (lstep id cfg crashed me held).2.1 = none ∧
      (lstep id cfg crashed me held).1.held = me.held ∧ (lstep id cfg crashed me held).1.pc ≠ .aConfirm) := by
  lstep_cases

/-- `_lock_held` is true wherever `unlock` / `confirm` need it -/
theorem lstep_need (h : me.pc.needsHeld = true → me.held = true) :
    (lstep id cfg crashed me held).1.pc.needsHeld = true → (lstep id cfg crashed me held).1.held = true := by
  revert h; lstep_cases

/-- the pending directory carries our own info whenever it may be renamed into place -/
theorem lstep_pend (h : me.pc.hasPend = true → ∃ k, me.pend = okDir ⟨id, k⟩) :
    (lstep id cfg crashed me held).1.pc.hasPend = true →
      ∃ k, (lstep id cfg crashed me held).1.pend = okDir ⟨id, k⟩ := by
  revert h; lstep_cases

/-- a locker inside a break does not believe it holds the lock -/
theorem lstep_nothold (h : me.pc.breaky = true → me.held = false) :
    (lstep id cfg crashed me held).1.pc.breaky = true → (lstep id cfg crashed me held).1.held = false := by
  revert h; lstep_cases

/-- a claim is kept with `held/` untouched, or is new and then `held/` is our pending directory -/
theorem lstep_claims (h8 : me.pc.breaky = true → me.held = false) :
    (lstep id cfg crashed me held).1.claims = true →
      (me.claims = true ∧ (lstep id cfg crashed me held).2.1 = held) ∨
      (me.pc = .aRename ∧ held = none ∧ (lstep id cfg crashed me held).2.1 = me.pend) := by
  revert h8; lstep_cases

/-- break phases are entered only through `break_lock` or with `locks.steal_dead` -/
theorem lstep_breaky :
    (lstep id cfg crashed me held).1.pc.breaky = true → me.pc.breaky = true ∨ (cfg id).steal = true := by
  lstep_cases

theorem lstep_decided :
    (lstep id cfg crashed me held).1.pc.decided = true →
      me.pc.decided = true ∨ (lstep id cfg crashed me held).2.2.isSome = true := by
  lstep_cases

theorem lstep_corrupt :
    (lstep id cfg crashed me held).1.pc.corruptBreak = true →
      me.pc.corruptBreak = true ∨ (lstep id cfg crashed me held).2.2 = some none := by
  lstep_cases

/-- what a decision to break was based on -/
theorem lstep_decision (x : Nonce) :
    (lstep id cfg crashed me held).2.2 = some (some x) →
      held = okDir x ∧ (lstep id cfg crashed me held).2.1 = held ∧
      (me.pc = .kPeek ∨ (me.pc = .aPeekC ∧ stealable cfg crashed id x = true ∧ (cfg id).steal = true)) := by
  lstep_cases

/-- decisions to break are taken only by `break_lock` or with `locks.steal_dead` -/
theorem lstep_decision_src :
    (lstep id cfg crashed me held).2.2.isSome = true → me.pc = .kPeek ∨ (cfg id).steal = true := by
  lstep_cases

/-- a steal starts only against a holder that is known dead, with stealing enabled -/
theorem lstep_steal (x : Nonce) :
    (lstep id cfg crashed me held).1.pc = .bPeek x true →
      me.pc = .aPeekC ∧ held = okDir x ∧ stealable cfg crashed id x = true ∧ (cfg id).steal = true := by
  lstep_cases

/-- `force_break x` is about to look at / rename `held/`: either it decided on `x`
in this very step, or it already expected `x` and has not touched `held/` -/
theorem lstep_expects (x : Nonce) :
    (lstep id cfg crashed me held).1.pc.expects = some x →
      ((lstep id cfg crashed me held).2.2 = some (some x) ∧ held = okDir x ∧
        (lstep id cfg crashed me held).2.1 = held) ∨
      (me.pc.expects = some x ∧ (lstep id cfg crashed me held).2.2 = none ∧
        (lstep id cfg crashed me held).2.1 = held) := by
  lstep_cases

/-! #### steals (`force_break` from `_handle_lock_contention`) and user breaks -/

macro "lstep_cases'" : tactic =>
  `(tactic| (unfold lstep
             split <;> (try split) <;> (try split) <;> (try split) <;>
               (try simp_all [Locker.claims, okDir, Pc.breaky, Pc.stealing, Pc.userBreaky, breakErr_pc,
                  Pc.decided, Pc.corruptBreak, Pc.needsHeld, Pc.hasPend, Pc.expects, peekDir]) <;>
               (try split) <;>
               (try simp_all [Locker.claims, okDir, Pc.breaky, Pc.stealing, Pc.userBreaky, breakErr_pc,
                  Pc.decided, Pc.corruptBreak, Pc.needsHeld, Pc.hasPend, Pc.expects, peekDir]) <;>
               (try grind)))

/-- a steal of the lock `x` is either already in progress, or starts in this step from the
contention peek of an attempt that saw `x` in `held/` and found its holder known dead,
with `locks.steal_dead` on -/
theorem lstep_stealing (x : Nonce) :
    (lstep id cfg crashed me held).1.pc.stealing = some x →
      me.pc.stealing = some x ∨
      (me.pc = .aPeekC ∧ held = okDir x ∧ stealable cfg crashed id x = true ∧ (cfg id).steal = true) := by
  lstep_cases'

/-- a step never enters a user break: those start only with `break_lock` (`startOp`) -/
theorem lstep_userBreaky :
    (lstep id cfg crashed me held).1.pc.userBreaky = true → me.pc.userBreaky = true := by
  lstep_cases'

/-- a decision to break is taken by the user (`break_lock`'s peek) or is a steal of a lock
whose holder `is_lock_holder_known_dead` -/
theorem lstep_decision_kind (d : Option Nonce) :
    (lstep id cfg crashed me held).2.2 = some d →
      me.pc = .kPeek ∨ (∃ x, d = some x ∧ me.pc = .aPeekC ∧ stealable cfg crashed id x = true) := by
  lstep_cases'

end

/-! ### fault injection and operation start -/
section
variable (k : FaultKind) (me : Locker) (op : Op)

macro "lfault_cases" : tactic =>
  `(tactic| (unfold lfault
             split <;> (try simp_all [Locker.claims, okDir, Pc.breaky, Pc.decided, Pc.corruptBreak,
                 Pc.needsHeld, Pc.hasPend, Pc.expects, Pc.stealing, Pc.userBreaky]) <;> (try grind)))

theorem lfault_claims : (lfault k me).claims = true → me.claims = true := by lfault_cases
theorem lfault_held : (lfault k me).held = me.held := by lfault_cases
theorem lfault_breaky : (lfault k me).pc.breaky = false := by lfault_cases
theorem lfault_needs : (lfault k me).pc.needsHeld = false := by lfault_cases
theorem lfault_pend : (lfault k me).pc.hasPend = true → me.pc.hasPend = true ∧ (lfault k me).pend = me.pend := by
  lfault_cases
theorem lfault_stealing : (lfault k me).pc.stealing = none := by lfault_cases
theorem lfault_userBreaky : (lfault k me).pc.userBreaky = false := by lfault_cases
theorem lfault_idle : me.pc = .idle → lfault k me = me := by intro h; unfold lfault; simp [h]

theorem breaky_of_decided {p : Pc} : p.decided = true → p.breaky = true := by
  cases p <;> simp [Pc.decided, Pc.breaky]
theorem breaky_of_corrupt {p : Pc} : p.corruptBreak = true → p.breaky = true := by
  cases p <;> simp [Pc.corruptBreak, Pc.breaky]
theorem breaky_of_expects {p : Pc} {x : Nonce} : p.expects = some x → p.breaky = true := by
  cases p <;> simp [Pc.expects, Pc.breaky]

theorem start_claims (h : me.pc = .idle) : (startOp me op).claims = true → me.claims = true := by
  unfold startOp; cases op <;> cases hh : me.held <;> simp [Locker.claims, Locker.done, h, hh]
theorem start_held : (startOp me op).held = me.held := by
  unfold startOp; cases op <;> cases hh : me.held <;> simp [Locker.done, hh]
theorem start_needs : (startOp me op).pc.needsHeld = true → me.held = true := by
  unfold startOp; cases op <;> cases hh : me.held <;> simp [Locker.done, Pc.needsHeld]
theorem start_breaky : (startOp me op).pc.breaky = true → op = .brk ∧ me.held = false := by
  unfold startOp; cases op <;> cases hh : me.held <;> simp [Locker.done, Pc.breaky]
theorem start_decided : (startOp me op).pc.decided = false := by
  unfold startOp; cases op <;> cases hh : me.held <;> simp [Locker.done, Pc.decided]
theorem start_stealing : (startOp me op).pc.stealing = none := by
  unfold startOp; cases op <;> cases hh : me.held <;> simp [Locker.done, Pc.stealing]
theorem start_userBreaky : (startOp me op).pc.userBreaky = true → op = .brk := by
  unfold startOp; cases op <;> cases hh : me.held <;> simp [Locker.done, Pc.userBreaky]
theorem start_hasPend : (startOp me op).pc.hasPend = false := by
  unfold startOp; cases op <;> cases hh : me.held <;> simp [Locker.done, Pc.hasPend]
end

@[simp] theorem upd_same {α : Type} (f : Nat → α) (i : Nat) (a : α) : upd f i a i = a := by simp [upd]
theorem upd_other {α : Type} (f : Nat → α) {i j : Nat} (a : α) (h : j ≠ i) : upd f i a j = f j := by
  simp [upd, h]

end BreezyVerif.C26
