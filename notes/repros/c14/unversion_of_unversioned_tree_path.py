"""C14 family bzr-unversion-of-unversioned-tree-path.

unversion_file() of a tree path that is not versioned: InventoryTreeTransform._add_tree_children
asks self._tree.stored_kind(path) for every path in _removed_id, which raises NoSuchFile for an
unversioned path (the git variant of the same method catches it).  find_raw_conflicts(),
resolve_conflicts() and apply() all raise NoSuchFile.
Exit 1 = defect present, 0 = absent."""
import sys
from _boot import *
wt = make_tree("2a", [("c", "directory", "", True), ("c/a", "file", "x", False)])
tt = wt.transform()
try:
    tt.unversion_file(tt.trans_id_tree_path("c/a"))
    try:
        print("raw conflicts:", tt.find_raw_conflicts())
        resolve_conflicts(tt)
        tt.apply()
        print("applied:", listing(wt))
        sys.exit(0)
    except MalformedTransform as e:
        print("MalformedTransform (acceptable):", e.conflicts)
        sys.exit(0)
    except Exception as e:
        print("DEFECT: raised %s: %s" % (type(e).__name__, e))
        sys.exit(1)
finally:
    tt.finalize()
