import BreezyVerif.Model.C13
import BreezyVerif.Generated.C13
/-! C13 — T1 tie: the order of "update metadata" and "discard replaced content"
found in the current source of both `apply` methods is the one theorem
`metadata_agrees` needs. -/
namespace BreezyVerif.C13

theorem apply_order_bzr : applyOrderBzr = .metadataFirst := by decide
theorem apply_order_git : applyOrderGit = .metadataFirst := by decide

end BreezyVerif.C13
