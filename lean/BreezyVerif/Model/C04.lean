/-!
C04 / C05 — executable model of a pack repository directory and of the mutating
transport operations `breezy/bzr/pack_repo.py` performs on it.  Core Lean only.

What is modelled (the code that exists, read from `/repo` and observed through a
logging transport decorator on every check run):

* the directory `.bzr/repository`: the content of `pack-names` (a list of pack
  names), the files in `upload/`, `packs/`, `indices/`, `obsolete_packs/`
  (complete files and files that are open for writing = torn), the names lock;
* the transport operations: `open_write_stream` (`beginWrite`: the file exists,
  truncated / incomplete), closing the stream (`endWrite`), `move` (atomic
  rename that replaces the target), `delete`, the atomic `put_file` of
  `pack-names` (`putNames`), taking / releasing the names lock;
* `NewPack.finish` as observed: the indices are written **directly into
  `indices/`** in the order rix, iix, tix, six, (cix), then the pack stream in
  `upload/` is closed and the file is moved to `packs/NAME.pack`;
* `RepositoryPackCollection._save_pack_names` (lock, three-way merge
  `_diff_pack_names`, `put_file`, `_clear_obsolete_packs(preserve)`, unlock,
  `_obsolete_packs` for the packs not found in `obsolete_packs/` already);
* `_obsolete_packs`: per pack `move packs/N.pack`, then iix, six, tix, rix, (cix);
* `_commit_write_group` (finish, allocate, autopack or save), `_do_autopack` with
  the planner (`_max_pack_count`, `pack_distribution`,
  `plan_autopack_combinations`), `pack()` (`_try_pack_operations`,
  `_execute_pack_operations`, optional final `_clear_obsolete_packs()`).

Pack names and revision ids are natural numbers (the harness numbers the real
md5 names canonically); a pack's revision set is a function of its name.
-/
namespace BreezyVerif.C04

/-! ## Directory state -/

inductive Dir where
  | upload | packs | indices | obsolete
  deriving DecidableEq, Repr

inductive Ext where
  | pack | autopack | rix | iix | tix | six | cix
  deriving DecidableEq, Repr

structure File where
  dir : Dir
  stem : Nat
  ext : Ext
  deriving DecidableEq, Repr

structure Disk where
  /-- content of `pack-names` -/
  names : List Nat
  /-- complete files -/
  files : List File
  /-- files that exist but whose write stream has not been closed -/
  torn : List File
  /-- `lock/held` exists -/
  locked : Bool
  deriving DecidableEq, Repr

inductive Op where
  | beginWrite (f : File)
  | endWrite (f : File)
  | move (a b : File)
  | delete (f : File)
  | lock
  | unlock
  | putNames (ns : List Nat)
  deriving DecidableEq, Repr

def rm (l : List File) (f : File) : List File := l.filter (fun x => x ≠ f)

/-- one transport operation.  Operations whose precondition fails (closing a
stream that is not open, moving or deleting a missing file) leave the state
unchanged: for `_obsolete_packs` and `_clear_obsolete_packs` that is what the
real code does (the error is caught and logged); for the other call sites
`Enabled` below states the precondition and `*_enabled` theorems show it
holds. -/
def step (d : Disk) : Op → Disk
  | .beginWrite f => { d with files := rm d.files f, torn := f :: rm d.torn f }
  | .endWrite f => if f ∈ d.torn then { d with files := f :: d.files, torn := rm d.torn f } else d
  | .move a b =>
    if a ∈ d.files then { d with files := b :: rm (rm d.files a) b, torn := rm d.torn b }
    else if a ∈ d.torn then { d with files := rm d.files b, torn := b :: rm (rm d.torn a) b }
    else d
  | .delete f => { d with files := rm d.files f, torn := rm d.torn f }
  | .lock => { d with locked := true }
  | .unlock => { d with locked := false }
  | .putNames ns => { d with names := ns }

def run (d : Disk) (ops : List Op) : Disk := ops.foldl step d

/-- the precondition under which the real transport call does not raise -/
def Enabled (d : Disk) : Op → Bool
  | .beginWrite _ => true
  | .endWrite f => decide (f ∈ d.torn)
  | .move a _ => decide (a ∈ d.files) || decide (a ∈ d.torn)
  | .delete f => decide (f ∈ d.files) || decide (f ∈ d.torn)
  | .lock => !d.locked
  | .unlock => d.locked
  | .putNames _ => d.locked

/-- run, failing (`none`) at the first operation whose transport call would raise -/
def runE (d : Disk) : List Op → Option Disk
  | [] => some d
  | op :: rest => if Enabled d op then runE (step d op) rest else none

/-! ## Packs -/

/-- index suffixes in the order `NewPack.finish` writes them -/
def idxExts (chk : Bool) : List Ext := [.rix, .iix, .tix, .six] ++ (if chk then [.cix] else [])

/-- index suffixes in the order `_obsolete_packs` moves them -/
def obsExts (chk : Bool) : List Ext := [.iix, .six, .tix, .rix] ++ (if chk then [.cix] else [])

/-- the files that make pack `n` readable -/
def packFiles (chk : Bool) (n : Nat) : List File :=
  ⟨.packs, n, .pack⟩ :: (idxExts chk).map (fun e => ⟨.indices, n, e⟩)

/-- pack `n` has its `.pack` and all its indices in place, complete -/
def ready (chk : Bool) (d : Disk) (n : Nat) : Bool := (packFiles chk n).all (fun f => decide (f ∈ d.files))

/-- every pack listed in `pack-names` is complete -/
def complete (chk : Bool) (d : Disk) : Bool := d.names.all (ready chk d)

/-- the revisions a reader of this directory sees: union over listed packs -/
def visible (revsOf : Nat → List Nat) (d : Disk) : List Nat := d.names.flatMap revsOf

/-! ## Operation sequences of the real code -/

/-- `NewPack.finish()` for the pack whose stream is the upload file `tmp` -/
def finishOps (chk : Bool) (tmp : File) (name : Nat) : List Op :=
  (idxExts chk).flatMap (fun e => [Op.beginWrite ⟨.indices, name, e⟩, Op.endWrite ⟨.indices, name, e⟩])
  ++ [Op.endWrite tmp, Op.move tmp ⟨.packs, name, .pack⟩]

/-- creating a pack: `open_write_stream(upload/tmp)` … `finish()` -/
def newPackOps (chk : Bool) (tmp : File) (name : Nat) : List Op :=
  Op.beginWrite tmp :: finishOps chk tmp name

/-- `_obsolete_packs([n])` -/
def obsoleteOps (chk : Bool) (n : Nat) : List Op :=
  Op.move ⟨.packs, n, .pack⟩ ⟨.obsolete, n, .pack⟩
    :: (obsExts chk).map (fun e => Op.move ⟨.indices, n, e⟩ ⟨.obsolete, n, e⟩)

/-- the files `_clear_obsolete_packs(preserve)` deletes -/
def clearTargets (d : Disk) (preserve : List Nat) : List File :=
  (d.files ++ d.torn).filter (fun f => f.dir = .obsolete && !preserve.contains f.stem)

def clearOps (d : Disk) (preserve : List Nat) : List Op := (clearTargets d preserve).map Op.delete

/-- `found`: the names of the `.pack` files in `obsolete_packs/` -/
def alreadyObsolete (d : Disk) : List Nat :=
  ((d.files ++ d.torn).filter (fun f => f.dir = .obsolete && f.ext = .pack)).map (·.stem)

/-- a process' private view of the collection: `_names` and `_packs_at_load` -/
structure View where
  names : List Nat
  atLoad : List Nat
  deriving DecidableEq, Repr

/-- `_diff_pack_names`: `disk' = (disk \ (atLoad \ mine)) ∪ (mine \ atLoad)` -/
def mergeNames (disk atLoad mine : List Nat) : List Nat :=
  disk.filter (fun n => !(atLoad.contains n && !mine.contains n))
  ++ mine.filter (fun n => !atLoad.contains n && !disk.contains n)

/-- `_save_pack_names(clear_obsolete_packs, obsolete_packs)`; `obs = none` is the
plain call from `_commit_write_group`, `obs = some S` the call from
`_execute_pack_operations` (clear `obsolete_packs/` except `S`, then obsolete
`S`). -/
def saveOps (chk : Bool) (d : Disk) (v : View) (obs : Option (List Nat)) : List Op :=
  [Op.lock, Op.putNames (mergeNames d.names v.atLoad v.names)]
  ++ (match obs with
      | none => []
      | some s => clearOps d s)
  ++ [Op.unlock]
  ++ (match obs with
      | none => []
      | some s => (s.filter (fun n => !(alreadyObsolete d).contains n)).flatMap (obsoleteOps chk))

/-! ## The autopack planner (`_max_pack_count`, `pack_distribution`,
`plan_autopack_combinations`) -/

def digitSum : Nat → Nat → Nat
  | 0, _ => 0
  | fuel + 1, t => if t = 0 then 0 else t % 10 + digitSum fuel (t / 10)

def maxPackCount (total : Nat) : Nat := if total = 0 then 1 else digitSum total total

def distAux : Nat → Nat → Nat → List Nat
  | 0, _, _ => []
  | fuel + 1, t, size => if t = 0 then [] else List.replicate (t % 10) size ++ distAux fuel (t / 10) (size * 10)

def packDistribution (total : Nat) : List Nat :=
  if total = 0 then [0] else (distAux total total 1).reverse

/-- insertion into a list sorted by count, descending, stable -/
def insertDesc (p : Nat × Nat) : List (Nat × Nat) → List (Nat × Nat)
  | [] => [p]
  | q :: rest => if q.2 < p.2 then p :: q :: rest else q :: insertDesc p rest

def sortDesc (l : List (Nat × Nat)) : List (Nat × Nat) := l.foldl (fun acc p => insertDesc p acc) []

/-- the inner `while next_pack_rev_count > 0` loop: consume buckets; `none` is
the `IndexError` on an exhausted distribution -/
def consume : Nat → List Nat → Option (List Nat)
  | 0, dist => some dist
  | _ + 1, [] => none
  | cnt + 1, d0 :: rest =>
    if d0 ≤ cnt + 1 then consume (cnt + 1 - d0) rest else some ((d0 - (cnt + 1)) :: rest)

/-- the outer loop over the packs (sorted, largest first); `cur` is
`pack_operations[-1][0]`, `acc` the packs selected so far -/
def planLoop : List (Nat × Nat) → List Nat → Nat → List Nat → Option (List Nat)
  | [], _, _, acc => some acc
  | _ :: _, [], _, _ => none
  | (name, cnt) :: rest, d0 :: dist, cur, acc =>
    if d0 ≤ cnt then
      match consume cnt (d0 :: dist) with
      | none => none
      | some dist' => planLoop rest dist' cur acc
    else
      if d0 ≤ cur + cnt then planLoop rest dist 0 (acc ++ [name])
      else planLoop rest (d0 :: dist) (cur + cnt) (acc ++ [name])

inductive Plan where
  | noAutopack                 -- `_max_pack_count(total) >= total_packs`
  | combine (s : List Nat)     -- packs to combine (may be empty)
  | error                      -- IndexError / AssertionError
  deriving DecidableEq, Repr

/-- `_do_autopack` + `plan_autopack_combinations` on `(name, revision_count)`
pairs given in the order Python's sort leaves equal counts -/
def planAutopack (packs : List (Nat × Nat)) : Plan :=
  let total := (packs.map (·.2)).sum
  if packs.length ≤ maxPackCount total then .noAutopack
  else
    let existing := sortDesc (packs.filter (fun p => p.2 ≠ 0))
    let dist := packDistribution total
    if existing.length ≤ dist.length then .combine []
    else match planLoop existing dist 0 [] with
      | none => .error
      | some [_] => .error
      | some s => .combine s

/-! ## Whole operations -/

def upTmp (stem : Nat) (auto : Bool) : File := ⟨.upload, stem, if auto then .autopack else .pack⟩

/-- a write group that inserted data: new pack `new0` (upload name `tmp0`),
then `autopack()` with plan `plan` (the combined pack is `new1`, upload name
`tmp1`), else `_save_pack_names()`.  `Plan.error`: the planner raised after
`finish()` + `allocate()` — the exception leaves `_commit_write_group` before
`_save_pack_names` is reached, so only the new pack's files were written (the
harness asserts that this plan never occurs on the real code). -/
def commitOpsWith (chk : Bool) (d : Disk) (v : View) (plan : Plan) (tmp0 new0 tmp1 new1 : Nat) : List Op :=
  let pre := newPackOps chk (upTmp tmp0 false) new0
  let names1 := v.names ++ [new0]
  match plan with
  | .combine [] => pre ++ saveOps chk d ⟨names1, v.atLoad⟩ (some [])
  | .combine s =>
    pre ++ newPackOps chk (upTmp tmp1 true) new1
      ++ saveOps chk d ⟨names1.filter (fun n => !s.contains n) ++ [new1], v.atLoad⟩ (some s)
  | .error => pre
  | .noAutopack => pre ++ saveOps chk d ⟨names1, v.atLoad⟩ none

/-- `commit_write_group` with the plan computed by the real planner from the
revision counts; `counts` = `(name, revision_count)` of every pack of the
collection after `allocate(new0)` (so it contains `new0`), in the order in
which Python's sort processes equal counts -/
def commitOps (chk : Bool) (d : Disk) (v : View) (counts : List (Nat × Nat)) (tmp0 new0 tmp1 new1 : Nat) : List Op :=
  commitOpsWith chk d v (planAutopack counts) tmp0 new0 tmp1 new1

/-- `RepositoryPackCollection.pack(hint)`: the packs `s` selected by the hint
(`none` = all of `v.names`) are combined into `new1`; `optimal` = the packer
found the single old pack already optimally packed (same content hash) and
aborted (CHK packer only); `clean` = `clean_obsolete_packs`.
`_already_packed()` = `not (format.pack_compresses or len(names) > 1)` returns
before anything is done (`pack_compresses` is true exactly for the CHK format
2a, i.e. `chk`).  `optimal` also covers `KnitPacker`'s guard (fix 24f6bb3):
the repacked content hashes to a name that is already listed, the new pack is
aborted.  The branch "the new pack's name is already in the collection"
(`finish()` onto the listed pack, then `allocate` raises "Pack … already
exists" and nothing is saved) describes what a packer WITHOUT such a guard
does; the guards make it unreachable and the theorems exclude it by the
freshness hypothesis. -/
def packOpsSel (chk : Bool) (d : Disk) (v : View) (s : List Nat) (optimal clean : Bool)
    (tmp1 new1 : Nat) : List Op :=
  if !chk && v.names.length ≤ 1 then []
  else if !s.isEmpty && !optimal && v.names.contains new1 then newPackOps chk (upTmp tmp1 true) new1
  else
    let body :=
      if s.isEmpty then saveOps chk d v (some [])
      else if optimal then [Op.beginWrite (upTmp tmp1 true), Op.endWrite (upTmp tmp1 true), Op.delete (upTmp tmp1 true)]
      else newPackOps chk (upTmp tmp1 true) new1
        ++ saveOps chk d ⟨v.names.filter (fun n => !s.contains n) ++ [new1], v.atLoad⟩ (some s)
    body ++ (if clean then clearOps (run d body) [] else [])

/-- the packs `_try_pack_operations(hint)` selects -/
def hintSel (v : View) : Option (List Nat) → List Nat
  | none => v.names
  | some h => v.names.filter (fun n => h.contains n)

def packOps (chk : Bool) (d : Disk) (v : View) (hint : Option (List Nat)) (optimal clean : Bool)
    (tmp1 new1 : Nat) : List Op :=
  packOpsSel chk d v (hintSel v hint) optimal clean tmp1 new1

end BreezyVerif.C04
