import BreezyVerif.Lemmas.C51Plan2
import BreezyVerif.Lemmas.C51T
/-!
C51 — theorems.  All parent maps (any size, with ghosts), all onto / stop
revisions, all topological orders `topo_sort` may return, any `generate_revid`.

`g` is the revision graph, `order` the output of `topo_sort` on the todo set,
`Reach g [] [k] a` (Lemmas/C33) says `a` is `k` or an ancestor of `k`.
-/
namespace BreezyVerif.C51
open BreezyVerif.C33

/-- `anc` computes ancestry: `a ∈ anc g k` iff `a` is reachable from `k` by parent steps -/
theorem anc_spec (g : PMap) (k a : Key) : a ∈ anc g k ↔ Reach g [] [k] a := mem_anc g k a

/-! ### the plan rewrites exactly `order` (no skipping) -/

/-- `plan_domain`: with `skip_full_merged=False`, `start=None` and `stop` either
`None` or the last revision in topological order (the `rebase` command's case),
the plan has exactly one entry per revision of `order`, in that order. -/
theorem plan_domain (g : PMap) (gen : Key → Key) (todoS order : List Key) (stop : Option Key)
    (onto : Key) (plan : Plan) (hnd : order.Nodup)
    (hstop : ∀ s, stop = some s → order.getLast? = some s)
    (h : simplePlan g gen todoS order none stop onto false = .ok plan) :
    plan.map (·.old) = order := by
  obtain ⟨sk, hl⟩ := simplePlan_loop hnd hstop h
  have := (planLoop_domain g gen onto order ([], []) (plan, sk) hl).1
  simpa using this

/-- `plan_new_ids`: for ANY start / stop and BOTH settings of `skip_full_merged`,
every entry's new id is `generate_revid` of its old id and differs from it, and
its old id is a revision of `order` -/
theorem plan_new_ids (g : PMap) (gen : Key → Key) (todoS order : List Key) (start stop : Option Key)
    (onto : Key) (skip : Bool) (plan : Plan)
    (h : simplePlan g gen todoS order start stop onto skip = .ok plan) :
    ∀ e ∈ plan, e.new = gen e.old ∧ e.new ≠ e.old ∧ e.old ∈ order := by
  obtain ⟨_, _, i, j, _, _, _, _, sk, hl⟩ := simplePlan_slice h
  obtain ⟨added, ha, hsub, hadd⟩ := planLoop_adds g gen onto skip _ ([], []) (plan, sk) hl
  simp only [List.nil_append] at ha
  subst ha
  intro e he
  obtain ⟨h1, h2⟩ := hadd e he
  exact ⟨h1, by rw [h1]; exact h2,
    (hsub.trans (sublist_drop_take order i (j + 1 - i))).subset (List.mem_map.mpr ⟨e, he, rfl⟩)⟩

/-- `plan_ids_distinct`: the old ids of a plan are pairwise distinct and in the
order of `order`; if `generate_revid` is injective on `order`, the new ids are
pairwise distinct as well (any start / stop / skip) -/
theorem plan_ids_distinct (g : PMap) (gen : Key → Key) (todoS order : List Key) (start stop : Option Key)
    (onto : Key) (skip : Bool) (plan : Plan) (hnd : order.Nodup)
    (h : simplePlan g gen todoS order start stop onto skip = .ok plan) :
    (plan.map (·.old)).Sublist order ∧ (plan.map (·.old)).Nodup ∧
    ((∀ a ∈ order, ∀ b ∈ order, gen a = gen b → a = b) → (plan.map (·.new)).Nodup) := by
  have hids := plan_new_ids g gen todoS order start stop onto skip plan h
  obtain ⟨_, _, i, j, _, _, _, _, sk, hl⟩ := simplePlan_slice h
  obtain ⟨added, ha, hsub, _⟩ := planLoop_adds g gen onto skip _ ([], []) (plan, sk) hl
  simp only [List.nil_append] at ha
  subst ha
  have hs : (plan.map (·.old)).Sublist order := hsub.trans (sublist_drop_take order i (j + 1 - i))
  have hn : (plan.map (·.old)).Nodup := hs.nodup hnd
  refine ⟨hs, hn, fun hinj => ?_⟩
  have : plan.map (·.new) = (plan.map (·.old)).map gen := by
    rw [List.map_map]
    apply List.map_congr_left
    intro e he
    exact (hids e he).1
  rw [this]
  unfold List.Nodup at hn ⊢
  rw [List.pairwise_map]
  exact hn.imp_of_mem (fun ha hb hne hab => hne (hinj _ (hs.subset ha) _ (hs.subset hb) hab))

/-- `plan_domain_todo`: if `order` is a topological order of the present revisions of
`find_difference(tip, onto)[0]` and `stop` is `None` or the tip, the plan
rewrites exactly the revisions that are in the history of `tip` but not in the
history of `onto`.  (That the tip is the last revision of `order` is derived —
`tip_is_last` — not assumed.) -/
theorem plan_domain_todo (g : PMap) (gen : Key → Key) (todoS order : List Key) (stop : Option Key)
    (tip onto : Key) (plan : Plan) (hnd : order.Nodup)
    (hstop : stop = none ∨ stop = some tip)
    (hmem : ∀ k, k ∈ order ↔ (k ∈ todoSet g tip onto ∧ present g k = true))
    (htopo : topoFrom g order = true)
    (h : simplePlan g gen todoS order none stop onto false = .ok plan) (k : Key) :
    k ∈ plan.map (·.old) ↔
      (Reach g [] [tip] k ∧ ¬ Reach g [] [onto] k ∧ ∃ ps, parentsOf g k = some ps) := by
  rw [plan_domain g gen todoS order stop onto plan hnd (stop_is_last hnd hmem htopo hstop h) h, hmem]
  unfold todoSet
  simp only [List.mem_filter, decide_eq_true_eq, mem_anc, present_iff, and_assoc]

/-! ### every new parent is the new base, an earlier new id, or a ghost -/

/-- `plan_parents_closed`: for BOTH settings of `skip_full_merged`, with
`start=None`, `stop` = `None` or the tip, and `order` a topological order of the
present revisions of `find_difference(tip, onto)[0]`: walking the plan in its
own order, every new parent is the new base `onto`, the new id of a revision
rewritten EARLIER, or a ghost parent of the old revision (which cannot be
rewritten; an id that merely is absent from the graph — such as the new id of a
LATER entry — does not qualify).  In particular no entry refers to a skipped
(fully merged) merge revision: its children are planned onto the parent that
stands in for it. -/
theorem plan_parents_closed (g : PMap) (gen : Key → Key) (todoS order : List Key)
    (stop : Option Key) (tip onto : Key) (skip : Bool) (plan : Plan) (hnd : order.Nodup)
    (hstop : stop = none ∨ stop = some tip)
    (hmem : ∀ k, k ∈ order ↔ (k ∈ todoSet g tip onto ∧ present g k = true))
    (htopo : topoFrom g order = true)
    (h : simplePlan g gen todoS order none stop onto skip = .ok plan) :
    PlanClosed g onto [] plan := by
  obtain ⟨sk, hl⟩ := simplePlan_loop hnd (stop_is_last hnd hmem htopo hstop h) h
  exact planLoop_closed g gen tip onto skip order (plan, sk) hmem htopo hl

/-! ### an explicit start revision -/

/-- `plan_range_domain`: for ANY start / stop (given or `None`), without
skipping, the plan has exactly one entry per revision of the slice of `order`
from the start revision to the stop revision (both inclusive), in that order. -/
theorem plan_range_domain (g : PMap) (gen : Key → Key) (todoS order : List Key) (start stop : Option Key)
    (onto : Key) (plan : Plan)
    (h : simplePlan g gen todoS order start stop onto false = .ok plan) :
    ∃ startK stopK i j, (start = some startK ∨ (start = none ∧ order.head? = some startK)) ∧
      (stop = some stopK ∨ (stop = none ∧ order.getLast? = some stopK)) ∧
      indexOf? order startK = some i ∧ indexOf? order stopK = some j ∧
      plan.map (·.old) = (order.drop i).take (j + 1 - i) := by
  obtain ⟨stopK, startK, i, j, hs, hst, hi, hj, sk, hl⟩ := simplePlan_slice h
  refine ⟨startK, stopK, i, j, ?_, hs, hi, hj, ?_⟩
  · rcases hst with h1 | ⟨h1, h2, _⟩
    · exact Or.inl h1
    · exact Or.inr ⟨h1, h2⟩
  · have := (planLoop_domain g gen onto _ ([], []) (plan, sk) hl).1
    simpa using this

/-- `plan_range_closed`: for ANY start / stop and BOTH settings of
`skip_full_merged`, if `order` is a topological order: walking the plan in its
own order, every new parent is the new base `onto`, the new id of a revision
rewritten earlier, or a parent of the old revision that lies OUTSIDE the range
asked for (and is not merged into `onto`) — references to revisions that are not
rewritten are preserved, nothing inside the range is referred to by its old id. -/
theorem plan_range_closed (g : PMap) (gen : Key → Key) (todoS order : List Key) (start stop : Option Key)
    (onto : Key) (skip : Bool) (plan : Plan) (htopo : topoFrom g order = true)
    (h : simplePlan g gen todoS order start stop onto skip = .ok plan) :
    ∃ i n, PlanClosedS g onto ((order.drop i).take n) [] plan ∧
      (plan.map (·.old)).Sublist ((order.drop i).take n) := by
  obtain ⟨_, _, i, j, _, _, _, _, sk, hl⟩ := simplePlan_slice h
  refine ⟨i, j + 1 - i, ?_, ?_⟩
  · exact planLoop_closedS g gen onto skip _ _ [] ([], []) (plan, sk) (by simp) (topoFrom_slice order i _ htopo)
      (fun k hk => by cases hk) (fun kv hkv => by cases hkv) trivial hl
  · obtain ⟨added, ha, hsub, _⟩ := planLoop_adds g gen onto skip _ ([], []) (plan, sk) hl
    simp only [List.nil_append] at ha
    subst ha
    exact hsub

/-! ### skipping fully merged merges (the command's default) -/

/-- `plan_skip_exact`: the command's case (`start=None`, `stop` = `None` or the
tip, `order` a topological order of the branch's own present revisions), BOTH
settings of `skip_full_merged`.  Take any revision `k` of `order` and let `st1`
be the loop state after the revisions before it.  Then `k` is LEFT OUT of the
plan if and only if skipping is on, `k` is a merge (at least two parents) and
its new parents computed at that point collapse to a single one; in that case
that single parent — which stands in for `k` in its children — is the new base
or the new id of an entry already planned (an earlier one).  So a merge with
two surviving parents is never skipped, and a non-merge never is. -/
theorem plan_skip_exact (g : PMap) (gen : Key → Key) (todoS order : List Key)
    (stop : Option Key) (tip onto : Key) (skip : Bool) (plan : Plan) (hnd : order.Nodup)
    (hstop : stop = none ∨ stop = some tip)
    (hmem : ∀ k, k ∈ order ↔ (k ∈ todoSet g tip onto ∧ present g k = true))
    (htopo : topoFrom g order = true)
    (h : simplePlan g gen todoS order none stop onto skip = .ok plan)
    (pre post : List Key) (k : Key) (hsplit : order = pre ++ k :: post) :
    ∃ st1 p0 rest later, planLoop g gen onto skip ([], []) pre = .ok st1 ∧ plan = st1.1 ++ later ∧
      parentsOf g k = some (p0 :: rest) ∧
      (k ∉ plan.map (·.old) ↔
        (skip = true ∧ rest ≠ [] ∧ (newParents g onto st1.1 st1.2 p0 rest).2 = [])) ∧
      (k ∉ plan.map (·.old) →
        (newParents g onto st1.1 st1.2 p0 rest).1 = onto ∨
        ∃ e ∈ st1.1, e.new = (newParents g onto st1.1 st1.2 p0 rest).1) := by
  obtain ⟨sk, hl⟩ := simplePlan_loop hnd (stop_is_last hnd hmem htopo hstop h) h
  rw [hsplit] at hl hnd
  obtain ⟨st1, hpre, hrest⟩ := planLoop_append g gen onto skip pre (k :: post) ([], []) (plan, sk) hl
  have hkpre : k ∉ pre := fun hm => (List.nodup_append.mp hnd).2.2 k hm k (by simp) rfl
  have hkpost : k ∉ post := (List.nodup_cons.mp (List.nodup_append.mp hnd).2.1).1
  obtain ⟨add1, ha1, hsub1, _⟩ := planLoop_adds g gen onto skip pre ([], []) st1 hpre
  simp only [List.nil_append] at ha1
  have hk1 : k ∉ st1.1.map (·.old) := fun hm => hkpre (by rw [ha1] at hm; exact hsub1.subset hm)
  have halias := planLoop_alias g gen onto skip pre ([], []) st1 (fun kv hkv => by cases hkv) hpre
  simp only [planLoop] at hrest
  split at hrest
  · cases hrest
  · rename_i st2 hstep
    obtain ⟨add2, ha2, hsub2, _⟩ := planLoop_adds g gen onto skip post st2 (plan, sk) hrest
    simp only at ha2
    have hsrc := (newParents_src g onto st1.1 st1.2 · ·)
    obtain ⟨p0, rest, hps, ⟨hst, hcond⟩ | ⟨hst, _, hcond⟩⟩ := planStep_exact hstep
    · -- left out
      subst hst
      simp only at ha2
      have hnot : k ∉ plan.map (·.old) := by
        rw [ha2]
        simp only [List.map_append, List.mem_append, not_or]
        exact ⟨hk1, fun hm => hkpost (hsub2.subset hm)⟩
      refine ⟨st1, p0, rest, add2, hpre, ha2, hps, ⟨fun _ => hcond, fun _ => hnot⟩, fun _ => ?_⟩
      rcases (hsrc p0 rest).1 with h1 | h1 | ⟨kv, hkv, h1⟩
      · exact Or.inl h1
      · exact Or.inr h1
      · rcases halias kv hkv with h2 | h2
        · exact Or.inl (h1 ▸ h2)
        · exact Or.inr (h1 ▸ h2)
    · -- rewritten
      subst hst
      simp only at ha2
      have hin : k ∈ plan.map (·.old) := by
        rw [ha2]
        simp
      refine ⟨st1, p0, rest, ⟨k, gen k, (newParents g onto st1.1 st1.2 p0 rest).1 ::
          (newParents g onto st1.1 st1.2 p0 rest).2⟩ :: add2, hpre, by rw [ha2]; simp, hps,
        ⟨fun hn => absurd hin hn, fun hc => absurd hc hcond⟩, fun hn => absurd hin hn⟩

/-- F12 graph: `1 ← 2 ← 3 (onto)`, `1 ← 4 ← 5 = merge(4, 2) ← 6`;
`order = [4, 5, 6]` -/
def f12G : PMap := [(0, []), (1, [0]), (2, [1]), (3, [2]), (4, [1]), (5, [4, 2]), (6, [5])]

/-- `plan_skip_fixed` (the former counter-example DESIGN §7-F12, fixed in /repo by
eb8d299): with `skip_full_merged=True` the merge `5` is skipped and its child `6`
is now planned onto `104`, the NEW id of `4` that stands in for the skipped merge
— a revision rewritten earlier, not the old merge revision `5`.  With `False`
the merge is rewritten and `6` follows it.  The hypotheses of
`plan_parents_closed` hold on this input. -/
theorem plan_skip_fixed :
    (simplePlan f12G (· + 100) [4, 5, 6] [4, 5, 6] none (some 6) 3 true).toOption =
        some [⟨4, 104, [3]⟩, ⟨6, 106, [104]⟩] ∧
      (simplePlan f12G (· + 100) [4, 5, 6] [4, 5, 6] none (some 6) 3 false).toOption =
        some [⟨4, 104, [3]⟩, ⟨5, 105, [104]⟩, ⟨6, 106, [105]⟩] ∧
      (planLoop f12G (· + 100) 3 true ([], []) [4, 5, 6]).toOption =
        some ([⟨4, 104, [3]⟩, ⟨6, 106, [104]⟩], [(5, 104)]) ∧
      (∀ k, k ∈ [4, 5, 6] ↔ (k ∈ todoSet f12G 6 3 ∧ present f12G k = true)) ∧
      topoFrom f12G [4, 5, 6] = true := by
  refine ⟨by decide, by decide, by decide, ?_, by decide⟩
  intro k
  have h : todoSet f12G 6 3 = [6, 5, 4] := by decide
  rw [h]
  constructor
  · intro hk
    simp only [List.mem_cons, List.not_mem_nil, or_false] at hk
    rcases hk with rfl | rfl | rfl <;> decide
  · rintro ⟨hk, _⟩
    simp only [List.mem_cons, List.not_mem_nil, or_false] at hk ⊢
    rcases hk with rfl | rfl | rfl <;> simp

/-! ### the plan file -/

/-- `marshal_roundtrip`: `unmarshall_rebase_plan(marshall_rebase_plan(info, plan))
== (info, plan)` for every revno, every revid without newline, and every plan
(any number of entries and parents) whose ids contain no space / newline and
whose old ids are distinct (a dict). -/
theorem marshal_roundtrip (p : WPlan) (hrev : NL ∉ p.revid)
    (hids : ∀ e ∈ p.entries, (SP ∉ e.old ∧ NL ∉ e.old) ∧ (SP ∉ e.new ∧ NL ∉ e.new) ∧
      ∀ q ∈ e.parents, SP ∉ q ∧ NL ∉ q)
    (hnd : (p.entries.map (·.old)).Nodup) :
    unmarshal (marshal p) = .ok p := by
  have hhdr : NL ∉ header := by decide
  have hl1 : NL ∉ toDec p.revno ++ SP :: p.revid := by
    intro h
    rcases List.mem_append.mp h with h | h
    · exact nl_not_mem_toDec _ h
    · rcases List.mem_cons.mp h with h | h
      · simp [NL, SP] at h
      · exact hrev h
  have hlines : ∀ e ∈ p.entries, NL ∉ entryLine e := fun e he =>
    nl_not_mem_entryLine e (hids e he).1.2 (hids e he).2.1.2 (fun q hq => ((hids e he).2.2 q hq).2)
  unfold unmarshal marshal
  have hshape : header ++ [NL] ++ (toDec p.revno ++ SP :: p.revid ++ [NL]) ++
      p.entries.flatMap (fun e => entryLine e ++ [NL]) =
      header ++ NL :: ((toDec p.revno ++ SP :: p.revid) ++ NL ::
        p.entries.flatMap (fun e => entryLine e ++ [NL])) := by
    simp [List.append_assoc]
  rw [hshape, split_append_sep hhdr, split_append_sep hl1, split_body p.entries hlines]
  simp only [ne_eq, not_true_eq_false, if_false]
  rw [split1_append_sep (sp_not_mem_toDec _)]
  simp only [parseDec_toDec]
  rw [parseLines_entries p.entries []
    (fun e he => ⟨(hids e he).1.1, (hids e he).2.1.1, fun q hq => ((hids e he).2.2 q hq).1⟩)
    (by simpa using hnd)]
  simp

/-! ### `rebase_todo` -/

/-- `todo_is_unrewritten`: `rebase_todo` lists exactly the old ids whose new
revision is not yet in the repository -/
theorem todo_is_unrewritten (revs : List Key) (plan : Plan) (k : Key) :
    k ∈ rebaseTodo revs plan ↔ ∃ e ∈ plan, e.old = k ∧ e.new ∉ revs := by
  unfold rebaseTodo
  simp only [List.mem_map, List.mem_filter, decide_eq_true_eq]
  constructor
  · rintro ⟨e, ⟨he, hn⟩, hk⟩; exact ⟨e, he, hk, hn⟩
  · rintro ⟨e, he, hk, hn⟩; exact ⟨e, ⟨he, hn⟩, hk⟩

/-! ### `generate_transpose_plan` -/

/-- PARTIAL: only the last step of `generate_transpose_plan` is proved here —
the renamed revisions themselves never appear in the returned plan.  That every
descendant is rewritten with substituted parents is covered by the
correspondence run and the oracle, not by a theorem (the worklist loop is
modelled with fuel). -/
theorem transpose_excludes_renames_partial (ancestry : List (Key × Option (List Key)))
    (renames : List (Key × Key)) (g : PMap) (gen : Key → Key) (fuel : Nat) (plan : Plan)
    (h : transposePlan ancestry renames g gen fuel = .ok plan) :
    ∀ e ∈ plan, e.old ∉ renames.map (·.1) := by
  unfold transposePlan at h
  simp only at h
  split at h
  · cases h
  · split at h
    · cases h
    · cases h
      intro e he hm
      simp only [List.mem_filter, Bool.not_eq_true', List.any_eq_false, beq_iff_eq] at he
      obtain ⟨rv, hrv, heq⟩ := List.mem_map.mp hm
      exact he.2 rv hrv heq

/-- `transpose_no_stale_parent`: for every ancestry (any size, ghosts, merges reached several times through
different rewritten parents), every set of renames with distinct keys and every `generate_revid`, provided the
replacement ids (rename targets, generated ids) are fresh — not revisions of the ancestry, not renamed revisions —
and whatever the fuel: in the plan `generate_transpose_plan` returns, a rewritten revision never keeps as a parent
an OLD revision that is itself replaced (renamed, or rewritten by this plan) unless that revision's replacement
`nw` (its rename target, else its generated id) is among the parents as well.  With parents that are listed once
this says: every replaced parent has been substituted.  (Worklist invariant `TInv`, Lemmas/C51T.) -/
theorem transpose_no_stale_parent (ancestry : List (Key × Option (List Key))) (renames : List (Key × Key))
    (g : PMap) (gen : Key → Key) (fuel : Nat) (plan : Plan)
    (hk : (rks renames).Nodup)
    (hfresh : ∀ k, nw renames gen k ∉ tNodes ancestry renames)
    (h : transposePlan ancestry renames g gen fuel = .ok plan) :
    ∀ e ∈ plan, ∀ p ∈ e.parents, (p ∈ rks renames ∨ p ∈ plan.map (·.old)) → nw renames gen p ∈ e.parents := by
  unfold transposePlan at h
  simp only at h
  split at h
  · cases h
  · rename_i rm0 hinit
    split at h
    · cases h
    · rename_i rm hloop
      simp only [Except.ok.injEq] at h
      subst h
      obtain ⟨hi1, hi2⟩ := tInit_spec (tParents ancestry g (renames.map (·.2))) renames [] rm0 hinit
      -- rename targets are fresh
      have htargets : ∀ c ∈ tNodes ancestry renames, c ∉ renames.map (·.2) := by
        intro c hc hm
        obtain ⟨rv, hrv, hcv⟩ := List.mem_map.mp hm
        have := hfresh rv.1
        rw [nw_rk hk hrv, hcv] at this
        exact this hc
      have hcons : ∀ c ∈ tNodes ancestry renames, ∀ ps, tParents ancestry g (renames.map (·.2)) c = some ps → ∀ q ∈ ps,
          ∃ cs, childrenIn ancestry q = some cs ∧ c ∈ cs :=
        fun c hc ps hps q hq => tParents_children (htargets c hc) hps hq
      have hinv0 : TInv ancestry (tParents ancestry g (renames.map (·.2))) gen renames [] [] rm0 (renames.map (·.1)) := by
        have hrv : ∀ e ∈ rm0, ∃ rv ∈ renames, e.old = rv.1 ∧ e.new = rv.2 := by
          intro e he
          rcases hi1 e he with h1 | h1
          · cases h1
          · exact h1
        refine ⟨?_, ?_, ?_, ?_, ?_, ?_, ?_, ?_⟩
        · intro e he
          obtain ⟨rv, hrv', h1, h2⟩ := hrv e he
          rw [h1, h2, nw_rk hk hrv']
        · intro e he
          obtain ⟨rv, hrv', h1, _⟩ := hrv e he
          exact Or.inr (List.mem_map.mpr ⟨rv, hrv', h1.symm⟩)
        · intro e he hne
          obtain ⟨rv, hrv', h1, _⟩ := hrv e he
          exact absurd (List.mem_map.mpr ⟨rv, hrv', h1.symm⟩) hne
        · intro r hr; cases hr
        · intro r hr; cases hr
        · intro r hr
          unfold tNodes
          exact List.mem_append_right _ hr
        · intro e he hne
          obtain ⟨rv, hrv', h1, _⟩ := hrv e he
          exact absurd (List.mem_map.mpr ⟨rv, hrv', h1.symm⟩) hne
        · intro k hk'
          exact hi2 k (Or.inr hk')
      obtain ⟨Pf, hf⟩ := tLoop_inv ancestry _ gen renames hfresh hcons fuel rm0 _ [] rm hinv0 hloop
      intro e he p hp hrep
      simp only [List.mem_filter, Bool.not_eq_true', List.any_eq_false, beq_iff_eq] at he
      have hene : e.old ∉ rks renames := by
        intro hm
        obtain ⟨rv, hrv, h1⟩ := List.mem_map.mp hm
        exact he.2 rv hrv h1
      have hpin : p ∈ rm.map (·.old) := by
        rcases hrep with h1 | h1
        · exact hf.rk p h1
        · obtain ⟨e', he', h2⟩ := List.mem_map.mp h1
          exact List.mem_map.mpr ⟨e', (List.mem_filter.mp he').1, h2⟩
      obtain ⟨e', he', h2⟩ := List.mem_map.mp hpin
      have hpP : p ∈ Pf := by
        rcases hf.queued e' he' with h3 | h3
        · exact h2 ▸ h3
        · cases h3
      exact hf.closed e he.1 hene p hpP hp

/-- the triangle `4 = merge(1, 3)`, `3 ← 2 ← 1`, with `1` renamed to `9`: the merge is reached twice (through `1` and
through its rewritten second parent `3`) and ends with BOTH parents substituted; the hypotheses of
`transpose_no_stale_parent` hold on this input -/
theorem transpose_triangle_witness :
    (transposePlan [(4, some [1, 3]), (3, some [2]), (2, some [1]), (1, some [0]), (0, some [])] [(1, 9)] [(9, [0])]
        (· + 100) 50).toOption = some [⟨4, 104, [9, 103]⟩, ⟨2, 102, [9]⟩, ⟨3, 103, [102]⟩] ∧
    (rks [(1, 9)]).Nodup ∧
    (tNodes [(4, some [1, 3]), (3, some [2]), (2, some [1]), (1, some [0]), (0, some [])] [(1, 9)]).all (· < 9) = true := by
  decide

/-! ### non-vacuity -/

/-- the freshness hypothesis of `transpose_no_stale_parent` on the triangle: nodes are below 9, replacement ids are 9 or ≥ 100 -/
example : ∀ k, nw [(1, 9)] (· + 100) k ∉
    tNodes [(4, some [1, 3]), (3, some [2]), (2, some [1]), (1, some [0]), (0, some [])] [(1, 9)] := by
  intro k hm
  have h9 : ∀ x ∈ tNodes [(4, some [1, 3]), (3, some [2]), (2, some [1]), (1, some [0]), (0, some [])] [(1, 9)], x < 9 := by
    decide
  have hlt := h9 _ hm
  unfold nw at hlt
  by_cases hk : k = 1
  · subst hk; simp at hlt
  · have : ((1 : Nat) == k) = false := by simpa using fun e : 1 = k => hk e.symm
    simp only [List.find?_cons, this, List.find?_nil] at hlt
    exact Nat.not_lt.mpr (Nat.le_trans (by decide : 9 ≤ 100) (Nat.le_add_left 100 k)) hlt


example : [4, 5, 6].Nodup ∧ (∀ s, some 6 = some s → [4, 5, 6].getLast? = some s) ∧
    ((some 6 : Option Key) = none ∨ some 6 = some 6) := by decide
/-- an explicit start revision: the merge `5` keeps its old left parent `4`, which lies outside the range `[5, 6]` -/
example : (simplePlan f12G (· + 100) [4, 5, 6] [4, 5, 6] (some 5) (some 6) 3 false).toOption =
    some [⟨5, 105, [3, 4]⟩, ⟨6, 106, [105]⟩] ∧ (4 ∉ ([4, 5, 6].drop 1).take 2) ∧ mergedInto f12G 4 3 = false := by decide
/-- `plan_skip_exact` on the F12 graph: at `5` (after `[4]`) the new parents collapse to `[104]`: left out, stand-in `104` -/
example : (planLoop f12G (· + 100) 3 true ([], []) [4]).toOption = some ([⟨4, 104, [3]⟩], []) ∧
    newParents f12G 3 [⟨4, 104, [3]⟩] [] 4 [2] = (104, []) ∧
    (∀ a ∈ [4, 5, 6], ∀ b ∈ [4, 5, 6], a + 100 = b + 100 → a = b) := by decide
example : todoSet f12G 6 3 = [6, 5, 4] ∧ topoFrom f12G [4, 5, 6] = true := by decide
example : rebaseTodo [104] [⟨4, 104, [3]⟩, ⟨5, 105, [104]⟩] = [5] := by decide
/-- a plan with two entries, 0–2 parents, revid containing a space -/
def exW : WPlan := ⟨12, [98, 32, 99], [⟨[97], [65], [[120], [121]]⟩, ⟨[98], [66], []⟩]⟩
example : NL ∉ exW.revid ∧ (exW.entries.map (·.old)).Nodup ∧
    (∀ e ∈ exW.entries, (SP ∉ e.old ∧ NL ∉ e.old) ∧ (SP ∉ e.new ∧ NL ∉ e.new) ∧
      ∀ q ∈ e.parents, SP ∉ q ∧ NL ∉ q) := by decide
example : (unmarshal (marshal exW)).toOption = some exW := by decide
example : (transposePlan [(3, some [2]), (2, some [1]), (1, some [0])] [(2, 9)] [(9, [1])] (· + 100) 50).toOption =
    some [⟨3, 103, [9]⟩] := by decide

end BreezyVerif.C51
