import BreezyVerif.Lemmas.C33
/-!
C33 — `_find_possible_heads` computes exactly the breadth-first levels of the
child graph: a declarative characterisation of the start candidates of the
limited recipe (`heads_char`).
-/
namespace BreezyVerif.C33

theorem childSteps_zero_iff {pm : PMap} {r h : Key} : ChildSteps pm 0 r h ↔ r = h := by
  constructor
  · intro hs; cases hs; rfl
  · rintro rfl; exact ChildSteps.zero

theorem childSteps_snoc {pm : PMap} {n : Nat} {t r c : Key} (hs : ChildSteps pm n t r)
    (hc : c ∈ childrenOf pm r) : ChildSteps pm (n + 1) t c := by
  induction hs with
  | zero => exact ChildSteps.succ hc ChildSteps.zero
  | succ hc' _ ih => exact ChildSteps.succ hc' (ih hc)

theorem childSteps_unsnoc {pm : PMap} : ∀ (n : Nat) (t c : Key), ChildSteps pm (n + 1) t c →
    ∃ r, ChildSteps pm n t r ∧ c ∈ childrenOf pm r := by
  intro n
  induction n with
  | zero =>
    intro t c hs
    cases hs with
    | succ hc hs' => cases hs'; exact ⟨t, ChildSteps.zero, hc⟩
  | succ n ih =>
    intro t c hs
    cases hs with
    | succ hc hs' =>
      obtain ⟨r, hr, hcr⟩ := ih _ _ hs'
      exact ⟨r, ChildSteps.succ hc hr, hcr⟩

/-- some tip reaches `k` in exactly `n` child steps of the cache -/
def PathN (pm : PMap) (tips : List Key) (n : Nat) (k : Key) : Prop :=
  ∃ t ∈ tips, ChildSteps pm n t k

/-- `k` lies at child distance exactly `n` from the tips (breadth-first level `n`) -/
def AtDist (pm : PMap) (tips : List Key) (n : Nat) (k : Key) : Prop :=
  PathN pm tips n k ∧ ∀ m, m < n → ¬ PathN pm tips m k

theorem atDist_zero {pm : PMap} {tips : List Key} {k : Key} : AtDist pm tips 0 k ↔ k ∈ tips := by
  unfold AtDist PathN
  constructor
  · rintro ⟨⟨t, ht, hs⟩, _⟩
    rw [childSteps_zero_iff.mp hs] at ht; exact ht
  · intro hk
    exact ⟨⟨k, hk, ChildSteps.zero⟩, fun m hm => by omega⟩

theorem atDist_pred {pm : PMap} {tips : List Key} {n : Nat} {c : Key} (h : AtDist pm tips (n + 1) c) :
    ∃ r, AtDist pm tips n r ∧ c ∈ childrenOf pm r := by
  obtain ⟨⟨t, ht, hs⟩, hmin⟩ := h
  obtain ⟨r, hr, hcr⟩ := childSteps_unsnoc n t c hs
  refine ⟨r, ⟨⟨t, ht, hr⟩, ?_⟩, hcr⟩
  rintro m hm ⟨t', ht', hs'⟩
  exact hmin (m + 1) (by omega) ⟨t', ht', childSteps_snoc hs' hcr⟩

theorem atDist_prefix {pm : PMap} {tips : List Key} : ∀ (j i : Nat) (k : Key), AtDist pm tips (i + j) k →
    ∃ r, AtDist pm tips i r := by
  intro j
  induction j with
  | zero => intro i k h; exact ⟨k, h⟩
  | succ j ih =>
    intro i k h
    obtain ⟨r, hr, _⟩ := atDist_pred (n := i + j) h
    exact ih i r hr

/-- one level of the loop: the unseen children of level `i` are level `i + 1` -/
theorem level_step {pm : PMap} {tips roots walked : List Key} {i : Nat}
    (hroots : ∀ k, k ∈ roots ↔ AtDist pm tips i k)
    (hwalked : ∀ k, k ∈ walked ↔ ∃ m, m ≤ i ∧ PathN pm tips m k) (c : Key) :
    c ∈ dedup ((roots.flatMap (childrenOf pm)).filter (· ∉ walked)) ↔ AtDist pm tips (i + 1) c := by
  rw [mem_dedup]
  simp only [List.mem_filter, List.mem_flatMap, decide_eq_true_eq]
  constructor
  · rintro ⟨⟨r, hr, hc⟩, hnw⟩
    obtain ⟨⟨t, ht, hs⟩, _⟩ := (hroots r).mp hr
    refine ⟨⟨t, ht, childSteps_snoc hs hc⟩, ?_⟩
    intro m hm hp
    exact hnw ((hwalked c).mpr ⟨m, by omega, hp⟩)
  · intro h
    obtain ⟨r, hr, hc⟩ := atDist_pred h
    refine ⟨⟨r, (hroots r).mpr hr, hc⟩, ?_⟩
    intro hw
    obtain ⟨m, hm, hp⟩ := (hwalked c).mp hw
    exact h.2 m (by omega) hp

theorem isEmpty_iff_nil {l : List Key} : l.isEmpty = true ↔ l = [] := by
  cases l <;> simp

/-- the loop of `_find_possible_heads`, started at level `i` with `d` steps left -/
theorem headsLoop_char (pm : PMap) (tips : List Key) : ∀ (d i : Nat) (heads roots walked : List Key),
    (∀ k, k ∈ roots ↔ AtDist pm tips i k) →
    (∀ k, k ∈ walked ↔ ∃ m, m ≤ i ∧ PathN pm tips m k) →
    ∀ h, h ∈ headsLoop pm d heads roots walked ↔
      h ∈ heads ∨ AtDist pm tips (i + d) h ∨
        ∃ n, i ≤ n ∧ n < i + d ∧ AtDist pm tips n h ∧ childrenOf pm h = [] := by
  intro d
  induction d with
  | zero =>
    intro i heads roots walked hroots _ h
    simp only [headsLoop, List.mem_append, hroots, Nat.add_zero]
    constructor
    · rintro (h1 | h1)
      · exact Or.inl h1
      · exact Or.inr (Or.inl h1)
    · rintro (h1 | h1 | ⟨n, h2, h3, _⟩)
      · exact Or.inl h1
      · exact Or.inr h1
      · omega
  | succ d ih =>
    intro i heads roots walked hroots hwalked h
    unfold headsLoop
    by_cases hre : roots.isEmpty = true
    · -- level i is empty: so is every later level
      simp only [hre, if_true]
      have hnil := isEmpty_iff_nil.mp hre
      have hnone : ∀ n k, i ≤ n → ¬ AtDist pm tips n k := by
        intro n k hn hk
        obtain ⟨j, rfl⟩ : ∃ j, n = i + j := ⟨n - i, by omega⟩
        obtain ⟨r, hr⟩ := atDist_prefix j i k hk
        have := (hroots r).mpr hr
        rw [hnil] at this; cases this
      constructor
      · exact Or.inl
      · rintro (h1 | h1 | ⟨n, h2, _, h4, _⟩)
        · exact h1
        · exact absurd h1 (hnone _ _ (by omega))
        · exact absurd h4 (hnone _ _ h2)
    · simp only [hre, Bool.false_eq_true, if_false]
      have hw' : ∀ k, k ∈ walked ++ dedup ((roots.flatMap (childrenOf pm)).filter (· ∉ walked)) ↔
          ∃ m, m ≤ i + 1 ∧ PathN pm tips m k := by
        intro k
        rw [List.mem_append, level_step hroots hwalked, hwalked]
        constructor
        · rintro (⟨m, hm, hp⟩ | hk)
          · exact ⟨m, by omega, hp⟩
          · exact ⟨i + 1, Nat.le_refl _, hk.1⟩
        · rintro ⟨m, hm, hp⟩
          by_cases hmi : m ≤ i
          · exact Or.inl ⟨m, hmi, hp⟩
          · have : m = i + 1 := by omega
            subst this
            by_cases hex : ∃ m', m' ≤ i ∧ PathN pm tips m' k
            · exact Or.inl hex
            · refine Or.inr ⟨hp, ?_⟩
              intro m' hm' hp'
              exact hex ⟨m', by omega, hp'⟩
      rw [ih (i + 1) _ _ _ (level_step hroots hwalked) hw' h]
      simp only [List.mem_append, List.mem_filter, hroots, isEmpty_iff_nil]
      have e1 : i + 1 + d = i + (d + 1) := by omega
      rw [e1]
      constructor
      · rintro ((h1 | ⟨h1, h2⟩) | h1 | ⟨n, h2, h3, h4, h5⟩)
        · exact Or.inl h1
        · exact Or.inr (Or.inr ⟨i, Nat.le_refl _, by omega, h1, h2⟩)
        · exact Or.inr (Or.inl h1)
        · exact Or.inr (Or.inr ⟨n, by omega, by omega, h4, h5⟩)
      · rintro (h1 | h1 | ⟨n, h2, h3, h4, h5⟩)
        · exact Or.inl (Or.inl h1)
        · exact Or.inr (Or.inl h1)
        · by_cases hni : n = i
          · subst hni; exact Or.inl (Or.inr ⟨h4, h5⟩)
          · exact Or.inr (Or.inr ⟨n, by omega, by omega, h4, h5⟩)

/-- the start candidates chosen by `_find_possible_heads(parent_map, tips, depth)` -/
def HeadSpec (pm : PMap) (tips : List Key) (depth : Nat) (h : Key) : Prop :=
  AtDist pm tips depth h ∨ ∃ n, n < depth ∧ AtDist pm tips n h ∧ childrenOf pm h = []

theorem findPossibleHeads_char (pm : PMap) (tips : List Key) (depth : Nat) (h : Key) :
    h ∈ findPossibleHeads pm tips depth ↔ HeadSpec pm tips depth h := by
  unfold findPossibleHeads HeadSpec
  rw [mem_dedup, headsLoop_char pm tips depth 0 [] (dedup tips) (dedup tips)
    (fun k => by rw [mem_dedup, atDist_zero])
    (fun k => by
      rw [mem_dedup]
      constructor
      · intro hk; exact ⟨0, Nat.le_refl _, k, hk, ChildSteps.zero⟩
      · rintro ⟨m, hm, t, ht, hs⟩
        have : m = 0 := by omega
        subst this
        rw [← childSteps_zero_iff.mp hs]; exact ht)]
  simp only [List.not_mem_nil, false_or, Nat.zero_add, Nat.zero_le, true_and]

end BreezyVerif.C33
