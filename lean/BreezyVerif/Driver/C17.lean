import BreezyVerif.Common
import BreezyVerif.Model.C17
/-
C17 driver.

  tree  = `-` | entry,entry,…     entry = <id>:<parent|~>:<name>:<kind f|d|l>:<content>:<exec T|F>   (all codes are naturals)
  ids   = `-` | n,n,…             (the finite id universe)

  merge <ids> <base> <this> <other>
      -> `<merged tree, ids ascending; content of a text-merged file printed as ?> <conflicts id:kind,… | -> <wf T|F>`
  wf <ids> <tree>  -> T|F
  change <changed T|F> <copied T|F> <pairs3> <parents3> <names3> <exec3> <thisAtCopy>
      one element of `_entries3`, every triple as `base/other/this`:
      pair = `~` | <kind f|d|l>.<content>; parent = `~` (no such entry) | `^` (entry without parent) | n;
      name = `~` | n; exec = `~` | T | F;
      thisAtCopy = `~` | <pair>;<parent ^|n>;<name>;<exec T|F>  (what THIS has, versioned, at the copy's own path)
      -> `<merged entry parent:name:kind:content:exec (parent `^` = none, content `?` after a text merge) | -> <conflicts kind,… | ->`
-/
namespace BreezyVerif.C17

def parseKind (s : String) : Option Kind :=
  match s with
  | "f" => some .file | "d" => some .dir | "l" => some .symlink | _ => none

def showKind : Kind → String
  | .file => "f" | .dir => "d" | .symlink => "l"

def parseEntry (s : String) : Option (Id × Entry) :=
  match s.splitOn ":" with
  | [i, p, n, k, c, x] => do
    let i ← i.toNat?
    let p ← optNat p
    let n ← n.toNat?
    let k ← parseKind k
    let c ← c.toNat?
    let x ← parseBool x
    pure (i, ⟨p, n, k, c, x⟩)
  | _ => none

def parseTree (s : String) : Option FTree := (splitList s).mapM parseEntry

def showEntry (i : Id) (e : Entry) (unknownContent : Bool) : String :=
  let c := if unknownContent then "?" else toString e.content
  s!"{i}:{showOptNat e.parent}:{e.name}:{showKind e.kind}:{c}:{showBool e.exec}"

def showCK : ConflictKind → String
  | .path => "path" | .contents => "contents" | .textMerge => "textmerge"

def sortNat (l : List Nat) : List Nat := l.mergeSort (fun a b => decide (a ≤ b))

def triple (s : String) : Option (String × String × String) :=
  match s.splitOn "/" with
  | [a, b, c] => some (a, b, c)
  | _ => none

def parseT3 {α : Type} (f : String → Option α) (s : String) : Option (T3 α) := do
  let (a, b, c) ← triple s
  pure ⟨← f a, ← f b, ← f c⟩

def parsePair (s : String) : Option (Option (Kind × Nat)) :=
  if s == "~" then some none else
  match s.splitOn "." with
  | [k, c] => do pure (some (← parseKind k, ← c.toNat?))
  | _ => none

def parseParent (s : String) : Option (Option (Option Id)) :=
  if s == "~" then some none else if s == "^" then some (some none) else s.toNat?.map fun n => some (some n)

def parseOptBool (s : String) : Option (Option Bool) :=
  if s == "~" then some none else (parseBool s).map some

def parseTC (s : String) : Option (Option ((Kind × Nat) × Option Id × Nat × Bool)) :=
  if s == "~" then some none else
  match s.splitOn ";" with
  | [pr, pa, nm, ex] => do
    let pr ← parsePair pr
    let pr ← pr
    let pa ← parseParent pa
    let pa ← pa
    pure (some (pr, pa, ← nm.toNat?, ← parseBool ex))
  | _ => none

def showResult (r : Result) : String :=
  let e := match r.entry with
    | none => "-"
    | some e =>
      let p := match e.parent with | none => "^" | some n => toString n
      let c := if r.conflicts.contains .textMerge then "?" else toString e.content
      s!"{p}:{e.name}:{showKind e.kind}:{c}:{showBool e.exec}"
  s!"{e} {joinList (r.conflicts.map showCK)}"

def handle : List String → String
  | ["change", ch, cp, pairs, parents, names, execs, tc] =>
    match parseBool ch, parseBool cp, parseT3 parsePair pairs, parseT3 parseParent parents,
          parseT3 optNat names, parseT3 parseOptBool execs, parseTC tc with
    | some ch, some cp, some pairs, some parents, some names, some execs, some tc =>
      showResult (mergeChange ⟨ch, pairs, parents, names, execs, cp, tc⟩)
    | _, _, _, _, _, _, _ => "bad-op"
  | ["merge", ids, b, t, o] =>
    match parseNatList ids, parseTree b, parseTree t, parseTree o with
    | some ids, some b, some t, some o =>
      let ids := sortNat ids
      let res := ids.map fun i => (i, mergeEntry (b.get i) (t.get i) (o.get i))
      let ents := res.filterMap fun (i, r) =>
        r.entry.map fun e => showEntry i e (r.conflicts.contains .textMerge)
      let confs := res.flatMap fun (i, r) => r.conflicts.map fun c => s!"{i}:{showCK c}"
      s!"{joinList ents} {joinList confs} {showBool (wf ids (merge3 b.get t.get o.get))}"
    | _, _, _, _ => "bad-op"
  | ["wf", ids, t] =>
    match parseNatList ids, parseTree t with
    | some ids, some t => showBool (wf ids t.get)
    | _, _ => "bad-op"
  | _ => "bad-op"

end BreezyVerif.C17

def main : IO Unit := BreezyVerif.runDriver BreezyVerif.C17.handle
