import BreezyVerif.Lemmas.C10Round
import BreezyVerif.Lemmas.C10Path
/-!
C10 — termination of the `_handle_precise_ids` loop when no target path is
occupied in the source by another id: the loop is then a plain walk up the
target's parent chains, one level per round.
-/
namespace BreezyVerif.C10

/-! ### what `wf` gives -/

theorem wf_parent {t : Tree} (hw : wf t = true) {i p : Id} {e : Entry} (hg : get t i = some e)
    (hp : e.parent = some p) : ∃ pe, get t p = some pe ∧ pe.node.kind = .dir := by
  unfold wf at hw
  simp only [Bool.and_eq_true] at hw
  obtain ⟨⟨⟨_, h3⟩, _⟩, _⟩ := hw
  rw [List.all_eq_true] at h3
  have := h3 _ (get_mem hg)
  simp only [hp] at this
  cases hq : get t p with
  | none => simp [hq] at this
  | some pe => exact ⟨pe, rfl, by simpa [hq] using this⟩

theorem wf_hasPath {t : Tree} (hw : wf t = true) {i : Id} {e : Entry} (hg : get t i = some e) :
    ∃ path, pathOf t i = some path := by
  unfold wf at hw
  simp only [Bool.and_eq_true] at hw
  obtain ⟨_, h5⟩ := hw
  rw [List.all_eq_true] at h5
  have := h5 _ (get_mem hg)
  exact Option.isSome_iff_exists.mp this

/-- the path of a child is the path of its parent plus its name -/
theorem pathOf_parent {t : Tree} {i p : Id} {e : Entry} {path : Path} (hg : get t i = some e)
    (hp : e.parent = some p) (hpath : pathOf t i = some path) :
    ∃ pp, pathOf t p = some pp ∧ path = pp ++ [e.name] := by
  obtain ⟨e', ge, c⟩ := pathFuel_cases hpath
  rw [hg] at ge
  cases ge
  rcases c with ⟨hnone, _⟩ | ⟨q, pp, hq, fq, hpp⟩
  · rw [hp] at hnone; cases hnone
  · rw [hp] at hq
    cases hq
    exact ⟨pp, pathFuel_le fq _ (by omega), hpp⟩

theorem change_tgt {src tgt : Tree} {i : Id} {r : Change} (h : change src tgt i = some r) :
    r.tgt = (get tgt i).map Entry.meta := by
  unfold change at h
  split at h
  · cases h
  · rename_i s hs ht; simp at h; subst h; simp [ht]
  · rename_i t hs ht; simp at h; subst h; simp [ht]
  · rename_i s t hs ht; simp at h; subst h; simp [ht]

theorem change_isSome_of_tgt {src tgt : Tree} {i : Id} {e : Entry} (h : get tgt i = some e) :
    ∃ r, change src tgt i = some r := by
  cases hc : change src tgt i with
  | some r => exact ⟨r, rfl⟩
  | none => rw [(change_none_iff.mp hc).2] at h; cases h

/-! ### the walk up -/

/-- `i` is a directory of the target less than `k` levels below the root -/
def Shallow (tgt : Tree) (k : Nat) (i : Id) : Prop :=
  ∃ e path, get tgt i = some e ∧ e.node.kind = .dir ∧ pathOf tgt i = some path ∧ path.length < k

theorem examine_shallow {src tgt : Tree} (hw : wf tgt = true) {k : Nat} (st : PState) (i : Id)
    (hi : Shallow tgt (k + 1) i) (hp : ∀ j ∈ st.precise, Shallow tgt k j) :
    ∀ j ∈ (examine src tgt st i).precise, Shallow tgt k j := by
  obtain ⟨e, path, ge, hdir, hpath, hlen⟩ := hi
  obtain ⟨r, hr⟩ := change_isSome_of_tgt (src := src) ge
  have htgt : r.tgt = some e.meta := by rw [change_tgt hr, ge]; rfl
  have hns : stoppedDir r = false := by
    unfold stoppedDir
    simp [htgt, Entry.meta, hdir]
  have hpar : ∀ j ∈ addParent st.precise r, Shallow tgt k j := by
    intro j hj
    rcases mem_addParent.mp hj with h | h
    · exact hp j h
    · have hpj : e.parent = some j := by simpa [htgt, Entry.meta] using h
      obtain ⟨pe, gpe, hpd⟩ := wf_parent hw ge hpj
      obtain ⟨pp, hpp, heq⟩ := pathOf_parent ge hpj hpath
      refine ⟨pe, pp, gpe, hpd, hpp, ?_⟩
      rw [heq] at hlen
      simp at hlen
      omega
  unfold examine
  simp only [hr]
  split
  · simpa [hns] using hpar
  · exact hpar

theorem examine_fold_shallow {src tgt : Tree} (hw : wf tgt = true) {k : Nat} (l : List Id) :
    ∀ (st : PState), (∀ i ∈ l, Shallow tgt (k + 1) i) → (∀ j ∈ st.precise, Shallow tgt k j) →
      ∀ j ∈ (l.foldl (examine src tgt) st).precise, Shallow tgt k j := by
  induction l with
  | nil => intro st _ hp; exact hp
  | cons x rest ih =>
    intro st hl hp
    exact ih _ (fun i hi => hl i (List.mem_cons_of_mem _ hi))
      (examine_shallow hw st x (hl x List.mem_cons_self) hp)

theorem occupants_sub_pending {src tgt : Tree} (hocc : noPathOccupant src tgt = true) (st : PState)
    (hp : ∀ j ∈ st.precise, ∃ e, get tgt j = some e) :
    ∀ o ∈ occupants src tgt st, o ∈ pending st := by
  intro o ho
  unfold occupants at ho
  rw [List.mem_filterMap] at ho
  obtain ⟨i, hi, hio⟩ := ho
  have hip : i ∈ st.precise := (List.mem_filter.mp hi).1
  obtain ⟨e, ge⟩ := hp i hip
  unfold noPathOccupant at hocc
  rw [List.all_eq_true] at hocc
  have := hocc i (mem_ids_of_get ge)
  rw [hio] at this
  simp only [beq_iff_eq] at this
  rw [this]; exact hi

/-- one round brings every needed id one level closer to the root -/
theorem round_shallow {src tgt : Tree} (hw : wf tgt = true) (hocc : noPathOccupant src tgt = true) {k : Nat}
    {st st' : PState} (hp : ∀ j ∈ st.precise, Shallow tgt (k + 1) j) (h : preciseRound src tgt st = some st') :
    ∀ j ∈ st'.precise, Shallow tgt k j := by
  unfold preciseRound at h
  split at h
  · cases h
  · cases h
    apply examine_fold_shallow hw
    · intro i hi
      rcases mem_unionNew.mp hi with h1 | h1
      · exact hp i (List.mem_filter.mp h1).1
      · have := occupants_sub_pending hocc st (fun j hj => by
          obtain ⟨e, _, ge, _⟩ := hp j hj; exact ⟨e, ge⟩) i h1
        exact hp i (List.mem_filter.mp this).1
    · intro j hj; cases hj

theorem preciseLoop_terminates_of_shallow {src tgt : Tree} (hw : wf tgt = true) (hocc : noPathOccupant src tgt = true) :
    ∀ (k : Nat) (st : PState), (∀ j ∈ st.precise, Shallow tgt k j) →
      ∀ n, k + 1 ≤ n → ∃ cs, preciseLoop src tgt n st = some cs := by
  intro k
  induction k with
  | zero =>
    intro st hp n hn
    obtain ⟨m, rfl⟩ : ∃ m, n = m + 1 := ⟨n - 1, by omega⟩
    have : st.precise = [] := by
      cases hs : st.precise with
      | nil => rfl
      | cons x _ =>
        obtain ⟨_, _, _, _, _, hl⟩ := hp x (by rw [hs]; exact List.mem_cons_self)
        omega
    have hr : preciseRound src tgt st = none := by
      unfold preciseRound pending
      simp [this]
    exact ⟨st.out, preciseLoop_done hr m⟩
  | succ k ih =>
    intro st hp n hn
    obtain ⟨m, rfl⟩ : ∃ m, n = m + 1 := ⟨n - 1, by omega⟩
    cases hr : preciseRound src tgt st with
    | none => exact ⟨st.out, preciseLoop_done hr m⟩
    | some st' =>
      rw [preciseLoop_step hr]
      exact ih st' (round_shallow hw hocc hp hr) m (by omega)

end BreezyVerif.C10
