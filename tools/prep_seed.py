#!/usr/bin/env python3
"""tools/prep_seed.py Cxx [suffix]: create scratch worktree /var/tmp/seed-Cxx[suffix] of /repo HEAD and the
prompt file /var/tmp/me/seed-Cxx[suffix].txt for a fresh seeding sub-agent (property text only)."""
import json, subprocess, sys
pid = sys.argv[1]; suf = sys.argv[2] if len(sys.argv) > 2 else ""
props = {json.loads(l)['id']: json.loads(l) for l in open('/verif/properties.jsonl')}
p = props[pid]
txt = json.dumps({k: p[k] for k in ("id", "title", "statement", "quantifier", "why_tests_cant", "anchors")}, indent=1)
wt = "/var/tmp/seed-%s%s" % (pid, suf)
subprocess.run(["git", "-C", "/repo", "worktree", "add", "--detach", "-f", wt, "HEAD"], capture_output=True)
subprocess.run("cp /repo/breezy/*.so %s/breezy/" % wt, shell=True)
open("/var/tmp/me/seed-%s%s.txt" % (pid, suf), "w").write(
    open('/verif/notes/seed-prompt2.txt' if suf else '/verif/notes/seed-prompt.txt').read().replace("{WT}", wt).replace("{PROP}", txt))
print(wt)
