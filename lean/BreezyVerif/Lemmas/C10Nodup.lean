import BreezyVerif.Lemmas.C10Filter
/-!
C10 — the loop with the `examined_file_ids` fix never emits an id twice.
-/
namespace BreezyVerif.C10

theorem filterMap_ids_nodup {f : Id → Option Change} (hf : ∀ i c, f i = some c → c.id = i) :
    ∀ (l : List Id), l.Nodup → ((l.filterMap f).map (·.id)).Nodup ∧ ∀ j ∈ (l.filterMap f).map (·.id), j ∈ l := by
  intro l
  induction l with
  | nil => intro _; simp
  | cons a rest ih =>
    intro h
    rw [List.nodup_cons] at h
    obtain ⟨i1, i2⟩ := ih h.2
    cases hfa : f a with
    | none =>
      simp only [List.filterMap_cons, hfa]
      exact ⟨i1, fun j hj => List.mem_cons_of_mem _ (i2 j hj)⟩
    | some c =>
      simp only [List.filterMap_cons, hfa, List.map_cons]
      have hca := hf a c hfa
      refine ⟨?_, ?_⟩
      · rw [List.nodup_cons]
        refine ⟨?_, i1⟩
        rw [hca]
        intro hm; exact h.1 (i2 a hm)
      · intro j hj
        rcases List.mem_cons.mp hj with h' | h'
        · rw [h', hca]; exact List.mem_cons_self
        · exact List.mem_cons_of_mem _ (i2 j h')

/-- the records emitted before the loop carry pairwise different ids -/
theorem base_ids_nodup {src tgt : Tree} (hs : (ids src).Nodup) (ht : (ids tgt).Nodup) (sel : List Id) (incl : Bool) :
    ((baseTgt src tgt sel incl ++ baseRemoved src tgt sel).map (·.id)).Nodup := by
  rw [List.map_append, List.nodup_append]
  refine ⟨?_, ?_, ?_⟩
  · unfold baseTgt
    refine (filterMap_ids_nodup ?_ _ (List.Pairwise.filter _ ht)).1
    intro i c hc
    cases hr : change src tgt i with
    | none => simp [hr] at hc
    | some r =>
      simp only [hr, Option.bind_some] at hc
      split at hc
      · cases hc; exact change_id hr
      · cases hc
  · unfold baseRemoved
    exact (filterMap_ids_nodup (fun i c hc => change_id hc) _ (List.Pairwise.filter _ hs)).1
  · intro a ha b hb hab
    subst hab
    rw [List.mem_map] at ha hb
    obtain ⟨c1, hc1, e1⟩ := ha
    obtain ⟨c2, hc2, e2⟩ := hb
    have h1 := (baseTgt_mem hc1).2.2.2
    have h2 := (baseRemoved_mem hc2).2.2.2.2
    rw [e1] at h1; rw [e2] at h2
    have := get_isSome_of_mem h1
    rw [h2] at this; cases this

theorem addParent_nodup {l : List Id} (h : l.Nodup) (r : Change) : (addParent l r).Nodup := by
  unfold addParent
  split
  · exact insertNew_nodup h _
  · exact h

theorem examine_precise_nodup (src tgt : Tree) (st : PState) (i : Id) (h : st.precise.Nodup) :
    (examine src tgt st i).precise.Nodup := by
  rcases examine_cases src tgt st i with ⟨_, he⟩ | ⟨r, _, _, he⟩ | ⟨r, _, _, he⟩
  · rw [he]; exact h
  · rw [he]; simp only
    split
    · exact unionNew_nodup (addParent_nodup h r) _
    · exact addParent_nodup h r
  · rw [he]; exact addParent_nodup h r

/-- one pass over pairwise different ids none of which was emitted before keeps the emitted ids
pairwise different -/
theorem fold_nodup (src tgt : Tree) (base : List Change) : ∀ (l : List Id) (st : PState), l.Nodup →
    (∀ i ∈ l, i ∉ st.changed) → ((base ++ st.out).map (·.id)).Nodup → (∀ c ∈ base ++ st.out, c.id ∈ st.changed) →
    st.precise.Nodup →
    ((base ++ (l.foldl (examine src tgt) st).out).map (·.id)).Nodup ∧
    (l.foldl (examine src tgt) st).precise.Nodup := by
  intro l
  induction l with
  | nil => intro st _ _ h _ hp; exact ⟨h, hp⟩
  | cons x rest ih =>
    intro st hl hnc hnd hin hp
    rw [List.nodup_cons] at hl
    have hxc : x ∉ st.changed := hnc x List.mem_cons_self
    have S := examine_spec src tgt st x
    simp only at S
    obtain ⟨s1, s2, _, s4, _, _, s7, _⟩ := S
    apply ih (examine src tgt st x) hl.2
    · intro i hi hic
      rcases s1 i hic with h | h
      · exact hnc i (List.mem_cons_of_mem _ hi) h
      · subst h; exact hl.1 hi
    · rcases examine_cases src tgt st x with ⟨_, he⟩ | ⟨r, hc, _, he⟩ | ⟨r, _, _, he⟩
      · rw [he]; exact hnd
      · rw [he]
        simp only
        rw [← List.append_assoc, List.map_append, List.nodup_append]
        refine ⟨hnd, by simp, ?_⟩
        intro a ha b hb hab
        simp only [List.map_cons, List.map_nil, List.mem_singleton] at hb
        subst hab
        rw [hb, change_id hc] at ha
        rw [List.mem_map] at ha
        obtain ⟨c, hcm, hcx⟩ := ha
        apply hxc
        rw [← hcx]; exact hin c hcm
      · rw [he]; exact hnd
    · intro c hc
      rcases List.mem_append.mp hc with h | h
      · exact s2 _ (hin c (List.mem_append.mpr (Or.inl h)))
      · rcases s7 c h with h' | ⟨h0, _, _, h3, _⟩
        · exact s2 _ (hin c (List.mem_append.mpr (Or.inr h')))
        · rw [h0]; exact h3
    · exact examine_precise_nodup src tgt st x hp

/-- **the fixed loop emits every id at most once** -/
theorem preciseLoopG_true_nodup (src tgt : Tree) (base : List Change) :
    ∀ (n : Nat) (st : PState) (ex : List Id) (out : List Change),
      ((base ++ st.out).map (·.id)).Nodup → (∀ c ∈ base ++ st.out, c.id ∈ st.changed) → st.precise.Nodup →
      preciseLoopG true src tgt n st ex = some out → ((base ++ out).map (·.id)).Nodup := by
  intro n
  induction n with
  | zero => intro st ex out _ _ _ h; simp [preciseLoopG] at h
  | succ n ih =>
    intro st ex out hnd hin hp h
    unfold preciseLoopG at h
    simp only at h
    by_cases hp1 : (st.precise.filter fun i => !st.changed.contains i && !(true && ex.contains i)).isEmpty = true
    · simp only [hp1, if_true, Option.some.injEq] at h
      subst h; exact hnd
    · simp only [hp1, Bool.false_eq_true, if_false] at h
      generalize hp1d : (st.precise.filter fun i => !st.changed.contains i && !(true && ex.contains i)) = p1 at h hp1
      generalize hcur : unionNew p1 ((p1.filterMap fun i => (pathOf tgt i).bind (idAt src)).filter
        fun o => !(true && (st.changed.contains o || ex.contains o))) = cur at h
      have hcurnd : cur.Nodup := by
        rw [← hcur]
        apply unionNew_nodup
        rw [← hp1d]
        exact List.Pairwise.filter _ hp
      have hcurnc : ∀ i ∈ cur, i ∉ st.changed := by
        intro i hi
        rw [← hcur] at hi
        rcases mem_unionNew.mp hi with h' | h'
        · rw [← hp1d, List.mem_filter] at h'
          have := h'.2
          simp only [Bool.and_eq_true, Bool.not_eq_true', List.contains_eq_mem, decide_eq_false_iff_not] at this
          exact this.1
        · rw [List.mem_filter] at h'
          have := h'.2
          simp only [Bool.true_and, Bool.not_eq_true', Bool.or_eq_false_iff, List.contains_eq_mem,
            decide_eq_false_iff_not] at this
          exact this.1
      have F := fold_nodup src tgt base cur { st with precise := [] } hcurnd hcurnc hnd hin (by simp)
      have F2 := fold_spec src tgt cur { st with precise := [] }
      simp only at F2
      obtain ⟨_, fb, _, _, _, _, fg, _⟩ := F2
      apply ih _ _ out F.1 _ F.2 h
      intro c hc
      rcases List.mem_append.mp hc with h' | h'
      · exact fb _ (hin c (List.mem_append.mpr (Or.inl h')))
      · rcases fg c h' with h'' | ⟨_, _, _, h3, _⟩
        · exact fb _ (hin c (List.mem_append.mpr (Or.inr h'')))
        · exact h3

end BreezyVerif.C10
