import BreezyVerif.Model.C47
/-! C47 helper lemmas: `takeLine`, `splitLines`, the two `chunks_to_lines` state machines. -/
namespace BreezyVerif.C47

theorem takeLine_concat (t : Bytes) : (takeLine t).1 ++ (takeLine t).2.1 = t := by
  induction t with
  | nil => simp [takeLine]
  | cons c cs ih => unfold takeLine; split <;> simp [ih]

theorem takeLine_not_found (t : Bytes) (h : (takeLine t).2.2 = false) :
    (takeLine t).1 = t ∧ (takeLine t).2.1 = [] ∧ nl ∉ t := by
  induction t with
  | nil => simp [takeLine]
  | cons c cs ih =>
    unfold takeLine at h ⊢
    split at h
    · simp at h
    · rename_i hc
      have := ih h
      simp only [if_neg hc]
      refine ⟨by rw [this.1], this.2.1, ?_⟩
      intro hm
      rcases List.mem_cons.mp hm with e | hm
      · exact hc e.symm
      · exact this.2.2 hm

theorem takeLine_found (t : Bytes) (h : (takeLine t).2.2 = true) :
    ∃ pre, (takeLine t).1 = pre ++ [nl] ∧ nl ∉ pre := by
  induction t with
  | nil => simp [takeLine] at h
  | cons c cs ih =>
    unfold takeLine at h ⊢
    split
    · rename_i hc; exact ⟨[], by simp [hc], by simp⟩
    · rename_i hc
      simp only [if_neg hc] at h
      obtain ⟨pre, h1, h2⟩ := ih h
      refine ⟨c :: pre, by simp [h1], ?_⟩
      intro hm
      rcases List.mem_cons.mp hm with e | hm
      · exact hc e.symm
      · exact h2 hm

theorem found_iff_mem (t : Bytes) : (takeLine t).2.2 = true ↔ nl ∈ t := by
  induction t with
  | nil => simp [takeLine]
  | cons c cs ih =>
    unfold takeLine
    split
    · rename_i hc; simp [hc]
    · rename_i hc
      simp only [ih, List.mem_cons]
      constructor
      · exact Or.inr
      · rintro (e | h)
        · exact absurd e.symm hc
        · exact h

theorem takeLine_append_found (a b : Bytes) (h : (takeLine a).2.2 = true) :
    takeLine (a ++ b) = ((takeLine a).1, (takeLine a).2.1 ++ b, true) := by
  induction a with
  | nil => simp [takeLine] at h
  | cons c cs ih =>
    rw [List.cons_append]
    unfold takeLine at h ⊢
    split
    · simp
    · rename_i hc
      simp only [if_neg hc] at h
      simp [ih h]

theorem splitLines_nil : splitLines [] = [] := by
  unfold splitLines; rfl

theorem splitLines_ne_nil (t : Bytes) (h : t ≠ []) :
    splitLines t = (takeLine t).1 :: splitLines (takeLine t).2.1 := by
  match t, h with
  | c :: cs, _ => rw [splitLines]

theorem splitLines_append_found (a b : Bytes) (h : (takeLine a).2.2 = true) :
    splitLines (a ++ b) = (takeLine a).1 :: splitLines ((takeLine a).2.1 ++ b) := by
  have hne : a ++ b ≠ [] := by
    cases a with
    | nil => simp [takeLine] at h
    | cons => simp
  rw [splitLines_ne_nil _ hne, takeLine_append_found a b h]

theorem wellFormed_iff (c : Bytes) :
    wellFormed c = true ↔ (takeLine c).2.2 = true ∧ (takeLine c).2.1 = [] := by
  unfold wellFormed
  cases c with
  | nil => simp [takeLine]
  | cons x xs => simp

theorem splitLines_append_wf (c b : Bytes) (h1 : (takeLine c).2.2 = true) (h2 : (takeLine c).2.1 = []) :
    splitLines (c ++ b) = c :: splitLines b := by
  rw [splitLines_append_found c b h1, h2]
  have := takeLine_concat c
  rw [h2, List.append_nil] at this
  rw [this, List.nil_append]

theorem splitLines_no_nl (t : Bytes) (hne : t ≠ []) (h : (takeLine t).2.2 = false) :
    splitLines t = [t] := by
  have := takeLine_not_found t h
  rw [splitLines_ne_nil t hne, this.1, this.2.1, splitLines_nil]

theorem splitLines_flatten (t : Bytes) : (splitLines t).flatten = t := by
  induction h : t.length using Nat.strongRecOn generalizing t with
  | _ n ih =>
    cases t with
    | nil => simp [splitLines_nil]
    | cons c cs =>
      rw [splitLines_ne_nil _ (by simp)]
      simp only [List.flatten_cons]
      have hlt : (takeLine (c :: cs)).2.1.length < n := by
        have := takeLine_rest_le cs
        subst h
        unfold takeLine
        split <;> simp <;> omega
      rw [ih _ hlt _ rfl, takeLine_concat]

/-- a complete line: exactly one newline, at the end -/
def IsLine (l : Bytes) : Prop := ∃ pre, l = pre ++ [nl] ∧ nl ∉ pre
/-- an unterminated last line: non-empty, no newline -/
def IsTail (l : Bytes) : Prop := l ≠ [] ∧ nl ∉ l

theorem splitLines_shape (t : Bytes) :
    ∃ ls tl, splitLines t = ls ++ tl ∧ (∀ l ∈ ls, IsLine l) ∧ (tl = [] ∨ ∃ x, tl = [x] ∧ IsTail x) := by
  induction h : t.length using Nat.strongRecOn generalizing t with
  | _ n ih =>
    cases t with
    | nil => exact ⟨[], [], by simp [splitLines_nil], by simp, Or.inl rfl⟩
    | cons c cs =>
      cases hf : (takeLine (c :: cs)).2.2 with
      | false =>
        refine ⟨[], [c :: cs], ?_, by simp, Or.inr ⟨c :: cs, rfl, by simp, ?_⟩⟩
        · simp [splitLines_no_nl (c :: cs) (by simp) hf]
        · exact (takeLine_not_found _ hf).2.2
      | true =>
        have hlt : (takeLine (c :: cs)).2.1.length < n := by
          have := takeLine_rest_le cs
          subst h
          unfold takeLine
          split <;> simp <;> omega
        obtain ⟨ls, tl, h1, h2, h3⟩ := ih _ hlt _ rfl
        refine ⟨(takeLine (c :: cs)).1 :: ls, tl, ?_, ?_, h3⟩
        · rw [splitLines_ne_nil _ (by simp), h1]; simp
        · intro l hl
          rcases List.mem_cons.mp hl with rfl | hl
          · exact takeLine_found _ hf
          · exact h2 l hl

theorem c2lCore_eq (tail : Bytes) (chunks : List Bytes) :
    c2lCore tail chunks = splitLines (tail ++ chunks.flatten) := by
  fun_induction c2lCore tail chunks with
  | case1 tail chunks hf ih =>
    rw [ih, splitLines_append_found tail _ hf]
  | case2 tail hf c cs hwf ih =>
    simp only [Bool.and_eq_true, List.isEmpty_iff] at hwf
    obtain ⟨ht, hw⟩ := hwf
    subst ht
    rw [ih]
    have := (wellFormed_iff c).mp hw
    simp only [List.nil_append, List.flatten_cons]
    rw [splitLines_append_wf c _ this.1 this.2]
  | case3 tail hf c cs hwf ih =>
    rw [ih]; simp
  | case4 tail hf he =>
    simp only [List.isEmpty_iff] at he
    subst he; simp [splitLines_nil]
  | case5 tail hf he =>
    simp only [List.isEmpty_iff] at he
    simp only [List.flatten_nil, List.append_nil]
    rw [splitLines_no_nl tail he (by simpa using hf)]

def pyTail : Option Bytes → Bytes
  | none => []
  | some t => t

theorem c2lPy_eq (tail : Option Bytes) (chunks : List Bytes) (hne : ∀ t, tail = some t → t ≠ []) :
    c2lPy tail chunks = splitLines (pyTail tail ++ chunks.flatten) := by
  fun_induction c2lPy tail chunks with
  | case1 chunks chunk hf he ih =>
    simp only [List.isEmpty_iff] at he
    rw [ih (by simp)]
    simp only [pyTail, List.nil_append]
    rw [splitLines_append_wf chunk _ hf he]
  | case2 chunks chunk hf he ih =>
    simp only [List.isEmpty_iff] at he
    rw [ih (by simpa using he)]
    simp only [pyTail]
    rw [splitLines_append_found chunk _ hf]
  | case3 chunk hf c cs he ih =>
    simp only [List.isEmpty_iff, List.append_eq_nil_iff] at he
    exact absurd he.1 (hne chunk rfl)
  | case4 chunk hf c cs he ih =>
    simp only [List.isEmpty_iff] at he
    rw [ih (by simpa using he)]
    simp [pyTail]
  | case5 chunk hf =>
    simp only [pyTail, List.flatten_nil, List.append_nil]
    rw [splitLines_no_nl chunk (hne chunk rfl) (by simpa using hf)]
  | case6 c cs hw ih =>
    simp only [Bool.and_eq_true, List.isEmpty_iff] at hw
    rw [ih (by simp)]
    simp only [pyTail, List.nil_append, List.flatten_cons]
    rw [splitLines_append_wf c _ hw.1 hw.2]
  | case7 c cs hw he ih =>
    simp only [List.isEmpty_iff] at he
    rw [ih (by simp)]
    simp [pyTail, he]
  | case8 c cs hw he ih =>
    simp only [List.isEmpty_iff] at he
    rw [ih (by simpa using he)]
    simp [pyTail]
  | case9 => simp [pyTail, splitLines_nil]

end BreezyVerif.C47
