"""C49 finding roundtrip-unicode-blank-at-end: a config value whose first or last
character is a Unicode blank other than space/tab (U+00A0, U+3000, U+001F, U+2003, ...)
loses that character in Stack.set -> save -> load -> Stack.get.
Run:  /venv/bin/python repro_c49_unicode_blank.py [/path/to/breezy/tree]   (exit 1 = defect present)"""
import sys
sys.path.insert(0, sys.argv[1] if len(sys.argv) > 1 else "/repo")
from breezy import config
from dromedary.memory import MemoryTransport

bad = 0
for value in ["a ", "　a", "x\x1f", " "]:
    t = MemoryTransport()
    store = config.TransportIniFileStore(t, "c.conf")
    config.Stack([store.get_sections], store, mutable_section_id=None).set("opt", value)
    store.save()
    store2 = config.TransportIniFileStore(t, "c.conf")
    got = config.Stack([store2.get_sections], store2).get("opt")
    print("set %r  file %r  read back %r  %s" % (value, t.get_bytes("c.conf"), got, "OK" if got == value else "DAMAGED"))
    bad += got != value
sys.exit(1 if bad else 0)
