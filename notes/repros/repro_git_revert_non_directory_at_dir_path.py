"""git working tree: an unversioned FILE sits where the basis has a DIRECTORY -> revert() leaves the
directory's contents versioned below `<name>.moved.new` and a non-empty status.

  mkdir d; echo x > d/f; add d/f; commit; rename_one d b; echo u > d (unversioned file); revert()

variant 2 (the object in the way is versioned): mkdir a; echo x > a/c; add; commit; rename_one a b; rename_one b/c a; revert()
 -> nothing but the root is versioned afterwards, the file ends up as `c` next to an empty `c.new`.

expected (and what a bzr tree does): d/f versioned again, the unversioned file moved to d.moved,
status empty.  Run: /venv/bin/python repro_git_revert_file_at_dir_path.py   (exit 1 = defect present)
"""
import os, sys, tempfile
REPO = os.environ.get("VERIF_REPO", "/repo")
sys.path.insert(0, REPO)
base = tempfile.mkdtemp(prefix="c09-repro-", dir="/var/tmp/imp-C09")
os.environ["HOME"] = base
os.environ["BRZ_HOME"] = base
os.environ["BRZ_EMAIL"] = "T <t@example.com>"
import breezy
breezy.initialize()
import breezy.bzr, breezy.git  # noqa
from breezy.controldir import ControlDir, format_registry

def run(fmt):
    d = tempfile.mkdtemp(prefix="wt-%s-" % fmt, dir=base)
    wt = ControlDir.create_standalone_workingtree(d, format=format_registry.make_controldir(fmt))
    os.mkdir(os.path.join(d, "d"))
    open(os.path.join(d, "d", "f"), "w").write("x")
    wt.add(["d", "d/f"] if fmt != "git" else ["d/f"])
    wt.commit("one")
    wt.rename_one("d", "b")
    open(os.path.join(d, "d"), "w").write("u")
    wt.revert(backups=False)
    with wt.lock_read():
        paths = sorted(wt.all_versioned_paths())
        changes = [c.path for c in wt.iter_changes(wt.basis_tree())]
    print(fmt, "versioned:", paths, "status:", changes)
    return paths == ["", "d", "d/f"] and not changes

def run2(fmt):
    """variant: the object at the directory's path is VERSIONED (the directory's own file renamed to its name)"""
    d = tempfile.mkdtemp(prefix="wt2-%s-" % fmt, dir=base)
    wt = ControlDir.create_standalone_workingtree(d, format=format_registry.make_controldir(fmt))
    os.mkdir(os.path.join(d, "a"))
    open(os.path.join(d, "a", "c"), "w").write("x")
    wt.add(["a", "a/c"] if fmt != "git" else ["a/c"])
    wt.commit("one")
    wt.rename_one("a", "b")
    wt.rename_one("b/c", "a")
    wt.revert(backups=False)
    with wt.lock_read():
        paths = sorted(wt.all_versioned_paths())
        changes = [c.path for c in wt.iter_changes(wt.basis_tree())]
    print(fmt, "variant 2 versioned:", paths, "status:", changes)
    return paths == ["", "a", "a/c"] and not changes

ok_bzr = run("2a") and run2("2a")
ok_git = run("git")
ok_git = run2("git") and ok_git
print("bzr ok" if ok_bzr else "bzr WRONG", "/", "git ok" if ok_git else "git WRONG")
sys.exit(0 if ok_bzr and ok_git else 1)
