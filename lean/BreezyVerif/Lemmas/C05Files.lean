import BreezyVerif.Lemmas.C05
/-!
C05 — the file invariant (`InvB`): every listed pack and every private
(finished, not yet saved) pack has its files in place; a pack is moved to
`obsolete_packs/` only when it is neither listed nor anybody's private pack.
Preserved by every phase of every process (given the data invariant `InvA`).
-/
namespace BreezyVerif.C05
open BreezyVerif.C04

structure InvB (s : Sys) : Prop where
  bound_comb : ∀ p, ∀ n ∈ (s.procs p).combined, n < s.next
  bound_obs : ∀ p, ∀ n ∈ (s.procs p).toObsolete, n < s.next
  /-- a listed pack is readable -/
  r1 : ∀ n ∈ s.disk.names, ready s.chk s.disk n = true
  /-- a finished pack that is not yet listed is readable -/
  r2 : ∀ p, ∀ n ∈ (s.procs p).names, n ∉ (s.procs p).atLoad → ready s.chk s.disk n = true
  /-- what is about to be obsoleted is not listed and nobody's private pack -/
  obs : ∀ p, ∀ n ∈ (s.procs p).toObsolete,
      n ∉ s.disk.names ∧ ∀ q, ¬(n ∈ (s.procs q).names ∧ n ∉ (s.procs q).atLoad)
  cn : ∀ p, ∀ n ∈ (s.procs p).combined, n ∉ (s.procs p).names
  cb : ∀ p, ∀ n ∈ (s.procs p).combined, n ∈ s.ever ∨ s.owner n = p
  cd : ∀ p, ∀ n ∈ (s.procs p).combined, n ∈ s.disk.names → n ∈ (s.procs p).atLoad

/-- readiness of one pack through a list of operations that are safe for it -/
theorem ready_run_safe (chk : Bool) (n : Nat) (ops : List Op) (d : Disk)
    (h : ∀ op ∈ ops, safeOp [n] op = true) (hr : ready chk d n = true) : ready chk (run d ops) n = true :=
  (run_safe chk [n] ops d h).2 n (by simp) hr

theorem ready_newPack_other (chk : Bool) (d : Disk) (t : Nat) (b : Bool) (m n : Nat) (hne : m ≠ n)
    (hr : ready chk d n = true) : ready chk (run d (newPackOps chk (upTmp t b) m)) n = true :=
  ready_run_safe chk n _ d
    (newPackOps_safe chk [n] (upTmp t b) m (by simp [upTmp]) (by simpa using hne)) hr

theorem ready_newPack_self (chk : Bool) (d : Disk) (t : Nat) (b : Bool) (m : Nat) :
    ready chk (run d (newPackOps chk (upTmp t b) m)) m = true :=
  finish_ready chk d (upTmp t b) m (by simp [upTmp])

/-- the save step (lock, put_file, clear, unlock) does not touch any pack's files -/
theorem ready_saveStep (chk : Bool) (d : Disk) (N : List Nat) (clear : Bool) (c : List Nat) (n : Nat)
    (hr : ready chk d n = true) :
    ready chk (run d ([Op.lock, Op.putNames N] ++ (if clear then clearOps d c else []) ++ [Op.unlock])) n = true := by
  have e : [Op.lock, Op.putNames N] ++ (if clear then clearOps d c else []) ++ [Op.unlock]
      = Op.lock :: Op.putNames N :: ((if clear then clearOps d c else []) ++ [Op.unlock]) := by
    simp
  rw [e, run_cons, run_cons]
  apply ready_run_safe
  · intro op hop
    rcases List.mem_append.mp hop with hop | hop
    · cases clear
      · cases hop
      · exact clearOps_safe [n] d c op hop
    · simp only [List.mem_singleton] at hop; subst hop; rfl
  · exact hr

theorem ready_obsolete (chk : Bool) (d : Disk) (l : List Nat) (n : Nat) (hn : n ∉ l)
    (hr : ready chk d n = true) : ready chk (run d (l.flatMap (obsoleteOps chk))) n = true := by
  apply ready_run_safe _ _ _ _ _ hr
  intro op hop
  obtain ⟨t, ht, hop⟩ := List.mem_flatMap.mp hop
  exact obsoleteOps_safe chk [n] t (by simp only [List.mem_singleton]; rintro rfl; exact hn ht) op hop

theorem ready_clear (chk : Bool) (d d0 : Disk) (c : List Nat) (n : Nat)
    (hr : ready chk d n = true) : ready chk (run d (clearOps d0 c)) n = true :=
  ready_run_safe chk n _ d (clearOps_safe [n] d0 c) hr

/-! ### reload -/

theorem invB_reload (s : Sys) (i : Nat) (_h : InvA s) (g : InvB s) : InvB (doReload s i) := by
  have eC : ∀ p, ((doReload s i).procs p).combined = (s.procs p).combined := by
    intro p; by_cases hp : p = i
    · subst hp; simp [doReload, reloadProc]
    · simp [doReload, upd_other _ _ hp]
  have eT : ∀ p, ((doReload s i).procs p).toObsolete = (s.procs p).toObsolete := by
    intro p; by_cases hp : p = i
    · subst hp; simp [doReload, reloadProc]
    · simp [doReload, upd_other _ _ hp]
  have privSub : ∀ q n, n ∈ ((doReload s i).procs q).names → n ∉ ((doReload s i).procs q).atLoad →
      n ∈ (s.procs q).names ∧ n ∉ (s.procs q).atLoad := by
    intro q n hn hna
    by_cases hq : q = i
    · subst hq
      simp only [doReload, upd_same] at hn hna
      exact reloadProc_private _ _ n hn hna
    · simp only [doReload, upd_other _ _ hq] at hn hna
      exact ⟨hn, hna⟩
  refine ⟨?_, ?_, g.r1, ?_, ?_, ?_, ?_, ?_⟩
  · intro p n hn; rw [eC] at hn; exact g.bound_comb p n hn
  · intro p n hn; rw [eT] at hn; exact g.bound_obs p n hn
  · intro p n hn hna
    have := privSub p n hn hna
    exact g.r2 p n this.1 this.2
  · intro p n hn
    rw [eT] at hn
    refine ⟨(g.obs p n hn).1, ?_⟩
    intro q hq
    exact (g.obs p n hn).2 q (privSub q n hq.1 hq.2)
  · intro p n hn
    rw [eC] at hn
    by_cases hp : p = i
    · subst hp
      simp only [doReload, upd_same, reloadProc_names]
      intro hm
      rcases mem_mergeNames.mp hm with ⟨hd, hnot⟩ | ⟨hm', _, _⟩
      · exact hnot ⟨g.cd p n hn hd, g.cn p n hn⟩
      · exact g.cn p n hn hm'
    · simp only [doReload, upd_other _ _ hp]
      exact g.cn p n hn
  · intro p n hn; rw [eC] at hn; exact g.cb p n hn
  · intro p n hn hd
    rw [eC] at hn
    by_cases hp : p = i
    · subst hp
      simp only [doReload, upd_same, reloadProc_atLoad]
      exact hd
    · simp only [doReload, upd_other _ _ hp]
      exact g.cd p n hn hd

/-! ### a new pack with a fresh name -/

theorem invB_newPack (s : Sys) (i : Nat) (h : InvA s) (g : InvB s) (d' : Disk)
    (hdn : d'.names = s.disk.names)
    (keepReady : ∀ n, n < s.next → ready s.chk s.disk n = true → ready s.chk d' n = true)
    (selfReady : ready s.chk d' (s.next + 1) = true)
    (keep sel : List Nat) (v : List Nat) (p' : Proc)
    (hnames : p'.names = keep ++ [s.next + 1]) (hat : p'.atLoad = (s.procs i).atLoad)
    (hcomb : p'.combined = (s.procs i).combined ++ sel) (hobs : p'.toObsolete = (s.procs i).toObsolete)
    (hkeep : ∀ n ∈ keep, n ∈ (s.procs i).names)
    (hsel : ∀ n ∈ sel, n ∈ (s.procs i).names ∧ n ∉ keep) :
    InvB { s with disk := d',
                  procs := upd s.procs i p', content := upd s.content (s.next + 1) v,
                  owner := upd s.owner (s.next + 1) i, next := s.next + 2 } := by
  have lt2 : ∀ {n}, n < s.next → n < s.next + 2 := fun hn => by omega
  refine ⟨?_, ?_, ?_, ?_, ?_, ?_, ?_, ?_⟩
  · intro p n hn
    by_cases hp : p = i
    · subst hp
      simp only [upd_same, hcomb, List.mem_append] at hn
      rcases hn with hn | hn
      · exact lt2 (g.bound_comb p n hn)
      · exact lt2 (h.bound_names p n (hsel n hn).1)
    · simp only [upd_other _ _ hp] at hn
      exact lt2 (g.bound_comb p n hn)
  · intro p n hn
    by_cases hp : p = i
    · subst hp
      simp only [upd_same, hobs] at hn
      exact lt2 (g.bound_obs p n hn)
    · simp only [upd_other _ _ hp] at hn
      exact lt2 (g.bound_obs p n hn)
  · intro n hn
    have hn' : n ∈ s.disk.names := by rw [← hdn]; exact hn
    exact keepReady n (h.bound_disk n hn') (g.r1 n hn')
  · intro p n hn hna
    by_cases hp : p = i
    · subst hp
      simp only [upd_same, hnames, hat, List.mem_append, List.mem_singleton] at hn hna
      rcases hn with hn | rfl
      · exact keepReady n (h.bound_names p n (hkeep n hn)) (g.r2 p n (hkeep n hn) hna)
      · exact selfReady
    · simp only [upd_other _ _ hp] at hn hna
      exact keepReady n (h.bound_names p n hn) (g.r2 p n hn hna)
  · intro p n hn
    have hnT : n ∈ (s.procs p).toObsolete := by
      by_cases hp : p = i
      · subst hp; simpa only [upd_same, hobs] using hn
      · simpa only [upd_other _ _ hp] using hn
    have hlt := g.bound_obs p n hnT
    refine ⟨fun hd => (g.obs p n hnT).1 (by rw [← hdn]; exact hd), ?_⟩
    intro q hq
    by_cases hqi : q = i
    · subst hqi
      simp only [upd_same, hnames, hat, List.mem_append, List.mem_singleton] at hq
      rcases hq.1 with hk | rfl
      · exact (g.obs p n hnT).2 q ⟨hkeep n hk, hq.2⟩
      · omega
    · simp only [upd_other _ _ hqi] at hq
      exact (g.obs p n hnT).2 q hq
  · intro p n hn
    by_cases hp : p = i
    · subst hp
      simp only [upd_same, hcomb, hnames, List.mem_append, List.mem_singleton, not_or] at hn ⊢
      rcases hn with hn | hn
      · refine ⟨fun hk => g.cn p n hn (hkeep n hk), ?_⟩
        have := g.bound_comb p n hn; omega
      · refine ⟨(hsel n hn).2, ?_⟩
        have := h.bound_names p n (hsel n hn).1; omega
    · simp only [upd_other _ _ hp] at hn ⊢
      exact g.cn p n hn
  · intro p n hn
    by_cases hp : p = i
    · subst hp
      simp only [upd_same, hcomb, List.mem_append] at hn
      rcases hn with hn | hn
      · rcases g.cb p n hn with h1 | h1
        · exact Or.inl h1
        · right
          show upd s.owner (s.next + 1) p n = p
          rw [owner_upd_lt s p (g.bound_comb p n hn)]; exact h1
      · by_cases ha : n ∈ (s.procs p).atLoad
        · exact Or.inl (h.al p n ha)
        · right
          show upd s.owner (s.next + 1) p n = p
          rw [owner_upd_lt s p (h.bound_names p n (hsel n hn).1)]
          exact (h.priv p n (hsel n hn).1 ha).1
    · simp only [upd_other _ _ hp] at hn
      rcases g.cb p n hn with h1 | h1
      · exact Or.inl h1
      · right
        show upd s.owner (s.next + 1) i n = p
        rw [owner_upd_lt s i (g.bound_comb p n hn)]; exact h1
  · intro p n hn hd
    have hd' : n ∈ s.disk.names := by rw [← hdn]; exact hd
    by_cases hp : p = i
    · subst hp
      simp only [upd_same, hcomb, hat, List.mem_append] at hn ⊢
      rcases hn with hn | hn
      · exact g.cd p n hn hd'
      · by_cases ha : n ∈ (s.procs p).atLoad
        · exact ha
        · exact absurd (h.ev n hd') (h.priv p n (hsel n hn).1 ha).2
    · simp only [upd_other _ _ hp] at hn ⊢
      exact g.cd p n hn hd'

/-! ### save -/

theorem invB_saveAux (s : Sys) (i : Nat) (h : InvA s) (g : InvB s) (d' : Disk) (M T' : List Nat)
    (committed' : List Nat)
    (hMdef : M = mergeNames s.disk.names (s.procs i).atLoad (s.procs i).names)
    (hdn : d'.names = M)
    (hready : ∀ n, ready s.chk s.disk n = true → ready s.chk d' n = true)
    (hT : ∀ n ∈ T', n ∈ (s.procs i).toObsolete ∨ n ∈ (s.procs i).combined) :
    InvB { s with disk := d', procs := upd s.procs i ⟨(s.procs i).loaded, M, M, [], T'⟩,
                  ever := s.ever ++ M, committed := committed' } := by
  have hM : ∀ n, n ∈ M → n ∈ s.disk.names ∨ (n ∈ (s.procs i).names ∧ n ∉ (s.procs i).atLoad) := by
    intro n hn
    rw [hMdef] at hn
    rcases mem_mergeNames.mp hn with ⟨h1, _⟩ | ⟨h1, h2, _⟩
    · exact Or.inl h1
    · exact Or.inr ⟨h1, h2⟩
  have noPriv : ∀ q n, (n ∈ (upd s.procs i ⟨(s.procs i).loaded, M, M, [], T'⟩ q).names ∧
      n ∉ (upd s.procs i ⟨(s.procs i).loaded, M, M, [], T'⟩ q).atLoad) →
      q ≠ i ∧ n ∈ (s.procs q).names ∧ n ∉ (s.procs q).atLoad := by
    intro q n hq
    by_cases hqi : q = i
    · subst hqi; simp only [upd_same] at hq; exact absurd hq.1 hq.2
    · simp only [upd_other _ _ hqi] at hq; exact ⟨hqi, hq⟩
  have combNotM : ∀ n ∈ (s.procs i).combined, n ∉ M := by
    intro n hn hm
    rw [hMdef] at hm
    rcases mem_mergeNames.mp hm with ⟨hd, hnot⟩ | ⟨hm', _, _⟩
    · exact hnot ⟨g.cd i n hn hd, g.cn i n hn⟩
    · exact g.cn i n hn hm'
  have oldNotM : ∀ p n, n ∈ (s.procs p).toObsolete → n ∉ M := by
    intro p n hT hm
    rcases hM n hm with h1 | h1
    · exact (g.obs p n hT).1 h1
    · exact (g.obs p n hT).2 i h1
  refine ⟨?_, ?_, ?_, ?_, ?_, ?_, ?_, ?_⟩
  · intro p n hn
    by_cases hp : p = i
    · subst hp; simp only [upd_same] at hn; cases hn
    · simp only [upd_other _ _ hp] at hn; exact g.bound_comb p n hn
  · intro p n hn
    by_cases hp : p = i
    · subst hp
      simp only [upd_same] at hn
      rcases hT n hn with hn | hn
      · exact g.bound_obs p n hn
      · exact g.bound_comb p n hn
    · simp only [upd_other _ _ hp] at hn; exact g.bound_obs p n hn
  · intro n hn
    have hn' : n ∈ M := by rw [← hdn]; exact hn
    apply hready
    rcases hM n hn' with h1 | ⟨h1, h2⟩
    · exact g.r1 n h1
    · exact g.r2 i n h1 h2
  · intro p n hn hna
    have := noPriv p n ⟨hn, hna⟩
    exact hready n (g.r2 p n this.2.1 this.2.2)
  · intro p n hn
    by_cases hp : p = i
    · subst hp
      simp only [upd_same] at hn
      rcases hT n hn with hn | hn
      · exact ⟨fun hd => oldNotM p n hn (by rw [← hdn]; exact hd),
          fun q hq => (g.obs p n hn).2 q (noPriv q n hq).2⟩
      · refine ⟨fun hd => combNotM n hn (by rw [← hdn]; exact hd), ?_⟩
        intro q hq
        obtain ⟨hqi, hqn, hqa⟩ := noPriv q n hq
        have hpr := h.priv q n hqn hqa
        rcases g.cb p n hn with h1 | h1
        · exact hpr.2 h1
        · exact hqi (hpr.1.symm.trans h1)
    · simp only [upd_other _ _ hp] at hn
      exact ⟨fun hd => oldNotM p n hn (by rw [← hdn]; exact hd),
        fun q hq => (g.obs p n hn).2 q (noPriv q n hq).2⟩
  · intro p n hn
    by_cases hp : p = i
    · subst hp; simp only [upd_same] at hn; cases hn
    · simp only [upd_other _ _ hp] at hn ⊢; exact g.cn p n hn
  · intro p n hn
    by_cases hp : p = i
    · subst hp; simp only [upd_same] at hn; cases hn
    · simp only [upd_other _ _ hp] at hn
      rcases g.cb p n hn with h1 | h1
      · exact Or.inl (List.mem_append_left _ h1)
      · exact Or.inr h1
  · intro p n hn hd
    have hd' : n ∈ M := by rw [← hdn]; exact hd
    by_cases hp : p = i
    · subst hp; simp only [upd_same] at hn; cases hn
    · simp only [upd_other _ _ hp] at hn ⊢
      rcases hM n hd' with h1 | ⟨h1, h2⟩
      · exact g.cd p n hn h1
      · have hpr := h.priv i n h1 h2
        rcases g.cb p n hn with h3 | h3
        · exact absurd h3 hpr.2
        · exact absurd (h3.symm.trans hpr.1) hp

theorem invB_save (s : Sys) (i : Nat) (clear : Bool) (h : InvA s) (g : InvB s) :
    InvB (step s i (.save clear)) := by
  simp only [step]
  exact invB_saveAux s i h g _ _ _ _ rfl (names_saveStep _ _ _ _)
    (fun n hr => ready_saveStep _ _ _ _ _ n hr)
    (by
      intro n hn
      rcases List.mem_append.mp hn with hn | hn
      · exact Or.inl hn
      · exact Or.inr (List.mem_filter.mp hn).1)

/-! ### obsolete, clearAll -/

theorem invB_obsolete (s : Sys) (i : Nat) (g : InvB s) : InvB (step s i .obsolete) := by
  have hdn : (run s.disk ((s.procs i).toObsolete.flatMap (obsoleteOps s.chk))).names = s.disk.names :=
    run_names_noPut _ _ (isPut_obsolete _ _)
  have eN : ∀ p, (upd s.procs i { s.procs i with toObsolete := [] } p).names = (s.procs p).names := by
    intro p; by_cases hp : p = i
    · subst hp; simp
    · rw [upd_other _ _ hp]
  have eA : ∀ p, (upd s.procs i { s.procs i with toObsolete := [] } p).atLoad = (s.procs p).atLoad := by
    intro p; by_cases hp : p = i
    · subst hp; simp
    · rw [upd_other _ _ hp]
  have eC : ∀ p, (upd s.procs i { s.procs i with toObsolete := [] } p).combined = (s.procs p).combined := by
    intro p; by_cases hp : p = i
    · subst hp; simp
    · rw [upd_other _ _ hp]
  simp only [step]
  refine ⟨?_, ?_, ?_, ?_, ?_, ?_, ?_, ?_⟩
  · intro p n hn; rw [eC] at hn; exact g.bound_comb p n hn
  · intro p n hn
    by_cases hp : p = i
    · subst hp; simp only [upd_same] at hn; cases hn
    · simp only [upd_other _ _ hp] at hn; exact g.bound_obs p n hn
  · intro n hn
    simp only [hdn] at hn
    exact ready_obsolete _ _ _ n (fun ht => (g.obs i n ht).1 hn) (g.r1 n hn)
  · intro p n hn hna
    rw [eN] at hn; rw [eA] at hna
    exact ready_obsolete _ _ _ n (fun ht => (g.obs i n ht).2 p ⟨hn, hna⟩) (g.r2 p n hn hna)
  · intro p n hn
    have hnT : n ∈ (s.procs p).toObsolete := by
      by_cases hp : p = i
      · subst hp; simp only [upd_same] at hn; cases hn
      · simpa only [upd_other _ _ hp] using hn
    refine ⟨by simp only [hdn]; exact (g.obs p n hnT).1, ?_⟩
    intro q hq
    rw [eN, eA] at hq
    exact (g.obs p n hnT).2 q hq
  · intro p n hn; rw [eC] at hn; rw [eN]; exact g.cn p n hn
  · intro p n hn; rw [eC] at hn; exact g.cb p n hn
  · intro p n hn hd; rw [eC] at hn; simp only [hdn] at hd; rw [eA]; exact g.cd p n hn hd

theorem invB_clearAll (s : Sys) (i : Nat) (g : InvB s) : InvB (step s i .clearAll) := by
  have hdn : (run s.disk (clearOps s.disk [])).names = s.disk.names :=
    run_names_noPut _ _ (clearOps_noPut _ _)
  simp only [step]
  refine ⟨g.bound_comb, g.bound_obs, ?_, ?_, ?_, g.cn, g.cb, ?_⟩
  · intro n hn
    simp only [hdn] at hn
    exact ready_clear _ _ _ _ n (g.r1 n hn)
  · intro p n hn hna
    exact ready_clear _ _ _ _ n (g.r2 p n hn hna)
  · intro p n hn
    exact ⟨by simp only [hdn]; exact (g.obs p n hn).1, (g.obs p n hn).2⟩
  · intro p n hn hd
    simp only [hdn] at hd
    exact g.cd p n hn hd

/-! ### every phase -/

theorem invB_step (s : Sys) (i : Nat) (a : Act) (h : InvA s) (g : InvB s) : InvB (step s i a) := by
  cases a with
  | reload => exact invB_reload s i h g
  | finish revs =>
    simp only [step]
    exact invB_newPack s i h g _ (names_newPack _ _ _ _)
      (fun n hn hr => ready_newPack_other _ _ _ _ _ n (by omega) hr) (ready_newPack_self _ _ _ _ _)
      (s.procs i).names [] revs _ rfl rfl (by simp) rfl
      (fun n hn => hn) (fun n hn => by cases hn)
  | repack sel =>
    simp only [step]
    split
    · rename_i hpre
      refine invB_newPack s i h g _ (names_newPack _ _ _ _)
        (fun n hn hr => ready_newPack_other _ _ _ _ _ n (by omega) hr) (ready_newPack_self _ _ _ _ _)
        ((s.procs i).names.filter (fun n => !sel.contains n)) sel
        (sel.flatMap s.content) _ rfl rfl rfl rfl (fun n hn => (List.mem_filter.mp hn).1) ?_
      intro n hn
      have := (List.all_eq_true.mp hpre) n hn
      simp only [List.contains_eq_mem, decide_eq_true_eq] at this
      exact ⟨this, fun hk => by simpa [hn] using (List.mem_filter.mp hk).2⟩
    · exact invB_reload s i h g
  | save clear => exact invB_save s i clear h g
  | obsolete => exact invB_obsolete s i g
  | clearAll => exact invB_clearAll s i g

theorem inv_exec (s : Sys) (sched : Schedule) (h : InvA s) (g : InvB s) :
    InvA (exec s sched) ∧ InvB (exec s sched) := by
  induction sched generalizing s with
  | nil => exact ⟨h, g⟩
  | cons a rest ih => exact ih _ (invA_step s a.1 a.2 h) (invB_step s a.1 a.2 h g)

theorem invB_init (chk : Bool) (d : Disk) (content : Nat → List Nat) (next : Nat)
    (hc : complete chk d = true) : InvB (Sys.init chk d content next) := by
  have hc' : ∀ n ∈ d.names, ready chk d n = true := by simpa [complete] using hc
  refine ⟨?_, ?_, hc', ?_, ?_, ?_, ?_, ?_⟩ <;> intro p n hn <;> cases hn

end BreezyVerif.C05
