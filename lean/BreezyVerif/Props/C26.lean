import BreezyVerif.Lemmas.C26Steal
import BreezyVerif.Lemmas.C26Excl
/-!
C26 — directory locks provide mutual exclusion.

All theorems are about `Sys.run (Sys.init cfg held) evs` for an arbitrary event
list `evs` (every interleaving of every program of every locker, with crashes
and injected transport faults), an arbitrary number of lockers (`Nat → Locker`),
arbitrary per-locker identity / configuration `cfg` (host, LOGNAME, numeric uid,
`locks.steal_dead`) and an arbitrary initial `held/`.
-/
namespace BreezyVerif.C26

/-- **Key invariant.**  Without `break_lock` and without `locks.steal_dead`, in every
reachable state — any number of lockers, any interleaving of their transport
calls, any crashes and injected transport errors, any initial `held/` — a
locker whose `_lock_held` is true (or that has just renamed its pending
directory into place) owns the `held/` directory on disk. -/
theorem claim_on_disk (cfg : Nat → Cfg) (h0 : Option Dir) (evs : List Ev)
    (hev : ∀ e ∈ evs, e.noBreak = true) (hsteal : ∀ j, (cfg j).steal = false) (i : Nat)
    (hcl : (((Sys.init cfg h0).run evs).lk i).claims = true) :
    ownerOf ((Sys.init cfg h0).run evs).held = some i := by
  have inv : Inv ((Sys.init cfg h0).run evs) :=
    (Inv.init cfg h0).run_single (Who.init 0 cfg h0) evs (fun e he => noBreak_breaksOnlyBy 0 (hev e he))
      (fun j hj => by simp [Sys.init, hsteal j] at hj)
  have nb : NoBreak ((Sys.init cfg h0).run evs) :=
    NoBreak.run ⟨fun _ => rfl, rfl, rfl⟩ evs hev (by simpa [Sys.init] using hsteal)
  rcases inv.claim i nb.alive hcl with h | ⟨_, h⟩
  · exact h
  · simp [nb.breaks] at h

/-- **Mutual exclusion without breaks**: at most one locker believes it holds the lock. -/
theorem mutex_no_break (cfg : Nat → Cfg) (h0 : Option Dir) (evs : List Ev)
    (hev : ∀ e ∈ evs, e.noBreak = true) (hsteal : ∀ j, (cfg j).steal = false) (i j : Nat)
    (hi : (((Sys.init cfg h0).run evs).lk i).held = true)
    (hj : (((Sys.init cfg h0).run evs).lk j).held = true) : i = j := by
  have a := claim_on_disk cfg h0 evs hev hsteal i (by simp [Locker.claims, hi])
  have b := claim_on_disk cfg h0 evs hev hsteal j (by simp [Locker.claims, hj])
  rw [a] at b; exact Option.some.inj b

/-- the hypotheses are satisfiable by a contended run in which both lockers end up having held the lock -/
example :
    let evs : List Ev := [.start 0 .attempt, .step 0, .start 1 .attempt, .step 1, .step 0, .step 1, .step 0,
      .step 1, .step 0, .step 1, .step 1, .step 1, .start 0 .unlock, .step 0, .step 0, .step 0, .step 0,
      .start 1 .attempt, .step 1, .step 1, .step 1, .step 1]
    (∀ e ∈ evs, e.noBreak = true) ∧
      (((Sys.init (fun _ => ⟨1, 1, false⟩)).run evs).lk 1).held = true ∧
      (((Sys.init (fun _ => ⟨1, 1, false⟩)).run evs).lk 1).last = .ok ∧
      (((Sys.init (fun _ => ⟨1, 1, false⟩)).run evs).lk 0).last = .ok := by
  decide +kernel

/-- **Mutual exclusion with breaks (partial: one breaker).**  If only locker `b` ever
breaks locks (calls `break_lock`, or has `locks.steal_dead` on) and no break was
decided against a holder that was still alive (`brokeAlive = false`), then at
most one *live* locker believes it holds the lock.  Missing for the full
statement: two or more breakers — there the code really fails, see
`break_race_witness`. -/
theorem mutex_single_breaker_partial (b : Nat) (cfg : Nat → Cfg) (h0 : Option Dir) (evs : List Ev)
    (hev : ∀ e ∈ evs, e.breaksOnlyBy b = true) (hsteal : ∀ j, (cfg j).steal = true → j = b)
    (hal : ((Sys.init cfg h0).run evs).brokeAlive = false) (i j : Nat)
    (hi : (((Sys.init cfg h0).run evs).lk i).held = true) (hic : ((Sys.init cfg h0).run evs).crashed i = false)
    (hj : (((Sys.init cfg h0).run evs).lk j).held = true) (hjc : ((Sys.init cfg h0).run evs).crashed j = false) :
    i = j := by
  have inv : Inv ((Sys.init cfg h0).run evs) :=
    (Inv.init cfg h0).run_single (Who.init b cfg h0) evs hev hsteal
  have a := inv.claim i hal (by simp [Locker.claims, hi])
  have c := inv.claim j hal (by simp [Locker.claims, hj])
  simp only [hic, hjc, Bool.false_eq_true, false_and, or_false] at a c
  rw [a] at c; exact Option.some.inj c

/-- **`force_break` removes exactly the examined lock (partial: one breaker).**  Under the
same hypotheses, whenever a `force_break x` is about to rename `held/` away,
`held/` still carries the info `x` that was examined, its holder is dead, and the
rename removes precisely that directory.  Missing: several breakers (see
`break_race_witness`). -/
theorem break_removes_examined_partial (b : Nat) (cfg : Nat → Cfg) (h0 : Option Dir) (evs : List Ev)
    (hev : ∀ e ∈ evs, e.breaksOnlyBy b = true) (hsteal : ∀ j, (cfg j).steal = true → j = b)
    (hal : ((Sys.init cfg h0).run evs).brokeAlive = false) (i : Nat) (x : Nonce) (ret : Bool)
    (hpc : (((Sys.init cfg h0).run evs).lk i).pc = .bRename x ret)
    (hlive : ((Sys.init cfg h0).run evs).crashed i = false) :
    ((Sys.init cfg h0).run evs).held = some (some (.ok x)) ∧
      ((Sys.init cfg h0).run evs).crashed x.owner = true ∧
      (((Sys.init cfg h0).run evs).step (.step i)).held = none ∧
      ((((Sys.init cfg h0).run evs).step (.step i)).lk i).tmp = some (some (.ok x)) := by
  have inv : Inv ((Sys.init cfg h0).run evs) :=
    (Inv.init cfg h0).run_single (Who.init b cfg h0) evs hev hsteal
  have h := inv.exp i x hal (by simp [hpc, Pc.expects])
  refine ⟨h.1, h.2, ?_, ?_⟩ <;> simp [Sys.step, hlive, hpc, lstep, h.1, okDir]

/-- non-vacuity: a single stealer takes over the lock of a crashed holder; the run satisfies all hypotheses,
passes through `bRename`, and ends with the stealer holding the lock -/
example :
    let cfg : Nat → Cfg := fun _ => ⟨1, 1, true⟩
    let evs : List Ev := [.start 0 .attempt, .step 0, .step 0, .step 0, .step 0, .crash 0,
      .start 1 .attempt, .step 1, .step 1, .step 1, .step 1, .step 1]
    (∀ e ∈ evs, e.breaksOnlyBy 1 = true) ∧ ((Sys.init cfg).run evs).brokeAlive = false ∧
      (((Sys.init cfg).run evs).lk 1).pc = .bRename ⟨0, 1⟩ true ∧ ((Sys.init cfg).run evs).crashed 1 = false ∧
      ((((Sys.init cfg).run evs).run [.step 1, .step 1, .step 1, .step 1, .step 1, .step 1]).lk 1).held = true := by
  decide +kernel

/-- **The race in `force_break` (finding F7).**  All four lockers run on our host as our user
with `locks.steal_dead` on.  Locker 0 takes the lock and dies.  Lockers 1 and 2
both find the dead holder and start `force_break`; 1 examines the lock, then 2
breaks it completely and acquires; now 1 renames `held/` — which is 2's — away,
notices the mismatch and raises, without restoring it; locker 3 acquires.  No
break was ever decided against a live holder, yet the live lockers 2 and 3 both
have `_lock_held`. -/
theorem break_race_witness :
    let cfg : Nat → Cfg := fun _ => ⟨1, 1, true⟩
    let evs : List Ev := [.start 0 .attempt, .step 0, .step 0, .step 0, .step 0, .crash 0,
      .start 1 .attempt, .step 1, .step 1, .step 1, .step 1, .step 1,
      .start 2 .attempt, .step 2, .step 2, .step 2, .step 2, .step 2, .step 2, .step 2, .step 2, .step 2,
      .step 2, .step 2,
      .step 1, .step 1, .step 1, .step 1,
      .start 3 .attempt, .step 3, .step 3, .step 3, .step 3]
    let s := (Sys.init cfg).run evs
    s.brokeAlive = false ∧ s.crashed 2 = false ∧ s.crashed 3 = false ∧
      (s.lk 2).held = true ∧ (s.lk 3).held = true ∧ (s.lk 1).last = .mismatch ∧
      ownerOf s.held = some 3 ∧
      -- the break windows of lockers 1 and 2 overlap: exactly what `…_exclusive_partial` excludes
      exclusiveBreaks 4 (Sys.init cfg) evs = false := by
  decide +kernel

/-! ### any number of breakers, as long as their break windows do not overlap

The break window of a `force_break x` is the time from the decision to break `x`
until `held/` has been renamed away.  `exclusiveBreaks n s evs` (decidable) says
that in no state the run passes through two of the lockers `< n` are inside a
window.  `break_race_witness` is a run where they do overlap. -/

/-- **Mutual exclusion with any number of breakers (partial: non-overlapping break windows).**
Any number of lockers may call `break_lock` or steal; if no two of them are ever inside a break
window at the same time and no break was decided against a live holder, at most one live locker
believes it holds the lock.  Missing for the full statement: overlapping windows — there the
code fails (`break_race_witness`).  `mutex_single_breaker_partial` is the special case of one breaker
(for which no bound `n` on the lockers is needed). -/
theorem mutex_exclusive_breaks_partial (n : Nat) (cfg : Nat → Cfg) (h0 : Option Dir) (evs : List Ev)
    (hn : ∀ e ∈ evs, e.locker < n) (hex : exclusiveBreaks n (Sys.init cfg h0) evs = true)
    (hal : ((Sys.init cfg h0).run evs).brokeAlive = false) (i j : Nat)
    (hi : (((Sys.init cfg h0).run evs).lk i).held = true) (hic : ((Sys.init cfg h0).run evs).crashed i = false)
    (hj : (((Sys.init cfg h0).run evs).lk j).held = true) (hjc : ((Sys.init cfg h0).run evs).crashed j = false) :
    i = j := by
  have inv : Inv ((Sys.init cfg h0).run evs) :=
    (Inv.init cfg h0).run evs (excl_prefixes (Quiet.init n cfg h0) evs hn hex)
  have a := inv.claim i hal (by simp [Locker.claims, hi])
  have c := inv.claim j hal (by simp [Locker.claims, hj])
  simp only [hic, hjc, Bool.false_eq_true, false_and, or_false] at a c
  rw [a] at c; exact Option.some.inj c

/-- **`force_break` removes exactly the examined lock (partial: non-overlapping break windows)**, for any
number of breakers: whenever a `force_break x` is about to rename `held/` away, `held/` still
carries the info `x` that was examined, its holder is dead, and the rename removes precisely
that directory. -/
theorem break_removes_examined_exclusive_partial (n : Nat) (cfg : Nat → Cfg) (h0 : Option Dir) (evs : List Ev)
    (hn : ∀ e ∈ evs, e.locker < n) (hex : exclusiveBreaks n (Sys.init cfg h0) evs = true)
    (hal : ((Sys.init cfg h0).run evs).brokeAlive = false) (i : Nat) (x : Nonce) (ret : Bool)
    (hpc : (((Sys.init cfg h0).run evs).lk i).pc = .bRename x ret)
    (hlive : ((Sys.init cfg h0).run evs).crashed i = false) :
    ((Sys.init cfg h0).run evs).held = some (some (.ok x)) ∧
      ((Sys.init cfg h0).run evs).crashed x.owner = true ∧
      (((Sys.init cfg h0).run evs).step (.step i)).held = none ∧
      ((((Sys.init cfg h0).run evs).step (.step i)).lk i).tmp = some (some (.ok x)) := by
  have inv : Inv ((Sys.init cfg h0).run evs) :=
    (Inv.init cfg h0).run evs (excl_prefixes (Quiet.init n cfg h0) evs hn hex)
  have h := inv.exp i x hal (by simp [hpc, Pc.expects])
  refine ⟨h.1, h.2, ?_, ?_⟩ <;> simp [Sys.step, hlive, hpc, lstep, h.1, okDir]

/-- **`unlock` releases only its own lock (partial: non-overlapping break windows)**: whenever a live
locker's `unlock` is about to rename `held/` away (after its `confirm`), `held/` is still the lock of
that locker — nobody's break and re-acquisition slipped in between — provided no break was decided
against a live holder. -/
theorem unlock_removes_own_exclusive_partial (n : Nat) (cfg : Nat → Cfg) (h0 : Option Dir) (evs : List Ev)
    (hn : ∀ e ∈ evs, e.locker < n) (hex : exclusiveBreaks n (Sys.init cfg h0) evs = true)
    (hal : ((Sys.init cfg h0).run evs).brokeAlive = false) (i : Nat)
    (hpc : (((Sys.init cfg h0).run evs).lk i).pc = .uRename)
    (hlive : ((Sys.init cfg h0).run evs).crashed i = false) :
    ownerOf ((Sys.init cfg h0).run evs).held = some i := by
  have inv : Inv ((Sys.init cfg h0).run evs) :=
    (Inv.init cfg h0).run evs (excl_prefixes (Quiet.init n cfg h0) evs hn hex)
  have hh := inv.need i (by simp [hpc, Pc.needsHeld])
  rcases inv.claim i hal (by simp [Locker.claims, hh]) with h | ⟨h, _⟩
  · exact h
  · simp [hlive] at h

example :
    let cfg : Nat → Cfg := fun _ => ⟨1, 1, false⟩
    let evs : List Ev := [.start 0 .attempt, .step 0, .step 0, .step 0, .step 0, .start 0 .unlock, .step 0]
    (∀ e ∈ evs, e.locker < 1) ∧ exclusiveBreaks 1 (Sys.init cfg) evs = true ∧
      (((Sys.init cfg).run evs).lk 0).pc = .uRename := by
  decide +kernel

/-- non-vacuity: two different breakers one after the other — 0 acquires and dies, stealer 1 takes over (first
break) and dies, the user of locker 2 breaks 1's lock with `break_lock` (second break, passing through
`bRename`), then 3 acquires; all hypotheses hold and 3 is the only live holder -/
example :
    let cfg : Nat → Cfg := fun i => ⟨1, 1, i == 1 || i == 3⟩
    let evs : List Ev := [.start 0 .attempt, .step 0, .step 0, .step 0, .step 0, .crash 0,
      .start 1 .attempt, .step 1, .step 1, .step 1, .step 1, .step 1, .step 1, .step 1, .step 1, .step 1,
      .step 1, .step 1, .crash 1,
      .start 2 .brk, .step 2, .step 2]
    let more : List Ev := [.step 2, .step 2, .step 2, .step 2,
      .start 3 .attempt, .step 3, .step 3, .step 3, .step 3]
    (∀ e ∈ evs ++ more, e.locker < 4) ∧ exclusiveBreaks 4 (Sys.init cfg) (evs ++ more) = true ∧
      ((Sys.init cfg).run (evs ++ more)).brokeAlive = false ∧ ((Sys.init cfg).run (evs ++ more)).breaks = 2 ∧
      (((Sys.init cfg).run evs).lk 2).pc = .bRename ⟨1, 1⟩ false ∧
      (((Sys.init cfg).run (evs ++ more)).lk 2).last = .broken ∧
      (((Sys.init cfg).run (evs ++ more)).lk 3).held = true ∧
      (((Sys.init cfg).run (evs ++ more)).lk 1).held = true ∧ ((Sys.init cfg).run (evs ++ more)).crashed 1 = true := by
  decide +kernel

/-! ### the dead-holder decision: `kill(pid, 0)` errno → dead? -/

/-- `is_local_pid_dead` says "dead" for exactly one outcome of `kill(pid, 0)`: `ESRCH`.
`Ok`, `EPERM` (the process exists but belongs to another uid) and every other
errno mean "not known dead". -/
theorem pid_dead_iff_esrch (r : KillRes) : pidDeadOf r = true ↔ r = .esrch :=
  pidDeadOf_iff r

/-- composed with the kernel's rule for signal 0: the verdict is "dead" iff the process does
not exist — whatever the caller's permission to signal it -/
theorem pid_dead_iff_process_gone (procExists permitted : Bool) :
    pidDeadOf (killZero procExists permitted) = true ↔ procExists = false := by
  rw [pidDeadOf_killZero]; cases procExists <;> simp

/-- the three outcomes of the probe, each reachable: a live process we may signal, a live process
of another uid, no process -/
example : killZero true true = .ok ∧ killZero true false = .eperm ∧ killZero false false = .esrch ∧
    pidDeadOf (killZero true false) = false := by decide

/-- `is_lock_holder_known_dead` as evaluated by locker `me` on the lock `x` is true iff the recorded
host is ours and is not `localhost`, the recorded LOGNAME is ours and the holder process is gone.
In particular a live holder owned by a different uid (`EPERM`) is never stealable. -/
theorem stealable_iff_ours_and_gone (cfg : Nat → Cfg) (crashed : Nat → Bool) (me : Nat) (x : Nonce) :
    stealable cfg crashed me x = true ↔
      ((cfg x.owner).host = (cfg me).host ∧ (cfg x.owner).host ≠ 0 ∧
        (cfg x.owner).user.name = (cfg me).user.name ∧ crashed x.owner = true) :=
  stealable_iff cfg crashed me x

/-- non-vacuity, the cross-uid case: holder 0 runs as root with LOGNAME 1 and is alive; contender 1 has the
same LOGNAME but uid 1000: the probe says `EPERM`, so not stealable; once 0 is gone it says `ESRCH` -/
example :
    let cfg : Nat → Cfg := fun i => if i = 0 then ⟨1, { name := 1, uid := 0 }, true⟩ else ⟨1, { name := 1, uid := 1000 }, true⟩
    probe cfg (fun _ => false) 1 0 = .eperm ∧ stealable cfg (fun _ => false) 1 ⟨0, 1⟩ = false ∧
      probe cfg (fun _ => false) 0 1 = .ok ∧
      probe cfg (fun i => i == 0) 1 0 = .esrch ∧ stealable cfg (fun i => i == 0) 1 ⟨0, 1⟩ = true := by
  decide

/-- a steal (`force_break` called from `_handle_lock_contention`) starts only when the examined holder's
recorded host is ours and is not `localhost`, its LOGNAME is ours, `kill(pid, 0)` on its pid answered
`ESRCH`, i.e. its process no longer exists, and `locks.steal_dead` is on — in every state, hence in
every reachable one -/
theorem steal_only_if_dead_and_ours (id : Nat) (cfg : Nat → Cfg) (crashed : Nat → Bool) (me : Locker)
    (held : Option Dir) (x : Nonce) (h : (lstep id cfg crashed me held).1.pc = .bPeek x true) :
    held = some (some (.ok x)) ∧ (cfg id).steal = true ∧ (cfg x.owner).host = (cfg id).host ∧
      (cfg x.owner).host ≠ 0 ∧ (cfg x.owner).user.name = (cfg id).user.name ∧
      probe cfg crashed id x.owner = .esrch ∧ crashed x.owner = true := by
  have := lstep_steal id cfg crashed me held x h
  have hs := (stealable_iff cfg crashed id x).1 this.2.2.1
  refine ⟨this.2.1, this.2.2.2, hs.1, hs.2.1, hs.2.2.1, ?_, hs.2.2.2⟩
  rw [← pidDeadOf_iff, pidDeadOf_probe]; exact hs.2.2.2

example : (lstep 1 (fun _ => ⟨1, 1, true⟩) (fun i => i == 0)
    { pc := .aPeekC, pend := some (some (.ok ⟨1, 1⟩)), nonce := 1 } (some (some (.ok ⟨0, 1⟩)))).1.pc
      = .bPeek ⟨0, 1⟩ true := by decide

/-- **Steals are directed at dead holders only — run level.**  In every reachable state (any number of
lockers, stealers and user breakers, any uids, any interleaving, crashes, faults), a locker that is
inside a steal of the lock `x` (`force_break x` from `_handle_lock_contention`: before its peek,
before its rename, before its re-check) has `locks.steal_dead` on, `x` records our host (not
`localhost`) and our LOGNAME, and the process that took `x` no longer exists. -/
theorem steal_in_progress_holder_gone (cfg : Nat → Cfg) (h0 : Option Dir) (evs : List Ev) (i : Nat) (x : Nonce)
    (hpc : (((Sys.init cfg h0).run evs).lk i).pc.stealing = some x) :
    (cfg i).steal = true ∧ (cfg x.owner).host = (cfg i).host ∧ (cfg x.owner).host ≠ 0 ∧
      (cfg x.owner).user.name = (cfg i).user.name ∧ ((Sys.init cfg h0).run evs).crashed x.owner = true := by
  have := (StealInv.init cfg h0).run evs i x hpc
  simpa [StealOk, run_cfg, Sys.init] using this

/-- **The steal policy never breaks the lock of a live holder.**  In every run without user
`break_lock` — any number of lockers with `locks.steal_dead` on, any uids — no decision to break
was ever taken against a holder whose process still existed. -/
theorem policy_never_breaks_live_holder (cfg : Nat → Cfg) (h0 : Option Dir) (evs : List Ev)
    (hev : ∀ e ∈ evs, e.noBreak = true) : ((Sys.init cfg h0).run evs).brokeAlive = false :=
  ((NoUserBreak.init cfg h0).run evs hev).alive

/-- **Mutual exclusion with one stealer** (no ghost hypothesis): without user `break_lock` and with at
most one locker `b` that has `locks.steal_dead` on, at most one live locker believes it holds the
lock — whatever the uids, crashes, faults and interleaving. -/
theorem mutex_single_stealer (b : Nat) (cfg : Nat → Cfg) (h0 : Option Dir) (evs : List Ev)
    (hev : ∀ e ∈ evs, e.noBreak = true) (hsteal : ∀ j, (cfg j).steal = true → j = b) (i j : Nat)
    (hi : (((Sys.init cfg h0).run evs).lk i).held = true) (hic : ((Sys.init cfg h0).run evs).crashed i = false)
    (hj : (((Sys.init cfg h0).run evs).lk j).held = true) (hjc : ((Sys.init cfg h0).run evs).crashed j = false) :
    i = j :=
  mutex_single_breaker_partial b cfg h0 evs (fun e he => noBreak_breaksOnlyBy b (hev e he)) hsteal
    (policy_never_breaks_live_holder cfg h0 evs hev) i j hi hic hj hjc

/-- **Mutual exclusion with any number of stealers (partial: non-overlapping break windows)**, without
the ghost hypothesis: nobody calls `break_lock`, any lockers may have `locks.steal_dead` on -/
theorem mutex_exclusive_stealers_partial (n : Nat) (cfg : Nat → Cfg) (h0 : Option Dir) (evs : List Ev)
    (hn : ∀ e ∈ evs, e.locker < n) (hev : ∀ e ∈ evs, e.noBreak = true)
    (hex : exclusiveBreaks n (Sys.init cfg h0) evs = true) (i j : Nat)
    (hi : (((Sys.init cfg h0).run evs).lk i).held = true) (hic : ((Sys.init cfg h0).run evs).crashed i = false)
    (hj : (((Sys.init cfg h0).run evs).lk j).held = true) (hjc : ((Sys.init cfg h0).run evs).crashed j = false) :
    i = j :=
  mutex_exclusive_breaks_partial n cfg h0 evs hn hex (policy_never_breaks_live_holder cfg h0 evs hev)
    i j hi hic hj hjc

/-- non-vacuity: two stealers (different uids) one after the other: 0 acquires and dies, 1 steals and dies,
2 steals and holds; 3 contends in vain against live 2 -/
example :
    let cfg : Nat → Cfg := fun i => ⟨1, { name := 1, uid := i }, i == 1 || i == 2⟩
    let steal (i : Nat) : List Ev := .start i .attempt :: List.replicate 11 (.step i)
    let evs : List Ev := [.start 0 .attempt, .step 0, .step 0, .step 0, .step 0, .crash 0] ++ steal 1 ++
      [.crash 1] ++ steal 2 ++ steal 3
    (∀ e ∈ evs, e.locker < 4) ∧ (∀ e ∈ evs, e.noBreak = true) ∧ exclusiveBreaks 4 (Sys.init cfg) evs = true ∧
      ((Sys.init cfg).run evs).breaks = 2 ∧ (((Sys.init cfg).run evs).lk 2).held = true ∧
      ((Sys.init cfg).run evs).crashed 2 = false ∧ (((Sys.init cfg).run evs).lk 3).last = .contention := by
  decide +kernel

/-- non-vacuity (cross-uid): root holder 0 is alive, contender 1 (uid 1000, same LOGNAME, stealing on) gets
`LockContention`; after 0 dies, 1 steals and holds; 2 (uid 2000) then contends against live 1 in vain -/
example :
    let cfg : Nat → Cfg := fun i => ⟨1, { name := 1, uid := 1000 * i }, i == 1⟩
    let evs : List Ev := [.start 0 .attempt, .step 0, .step 0, .step 0, .step 0,
      .start 1 .attempt, .step 1, .step 1, .step 1, .step 1, .step 1, .step 1, .crash 0,
      .start 1 .attempt, .step 1, .step 1, .step 1, .step 1, .step 1, .step 1, .step 1, .step 1, .step 1,
      .step 1, .step 1,
      .start 2 .attempt, .step 2, .step 2, .step 2, .step 2, .step 2, .step 2]
    (∀ e ∈ evs, e.noBreak = true) ∧ (∀ j, (cfg j).steal = true → j = 1) ∧
      (((Sys.init cfg).run (evs.take 12)).lk 1).last = .contention ∧
      (((Sys.init cfg).run (evs.take 12)).lk 0).held = true ∧
      (((Sys.init cfg).run evs).lk 1).held = true ∧ (((Sys.init cfg).run evs).lk 1).last = .ok ∧
      (((Sys.init cfg).run evs).lk 2).last = .contention ∧ ((Sys.init cfg).run evs).breaks = 1 := by
  refine ⟨by decide, ?_, by decide +kernel, by decide +kernel, by decide +kernel, by decide +kernel,
    by decide +kernel, by decide +kernel⟩
  intro j hj
  simpa using hj

/-- **`confirm`** answers "still held" exactly when `held/info` on disk carries this locker's current
nonce — in every state, so under every interleaving -/
theorem confirm_ok_iff_on_disk (id : Nat) (cfg : Nat → Cfg) (crashed : Nat → Bool) (me : Locker)
    (held : Option Dir) (h : me.pc = .cPeek) :
    (lstep id cfg crashed me held).1.last = .ok ↔ held = some (some (.ok ⟨id, me.nonce⟩)) := by
  unfold lstep
  simp only [h]
  cases hp : peekDir held with
  | none =>
    have : held ≠ some (some (.ok ⟨id, me.nonce⟩)) := by
      intro hh; simp [hh, peekDir] at hp
    simp [Locker.done, this]
  | corrupt t =>
    have : held ≠ some (some (.ok ⟨id, me.nonce⟩)) := by
      intro hh; simp [hh, peekDir] at hp
    simp [Locker.done, this]
  | ok y =>
    have hy := peekDir_ok.1 hp
    by_cases hyy : y = ⟨id, me.nonce⟩
    · simp [hyy, Locker.done, hy, okDir]
    · have : held ≠ some (some (.ok ⟨id, me.nonce⟩)) := by
        intro hh; rw [hy] at hh; simp [okDir] at hh; exact hyy hh
      simp [hyy, Locker.done, this]

/-- the decision table of `LockHeldInfo.is_lock_holder_known_dead` -/
theorem known_dead_table (hostEq isLocalhost userEq pidRecorded pidDead : Bool) :
    knownDead hostEq isLocalhost userEq pidRecorded pidDead = true ↔
      (hostEq = true ∧ isLocalhost = false ∧ userEq = true ∧ pidRecorded = true ∧ pidDead = true) := by
  cases hostEq <;> cases isLocalhost <;> cases userEq <;> cases pidRecorded <;> cases pidDead <;> decide

end BreezyVerif.C26
