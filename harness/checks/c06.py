"""C06 — aborted and suspended write groups have no visible effect until committed
(breezy/bzr/pack_repo.py: RepositoryPackCollection._start/_abort/_suspend/_resume/
_commit_write_group, _resume_pack; PackRepository._resume_write_group;
breezy/bzr/groupcompress_repo.py: _check_new_inventories; breezy/repository.py:
start/commit/abort/resume_write_group).

T2: a source repository (4 revisions, 3 file ids, one signature) is built per format
with real commits; its records (revisions, inventories, CHK pages, texts — knit
deltas with their compression parents —, signature) form a catalogue.  Random
scripts of write-group sessions on an empty target (2a, 2a stacked on a base
repository, pack-0.92, 1.9 stacked, and 2a / pack-0.92 opened through breezy's own
smart server as a RemoteRepository: the group is started over RPC and held as
tokens, resumed in the VFS-backed real repository by the first insertion, checked
with the check_write_group RPC on resume): start, single-record insertions through
`<vf>.insert_record_stream` (whole revisions with chosen omissions: inventory,
CHK pages, texts, parent inventories, delta bases), a record stream that raises
mid-way (fault), then abort | commit (+abort when refused) | suspend → new
Repository object → resume with the returned / a subset of / unknown / malformed /
repeated tokens → more insertions → commit | abort | suspend again | the lock is
released with the group still open (unlock aborts it).  After EVERY
operation the target directory is observed through a fresh Repository object:
key sets of every pack listed in pack-names, suspended packs in upload/, and the
public API (all_revision_ids, inventories/texts/signatures keys) — and the same
public API through the object that ran the operation; the model gets
every script prefix as its own line and must produce the same results
(ok / tokens / exception class) and the same state.

Oracle (no model): abort and refused commit leave pack-names (literal names) and
all public key sets exactly as they were when the group was opened / before the
commit — also as seen by the aborting / refused object itself (no leftover
aggregate indices), and outside a write group that object sees what a fresh object
sees; the public key sets equal the union of the listed packs' index keys; a
twin target that commits the same insertions directly must end with the same
pack-names and the same accept/refuse as suspend → reopen → resume → commit
(one or several cycles); tokens returned by suspend are 32 lower-case hex digits
and name files in upload/.

Finding on the unchanged code (committed known finding; family computed from the failing
script, see oracle()):
 * `knit-missing-compression-parent-survives-abort` (knit pack formats): abort_write_group does
   not reset the index's missing-compression-parent set, so the same Repository object refuses
   every later complete write group.  The model carries this bookkeeping (`Repo.stale`), Props
   proves `stale_after_abort_witness`; the positive statements needing a clean object are
   `…_partial`.
Former finding `refused-commit-after-finishing-earlier-resumed-pack` (a refusal raised by a later
resumed pack's finish() left earlier packs moved out of upload/, abort raised NoSuchFile): fixed in
/repo 0430fe1 (all resumed packs are validated before any is finished).  The refusal is now the
no-op the model and `refused_commit_noop` describe; every prefix is compared with the model again;
corpus/C06/knit-partial-resumed-finish.json is the regression input (mutant R1 = fix reverted).

Mutants (scratch worktree /var/tmp/wt-C06; "caught" = unclassified oracle violation unless noted):
 M1  _abort_write_group: new pack finished+allocated+names saved instead of aborted   -> caught
 M2  _commit_write_group: `if all_missing: raise` disabled        -> caught by T2 only (the pack's own
     _check_references still refuses an incomplete new pack; what differs is the stale-set case)
 M3  _commit_write_group: `problems = []` (no _check_new_inventories)                 -> caught (2a)
 M4  _suspend_write_group: token of the new pack not appended                          -> caught (equivalence oracle)
 M5  PackRepository._resume_write_group: resumed revision index not scanned            -> caught
 M6  _resume_pack: regex check disabled      -> equivalent: every malformed token still ends in
     UnresumableWriteGroup through NoSuchFile
 M7  _commit_write_group: resumed packs finished but not allocated                     -> caught
 M8  _check_new_inventories: inventories looked up with fallbacks   -> equivalent (the chk-root check
     still uses the no-fallback index);  M8b: texts looked up with fallbacks -> caught (stacked 2a)
 M9  _abort_write_group: resumed packs not aborted (left in upload/)                   -> caught by T2
 M10 _check_new_inventories: missing text keys ignored                                 -> caught
 M11 _suspend_write_group returns only the first token                                 -> caught
 R1  fix 0430fe1 reverted (resumed packs not validated before finishing)   -> caught: plain VIOLATION
     (refused commit removed a suspended pack from upload/; abort raised NoSuchFile) + T2
 H1  harmless: token list comprehension rewritten as a loop                            -> clean
 N1  PackRepository.unlock: open write group forgotten instead of aborted   -> T2 (corpus unlock-with-open-resumed-group:
     the resumed pack stays in upload/); no visible effect, so no oracle violation
 N2  _abort_write_group: the new pack's indices stay in the aggregate indices          -> caught: the aborting object itself
     still lists the aborted keys (same-object oracle)
 N3  RemoteRepository._set_real_repository: the RPC-held group is not resumed in the real repository -> T2 (remote flavour)
"""
import os
import re

from vlib import env

THEOREMS = [
    "abort_noop", "abort_keeps_packs", "no_commit_no_change", "refused_commit_noop", "token_wellformed",
    "suspend_resume_commit_eq_commit_partial", "resume_rejects_bad_tokens",
    "stale_after_abort_witness", "suspend_resume_witness", "abort_restores_object_partial",
    "inventoryProblems_false_iff", "commit_accepted_iff", "accepted_commit_complete", "missing_inventory_refused",
    "missing_chk_root_refused", "missing_text_refused", "resumed_wf_invariant", "stale_tracks_inserts",
    "suspend_resume_cycles_eq_commit",
]
RULE = ("case = (target flavour, script of write-group sessions over the record catalogue); one evaluation per "
        "script prefix (state observed after every operation); non-trivial = the script contains a refused commit, "
        "a resume, or an abort after insertions")
ASSUMPTIONS = [
    "inventories of the generated source have single-page CHK maps (checked for every inventory)",
    "no key is inserted twice into the same target (the generator tracks what is present)",
    "fewer than 10 packs per target: autopack (C07) does not trigger",
    "stacked knit targets: a delta whose compression parent is in the fallback repository is stored as a full text "
    "(bzrformats knit insert_record_stream), so the harness hands it to the model without compression parent",
]
TRUSTED = [
    "bzrformats NewPack/ResumedPack/knit/groupcompress/btree index (compiled, external): observed, not modelled",
    "what a record needs at commit time (compression parent, inventory parents, chk roots, page items) is read from the source repository",
]

FLAVOURS_QUICK = ("2a", "pack-0.92", "2a-stacked", "2a-remote")
FLAVOURS_ALL = ("2a", "pack-0.92", "2a-stacked", "2a-remote", "1.9-stacked", "rich-root-pack", "pack-0.92-remote")

_KIND = {"revisions": "r", "inventories": "i", "chk_bytes": "c", "texts": "t", "signatures": "s"}


# --------------------------------------------------------------------------
# source repository + catalogue
# --------------------------------------------------------------------------

class Source:
    def __init__(self, fmt):
        wt = env.make_tree(fmt)
        base = wt.basedir
        self.fmt = fmt
        revs = []
        for i in range(4):
            with open(os.path.join(base, "f"), "w") as f:
                f.write("line\n" * 4 + "v%d\n" % i)
            if i == 0:
                wt.add(["f"], ids=[b"f-id"])
            if i == 1:
                with open(os.path.join(base, "g"), "w") as f:
                    f.write("g\n" * 5)
                wt.add(["g"], ids=[b"g-id"])
            if i == 3:
                with open(os.path.join(base, "g"), "w") as f:
                    f.write("g\n" * 5 + "more\n")
            rid = b"r%d" % i
            wt.commit("c%d" % i, rev_id=rid)
            revs.append(rid)
        repo = wt.branch.repository
        with repo.lock_write():
            repo.start_write_group()
            repo.add_signature_text(b"r1", b"fake signature\n")
            repo.commit_write_group()
        self.repo = repo
        self.revs = revs
        repo.lock_read()
        self.chk = hasattr(repo, "chk_bytes") and repo.chk_bytes is not None
        self.num = {}          # (vf name, key) -> n
        self.rec = {}          # (vf name, key) -> model record string
        self.of_rev = {}       # rev index -> dict(inv=…, chk=[…], texts=[…])
        self._catalogue()

    def _n(self, vf, key):
        k = (vf, key)
        if k not in self.num:
            self.num[k] = sum(1 for x in self.num if x[0] == vf)
        return self.num[k]

    def _cparent(self, vfname, key):
        vf = getattr(self.repo, vfname)
        try:
            details = vf._index.get_build_details([key])
            cp = details[key][1]
        except Exception:
            return None
        return cp

    def _catalogue(self):
        from bzrformats import chk_map
        repo = self.repo
        for i, rid in enumerate(self.revs):
            self._n("revisions", (rid,))
            self._n("inventories", (rid,))
        for k in sorted(repo.texts.keys()):
            self._n("texts", k)
        page_items = {}
        roots = {}
        if self.chk:
            for rid in self.revs:
                inv = repo.get_inventory(rid)
                rk = []
                for m, with_texts in ((inv.id_to_entry, True), (inv.parent_id_basename_to_file_id, False)):
                    key = m.key()
                    rk.append(key)
                    m._ensure_root()
                    if not isinstance(m._root_node, chk_map.LeafNode):
                        raise env.InfraError("C06: CHK map of %r is not a single page" % rid)
                    if with_texts:
                        page_items[key] = sorted(
                            self._n("texts", chk_map._bytes_to_text_key(v)) for _, v in m.iteritems())
                    else:
                        page_items.setdefault(key, [])
                roots[rid] = rk
            for k in sorted(repo.chk_bytes.keys()):
                self._n("chk_bytes", k)
                if k not in page_items:
                    raise env.InfraError("C06: CHK page %r is not a root page" % (k,))
        ipm = repo.inventories.get_parent_map([(r,) for r in self.revs])

        def lst(xs):
            return ",".join(map(str, xs)) or "-"
        for (vf, key), n in list(self.num.items()):
            cp = "~"
            ips = rts = its = "-"
            if vf in ("texts", "inventories") and not self.chk:
                c = self._cparent(vf, key)
                if c is not None:
                    cp = str(self._n(vf, c))
            if vf == "inventories":
                ips = lst(self._n("inventories", p) for p in ipm[key])
                if self.chk:
                    rts = lst(self._n("chk_bytes", k) for k in roots[key[0]])
            if vf == "chk_bytes":
                its = lst(page_items[key])
            self.rec[(vf, key)] = "%s:%d:%s:%s:%s:%s" % (_KIND[vf], n, cp, ips, rts, its)
        self._n("signatures", (b"r1",))
        self.rec[("signatures", (b"r1",))] = "s:0:~:-:-:-"
        self.num[("signatures", (b"r1",))] = 0
        for i, rid in enumerate(self.revs):
            inv = repo.get_inventory(rid)
            texts = sorted({(ie.file_id, ie.revision) for _, ie in inv.iter_entries_by_dir()
                            if ie.revision == rid and ("texts", (ie.file_id, ie.revision)) in self.num})
            self.of_rev[i] = dict(
                rev=("revisions", (rid,)), inv=("inventories", (rid,)),
                chk=[("chk_bytes", k) for k in roots.get(rid, [])],
                texts=[("texts", k) for k in texts],
                sig=[("signatures", (rid,))] if rid == b"r1" else [])

    def canon(self, vf, key):
        return "%s%d" % (_KIND[vf], self.num[(vf, key)])


_sources = {}


def source_for(fmt):
    if fmt not in _sources:
        _sources[fmt] = Source(fmt)
    return _sources[fmt]


# --------------------------------------------------------------------------
# script generation (needs the catalogue)
# --------------------------------------------------------------------------

def gen_script(rng, src, stacked, remote=False):
    """list of ops: ["S"], ["I", vf, keyidx], ["F", [records…], k] (stream failing after k), ["A"], ["C"],
    ["U"], ["R", [token specs]]; token spec: ["k", n] n-th issued token, ["m", text] malformed, ["u"] unknown"""
    ops = []
    present = set()      # records inserted in committed or open/suspended groups (never inserted twice)
    issued = 0
    live = []            # indices of issued tokens believed resumable
    first = 1 if stacked else 0
    nsessions = rng.randrange(2, 6)
    in_group = False
    for _ in range(nsessions):
        if live and rng.random() < 0.6:
            # resume something
            r = rng.random()
            if r < 0.55:
                toks = [["k", t] for t in live]
                rng.shuffle(toks)
                consumed, okr = list(live), True
            elif r < 0.65 and len(live) > 1:
                keep = rng.sample(live, len(live) - 1)
                toks = [["k", t] for t in keep]
                consumed, okr = keep, True
            elif r < 0.75:
                toks = [["k", t] for t in live] + [rng.choice([["u"], ["m", rng.choice(MALFORMED)]])]
                consumed, okr = list(live), False
            elif r < 0.85:
                toks = [rng.choice([["u"], ["m", rng.choice(MALFORMED)]])] + [["k", t] for t in live]
                consumed, okr = [], False
            elif r < 0.92:
                toks = [["m", rng.choice(MALFORMED)]]
                consumed, okr = [], False
            else:
                toks = [["k", live[0]], ["k", live[0]]]
                consumed, okr = [], False
            ops.append(["R", toks])
            if len(toks) == 2 and toks[0] == toks[1]:
                ops.append(["O"])      # AssertionError leaves the object unusable
            live = [t for t in live if t not in consumed]
            if not okr:
                continue
            resumed = list(consumed)
        else:
            ops.append(["S"])
            resumed = []
        # insertions
        inserted = 0
        for _ in range(rng.choice((0, 1, 1, 2))):
            cand = [i for i in range(first, len(src.revs))]
            i = rng.choice(cand)
            parts = src.of_rev[i]
            recs = []
            omit = rng.random()
            want = dict(rev=True, inv=True, chk=True, texts=True, sig=True, pinv=False)
            if omit < 0.12:
                want["inv"] = False
            elif omit < 0.24:
                want["chk"] = False
            elif omit < 0.40:
                want["texts"] = rng.random() < 0.5 and "one"
            elif omit < 0.48:
                want["rev"] = False
            if i > 0 and rng.random() < 0.5:
                want["pinv"] = True
            if want["rev"]:
                recs.append(parts["rev"])
            if want["inv"]:
                recs.append(parts["inv"])
            if want["chk"]:
                recs += parts["chk"]
            if want["texts"] is True:
                recs += parts["texts"]
            elif want["texts"] == "one" and parts["texts"]:
                recs += parts["texts"][1:]
            recs += parts["sig"]
            if want["pinv"]:
                pp = src.of_rev[i - 1]
                recs += [pp["inv"]] + pp["chk"]
                if rng.random() < 0.5:
                    recs += pp["texts"]
            recs = [x for j, x in enumerate(recs) if x not in present and x not in recs[:j]]
            rng.shuffle(recs)
            if not recs:
                continue
            if rng.random() < 0.15 and len(recs) > 1:
                k = rng.randrange(0, len(recs))
                ops.append(["F", [[vf, src.num[(vf, key)]] for vf, key in recs], k])
                for x in recs[:k]:
                    present.add(x)
                inserted += k
                ops.append(["A"])
                live = [t for t in live if t not in resumed]   # aborted resumed packs are deleted
                resumed = None
                break
            for x in recs:
                present.add(x)
                ops.append(["I", x[0], src.num[x]])
                inserted += 1
        if resumed is None:
            continue
        e = rng.random()
        if e < (0.12 if resumed else 0.06):
            # the lock is released with the group still open: PackRepository.unlock aborts it and raises
            ops.append(["O"])
            live = [t for t in live if t not in resumed]
        elif e < 0.3:
            ops.append(["A"])
        elif e < 0.65:
            ops.append(["C"])
            ops.append(["A"])      # needed when the commit was refused; E:NotInWG otherwise
        else:
            ops.append(["U"])
            ops.append(["O"])
            n_tok = len(resumed) + (1 if inserted else 0)
            # tokens: resumed ones are re-issued (same names) then the new one
            live = [t for t in live]
            newtoks = list(range(issued, issued + n_tok))
            issued += n_tok
            live += newtoks
            if rng.random() < 0.3:
                # outside a write group: E:NotInWG / AttributeError.  (RemoteRepository.suspend_write_group documents
                # "returns an empty list if no write group is active" as long as it has no VFS-backed real
                # repository yet: not generated for the remote flavours)
                ops.append([rng.choice(["A", "C"] if remote else ["A", "C", "U"])])
    return ops


MALFORMED = ["", "abc", "g" * 32, "A" * 32, "0123456789abcdef0123456789abcde", "../" + "a" * 29,
             "a" * 32 + "x", "a" * 32 + "\n", "a" * 31 + " "]


# --------------------------------------------------------------------------
# real side
# --------------------------------------------------------------------------

class Target:
    def __init__(self, flavour, src_cache):
        from breezy.controldir import ControlDir, format_registry
        self.flavour = flavour
        self.remote = flavour.endswith("-remote")
        fmt = flavour.replace("-stacked", "").replace("-remote", "")
        self.stacked = flavour.endswith("-stacked")
        self.src = src_cache(fmt)
        self.dir = env.fresh_dir("c06t")
        f = format_registry.make_controldir(fmt)
        self.fmtobj = f
        br = ControlDir.create_branch_convenience(self.dir, format=f, force_new_tree=False)
        if self.stacked:
            bdir = env.fresh_dir("c06b")
            bb = ControlDir.create_branch_convenience(bdir, format=f, force_new_tree=False)
            bb.repository.fetch(self.src.repo, revision_id=self.src.revs[0])
            br.set_stacked_on_url(bb.base)
        self.names = {}       # real pack name -> canonical content
        self.server = None
        if self.remote:
            # the same directory through breezy's own smart server (bzr://127.0.0.1:<port>/): the write-group
            # API of RemoteRepository (start over RPC, resumed in the VFS-backed real repository on first use)
            from breezy import transport as T
            from breezy.bzr.smart import server as S
            self.server = S.SmartTCPServer(T.get_transport_from_path(self.dir), client_timeout=120)
            self.server.start_server("127.0.0.1", 0)
            self.server.start_background_thread("-c06")
            self.url = self.server.get_url()
        self.open()

    def open(self):
        from breezy.branch import Branch
        self.repo = Branch.open(self.url if self.remote else self.dir).repository
        self.repo.lock_write()

    def reopen(self):
        """unlock, drop the object, open and lock a new one; returns what unlock raised (or None)"""
        err = None
        try:
            self.repo.unlock()
        except Exception as e:
            err = e
        self.open()
        return err

    def close(self):
        try:
            if self.repo.is_in_write_group():
                self.repo.abort_write_group(suppress_errors=True)
            self.repo.unlock()
        except Exception:
            pass
        if self.server is not None:
            try:
                self.server.stop_background_thread()
            except Exception:
                pass

    def self_view(self):
        """the public key sets as THIS Repository object (the one that ran the operations) sees them"""
        r = self.repo
        if self.remote and getattr(r, "_real_repository", None) is None:
            # asking a RemoteRepository for its versioned files would create the VFS-backed real repository (and
            # move a group held as tokens into it): the pure-RPC states are left alone
            return None
        try:
            api = set()
            api.update(self.src.canon("revisions", (x,)) for x in r.all_revision_ids())
            api.update(self.src.canon("inventories", k) for k in r.inventories.keys())
            api.update(self.src.canon("texts", k) for k in r.texts.keys())
            api.update(self.src.canon("signatures", k) for k in r.signatures.keys())
            if getattr(r, "chk_bytes", None) is not None:
                api.update(self.src.canon("chk_bytes", k) for k in r.chk_bytes.keys())
            return sorted(api)
        except Exception as e:
            return "ERR:%s: %s" % (type(e).__name__, str(e)[:120])

    def insert(self, vf, n, fail_after=None):
        key = next(k for (v, k), m in self.src.num.items() if v == vf and m == n)
        svf = getattr(self.src.repo, vf)
        tvf = getattr(self.repo, vf)
        tvf.insert_record_stream(svf.get_record_stream([key], "unordered", False))

    def observe(self):
        """state of the directory through a fresh Repository object (no fallbacks)"""
        from breezy.controldir import ControlDir
        r2 = ControlDir.open(self.dir).open_repository()
        out = {}
        with r2.lock_read():
            pc = r2._pack_collection
            pc.ensure_loaded()
            packs = {}
            union = set()
            for p in pc.all_packs():
                keys = []
                for vf, attr in (("revisions", "revision_index"), ("inventories", "inventory_index"),
                                 ("texts", "text_index"), ("signatures", "signature_index"),
                                 ("chk_bytes", "chk_index")):
                    idx = getattr(p, attr, None)
                    if idx is None:
                        continue
                    for e in idx.iter_all_entries():
                        keys.append(self.src.canon(vf, e[1]))
                packs[p.name] = "+".join(sorted(keys)) or "."
                union.update(keys)
            api = set()
            api.update(self.src.canon("revisions", (r,)) for r in r2.all_revision_ids())
            api.update(self.src.canon("inventories", k) for k in r2.inventories.keys())
            api.update(self.src.canon("texts", k) for k in r2.texts.keys())
            api.update(self.src.canon("signatures", k) for k in r2.signatures.keys())
            if getattr(r2, "chk_bytes", None) is not None:
                api.update(self.src.canon("chk_bytes", k) for k in r2.chk_bytes.keys())
            up = sorted(n[:-5] for n in pc._upload_transport.list_dir(".") if n.endswith(".pack"))
        out["names"] = sorted(packs)
        out["packs"] = "|".join(sorted(packs.values())) or "-"
        out["pack_union"] = sorted(union)
        out["api"] = sorted(api)
        susp = [n for n in up if re.fullmatch("[a-f0-9]{32}", n)]
        out["upload_names"] = susp
        out["upload"] = "|".join(sorted(self.names.get(n, "?" + n) for n in susp)) or "-"
        out["upload_junk"] = len(up) - len(susp)
        return out


def _exc_class(e):
    from breezy import errors
    from bzrformats.errors import BzrCheckError
    if isinstance(e, errors.UnresumableWriteGroup):
        return "E:Unresumable"
    if isinstance(e, BzrCheckError):
        return "E:Check"
    if isinstance(e, AssertionError):
        return "E:Assertion"
    if type(e).__name__ == "UnknownErrorFromSmartServer" and b"AssertionError" in tuple(getattr(e, "error_tuple", ()) or ()):
        # the same AssertionError raised in the smart server (RemoteRepository.resume_write_group -> check_write_group)
        return "E:Assertion"
    if isinstance(e, errors.BzrError):
        m = str(e)
        if "already in a write group" in m:
            return "E:AlreadyInWG"
        if "mismatched lock context" in m or m.strip() == "not in write group":
            return "E:NotInWG"
        if "Must end write group before releasing write lock" in m:
            return "E:MustEndWG"
    return "E:%s" % type(e).__name__


class _Fault(Exception):
    pass


def run_real(flavour, ops, src_cache=source_for, direct=False):
    """interpret the script; returns per-op (result string, observation) and token book-keeping.
    direct=True: suspend/reopen/resume triples are skipped (twin run for the equivalence oracle)."""
    t = Target(flavour, src_cache)
    src = t.src
    issued = []            # real token strings in issue order
    steps = []
    group_recs = []        # canonical keys inserted into the open new pack
    resumed_recs = []      # canonical keys of the resumed packs
    resumed_n = 0
    try:
        for op in ops:
            kind = op[0]
            res = "ok"
            try:
                if kind == "S":
                    t.repo.start_write_group()
                    group_recs = []
                elif kind == "I":
                    t.insert(op[1], op[2])
                    key = next(k for (v, k), m in src.num.items() if v == op[1] and m == op[2])
                    group_recs.append(src.canon(op[1], key))
                elif kind == "F":
                    recs, k = op[1], op[2]
                    for j, (vf, n) in enumerate(recs):
                        if j == k:
                            # the k+1-th record's stream raises before yielding
                            key = next(kk for (v, kk), m in src.num.items() if v == vf and m == n)

                            def bad():
                                raise _Fault("injected")
                                yield  # pragma: no cover
                            try:
                                getattr(t.repo, vf).insert_record_stream(bad())
                            except _Fault:
                                res = "fault"
                            break
                        t.insert(vf, n)
                        key = next(kk for (v, kk), m in src.num.items() if v == vf and m == n)
                        group_recs.append(src.canon(vf, key))
                elif kind == "A":
                    t.repo.abort_write_group()
                    group_recs = []
                elif kind == "C":
                    t.repo.commit_write_group()
                    group_recs = []
                elif kind == "U":
                    toks = t.repo.suspend_write_group()
                    known = [x for x in toks if x in t.names]
                    new = [x for x in toks if x not in t.names]
                    if len(new) > 1:
                        res = "E:HarnessTwoNewTokens"
                    for x in new:
                        t.names[x] = "+".join(sorted(group_recs)) or "."
                    issued += toks
                    res = "T:" + ("&".join(t.names[x] for x in toks) or "-")
                    group_recs = []
                elif kind == "O":
                    # (unlock with an open write group aborts the group; the BzrError it raises is swallowed by
                    # @only_raises, the caller sees a normal return)
                    err = t.reopen()
                    if err is not None:
                        res = _exc_class(err)
                    group_recs = []
                elif kind == "R":
                    real = []
                    for spec in op[1]:
                        if spec[0] == "k":
                            real.append(issued[spec[1]] if spec[1] < len(issued) else "f" * 32)
                        elif spec[0] == "u":
                            real.append("0123456789abcdef" * 2)
                        else:
                            real.append(spec[1])
                    t.repo.resume_write_group(real)
                    group_recs = []
                    resumed_recs = [x for tk in real for x in t.names.get(tk, ".").split("+") if x != "."]
                    resumed_n = len(real)
            except Exception as e:  # mapped to a class; unexpected ones show up as a T2 difference
                res = _exc_class(e)
            obs = t.observe()
            obs["in_wg"] = bool(t.repo.is_in_write_group())
            obs["rpc_group"] = getattr(t.repo, "_write_group_tokens", None) is not None
            obs["self_api"] = t.self_view()
            if not obs["in_wg"]:
                resumed_recs = []
                resumed_n = 0
            obs["resumed_n"] = resumed_n
            obs["group"] = sorted(set(group_recs) | set(resumed_recs)) if obs["in_wg"] else []
            steps.append((res, obs))
    finally:
        t.close()
    return steps, issued, t


def _rec(src, vf, key, base):
    """model record; a delta whose compression parent lives in the fallback repository is stored as
    a full text by knit's insert_record_stream, so it travels without compression parent"""
    r = src.rec[(vf, key)]
    f = r.split(":")
    if base and f[2] != "~" and ("%s%s" % (f[0], f[2])) in base:
        f[2] = "~"
    return ":".join(f)


def base_keys(src, stacked):
    if not stacked:
        return set()
    p = src.of_rev[0]
    return {src.canon(*x) for x in [p["rev"], p["inv"]] + p["chk"] + p["texts"]}


def model_ops(ops, src, base=()):
    out = []
    for op in ops:
        k = op[0]
        if k in "SACUO":
            out.append(k)
        elif k == "I":
            key = next(kk for (v, kk), m in src.num.items() if v == op[1] and m == op[2])
            out.append("I" + _rec(src, op[1], key, base))
        elif k == "F":
            # the records before the failing one are inserted one by one
            sub = []
            for vf, n in op[1][:op[2]]:
                key = next(kk for (v, kk), m in src.num.items() if v == vf and m == n)
                sub.append("I" + _rec(src, vf, key, base))
            out.append(sub)
        elif k == "R":
            toks = []
            for spec in op[1]:
                toks.append("k%d" % spec[1] if spec[0] == "k" else spec[0])
            out.append("R" + ("+".join(toks) or "-"))
    return out


def flat(mops):
    r = []
    for m in mops:
        if isinstance(m, list):
            r += m
        else:
            r.append(m)
    return r


def _worker(item):
    idx, flavour, ops = item
    try:
        steps, issued, t = run_real(flavour, ops)
        src = t.src
        base = base_keys(src, t.stacked)
        mops = model_ops(ops, src, base)
        lines = []
        impl = []
        fm = "C" if src.chk else "K"
        for i in range(len(ops)):
            pre = flat(mops[:i + 1])
            lines.append("run %s - %s" % (fm, "/".join(pre) or "-"))
            # results of all ops so far (a fault op expands to its insertions: all ok)
            rs = []
            for j in range(i + 1):
                if isinstance(mops[j], list):
                    rs += ["ok"] * len(mops[j])
                else:
                    rs.append(steps[j][0])
            o = steps[i][1]
            impl.append("%s %s %s %s" % (",".join(rs) or "-", o["packs"], o["upload"], "T" if o["in_wg"] else "F"))
        cps = {}
        for (vf, key), recs in src.rec.items():
            f = recs.split(":")
            if f[2] != "~" and ("%s%s" % (f[0], f[2])) not in base:
                cps[src.canon(vf, key)] = "%s%s" % (f[0], f[2])
        needs = {}
        for i, parts in src.of_rev.items():
            needs[src.canon(*parts["rev"])] = [src.canon(*x) for x in [parts["inv"]] + parts["chk"] + parts["texts"]]
        alltexts = {}
        if src.chk:
            for i, rid in enumerate(src.revs):
                inv = src.repo.get_inventory(rid)
                alltexts[src.canon("revisions", (rid,))] = dict(
                    texts=sorted(src.canon("texts", (ie.file_id, ie.revision)) for _, ie in inv.iter_entries_by_dir()),
                    parent_inv=src.canon("inventories", (src.revs[i - 1],)) if i else None,
                    parent_rev=src.canon("revisions", (src.revs[i - 1],)) if i else None)
        return dict(steps=[(r, o) for r, o in steps], lines=lines, impl=impl, issued=issued, cps=cps,
                    chk=src.chk, needs=needs, alltexts=alltexts)
    except env.InfraError:
        raise
    except Exception as e:
        import traceback
        return dict(error=repr(e), tb=traceback.format_exc()[-1500:])


# --------------------------------------------------------------------------
# oracle
# --------------------------------------------------------------------------

FAMILY_STALE = "knit-missing-compression-parent-survives-abort"


def oracle(ctx, case, ops, steps, issued, cps=None, chk=True, needs=None, alltexts=None):
    bad = []
    stacked = case.get("flavour", "").endswith("-stacked")
    aborted_incomplete = False    # this Repository object aborted a group with a missing compression parent
    partial = False
    opened = None        # observation when the current group was opened
    self_opened = None   # ... and what the Repository object that opened it saw itself
    unusable = False     # the object raised AssertionError (duplicate tokens): nothing is expected of it
    prev = None
    for i, (op, (res, obs)) in enumerate(zip(ops, steps)):
        k = op[0]
        sv = obs.get("self_api")
        if k == "O":
            unusable = False
            self_opened = None
        if res == "E:Assertion":
            unusable = True
        if sv is not None and not unusable:
            # the SAME object that aborted / was refused / committed (not a fresh one) must see the same thing
            if isinstance(sv, str):
                if k in ("A", "C") and res in ("ok", "E:Check"):
                    bad.append(("op %d %r (%s): the Repository object cannot list its own keys afterwards: %s" % (
                        i, op, res, sv), None))
            else:
                if k in ("S", "R") and res == "ok" and prev is not None and isinstance(prev.get("self_api"), list):
                    self_opened = prev["self_api"]
                if k == "A" and res == "ok" and self_opened is not None and sv != self_opened:
                    bad.append(("op %d abort: the aborting Repository object still sees %r (it saw %r before the group)" % (
                        i, sorted(set(sv) ^ set(self_opened)), self_opened), None))
                if k == "C" and res == "E:Check" and prev is not None and isinstance(prev.get("self_api"), list) \
                        and sv != prev["self_api"]:
                    bad.append(("op %d refused commit: the object's own view changed by %r" % (
                        i, sorted(set(sv) ^ set(prev["self_api"]))), None))
                if not obs["in_wg"] and not set(obs["api"]) <= set(sv):
                    bad.append(("op %d %r (%s): the object that ran it does not see %r which a fresh object sees" % (
                        i, op, res, sorted(set(obs["api"]) - set(sv))), None))
                if not obs["in_wg"] and not stacked and set(sv) != set(obs["api"]):
                    bad.append(("op %d %r (%s): outside a write group the object sees %r more than a fresh object" % (
                        i, op, res, sorted(set(sv) - set(obs["api"]))), None))
        if set(obs["api"]) != set(obs["pack_union"]):
            bad.append("op %d %r: public key sets %r differ from the listed packs' keys %r" % (
                i, op, obs["api"], obs["pack_union"]))
        if k in ("S", "R") and res == "ok":
            opened = prev
        if k == "O":
            aborted_incomplete = False
            partial = False
        if k == "C" and res == "E:Check" and prev is not None and prev["upload_names"] != obs["upload_names"]:
            # family: knit pack format, >= 2 resumed packs, the refusal comes from a later pack's
            # reference check after an earlier resumed pack was already finished
            fam = None      # fixed in /repo 0430fe1: a plain violation if it returns
            partial = False
            bad.append(("op %d commit: refused (BzrCheckError) but suspended packs %r disappeared from upload/ "
                        "(now %r)" % (i, sorted(set(prev["upload_names"]) - set(obs["upload_names"])),
                                      obs["upload_names"]), fam))
        if k == "A" and not (res == "ok" or res == "E:NotInWG"):
            bad.append(("op %d abort_write_group raised %s" % (i, res), None))
        if partial and k in ("S", "C", "I", "U", "R") and res.startswith("E:") and res not in (
                "E:Check", "E:NotInWG", "E:AlreadyInWG", "E:Unresumable", "E:Assertion", "E:AttributeError"):
            bad.append(("op %d %r raised %s on the Repository object left by the refused commit" % (i, op, res),
                        None))
        if cps is not None and not chk and prev is not None:
            own = set(prev["pack_union"]) | set(prev["group"])
            lacking = [x for x in prev["group"] if x in cps and cps[x] not in own]
            if k == "A" and res == "ok" and lacking:
                aborted_incomplete = True
            if k == "C" and res == "ok" and lacking:
                bad.append(("op %d commit accepted a write group in which %r lack their compression parents" % (
                    i, lacking), None))
            if k == "C" and res == "E:Check" and not lacking:
                bad.append(("op %d commit: a write group whose records %r lack no compression parent is refused "
                            "(BzrCheckError)%s" % (i, prev["group"], " after an earlier group with a missing "
                            "compression parent was aborted on the same Repository object" if aborted_incomplete else ""),
                            FAMILY_STALE if aborted_incomplete else None))
        if k in ("I", "F", "U", "R", "S", "O") or (k in ("A", "C") and res != "ok"):
            # nothing but a successful commit may change what is listed / visible
            if prev is not None and (obs["names"] != prev["names"] or obs["api"] != prev["api"]):
                bad.append("op %d %r (%s): listed packs / visible keys changed %r -> %r" % (
                    i, op, res, prev["names"], obs["names"]))
        if k == "A" and res == "ok" and opened is not None:
            if obs["names"] != opened["names"] or obs["api"] != opened["api"]:
                bad.append("op %d abort: pack-names %r / keys differ from before the group %r" % (
                    i, obs["names"], opened["names"]))
        if chk and needs is not None and k == "C" and res == "ok" and prev is not None:
            # a revision that became visible must come with its inventory, its chk root pages and
            # the texts it introduces itself (these can never be supplied by a parent inventory)
            vis = set(obs["api"])
            for rv in sorted(vis - set(prev["api"])):
                if rv in needs:
                    miss = [x for x in needs[rv] if x not in vis]
                    if miss:
                        bad.append(("op %d commit accepted revision %s although %r are absent" % (i, rv, miss), None))
            # stacking rule as _check_new_inventories applies it (one diff for the whole group): texts named
            # by the inventories of the new revisions, except those named by inventories that this repository
            # holds only as parents of the new revisions, must be in this repository itself
            if alltexts:
                newrevs = [rv for rv in sorted(vis - set(prev["api"])) if rv in alltexts]
                inherited = set()
                for rv in newrevs:
                    a = alltexts[rv]
                    if a["parent_inv"] is not None and a["parent_inv"] in vis and a["parent_rev"] not in newrevs:
                        inherited.update(alltexts[a["parent_rev"]]["texts"])
                for rv in newrevs:
                    miss = [x for x in alltexts[rv]["texts"] if x not in inherited and x not in vis]
                    if miss:
                        bad.append(("op %d commit accepted revision %s although the texts %r its inventory names are "
                                    "neither in this repository nor named by a parent-only inventory it holds" % (
                                        i, rv, miss), None))
        prev = obs
    for tk in issued:
        if not re.fullmatch("[a-f0-9]{32}", tk):
            bad.append("suspend returned a malformed token %r" % tk)
    out = []
    fams = set()
    for b in bad:
        msg, fam = b if isinstance(b, tuple) else (b, None)
        out.append(dict(what=msg, family=fam))
        if fam in fams or (fam is None and len(fams) >= 3):
            continue
        fams.add(fam)
        ctx.violation(case, msg, family=fam)
    return out


def run(ctx, n=None):
    flavours = ctx.pick(FLAVOURS_QUICK, FLAVOURS_ALL)
    n = n or ctx.pick(90, 600)
    items = []
    srcs = {}
    for fl in flavours:
        srcs[fl] = source_for(fl.replace("-stacked", "").replace("-remote", ""))
    corpus_dir = os.path.join(env.VERIF, "corpus", "C06")
    if os.path.isdir(corpus_dir):
        import json
        for fn in sorted(os.listdir(corpus_dir)):
            c = json.load(open(os.path.join(corpus_dir, fn)))
            items.append((len(items), c["flavour"], c["ops"]))
    for i in range(n):
        fl = flavours[i % len(flavours)]
        ops = gen_script(ctx.rng, srcs[fl], fl.endswith("-stacked"), fl.endswith("-remote"))
        items.append((len(items), fl, ops))
    for it in equivalence_items(ctx, flavours, srcs, ctx.pick(30, 120)):
        items.append((len(items),) + it)
    results = ctx.pmap(_worker, items, chunksize=1)
    cases, lines, impls = [], [], []
    for (idx, fl, ops), res in zip(items, results):
        case = dict(flavour=fl, ops=ops)
        if "error" in res:
            ctx.violation(case, "script crashed: %s\n%s" % (res["error"], res["tb"]), family=None)
            ctx.count("crashed")
            continue
        kinds = [o[0] for o in ops]
        results_s = [r for r, _ in res["steps"]]
        nontrivial = ("E:Check" in results_s) or ("R" in kinds) or any(
            kinds[j] == "A" and results_s[j] == "ok" and j > 0 and kinds[j - 1] in "IF" for j in range(len(kinds)))
        ctx.case(case, nontrivial=nontrivial, n=len(ops))
        ctx.count("flavour:" + fl)
        for j, (k, r) in enumerate(zip(kinds, results_s)):
            ctx.count("op:%s:%s" % (k, r.split(":")[0] + (":" + r.split(":")[1] if r.startswith("E:") else "")))
            if k == "O" and j > 0 and res["steps"][j - 1][1]["in_wg"]:
                ctx.count("op:O:with-open-group")
            if res["steps"][j][1].get("rpc_group"):
                ctx.count("remote:group-held-as-tokens-over-rpc")
        last = res["steps"][-1][1]
        if last["upload_junk"] and not last["in_wg"]:
            ctx.count("scripts_leaving_unnamed_files_in_upload")
        oracle(ctx, case, ops, res["steps"], res["issued"], res["cps"], res["chk"], res["needs"], res["alltexts"])
        for j, (l, im) in enumerate(zip(res["lines"], res["impl"])):
            cases.append(dict(case, prefix=j + 1))
            lines.append(l)
            impls.append(im)
    equivalence_oracle(ctx, items, results)
    if ctx.model_available:
        ctx.diff(cases, lines, impls)


# -- suspend/resume/commit ≡ commit, on the real code ------------------------

def equivalence_items(ctx, flavours, srcs, n):
    """pairs of scripts: (a) S, inserts, C, A   (b) S, chunk, U, O, R(all), chunk, U, O, R(all), ..., rest, C, A"""
    out = []
    for i in range(n):
        fl = flavours[i % len(flavours)]
        src = srcs[fl]
        stacked = fl.endswith("-stacked")
        first = 1 if stacked else 0
        recs = []
        for ri in sorted(ctx.rng.sample(range(first, len(src.revs)), ctx.rng.randrange(1, 3))):
            p = src.of_rev[ri]
            r = [p["rev"], p["inv"]] + p["chk"] + p["texts"] + p["sig"]
            if ctx.rng.random() < 0.5:
                r.remove(ctx.rng.choice(r))
            recs += [x for x in r if x not in recs]
        ins = [["I", vf, src.num[(vf, key)]] for vf, key in recs]
        a = [["S"]] + ins + [["C"], ["A"]]
        # 1..3 cycles of (insert a chunk, suspend, new object, resume with all tokens of that suspend), then the
        # rest; a chunk may be empty (theorem suspend_resume_cycles_eq_commit)
        m = ctx.rng.choice((1, 1, 2, 3))
        cuts = sorted(ctx.rng.randrange(0, len(ins) + 1) for _ in range(m))
        pieces = [ins[x:y] for x, y in zip([0] + cuts, cuts + [len(ins)])]
        b = [["S"]]
        total = live_n = 0
        for piece in pieces[:-1]:
            b += piece
            if piece:
                live_n += 1
            b += [["U"], ["O"], ["R", [["k", t] for t in range(total, total + live_n)]]]
            total += live_n
        b += pieces[-1] + [["C"], ["A"]]
        out.append((fl, a))
        out.append((fl, b))
    return out


def equivalence_oracle(ctx, items, results):
    pairs = {}
    for (idx, fl, ops), res in zip(items, results):
        if "error" in res or len(ops) < 3 or ops[-2] != ["C"] or ops[0] != ["S"]:
            continue
        ins = tuple(tuple(o) for o in ops if o[0] == "I")
        if any(o[0] in "FA" for o in ops[:-1]) or sum(1 for o in ops if o[0] == "C") != 1:
            continue
        pairs.setdefault((fl, ins), []).append((ops, res))
    for (fl, ins), lst in pairs.items():
        direct = [x for x in lst if not any(o[0] == "U" for o in x[0])]
        susp = [x for x in lst if any(o[0] == "U" for o in x[0])]
        if not direct or not susp:
            continue
        dops, dres = direct[0]
        dci = len(dops) - 2
        for sops, sres in susp:
            sci = len(sops) - 2
            a = dres["steps"][dci]
            b = sres["steps"][sci]
            ctx.count("equivalence_pairs")
            same_split = len(a[1]["names"]) == len(b[1]["names"])
            if a[0] != b[0] or a[1]["api"] != b[1]["api"] or (same_split and a[1]["names"] != b[1]["names"]):
                ctx.violation(dict(flavour=fl, ops=sops, direct=dops),
                              "suspend/resume/commit gives %s packs %r, direct commit gives %s packs %r" % (
                                  b[0], b[1]["names"], a[0], a[1]["names"]), family=None)


def widen(ctx):
    run(ctx, n=200)


def replay(ctx, case):
    res = _worker((0, case["flavour"], case["ops"]))
    if "error" in res:
        return dict(case=case, error=res["error"], tb=res["tb"])
    bad = oracle(ctx, case, case["ops"], res["steps"], res["issued"], res["cps"], res["chk"], res["needs"], res["alltexts"])
    m = ctx.model(res["lines"]) if ctx.model_available else None
    out = dict(case=case, impl=res["impl"], model=m, oracle_failures=bad)
    if "direct" in case:
        d = _worker((0, case["flavour"], case["direct"]))
        out["direct_impl"] = d.get("impl")
        if d.get("impl") and res["impl"]:
            a, b = d["steps"][-2], res["steps"][-2]
            if a[0] != b[0] or a[1]["api"] != b[1]["api"] or (
                    len(a[1]["names"]) == len(b[1]["names"]) and a[1]["names"] != b[1]["names"]):
                ctx.violation(case, "suspend/resume/commit %s %r vs direct %s %r" % (
                    b[0], b[1]["names"], a[0], a[1]["names"]), family=None)
    return out
