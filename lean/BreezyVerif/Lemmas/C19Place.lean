import BreezyVerif.Model.C19
/-! C19 — helper lemmas for the placement part (final path, helper names, path-keyed resolution) -/
namespace BreezyVerif.C19

theorem suffixed_ne_self (l : Loc) (s : Bytes) (h : s ≠ []) : l.suffixed s ≠ l := by
  intro e
  have : l.name ++ s = l.name := by
    have := congrArg Loc.name e
    simpa [Loc.suffixed] using this
  exact h (List.append_right_eq_self.mp this)

theorem suffixed_inj (l : Loc) (s1 s2 : Bytes) (e : l.suffixed s1 = l.suffixed s2) : s1 = s2 := by
  have := congrArg Loc.name e
  simpa [Loc.suffixed] using this

theorem sfxBase_ne : sfxBase ≠ [] := by decide
theorem sfxThis_ne : sfxThis ≠ [] := by decide
theorem sfxOther_ne : sfxOther ≠ [] := by decide

@[simp] theorem base_ne_self (l : Loc) : (l.suffixed sfxBase = l) = False :=
  eq_false (suffixed_ne_self l _ sfxBase_ne)
@[simp] theorem this_ne_self (l : Loc) : (l.suffixed sfxThis = l) = False :=
  eq_false (suffixed_ne_self l _ sfxThis_ne)
@[simp] theorem other_ne_self (l : Loc) : (l.suffixed sfxOther = l) = False :=
  eq_false (suffixed_ne_self l _ sfxOther_ne)
@[simp] theorem self_ne_base (l : Loc) : (l = l.suffixed sfxBase) = False :=
  eq_false (fun e => suffixed_ne_self l _ sfxBase_ne e.symm)
@[simp] theorem self_ne_this (l : Loc) : (l = l.suffixed sfxThis) = False :=
  eq_false (fun e => suffixed_ne_self l _ sfxThis_ne e.symm)
@[simp] theorem self_ne_other (l : Loc) : (l = l.suffixed sfxOther) = False :=
  eq_false (fun e => suffixed_ne_self l _ sfxOther_ne e.symm)
@[simp] theorem base_ne_this (l : Loc) : (l.suffixed sfxBase = l.suffixed sfxThis) = False :=
  eq_false (fun e => absurd (suffixed_inj l _ _ e) (by decide))
@[simp] theorem base_ne_other (l : Loc) : (l.suffixed sfxBase = l.suffixed sfxOther) = False :=
  eq_false (fun e => absurd (suffixed_inj l _ _ e) (by decide))
@[simp] theorem this_ne_base (l : Loc) : (l.suffixed sfxThis = l.suffixed sfxBase) = False :=
  eq_false (fun e => absurd (suffixed_inj l _ _ e) (by decide))
@[simp] theorem this_ne_other (l : Loc) : (l.suffixed sfxThis = l.suffixed sfxOther) = False :=
  eq_false (fun e => absurd (suffixed_inj l _ _ e) (by decide))
@[simp] theorem other_ne_base (l : Loc) : (l.suffixed sfxOther = l.suffixed sfxBase) = False :=
  eq_false (fun e => absurd (suffixed_inj l _ _ e) (by decide))
@[simp] theorem other_ne_this (l : Loc) : (l.suffixed sfxOther = l.suffixed sfxThis) = False :=
  eq_false (fun e => absurd (suffixed_inj l _ _ e) (by decide))

theorem threeWay_some {α : Type} [DecidableEq α] (a b c : α) :
    C18.threeWay (some a) (some b) (some c) = C18.threeWay a b c := by
  simp [C18.threeWay]

/-- for an entry present in BASE the optional-BASE content merge is the plain one -/
theorem mergeFileOpt_some (o : Opts) (base this other : List Line) (regions : List Region) :
    mergeFileOpt o (some base) this other regions = mergeFile o base this other regions := by
  simp [mergeFileOpt, mergeFile, threeWay_some, baseLinesOf]

/-- the conflict object at the final path sees exactly the slot of the outcome
(without the `.BASE` helper when the entry is not in BASE) -/
theorem view_place (l : Loc) (pc hb : Bool) (out : Outcome) (p : Placed) (h : place l pc hb out = some p) :
    some (p.view l) = out.slot.map fun s => if hb then s else { s with hBase := none } := by
  cases out with
  | clean c =>
    simp only [place, Option.some.injEq] at h; subst h
    cases hb <;> simp [Placed.view, Placed.get, Placed.idLoc, Outcome.slot, lookupLoc]
  | textConflict c b t o =>
    simp only [place, Option.some.injEq] at h; subst h
    cases hb <;> simp [Placed.view, Placed.get, Placed.idLoc, Outcome.slot, lookupLoc, optFile]
  | contentsConflict b t o =>
    simp only [place, Option.some.injEq] at h; subst h
    cases hb <;> simp [Placed.view, Placed.get, Placed.idLoc, Outcome.slot, lookupLoc, optFile]
  | error e => simp [place] at h

/-- every file an entry leaves is the file itself or one of its three helpers, in the final directory -/
theorem place_files (l : Loc) (pc hb : Bool) (out : Outcome) (p : Placed) (h : place l pc hb out = some p) :
    ∀ f ∈ p.files, f.1 = l ∨ f.1 = l.suffixed sfxBase ∨ f.1 = l.suffixed sfxThis ∨ f.1 = l.suffixed sfxOther := by
  cases out with
  | clean c =>
    simp only [place, Option.some.injEq] at h; subst h
    intro f hf; simp at hf; simp [hf]
  | textConflict c b t o =>
    simp only [place, Option.some.injEq] at h; subst h
    intro f hf
    cases hb <;> simp [optFile] at hf <;> rcases hf with rfl | rfl | rfl | rfl <;> simp
  | contentsConflict b t o =>
    simp only [place, Option.some.injEq] at h; subst h
    intro f hf
    cases hb <;> simp [optFile] at hf <;> rcases hf with rfl | rfl | rfl <;> simp
  | error e => simp [place] at h

end BreezyVerif.C19
