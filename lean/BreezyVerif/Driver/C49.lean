import BreezyVerif.Common
import BreezyVerif.Model.C49
namespace BreezyVerif.C49

/-- a string travels as its code points in decimal joined by `.`; `e` = empty -/
def decStr (s : String) : Option Str :=
  if s == "e" then some [] else
  (s.splitOn ".").mapM fun f => (f.toNat?).bind fun n =>
    if n < 0xd800 ∨ (0xdfff < n ∧ n < 0x110000) then some (Char.ofNat n) else none

def encStr (s : Str) : String :=
  if s.isEmpty then "e" else ".".intercalate (s.map fun c => toString c.toNat)

/-- `k=v` -/
def decOpt (s : String) : Option (Str × Str) :=
  match s.splitOn "=" with
  | [k, v] => do pure ((← decStr k), (← decStr v))
  | _ => none

/-- a section: `id:k=v:k=v…` with id `~` for the no-name section -/
def decSection (s : String) : Option RawSection :=
  match s.splitOn ":" with
  | [] => none
  | i :: os => do
    let id ← (if i == "~" then some none else (decStr i).map some)
    let opts ← os.mapM decOpt
    pure ⟨id, opts⟩

def decSections (s : String) : Option (List RawSection) := (splitList s).mapM decSection

/-- split what the store yields into the no-name section and the prepared named ones;
outer `none` = a section id outside the glob grammar -/
def splitStore (rs : List RawSection) : Option (Option (List (Str × Str)) × List PSec) :=
  let noName := (rs.find? fun r => r.id.isNone).map (·.opts)
  let named := rs.filterMap fun r => r.id.map fun i => (i, r.opts)
  (named.mapM fun io => prepare io.1 io.2).map fun ps => (noName, ps)

def showRes : Res → String
  | .none => "N"
  | .val v => "S " ++ encStr v
  | .unmodelled => "R"

def showSecs (l : List LocSection) : String :=
  joinList (l.map fun s => (match s.id with | some i => encStr i | none => "~") ++ ">" ++ encStr s.extra)

/-- `excl` = the code as it is (the ignoring section itself is not consulted),
`incl` = the documented cut (selected by the harness only if the code behaves so) -/
def cutVariant (s : String) : Option Bool :=
  if s == "excl" then some false else if s == "incl" then some true else none

def locSecs (incl : Bool) (nn : Option (List (Str × Str))) (ps : List PSec) (loc : Str) : List LocSection :=
  if incl then cutAfterIgnoring (sortedSections nn ps loc) else locationSections nn ps loc

/-- `lm variant loc name secs` / `sp loc name secs`: Stack.get through LocationMatcher / StartingPathMatcher;
`ms variant loc secs` / `ss loc secs`: the sections they yield (id>extra_path);
`it loc names`: `_iter_for_location_by_parts`; `uq v`: unquote; `bn v`: basename; `jn a b`: join -/
def handle : List String → String
  | ["lm", v, loc, name, secs] =>
    match cutVariant v, decStr loc, decStr name, decSections secs with
    | some v, some loc, some name, some rs =>
      match splitStore rs with
      | some (nn, ps) => showRes (stackGet (locSecs v nn ps loc) name)
      | none => "G"
    | _, _, _, _ => "bad-op"
  | ["sp", loc, name, secs] =>
    match decStr loc, decStr name, decSections secs with
    | some loc, some name, some rs =>
      match splitStore rs with
      | some (nn, ps) => showRes (stackGet (startingSections nn ps loc) name)
      | none => "G"
    | _, _, _ => "bad-op"
  | ["ms", v, loc, secs] =>
    match cutVariant v, decStr loc, decSections secs with
    | some v, some loc, some rs =>
      match splitStore rs with
      | some (nn, ps) => showSecs (locSecs v nn ps loc)
      | none => "G"
    | _, _, _ => "bad-op"
  | ["ss", loc, secs] =>
    match decStr loc, decSections secs with
    | some loc, some rs =>
      match splitStore rs with
      | some (nn, ps) => showSecs (startingSections nn ps loc)
      | none => "G"
    | _, _ => "bad-op"
  | ["it", loc, names] =>
    match decStr loc, (splitList names).mapM decStr with
    | some loc, some ns =>
      match ns.mapM fun n => prepare n [] with
      | some ps => joinList ((iterByParts ps loc).map fun m =>
          encStr m.1.id ++ ">" ++ encStr m.2.1 ++ ">" ++ toString m.2.2)
      | none => "G"
    | _, _ => "bad-op"
  | ["uq", v] =>
    match decStr v with
    | some v => encStr (unquote v)
    | none => "bad-op"
  | ["bn", v] =>
    match decStr v with
    | some v => encStr (urlBasename v)
    | none => "bad-op"
  | ["jn", a, b] =>
    match decStr a, decStr b with
    | some a, some b => encStr (joinPath a b)
    | _, _ => "bad-op"
  | _ => "bad-op"

end BreezyVerif.C49

def main : IO Unit := BreezyVerif.runDriver BreezyVerif.C49.handle
