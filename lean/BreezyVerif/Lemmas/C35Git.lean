import BreezyVerif.Model.C35
import BreezyVerif.Lemmas.C35
/-
Helper lemmas for Props/C35.lean: git-first trees (`import_export_git`) and the
items a round trip preserves (`canon_items`).
-/
namespace BreezyVerif.C35

/-! ### modes -/

theorem mode_roundtrip_git' (m : Nat) :
    exportMode (unusualOf m) (importClass m).kind (importExec m) = m := by
  unfold unusualOf
  split
  · rename_i h
    simp only [defaultModes, List.contains_cons, List.contains_nil, Bool.or_false, Bool.or_eq_true,
      beq_iff_eq] at h
    rcases h with h | h | h | h | h <;> subst h <;> decide
  · rfl

theorem mode_file_rt (m : Nat) (h : importClass m = .file) :
    exportMode (unusualOf m) .file (importExec m) = m := by
  have := mode_roundtrip_git' m
  rw [h] at this
  exact this

theorem mode_link_rt (m : Nat) (h : importClass m = .symlink) :
    exportMode (unusualOf m) .symlink false = m := by
  have := mode_roundtrip_git' m
  have he : importExec m = false := by simp [importExec, h]
  rw [h, he] at this
  exact this

/-! ### export of a fetched git tree -/

theorem storeGet_mem : ∀ (st : Store) (s : Sha) (o : GObj), st.get s = some o → (s, o) ∈ st
  | [], _, _, h => by simp [Store.get] at h
  | (k, o') :: rest, s, o, h => by
    simp only [Store.get] at h
    split at h
    · rename_i hk
      simp only [Option.some.injEq] at h
      subst hk; subst h
      simp
    · exact List.mem_cons_of_mem _ (storeGet_mem rest s o h)

theorem impList_native (H : GObj → Sha) (g : Entry → Option PNode) (ok : Entry → Bool)
    (hg : ∀ e p, g e = some p → ok e = true → banned e.name = false ∧ expNode H (nativeOf p) = some (e.mode, e.sha)) :
    ∀ (es : List Entry) (ps : List (Bytes × PNode)), impList g es = some ps → es.all ok = true →
      expChildren H (nativeOfL ps) = es
  | [], ps, h, _ => by
    simp only [impList, Option.some.injEq] at h
    subst h
    simp [nativeOfL, expChildren]
  | e :: es, ps, h, hok => by
    obtain ⟨p, qs, hp, hq, rfl⟩ := impList_cons_some h
    simp only [List.all_cons, Bool.and_eq_true] at hok
    obtain ⟨hb, he⟩ := hg e p hp hok.1
    have ih := impList_native H g ok hg es qs hq hok.2
    simp only [nativeOfL, expChildren, hb, Bool.false_eq_true, if_false, he, ih]

theorem impEntry_native (H : GObj → Sha) (st : Store) (hwf : ∀ p ∈ st, p.1 = H p.2) :
    ∀ (f : Nat) (e : Entry) (p : PNode), impEntry st f e = some p → entryOK st f e = true →
      banned e.name = false ∧ expNode H (nativeOf p) = some (e.mode, e.sha)
  | 0, e, p, h, _ => by simp [impEntry] at h
  | f + 1, e, p, h, hok => by
    simp only [entryOK, Bool.and_eq_true, Bool.not_eq_eq_eq_not, Bool.not_true] at hok
    refine ⟨hok.1, ?_⟩
    have hok2 := hok.2
    simp only [impEntry] at h
    split at h
    · -- a subtree
      rename_i hc
      simp only [hc, Bool.and_eq_true, beq_iff_eq] at hok2
      obtain ⟨hmode, hsub⟩ := hok2
      split at h
      · rename_i es hget
        simp only [hget, Bool.and_eq_true, Bool.not_eq_eq_eq_not, Bool.not_true] at hsub
        obtain ⟨⟨hne, hsorted⟩, hall⟩ := hsub
        simp only [Option.map_eq_some_iff] at h
        obtain ⟨cs, hcs, rfl⟩ := h
        have hch := impList_native H (impEntry st f) (entryOK st f) (impEntry_native H st hwf f) es cs hcs hall
        have hid : e.sha = H (.tree es) := hwf _ (storeGet_mem st e.sha _ hget)
        simp only [nativeOf, expNode, hch, hne, Bool.false_eq_true, if_false, sortEntries,
          sortBy_id_of_sorted' Entry.key es hsorted, hmode, hid]
      · simp at h
    · simp at h
    · rename_i hc
      split at h
      · rename_i d hget
        simp only [Option.some.injEq] at h
        subst h
        have hid : e.sha = H (.blob d) := hwf _ (storeGet_mem st e.sha _ hget)
        simp only [nativeOf, expNode, mode_link_rt e.mode hc, hid]
      · simp at h
    · rename_i hc
      split at h
      · rename_i d hget
        simp only [Option.some.injEq] at h
        subst h
        have hid : e.sha = H (.blob d) := hwf _ (storeGet_mem st e.sha _ hget)
        simp only [nativeOf, expNode, mode_file_rt e.mode hc, hid]
      · simp at h

/-! ### permutations produced by the sort -/

theorem insertBy_perm {α : Type} (key : α → Bytes) (x : α) : ∀ (l : List α), (insertBy key x l).Perm (x :: l)
  | [] => by simp [insertBy]
  | y :: ys => by
    simp only [insertBy]
    split
    · exact List.Perm.refl _
    · exact ((insertBy_perm key x ys).cons y).trans (List.Perm.swap x y ys)

theorem sortBy_perm {α : Type} (key : α → Bytes) : ∀ (l : List α), (sortBy key l).Perm l
  | [] => by simp [sortBy]
  | x :: xs => by
    simp only [sortBy]
    exact (insertBy_perm key x _).trans ((sortBy_perm key xs).cons x)

/-! ### representation -/

mutual
theorem expNode_isSome (H : GObj → Sha) : (n : Node) → (expNode H n).isSome = hasLeaf n
  | .file .. => by simp [expNode, hasLeaf]
  | .link .. => by simp [expNode, hasLeaf]
  | .dir cs => by
    simp only [expNode, hasLeaf]
    have := expChildren_isEmpty H cs
    cases h : hasLeafC cs <;> simp [h] at this <;> simp [this]
theorem expChildren_isEmpty (H : GObj → Sha) : (cs : Children) → (expChildren H cs).isEmpty = !hasLeafC cs
  | .nil => by simp [expChildren, hasLeafC]
  | .cons name n rest => by
    simp only [expChildren, hasLeafC]
    have h1 := expNode_isSome H n
    have h2 := expChildren_isEmpty H rest
    by_cases hb : banned name = true
    · simp [hb, h2]
    · simp only [hb, Bool.false_eq_true, if_false]
      cases he : expNode H n with
      | none =>
        simp only [he, Option.isSome_none] at h1
        simp [← h1, h2]
      | some ms =>
        simp only [he, Option.isSome_some] at h1
        simp [← h1]
end

theorem itemsPL_flatMap (pre : Path) : ∀ (l : List (Bytes × PNode)),
    itemsPL pre l = l.flatMap fun x => itemsP (pre ++ [x.1]) x.2
  | [] => by simp [itemsPL]
  | (n, p) :: rest => by simp [itemsPL, itemsPL_flatMap pre rest]

theorem itemsPL_sort (pre : Path) (l : List (Bytes × PNode)) :
    (itemsPL pre (sortBy pkey l)).Perm (itemsPL pre l) := by
  rw [itemsPL_flatMap, itemsPL_flatMap]
  exact List.Perm.flatMap_right _ (sortBy_perm pkey l)

theorem importExec_objectMode_file (x : Bool) : importExec (objectMode .file x) = x := by
  cases x <;> decide

mutual
theorem canon_items_node (H : GObj → Sha) : (n : Node) → (pre : Path) → plain n = true →
    (match canonNode H n with
      | some p => itemsP pre p
      | none => []).Perm (itemsN pre n)
  | .file k c x um, pre, hp => by
    simp only [plain, Option.isNone_iff_eq_none] at hp
    subst hp
    simp only [canonNode, itemsP, itemsN, exportMode, importExec_objectMode_file]
    exact List.Perm.refl _
  | .link k t um, pre, hp => by
    simp only [canonNode, itemsP, itemsN]
    exact List.Perm.refl _
  | .dir cs, pre, hp => by
    simp only [plain] at hp
    simp only [canonNode, itemsN, expChildren_isEmpty H cs]
    cases hl : hasLeafC cs
    · simp
    · simp only [Bool.not_true, Bool.false_eq_true, if_false, if_true, itemsP]
      exact ((itemsPL_sort pre _).trans (canon_items_children H cs pre hp)).cons _
theorem canon_items_children (H : GObj → Sha) : (cs : Children) → (pre : Path) → plainC cs = true →
    (itemsPL pre (canonChildren H cs)).Perm (itemsNC pre cs)
  | .nil, pre, _ => by simp [canonChildren, itemsPL, itemsNC]
  | .cons name n rest, pre, hp => by
    simp only [plainC, Bool.and_eq_true] at hp
    have ihr := canon_items_children H rest pre hp.2
    have ihn := canon_items_node H n (pre ++ [name]) hp.1
    simp only [canonChildren, itemsNC]
    by_cases hb : banned name = true
    · simp only [hb, if_true]
      exact ihr
    · simp only [hb, Bool.false_eq_true, if_false]
      cases hc : canonNode H n with
      | none =>
        simp only [hc] at ihn
        have : itemsN (pre ++ [name]) n = [] := List.Perm.eq_nil (ihn.symm)
        simp only [this, List.nil_append]
        exact ihr
      | some p =>
        simp only [hc] at ihn
        simp only [itemsPL]
        exact ihn.append ihr
end

mutual
theorem plain_modesOK : (n : Node) → plain n = true → modesOK n = true
  | .file k c x um, hp => by
    simp only [plain, Option.isNone_iff_eq_none] at hp
    subst hp
    cases x <;> simp only [modesOK, exportMode] <;> decide
  | .link k t um, hp => by
    simp only [plain, Option.isNone_iff_eq_none] at hp
    subst hp
    simp only [modesOK, exportMode]
    decide
  | .dir cs, hp => by
    simp only [plain] at hp
    simp only [modesOK]
    exact plainC_modesOKC cs hp
theorem plainC_modesOKC : (cs : Children) → plainC cs = true → modesOKC cs = true
  | .nil, _ => rfl
  | .cons _ n rest, hp => by
    simp only [plainC, Bool.and_eq_true] at hp
    simp only [modesOKC, Bool.and_eq_true]
    exact ⟨plain_modesOK n hp.1, plainC_modesOKC rest hp.2⟩
end

end BreezyVerif.C35
