import BreezyVerif.Lemmas.C23B
/-! C23 — the parent list of every working tree is duplicate-free after every step. -/
namespace BreezyVerif.C23

/-- every working tree of the state has duplicate-free pending merges that do not repeat its basis -/
def AllTreesOK (s : St) : Prop :=
  TreeOK s.tM ∧ TreeOK s.tH ∧ TreeOK s.tL ∧ TreeOK s.tO ∧ TreeOK s.tH2

theorem allTreesOK_swap (s : St) : AllTreesOK (swapH s) ↔ AllTreesOK s := by
  simp only [AllTreesOK, swapH]
  constructor <;> (intro h; obtain ⟨a, b, c, d, e⟩ := h; exact ⟨a, e, c, d, b⟩)

theorem commitH_treesOK (s : St) (r : Rev) (l : Bool) (h : AllTreesOK s) : AllTreesOK (commitH s r l).1 := by
  obtain ⟨a, b, c, d, e⟩ := h
  have := treeOK_single r
  unfold commitH AllTreesOK
  grind

theorem commitMaster_treesOK (s : St) (w : Who) (r : Rev) (l : Bool) (h : AllTreesOK s) :
    AllTreesOK (commitMaster s w r l).1 := by
  obtain ⟨a, b, c, d, e⟩ := h
  have := treeOK_single r
  unfold commitMaster AllTreesOK
  grind

theorem updateH_treesOK (s : St) (h : AllTreesOK s) : AllTreesOK (updateH s).1 := by
  obtain ⟨a, b, c, d, e⟩ := h
  have h1 := fun t o => treeOK_updateTree s.graph s.tH t o b
  unfold updateH AllTreesOK
  grind

theorem pullH_treesOK (s : St) (h : AllTreesOK s) : AllTreesOK (pullH s).1 := by
  obtain ⟨a, b, c, d, e⟩ := h
  have := treeOK_mkTree s.graph s.master s.tH.merges
  unfold pullH AllTreesOK
  grind

theorem pullOtherH_treesOK (s : St) (stop : Option Rev) (ow l : Bool) (h : AllTreesOK s) :
    AllTreesOK (pullOtherH s stop ow l).1 := by
  obtain ⟨a, b, c, d, e⟩ := h
  unfold pullOtherH
  split
  · exact ⟨a, b, c, d, e⟩
  · split
    · exact ⟨a, b, c, d, e⟩
    · simp only
      split
      · exact ⟨a, b, c, d, e⟩
      · split
        · exact ⟨a, b, c, d, e⟩
        · exact ⟨a, treeOK_pulledTree _ _ _ _ b, c, d, e⟩

theorem pullOtherMaster_treesOK (s : St) (w : Who) (stop : Option Rev) (ow l : Bool) (h : AllTreesOK s) :
    AllTreesOK (pullOtherMaster s w stop ow l).1 := by
  obtain ⟨a, b, c, d, e⟩ := h
  have h1 := fun o n => treeOK_pulledTree s.graph s.tM o n a
  have h2 := fun o n => treeOK_pulledTree s.graph s.tL o n c
  unfold pullOtherMaster AllTreesOK
  grind

theorem pushTo_treesOK (s : St) (src : Rev) (h : AllTreesOK s) : AllTreesOK (pushTo s src).1 := by
  unfold pushTo
  split <;> exact h

theorem updateMasterTree_treesOK (s : St) (w : Who) (h : AllTreesOK s) : AllTreesOK (updateMasterTree s w).1 := by
  obtain ⟨a, b, c, d, e⟩ := h
  have h1 := fun t o => treeOK_updateTree s.graph s.tM t o a
  have h2 := fun t o => treeOK_updateTree s.graph s.tL t o c
  unfold updateMasterTree AllTreesOK
  grind

theorem step_treesOK (s : St) (op : Op) (h : AllTreesOK s) : AllTreesOK (step s op).1 := by
  induction op generalizing s with
  | onH2 op ih =>
    show AllTreesOK (swapH (step (swapH s) op).1)
    rw [allTreesOK_swap]
    exact ih (swapH s) ((allTreesOK_swap s).mpr h)
  | commit w r l =>
    cases w with
    | H => exact commitH_treesOK s r l h
    | M => exact commitMaster_treesOK s .M r l h
    | L => exact commitMaster_treesOK s .L r l h
  | update w =>
    cases w with
    | H => exact updateH_treesOK s h
    | M => exact updateMasterTree_treesOK s .M h
    | L => exact updateMasterTree_treesOK s .L h
  | pull => exact pullH_treesOK s h
  | bind => exact h
  | unbind => exact h
  | commitO r =>
    obtain ⟨a, b, c, d, e⟩ := h
    exact ⟨a, b, c, treeOK_single r, e⟩
  | syncO =>
    obtain ⟨a, b, c, d, e⟩ := h
    exact ⟨a, b, c, treeOK_pulledTree _ _ _ _ d, e⟩
  | pullOther w st ow l =>
    cases w with
    | H => exact pullOtherH_treesOK s st ow l h
    | M => exact pullOtherMaster_treesOK s .M st ow l h
    | L => exact pullOtherMaster_treesOK s .L st ow l h
  | push w => cases w <;> exact pushTo_treesOK _ _ h
  | bindM => exact h
  | unbindM => exact h

end BreezyVerif.C23
