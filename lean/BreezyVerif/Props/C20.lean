import BreezyVerif.Lemmas.C20
import BreezyVerif.Lemmas.C20Conflicts
import BreezyVerif.Lemmas.C20Select
/-!
C20 — theorems.  Conflict lists of any length over the ten conflict classes,
attribute values arbitrary texts (any characters, including newlines, tabs,
`": "`, NUL, non-ASCII), optional attributes present or absent; selections by
arbitrary path lists against an arbitrary path→id map; nothing is bounded.

The only excluded inputs are values with a line ending in CR (`crSafe`,
decidable): for those the property FAILS on the real code — see
`conflicts_roundtrip_witness` — hence the `_partial` names.
-/
namespace BreezyVerif.C20

/-- rio text layer: whatever `_put_rio` writes for stanzas with valid tags and
CR-safe values, the reader returns exactly (any number of stanzas, values with
any number of lines) -/
theorem stanza_text_roundtrip_partial (header : Str) (ss : List Stanza) (h : ∀ s ∈ ss, StanzaOk s) :
    getRio header (some (putRio header ss)) = .ok ss :=
  getRio_putRio header ss h

/-- `Conflict.factory(**c.as_stanza().as_dict())` rebuilds every well-formed conflict
(all ten classes, all combinations of optional attributes) -/
theorem from_as_stanza (c : Conflict) (h : c.wf = true) :
    ∃ s, asStanza c = some s ∧ fromStanza s = .ok c :=
  from_as_stanza_aux c h

/-- `set_conflicts(cs)`, re-open, `conflicts()` returns `cs`: same length, order,
classes and attributes -/
theorem conflicts_roundtrip_partial (cs : List Conflict) (h : ∀ c ∈ cs, c.wf = true ∧ c.crSafe) :
    ∃ file, setConflicts cs = some file ∧ getConflicts (some file) = .ok cs := by
  obtain ⟨ss, h1, h2, h3⟩ := stanzas_of_conflicts cs h
  refine ⟨putRio conflictHeader ss, by simp [setConflicts, h1], ?_⟩
  unfold getConflicts
  rw [getRio_putRio conflictHeader ss h2]
  exact h3

/-- the excluded family is a real failure of the modelled code: the text
conflict on path `"a\r"` is stored and read back as a conflict on path `"a"` -/
theorem conflicts_roundtrip_witness :
    ∃ c c' : Conflict, c.wf = true ∧ c ≠ c' ∧
      ∃ file, setConflicts [c] = some file ∧ getConflicts (some file) = .ok [c'] :=
  ⟨⟨.text, ['a', '\r'], some ['i'], none, none, none⟩, ⟨.text, ['a'], some ['i'], none, none, none⟩,
    by decide, by decide, _, rfl, rfl⟩

/-- the file ids, in the tree, of the given paths -/
def treeIds (tree : List (Str × Str)) (paths : List Str) : List Str :=
  paths.filterMap fun p => (tree.find? fun e => e.1 == p).map (·.2)

/-- `select_conflicts` returns an order-preserving partition of the list -/
theorem select_partition (tree : List (Str × Str)) (paths : List Str) (recurse : Bool) (cs : List Conflict) :
    let r := selectConflicts tree paths recurse cs
    r.1 = cs.filter (fun c => !isSelected paths (treeIds tree paths) recurse c)
      ∧ r.2 = cs.filter (fun c => isSelected paths (treeIds tree paths) recurse c)
      ∧ r.1.Sublist cs ∧ r.2.Sublist cs ∧ r.1.length + r.2.length = cs.length
      ∧ ∀ c, c ∈ cs ↔ (c ∈ r.1 ∨ c ∈ r.2) := by
  simp only [selectConflicts, treeIds, selectLoop_eq, List.nil_append]
  refine ⟨trivial, trivial, List.filter_sublist, List.filter_sublist, ?_, ?_⟩
  · induction cs with
    | nil => rfl
    | cons c t ih =>
      simp only [List.filter_cons]
      cases isSelected paths _ recurse c <;> simp <;> omega
  · intro c
    simp only [List.mem_filter]
    cases isSelected paths _ recurse c <;> simp

/-- a conflict is selected iff its path or conflict_path is one of the paths, or
(with `recurse`) inside one of them, or its file id / conflict file id is the id
of one of the paths -/
theorem select_characterisation (tree : List (Str × Str)) (paths : List Str) (recurse : Bool)
    (cs : List Conflict) (c : Conflict) :
    c ∈ (selectConflicts tree paths recurse cs).2 ↔
      c ∈ cs ∧
        ((c.path ∈ paths ∨ (recurse = true ∧ ∃ d ∈ paths, isInside d c.path = true))
          ∨ (∃ cp, c.conflictPath = some cp ∧
              (cp ∈ paths ∨ (recurse = true ∧ ∃ d ∈ paths, isInside d cp = true)))
          ∨ (∃ i, c.fileId = some i ∧ i ∈ treeIds tree paths)
          ∨ (∃ i, c.conflictFileId = some i ∧ i ∈ treeIds tree paths)) := by
  have h2 : (selectConflicts tree paths recurse cs).2
      = cs.filter (fun c => isSelected paths (treeIds tree paths) recurse c) :=
    (select_partition tree paths recurse cs).2.1
  rw [h2, List.mem_filter]
  apply and_congr_right
  intro _
  unfold isSelected isInsideAny
  cases c.conflictPath <;> cases c.fileId <;> cases c.conflictFileId <;>
    simp [or_assoc]

/-- resolving (action `done`) the conflicts selected by `paths` leaves exactly
the not-selected conflicts on the tree, in their order; resolving everything
leaves none -/
theorem resolve_removes_exactly_partial (tree : List (Str × Str)) (paths : List Str) (recurse : Bool)
    (cs : List Conflict) (h : ∀ c ∈ cs, c.wf = true ∧ c.crSafe) :
    ∃ file, setConflicts cs = some file ∧
      (∃ file', resolveDone tree (some paths) recurse (some file) = .ok (some file') ∧
        getConflicts (some file') = .ok (cs.filter fun c => !isSelected paths (treeIds tree paths) recurse c))
      ∧ (∃ file', resolveDone tree none recurse (some file) = .ok (some file') ∧
        getConflicts (some file') = .ok []) := by
  obtain ⟨file, h1, h2⟩ := conflicts_roundtrip_partial cs h
  refine ⟨file, h1, ?_, ?_⟩
  · have hk : ∀ c ∈ cs.filter (fun c => !isSelected paths (treeIds tree paths) recurse c),
        c.wf = true ∧ c.crSafe := fun c hc => h c (List.mem_filter.mp hc).1
    obtain ⟨file', h3, h4⟩ := conflicts_roundtrip_partial _ hk
    refine ⟨file', ?_, h4⟩
    unfold resolveDone
    rw [h2]
    simp only
    rw [(select_partition tree paths recurse cs).1, h3]
  · obtain ⟨file', h3, h4⟩ := conflicts_roundtrip_partial [] (by simp)
    refine ⟨file', ?_, h4⟩
    unfold resolveDone
    rw [h2]
    simp only [h3]

/-- `set_merge_modified(hashes)`, re-open, `merge_modified()`: exactly the
recorded (path, hash) pairs whose path is versioned and whose hash is the
file's current sha1 — in particular every such record is read back identically -/
theorem merge_modified_roundtrip_partial (tree : List TFile) (hashes : List (Str × Str))
    (hid : (tree.map (·.fileId)).Nodup) (hp : (hashes.map Prod.fst).Nodup)
    (ht : ∀ f ∈ tree, crSafe f.fileId) (hh : ∀ ph ∈ hashes, crSafe ph.2) :
    getMergeModified tree (some (setMergeModified tree hashes)) = .ok (hashes.filter (mmKeep tree)) := by
  unfold getMergeModified setMergeModified
  have : (hashes.filterMap fun ph => (path2id tree ph.1).map fun i => [(tFileId, i), (tHash, ph.2)])
      = mmStanzas tree hashes := rfl
  rw [this, getRio_putRio mergeHeader _ (mmStanzas_ok tree hashes ht hh)]
  simp only
  rw [mmLoop_spec tree hid hashes hp [] (by simp)]
  simp

/-- the excluded family of `merge_modified_roundtrip_partial` is a real failure of
the modelled code: a recorded hash that is the file's sha1 followed by CR is NOT
the file's current sha1 (so the record should be dropped), but is read back as
that sha1 and reported.  (File ids with CR cannot occur: the working tree
refuses them at `add` — exercised as an excluded input.) -/
theorem merge_modified_witness :
    ∃ (tree : List TFile) (hashes : List (Str × Str)),
      (tree.map (·.fileId)).Nodup ∧ (hashes.map Prod.fst).Nodup ∧ (∀ f ∈ tree, crSafe f.fileId) ∧
      hashes.filter (mmKeep tree) = [] ∧
      getMergeModified tree (some (setMergeModified tree hashes)) = .ok [(['a'], ['7', 'd'])] :=
  ⟨[⟨['a'], ['i'], some ['7', 'd']⟩], [(['a'], ['7', 'd', '\r'])], by decide, by decide, by decide, by decide, rfl⟩

/-- `merge_modified()` never invents a record: whatever it reports after
`set_merge_modified(hashes)` is one of the stored (path, hash) pairs, and its
path is versioned with exactly that current sha1 (so directories, symlinks and
files missing on disk — `sha = none` — are never reported) -/
theorem merge_modified_sound_partial (tree : List TFile) (hashes : List (Str × Str))
    (hid : (tree.map (·.fileId)).Nodup) (hp : (hashes.map Prod.fst).Nodup)
    (ht : ∀ f ∈ tree, crSafe f.fileId) (hh : ∀ ph ∈ hashes, crSafe ph.2) :
    ∃ d, getMergeModified tree (some (setMergeModified tree hashes)) = .ok d ∧
      ∀ ph ∈ d, ph ∈ hashes ∧ ∃ f ∈ tree, f.path = ph.1 ∧ f.sha = some ph.2 := by
  refine ⟨_, merge_modified_roundtrip_partial tree hashes hid hp ht hh, ?_⟩
  intro ph hph
  obtain ⟨hmem, hk⟩ := List.mem_filter.mp hph
  refine ⟨hmem, ?_⟩
  unfold mmKeep at hk
  split at hk
  · rename_i f hf
    refine ⟨f, List.mem_of_find?_eq_some hf, ?_, ?_⟩
    · have := List.find?_some hf; simpa using this
    · exact (of_decide_eq_true hk).symm
  · cases hk

/-- `resolve(action="done")` is the general loop with an action every class handles -/
theorem resolveDone_eq_resolveWith (tree : List (Str × Str)) (paths : Option (List Str)) (recurse : Bool)
    (file : Option Str) :
    resolveDone tree paths recurse file = resolveWith (fun _ => true) tree paths recurse file := by
  unfold resolveDone resolveWith
  cases getConflicts file with
  | error e => rfl
  | ok cs =>
    have hnil : ∀ l : List Conflict, l.filter (fun c => !(fun _ => true) c) = [] := by
      intro l; simp
    cases paths <;> simp only [hnil, List.append_nil]

/-- `resolve` with ANY action: the tree afterwards lists the not-selected
conflicts followed by those selected conflicts whose class does not implement
the action (`NotImplementedError`), each in its original order — no conflict is
dropped unless it was selected and handled, none is duplicated or altered -/
theorem resolve_with_partial (handles : Conflict → Bool) (tree : List (Str × Str)) (paths : List Str)
    (recurse : Bool) (cs : List Conflict) (h : ∀ c ∈ cs, c.wf = true ∧ c.crSafe) :
    ∃ file, setConflicts cs = some file ∧
      (∃ file', resolveWith handles tree (some paths) recurse (some file) = .ok (some file') ∧
        getConflicts (some file') = .ok
          (cs.filter (fun c => !isSelected paths (treeIds tree paths) recurse c)
            ++ (cs.filter fun c => isSelected paths (treeIds tree paths) recurse c).filter fun c => !handles c))
      ∧ (∃ file', resolveWith handles tree none recurse (some file) = .ok (some file') ∧
        getConflicts (some file') = .ok (cs.filter fun c => !handles c)) := by
  obtain ⟨file, h1, h2⟩ := conflicts_roundtrip_partial cs h
  refine ⟨file, h1, ?_, ?_⟩
  · have hk : ∀ c ∈ cs.filter (fun c => !isSelected paths (treeIds tree paths) recurse c)
          ++ (cs.filter fun c => isSelected paths (treeIds tree paths) recurse c).filter (fun c => !handles c),
        c.wf = true ∧ c.crSafe := by
      intro c hc
      rcases List.mem_append.mp hc with hc | hc
      · exact h c (List.mem_filter.mp hc).1
      · exact h c (List.mem_filter.mp (List.mem_filter.mp hc).1).1
    obtain ⟨file', h3, h4⟩ := conflicts_roundtrip_partial _ hk
    refine ⟨file', ?_, h4⟩
    unfold resolveWith
    rw [h2]
    have hp := select_partition tree paths recurse cs
    simp only at hp ⊢
    rw [hp.1, hp.2.1, h3]
  · have hk : ∀ c ∈ cs.filter (fun c => !handles c), c.wf = true ∧ c.crSafe :=
      fun c hc => h c (List.mem_filter.mp hc).1
    obtain ⟨file', h3, h4⟩ := conflicts_roundtrip_partial _ hk
    refine ⟨file', ?_, h4⟩
    unfold resolveWith
    rw [h2]
    simp only [List.nil_append, h3]

/-- with an action no class implements nothing is lost: the stored list is a
permutation of the original one -/
theorem resolve_unhandled_keeps_all_partial (tree : List (Str × Str)) (paths : List Str)
    (recurse : Bool) (cs : List Conflict) (h : ∀ c ∈ cs, c.wf = true ∧ c.crSafe) :
    ∃ file file' cs', setConflicts cs = some file ∧
      resolveWith (fun _ => false) tree (some paths) recurse (some file) = .ok (some file') ∧
      getConflicts (some file') = .ok cs' ∧ cs'.Perm cs := by
  obtain ⟨file, h1, ⟨file', h2, h3⟩, _⟩ := resolve_with_partial (fun _ => false) tree paths recurse cs h
  refine ⟨file, file', _, h1, h2, h3, ?_⟩
  have hself : ∀ l : List Conflict, l.filter (fun c => !(fun _ => false) c) = l := by
    intro l; simp
  rw [hself]
  have := List.filter_append_perm (fun c => isSelected paths (treeIds tree paths) recurse c) cs
  refine List.Perm.trans (List.perm_append_comm) ?_
  simpa using this

/-! ## algebra of selections (corollaries of `select_partition`) -/

/-- `resolve` with an empty path list selects nothing: every conflict is kept, in order -/
theorem select_no_paths (tree : List (Str × Str)) (recurse : Bool) (cs : List Conflict) :
    selectConflicts tree [] recurse cs = (cs, []) := by
  have hp := select_partition tree [] recurse cs
  simp only at hp
  have hs : ∀ c, isSelected [] (treeIds tree []) recurse c = false := by
    intro c
    unfold isSelected isInsideAny treeIds
    cases c.conflictPath <;> cases c.fileId <;> cases c.conflictFileId <;> simp
  apply Prod.ext
  · rw [hp.1]; simp [hs]
  · rw [hp.2.1]; simp [hs]

/-- selecting again, with the same paths, among the conflicts that were kept
selects nothing more: `resolve PATHS` twice removes what `resolve PATHS` once removes -/
theorem select_idempotent (tree : List (Str × Str)) (paths : List Str) (recurse : Bool) (cs : List Conflict) :
    selectConflicts tree paths recurse (selectConflicts tree paths recurse cs).1
      = ((selectConflicts tree paths recurse cs).1, []) := by
  have hp := select_partition tree paths recurse cs
  have hq := select_partition tree paths recurse (selectConflicts tree paths recurse cs).1
  simp only at hp hq
  apply Prod.ext
  · rw [hq.1, hp.1, List.filter_filter]; simp
  · rw [hq.2.1, hp.1, List.filter_filter]
    simp only [List.filter_eq_nil_iff]
    intro c _
    cases isSelected paths (treeIds tree paths) recurse c <;> simp

/-- the ids looked up for a larger path list include those of a smaller one -/
theorem treeIds_mono (tree : List (Str × Str)) (paths paths' : List Str) (h : ∀ p ∈ paths, p ∈ paths') :
    ∀ i ∈ treeIds tree paths, i ∈ treeIds tree paths' := by
  intro i hi
  unfold treeIds at *
  simp only [List.mem_filterMap] at *
  obtain ⟨p, hp, he⟩ := hi
  exact ⟨p, h p hp, he⟩

/-- selection is monotone in the path list: naming more paths never un-selects a conflict -/
theorem isSelected_mono (tree : List (Str × Str)) (paths paths' : List Str) (recurse : Bool) (c : Conflict)
    (h : ∀ p ∈ paths, p ∈ paths') (hs : isSelected paths (treeIds tree paths) recurse c = true) :
    isSelected paths' (treeIds tree paths') recurse c = true := by
  have hi := treeIds_mono tree paths paths' h
  unfold isSelected isInsideAny at *
  cases hcp : c.conflictPath <;> cases hf : c.fileId <;> cases hcf : c.conflictFileId <;>
    simp only [hcp, hf, hcf, Bool.or_false, Bool.or_eq_true, Bool.and_eq_true, List.contains_iff_mem,
      List.any_eq_true] at hs ⊢ <;> grind

theorem select_mono (tree : List (Str × Str)) (paths paths' : List Str) (recurse : Bool) (cs : List Conflict)
    (h : ∀ p ∈ paths, p ∈ paths') :
    (∀ c ∈ (selectConflicts tree paths recurse cs).2, c ∈ (selectConflicts tree paths' recurse cs).2)
      ∧ ∀ c ∈ (selectConflicts tree paths' recurse cs).1, c ∈ (selectConflicts tree paths recurse cs).1 := by
  have hp := select_partition tree paths recurse cs
  have hq := select_partition tree paths' recurse cs
  simp only at hp hq
  rw [hp.1, hp.2.1, hq.1, hq.2.1]
  constructor
  · intro c hc
    rw [List.mem_filter] at hc ⊢
    exact ⟨hc.1, isSelected_mono tree paths paths' recurse c h hc.2⟩
  · intro c hc
    rw [List.mem_filter] at hc ⊢
    refine ⟨hc.1, ?_⟩
    cases hsel : isSelected paths (treeIds tree paths) recurse c
    · rfl
    · have := isSelected_mono tree paths paths' recurse c h hsel
      simp [this] at hc

/-- recursion only adds: whatever is selected without `recurse` is selected with it -/
theorem select_recurse_superset (tree : List (Str × Str)) (paths : List Str) (cs : List Conflict) :
    ∀ c ∈ (selectConflicts tree paths false cs).2, c ∈ (selectConflicts tree paths true cs).2 := by
  have hp := select_partition tree paths false cs
  have hq := select_partition tree paths true cs
  simp only at hp hq
  rw [hp.2.1, hq.2.1]
  intro c hc
  rw [List.mem_filter] at hc ⊢
  refine ⟨hc.1, ?_⟩
  have hs := hc.2
  unfold isSelected isInsideAny at *
  cases hcp : c.conflictPath <;> cases hf : c.fileId <;> cases hcf : c.conflictFileId <;>
    simp only [hcp, hf, hcf, Bool.or_false, Bool.or_eq_true, List.contains_iff_mem,
      List.any_eq_true, Bool.false_and, Bool.true_and] at hs ⊢ <;> grind


-- non-vacuity: a list with a multi-line path, a tab, `": "`, non-ASCII and all optional attributes
example :
    let cs : List Conflict :=
      [⟨.text, "dir/a\nb: c\t".toList, some "é-id".toList, none, none, none⟩,
       ⟨.path, "p".toList, none, some "<deleted>".toList, none, none⟩,
       ⟨.dupEntry, "a.moved".toList, some "i".toList, some "a".toList, some "Moved existing file to".toList, some "j".toList⟩,
       ⟨.missParent, "d".toList, none, none, some "Created directory".toList, none⟩]
    ∀ c ∈ cs, c.wf = true ∧ c.crSafe := by decide
example : ¬ crSafe ['a', '\r'] ∧ ¬ crSafe "a\r\nb".toList ∧ crSafe "a\rb".toList := by decide
-- non-vacuity of the merge-hash theorems: a file, a directory (no sha1), a multi-line hash, an unversioned path
example :
    let tree : List TFile := [⟨"a".toList, "a-id".toList, some "7d".toList⟩, ⟨"dir".toList, "d-id".toList, none⟩]
    let hashes : List (Str × Str) := [("a".toList, "7d".toList), ("dir".toList, "7d".toList), ("zz".toList, "x\ny: z".toList)]
    (tree.map (·.fileId)).Nodup ∧ (hashes.map Prod.fst).Nodup ∧ (∀ f ∈ tree, crSafe f.fileId)
      ∧ (∀ ph ∈ hashes, crSafe ph.2) ∧ hashes.filter (mmKeep tree) = [("a".toList, "7d".toList)] := by decide
example : StanzaOk [(tFileId, "x\ny".toList), (tHash, "00ff".toList)] := by
  refine ⟨by simp, ?_⟩; decide
example : isInside "a".toList "a/b".toList = true ∧ isInside "a".toList "ab".toList = false
    ∧ isInside [] "a".toList = true ∧ isInside "a//b".toList "a/b/c".toList = true := by decide
example : (selectConflicts [("a".toList, "i".toList)] ["a".toList] false
    [⟨.text, "a/b".toList, none, none, none, none⟩, ⟨.text, "x".toList, some "i".toList, none, none, none⟩,
     ⟨.text, "a".toList, none, none, none, none⟩]).1 = [⟨.text, "a/b".toList, none, none, none, none⟩] := by decide

-- non-vacuity of the selection algebra: a selection that grows with the path list and with `recurse`
example :
    let tree : List (Str × Str) := [("a".toList, "i".toList), ("b".toList, "j".toList)]
    let cs : List Conflict := [⟨.text, "a/x".toList, none, none, none, none⟩, ⟨.text, "q".toList, some "j".toList, none, none, none⟩,
      ⟨.text, "z".toList, none, none, none, none⟩]
    (selectConflicts tree ["a".toList] false cs).2 = [] ∧ (selectConflicts tree ["a".toList] true cs).2.length = 1
      ∧ (selectConflicts tree ["a".toList, "b".toList] true cs).2.length = 2 := by decide

end BreezyVerif.C20
