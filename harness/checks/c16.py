"""C16 — uncommit undoes commit.

Mechanism: breezy/uncommit.py:uncommit (left-hand walk, pending-merge
bookkeeping, tip/revno of branch and master, tree.set_parent_ids),
src/uncommit.rs:remove_tags (exposed through crates/cmd-py as
breezy._cmd_rs.uncommit.remove_tags — rebuilt with cargo on every run), the
parent-list normalisation of WorkingTree.set_parent_ids, breezy/commit.py
(bookkeeping part).

T2: random revision DAGs (merges, several roots, ghost parents, left-hand
    ghosts) are committed through a real 2a working tree on disk.  For every
    revision T of every DAG and EVERY depth d = 1..revno(T) the branch is put
    at T with random extra pending merges, random tags (on removed, kept,
    merged, unrelated and ghost revisions), keep_tags, bound master (in or out
    of step, own tags) and local flag; real `uncommit(branch, tree=wt,
    revno=…)` is run and (exception class | tip, revno, tags of branch and
    master, tree.get_parent_ids()) compared with the Lean model `uncommit`;
    about 1 case in 6 is run as `uncommit(branch, tree=None, …)` (model
    `uncommitNoTree`: nothing is re-recorded, tags judged against the new tip
    alone, tree parents untouched) and 1 in 8 with `dry_run=True` (model
    `uncommitDry`: same exceptions, state unchanged).
    Commit/uncommit inverse: in random states (pending merges, edited / added
    files and 0..4 further tree operations: rename, move, directory rename,
    removal, remove --keep, mkdir + add, symlink->file and file->directory
    kind changes, chmod, name swap; standalone, bound, and bound with
    commit --local / uncommit --local and the master anywhere) `wt.commit()`
    followed by `uncommit()` is compared with the model's `commit` /
    `commitLocal` then `uncommit 1`.
    The graph answers the code relies on (vcsgraph find_unique_ancestors,
    heads of several keys, the tree's parent filtering) are compared with the
    Lean graph functions per case.
Oracle (Python reference of the DAG, independent of the Lean model): after
    commit + uncommit: last_revision_info, tree parent ids, master state, tags,
    every path below the tree root (kind, content / link target, executable
    bit) and the tree's reported changes (iter_changes: both paths, names,
    kinds, versioned, executable, changed_content) are what they were before
    the commit; with tree=None the tree's parents are untouched and tags go
    iff their revision is no ancestor of the new tip; a dry run changes
    nothing; the MASTER's own tags go iff their revision left the history
    (unconditionally checked); after uncommit of d revisions: the tip is the d-th left-hand
    ancestor, revno = old - d, the tree's first parent is the branch tip, the
    pending merges are the removed merges (each once, older revision first)
    followed by the previous pending merges, minus those the tree filters as
    non-heads; a tag disappears iff keep_tags is off and its revision is an
    ancestor of the old tip and of none of the new parents; an exception
    leaves everything unchanged.

Findings made with this check (see the builder report): two were repaired in
/repo (uncommit of a tagged revision in a bound branch self-deadlocked on the
master lock and died with a PanicException; uncommit down to null: recorded a
removed merge as the tree's basis revision) — model and oracle describe the
repaired behaviour, so either defect coming back is a plain VIOLATION.  One is
reported with the family slug `local-uncommit-deletes-master-tags`
(uncommit(local=True) deletes the tag in the master although the master keeps
the revision; computed by the oracle from: bound, local, a master tag whose
name was removed locally).  A second family, `unsynced-master-tags-removed-by-name`
(same root cause: BasicTags.delete_tag propagates by name): in a bound branch
whose tag dict disagrees with the master's, a non-local uncommit deletes a
master tag on a revision that stays (same name as a removed local tag) and
keeps a master tag on a removed revision (no such name locally); classifier:
bound, not local, master tags != the property's expectation but == removal by
the locally removed names, and the two dicts differ.  Model and theorem
`master_tags_after_uncommit` state the by-name behaviour literally.  A third,
`missing-file-unversioned-by-commit` (oracle only; files are not modelled): a
versioned file that is missing from disk is unversioned by the commit, so
after commit+uncommit the tree reports it as removed-and-unversioned instead
of missing; classifier: round trip with the `missing` tree operation, files
identical, and the iter_changes lists identical except that the missing
entries' versioned flags went (True, True) -> (True, False).

Mutation self-test (scratch worktree, 16 DAGs, seed 0; judged on violations
whose family is None and on model mismatches; all caught by the oracle with a
concrete input):
 U1 uncommit.py: new_revno = revno (off by one)
 U2 pending_merges.extend(parents[1:]) — order inside one merge revision
    (needs a removed revision with >= 2 merged parents)
 U3 parents[2:] instead of parents[1:] (first merged parent forgotten)
 U4 final reversed(pending_merges) dropped (order across removed revisions / P0)
 U5 master.set_last_revision_info dropped
 U6 BoundBranchOutOfDate check dropped (needs a bound branch out of step)
 U7 remove_tags(..., parents[:1]): tags on re-recorded merges deleted
 U8 keep_tags ignored
 U9 pending merges present before the uncommit forgotten
 R1 uncommit.rs: `!ancestors.contains` -> `ancestors.contains`
 R2 uncommit.rs: find_unique_ancestors(old_tip, first parent only)
 R3 uncommit.rs: only one tag per revision deleted (needs two tags on one removed revision)
 H1 harmless rewrite of the loop body (renamed local, reordered statements) -> clean
"""
import os
import shutil

from vlib import env
from checks import c21 as G

RUST = ("cmd-py",)
THEOREMS = [
    "uncommit_commit_id", "uncommit_commit_id_local", "uncommit_tip", "lhNth_lefthand", "uncommit_tip_lefthand",
    "uncommit_revno_ok", "uncommit_pending",
    "filterParents_head", "filterParents_sub", "filterParents_keeps_heads", "removed_merge_head_kept",
    "uncommit_tree_basis",
    "tags_dropped_iff", "tags_after_uncommit", "tags_kept", "master_tags_after_uncommit",
    "tags_on_new_ancestry_survive", "uncommit_no_tree", "no_tree_same_branch", "dry_run_unchanged",
    "dry_run_same_errors", "local_uncommit_master_tags_witness",
]
RULE = ("scenario = random DAG committed through a real 2a working tree (files, a directory, an executable, a symlink); "
        "cases = every (tip T, depth d<=revno(T)) with random pending merges, tags, keep_tags, bound master / local, "
        "run with the tree, with tree=None or as a dry run; plus commit+uncommit round trips (plain and --local) in "
        "random tree states with 0..4 pending tree operations (rename, move, directory rename, removal, remove --keep, "
        "mkdir+add, kind changes, chmod, name swap) besides the edit / add; non-trivial = at least one removed revision "
        "is a merge, or there are pending merges or tags, or the branch is bound; distinct by (graph, case)")
ASSUMPTIONS = [
    "vcsgraph find_unique_ancestors / heads / iter_lefthand_ancestry answer as the Lean graph model specifies (compared per case)",
    "the recorded revno of the branch is the number of revisions on its left-hand chain (the command refuses revno outside "
    "1..revno; the model answers E:BadDepth for d > revno, such inputs are run on the real code only to record what the API does)",
    "file contents and the dirstate are not modelled: that uncommit leaves them alone is checked by the oracle on the real tree only",
]
TRUSTED = ["hooks, locking and the commit machinery itself (C01) are not modelled; commit is modelled as: new revision with the tree's parents"]

NULL = G.NULL
GH0 = G.GH0
rid, unrid, tip_s = G.rid, G.unrid, G.tip_s

ERRS = {"PanicException": "E:Panic", "RevisionNotPresent": "E:NotPresent", "BoundBranchOutOfDate": "E:OutOfDate",
        "LocalRequiresBoundBranch": "E:LocalRequiresBound", "GhostRevisionUnusableHere": "E:GhostParent"}


def err_s(e):
    return ERRS.get(type(e).__name__, "E:other:" + type(e).__name__)


def revs_s(l):
    return ",".join(str(x) for x in l) or "-"


def tags_s(d):
    return "+".join("%d=%d" % (k, v) for k, v in sorted(d.items())) or "-"


def branch_s(tip, revno, tags):
    return "%s/%d/%s" % (tip_s(tip), revno, tags_s(tags))


# ---------------------------------------------------------------------------
# Python reference

def ref_heads(dag, keys):
    ks = list(dict.fromkeys(keys))
    return [k for k in ks if not any(k2 != k and k in G.ref_anc(dag, k2) for k2 in ks)]


def ref_filter(dag, ids):
    if not ids:
        return []
    hs = set(ref_heads(dag, ids))
    out = [ids[0]]
    for r in ids[1:]:
        if r in hs and r not in out:
            out.append(r)
    return out


def ref_uncommit(dag, tip, d, p0):
    """-> (new tip, unfiltered new parents) or None when the walk meets a ghost"""
    pm = list(p0)
    cur = tip
    for _ in range(d):
        if cur is None:
            break
        if cur not in dag["parents"]:
            return None
        ps = dag["parents"][cur]
        pm.extend(reversed(ps[1:]))
        cur = ps[0] if ps else None
    if cur is not None and cur not in dag["parents"]:
        return None
    # a tree without basis carries no pending merges
    return cur, ([cur] + list(reversed(pm)) if cur is not None else [])


# ---------------------------------------------------------------------------
# real code

class Scenario:
    def __init__(self, dag):
        from breezy.controldir import ControlDir, format_registry
        from breezy import lockdir
        os.environ.setdefault("RUST_BACKTRACE", "0")
        lockdir._DEFAULT_TIMEOUT_SECONDS = 0     # a self-deadlock must not stall the run
        self.dag = dag
        self.dir = env.fresh_dir("c16")
        self.wt = env.make_tree("2a", os.path.join(self.dir, "t"))
        base = self.wt.basedir
        with open(os.path.join(base, "f"), "w") as f:
            f.write("base\n")
        # files that the round trips rename / remove / chmod / change the kind of (the same in every revision)
        os.mkdir(os.path.join(base, "sub"))
        for name, text in (("keep", "keep\n"), ("sub/x", "x\n"), ("sub/y", "y\n"), ("tool", "#!/bin/sh\n")):
            with open(os.path.join(base, name), "w") as f:
                f.write(text)
        os.chmod(os.path.join(base, "tool"), 0o755)
        os.symlink("keep", os.path.join(base, "lnk"))
        self.wt.add(["f", "keep", "sub", "sub/x", "sub/y", "tool", "lnk"])
        b = self.wt.branch
        for r in dag["order"]:
            ps = dag["parents"][r]
            if ps:
                b.set_last_revision_info(self.revno(ps[0]), rid(ps[0]))
                self.wt.set_parent_ids([rid(p) for p in ps], allow_leftmost_as_ghost=True)
            else:
                b.set_last_revision_info(0, NULL)
                self.wt.set_parent_ids([])
            with open(os.path.join(self.wt.basedir, "f"), "w") as f:
                f.write("content of %d\n" % r)
            self.wt.commit("rev %d" % r, rev_id=rid(r))
            # a working tree only records merges that are heads: read back what was really committed
            with b.lock_read():
                real = b.repository.get_parent_map([rid(r)])[rid(r)]
            dag["parents"][r] = [unrid(p) for p in real if p != NULL]
        self.master = ControlDir.create_branch_convenience(
            os.path.join(self.dir, "m"), format=format_registry.make_controldir("2a"), force_new_tree=False)
        self.master.repository.fetch(b.repository)
        self.fresh = 50

    def revno(self, t):
        return len(G.ref_lh_stop_at_ghost(self.dag, t))

    def setup(self, c):
        """put branch, tree, tags and master into the state described by case c"""
        wt, b = self.wt, self.wt.branch
        if b.get_bound_location():
            b.set_bound_location(None)
        T = c["tip"]
        b.set_last_revision_info(self.revno(T), rid(T))
        wt.set_parent_ids([rid(T)] + [rid(p) for p in c["p0"]], allow_leftmost_as_ghost=True)
        b.tags._set_tag_dict({"t%d" % k: rid(v) for k, v in c["tags"].items()})
        if c["master"] is not None:
            M = self.master
            mt = c["master"]["tip"]
            M.repository.fetch(b.repository)
            M.set_last_revision_info(self.revno(mt), rid(mt))
            M.tags._set_tag_dict({"t%d" % k: rid(v) for k, v in c["master"]["tags"].items()})
            b.set_bound_location(M.base)

    def observe(self):
        from breezy.branch import Branch
        from breezy.workingtree import WorkingTree
        wt = WorkingTree.open(self.wt.basedir)
        b = wt.branch
        rn, tip = b.last_revision_info()
        tags = {int(k[1:]): self.unrid(v) for k, v in b.tags.get_tag_dict().items()}
        st = dict(tip=self.unrid(tip), revno=rn, tags=tags, parents=[self.unrid(p) for p in wt.get_parent_ids()], master=None)
        if b.get_bound_location():
            M = Branch.open(self.master.base)
            mrn, mtip = M.last_revision_info()
            st["master"] = dict(tip=self.unrid(mtip), revno=mrn,
                                tags={int(k[1:]): self.unrid(v) for k, v in M.tags.get_tag_dict().items()})
        return st

    def unrid(self, b):
        if b == NULL:
            return None
        if b[:1] == b"c":
            return int(b[1:])
        return unrid(b)

    def graph_obs(self, tip, parents, keys):
        """vcsgraph answers used by uncommit / set_parent_ids, on the real repository"""
        b = self.wt.branch
        with b.lock_read():
            g = b.repository.get_graph()
            fua = sorted(self.unrid(x) for x in g.find_unique_ancestors(rid(tip), [rid(p) for p in parents]) if x != NULL)
            hs = sorted(self.unrid(x) for x in g.heads([rid(k) for k in keys])) if keys else []
        return revs_s(fua), revs_s(hs)

    def run_uncommit(self, c):
        from breezy.uncommit import uncommit
        self.setup(c)
        before = self.observe()
        err = None
        try:
            uncommit(self.wt.branch, tree=None if c["f"] == "unt" else self.wt, dry_run=c["f"] == "und",
                     revno=self.revno(c["tip"]) - c["d"] + 1, keep_tags=c["keep"], local=c["local"])
        except (KeyboardInterrupt, SystemExit):
            raise
        except BaseException as e:      # pyo3 PanicException derives from BaseException
            err = err_s(e)
        after = self.observe()
        return before, err, after

    def run_excluded(self, c):
        from breezy.uncommit import uncommit
        self.setup(dict(tip=c["tip"], p0=[], tags={}, master=None))
        before = self.observe()
        err = None
        try:
            uncommit(self.wt.branch, tree=self.wt, revno=c["revno"])
        except (KeyboardInterrupt, SystemExit):
            raise
        except BaseException as e:
            err = err_s(e)
        after = self.observe()
        return dict(before=before, err=err, after=after)

    def tree_ops(self, ops):
        """pending changes of every kind made through the WorkingTree API before the commit"""
        wt, base = self.wt, self.wt.basedir
        done = []
        for op in ops:
            try:
                if op == "rename":
                    wt.rename_one("keep", "kept")
                elif op == "move":
                    wt.rename_one("tool", "sub/tool")
                elif op == "rename-dir":
                    wt.rename_one("sub", "dir2")
                elif op == "remove":
                    d = "dir2" if os.path.isdir(os.path.join(base, "dir2")) else "sub"
                    wt.remove([d + "/y"], keep_files=False, force=True)
                elif op == "remove-keep":
                    wt.remove(["lnk"], keep_files=True)
                elif op == "mkdir":
                    os.mkdir(os.path.join(base, "nd"))
                    with open(os.path.join(base, "nd", "n"), "w") as f:
                        f.write("n\n")
                    wt.add(["nd", "nd/n"])
                elif op == "kind":
                    p = os.path.join(base, "lnk")
                    if os.path.islink(p):
                        os.unlink(p)
                        with open(p, "w") as f:
                            f.write("was a link\n")
                elif op == "kind-file-dir":
                    d = "dir2" if os.path.isdir(os.path.join(base, "dir2")) else "sub"
                    p = os.path.join(base, d, "x")
                    if os.path.isfile(p):
                        os.unlink(p)
                        os.mkdir(p)
                elif op == "chmod":
                    for name, mode in (("tool", 0o644), ("sub/tool", 0o644), ("f", 0o755)):
                        if os.path.isfile(os.path.join(base, name)):
                            os.chmod(os.path.join(base, name), mode)
                elif op == "missing":
                    # a versioned file deleted behind the tree's back: commit records its removal
                    for name in ("keep", "kept"):
                        if os.path.isfile(os.path.join(base, name)):
                            os.unlink(os.path.join(base, name))
                            break
                    else:
                        raise KeyError(op)
                elif op == "swap":
                    d = "dir2" if os.path.isdir(os.path.join(base, "dir2")) else "sub"
                    if os.path.isfile(os.path.join(base, d, "x")) and os.path.isfile(os.path.join(base, d, "y")):
                        wt.rename_one(d + "/x", d + "/tmp")
                        wt.rename_one(d + "/y", d + "/x")
                        wt.rename_one(d + "/tmp", d + "/y")
                done.append(op)
            except (KeyboardInterrupt, SystemExit):
                raise
            except Exception as e:  # noqa  (an inapplicable op, e.g. the file was already removed)
                done.append("%s!%s" % (op, type(e).__name__))
        return done

    def reset_tree(self):
        """back to the basis tree's files, nothing unversioned left"""
        from breezy.workingtree import WorkingTree
        wt = self.wt = WorkingTree.open(self.wt.basedir)
        wt.revert()
        with wt.lock_read():
            versioned = {p for p, ie in wt.iter_entries_by_dir()}
        base = wt.basedir
        for dirpath, dirnames, filenames in os.walk(base, topdown=False):
            rel = os.path.relpath(dirpath, base)
            if rel == ".bzr" or rel.startswith(".bzr" + os.sep):
                continue
            for n in filenames + dirnames:
                r = n if rel == "." else rel + "/" + n
                if r == ".bzr" or r in versioned:
                    continue
                p = os.path.join(dirpath, n)
                if os.path.isdir(p) and not os.path.islink(p):
                    shutil.rmtree(p, ignore_errors=True)
                else:
                    os.unlink(p)

    def run_roundtrip(self, c):
        """commit in the state of c (with pending changes of every kind), then uncommit that commit"""
        from breezy.uncommit import uncommit
        self.setup(c)
        wt = self.wt
        base = wt.basedir
        with open(os.path.join(base, "f"), "w") as f:
            f.write(c["edit"])
        extra = os.path.join(base, "g%d" % self.fresh)
        if c["add"]:
            with open(extra, "w") as f:
                f.write("new file\n")
            wt.add([os.path.basename(extra)])
        done = self.tree_ops(c.get("ops", []))
        before = self.observe()
        files_before = self.files()
        changes_before = self.changes()
        self.fresh += 1
        new = self.fresh
        err = None
        local = bool(c.get("local"))
        try:
            wt.commit("roundtrip", rev_id=b"c%d" % new, local=local)
            mid = self.observe()
            uncommit(wt.branch, tree=wt, local=local)
        except (KeyboardInterrupt, SystemExit):
            raise
        except BaseException as e:
            err = err_s(e)
            mid = None
        after = self.observe()
        files_after, changes_after = self.files(), self.changes()
        res = dict(before=before, mid=mid, err=err, after=after, new=new, ops=done,
                   files_same=files_before == files_after, changes_same=changes_before == changes_after,
                   changes=changes_before, changes_before_full=changes_before, changes_after_full=changes_after,
                   files_diff=sorted(k for k in set(files_before) | set(files_after) if files_before.get(k) != files_after.get(k)),
                   changes_diff=[x for x in changes_after if x not in changes_before][:3]
                   + [x for x in changes_before if x not in changes_after][:3])
        # leave the tree clean for the next case
        self.reset_tree()
        return res

    def files(self):
        """every path below the tree root: kind, content / target, executable bit"""
        out = {}
        base = self.wt.basedir
        for dirpath, dirnames, filenames in os.walk(base):
            if ".bzr" in dirnames:
                dirnames.remove(".bzr")
            for n in sorted(dirnames + filenames):
                p = os.path.join(dirpath, n)
                rel = os.path.relpath(p, base)
                if os.path.islink(p):
                    out[rel] = ("l", os.readlink(p))
                elif os.path.isdir(p):
                    out[rel] = ("d",)
                else:
                    with open(p, "rb") as f:
                        out[rel] = ("f", f.read().decode("latin-1"), bool(os.stat(p).st_mode & 0o100))
        return out

    def changes(self):
        from breezy.workingtree import WorkingTree
        wt = WorkingTree.open(self.wt.basedir)
        with wt.lock_read():
            basis = wt.basis_tree()
            with basis.lock_read():
                out = []
                for ch in wt.iter_changes(basis):
                    out.append((list(ch.path), ch.changed_content, list(ch.versioned), list(ch.name), list(ch.kind),
                                list(ch.executable)))
                return sorted(out, key=repr)

    def close(self):
        shutil.rmtree(self.dir, ignore_errors=True)


def st_line(st):
    m = "-" if st["master"] is None else branch_s(st["master"]["tip"], st["master"]["revno"], st["master"]["tags"])
    return "%s %s %s" % (branch_s(st["tip"], st["revno"], st["tags"]), m, revs_s(st["parents"]))


def gen_dag16(rng, n):
    """DAG whose merges are mostly real merges (of revisions that are not ancestors of the
    left-hand parent), as a working tree would record them"""
    dag = G.gen_dag(rng, n, max_parents=1)
    ng = sum(1 for ps in dag["parents"].values() for p in ps if p >= GH0)
    for i in dag["order"]:
        ps = dag["parents"][i]
        if not ps or ps[0] >= GH0:
            continue
        anc0 = G.ref_anc(dag, ps[0])
        cands = [e for e in range(1, i) if e not in anc0]
        while cands and len(ps) < 3 and rng.random() < 0.55:
            x = rng.choice(cands)
            cands.remove(x)
            ps.append(x)
        if len(ps) < 3 and rng.random() < 0.12:
            ps.append(GH0 + ng)
            ng += 1
    return dag


TREE_OPS = ["rename", "move", "rename-dir", "remove", "remove-keep", "mkdir", "kind", "kind-file-dir", "chmod", "swap",
            "missing"]
FAM_MISSING = "missing-file-unversioned-by-commit"


def gen_cases(rng, dag):
    nodes = dag["order"]
    ghosts = sorted({p for ps in dag["parents"].values() for p in ps if p >= GH0})
    pool = nodes + ghosts
    cases = []
    for T in nodes:
        for d in range(1, len(G.ref_lh_stop_at_ghost(dag, T)) + 1):
            p0 = [] if rng.random() < 0.5 else rng.sample(pool, min(len(pool), rng.randint(1, 2)))
            p0 = [p for p in p0 if p != T]
            tags = {}
            for k in range(rng.randint(0, 4)):
                tags[k + 1] = rng.choice(pool)
            master = None
            local = False
            r = rng.random()
            if r < 0.3:
                mt = T if rng.random() < 0.8 else rng.choice(nodes)
                mtags = dict(tags) if rng.random() < 0.6 else {k + 1: rng.choice(pool) for k in range(rng.randint(0, 3))}
                master = dict(tip=mt, tags=mtags)
                local = rng.random() < 0.3
            elif r < 0.34:
                local = True
            # mostly uncommit with the tree; some with tree=None (branch only) and some as a dry run
            r2 = rng.random()
            f = "unc" if r2 < 0.72 else ("unt" if r2 < 0.88 else "und")
            cases.append(dict(f=f, tip=T, d=d, p0=p0, tags=tags, keep=rng.random() < 0.25,
                              master=master, local=local))
    # excluded inputs (the command refuses them before calling uncommit): revno outside 1..revno(T).
    # The real code is run and its behaviour counted; nothing is compared.
    T = rng.choice(nodes)
    cases.append(dict(f="excluded", tip=T, revno=rng.choice([0, len(G.ref_lh_stop_at_ghost(dag, T)) + 1,
                                                              len(G.ref_lh_stop_at_ghost(dag, T)) + 2])))
    # commit / uncommit round trips
    for _ in range(max(2, len(nodes) // 2)):
        T = rng.choice(nodes)
        p0 = [] if rng.random() < 0.4 else [p for p in rng.sample(pool, min(len(pool), rng.randint(1, 2))) if p != T]
        tags = {k + 1: rng.choice(pool) for k in range(rng.randint(0, 2))}
        master = dict(tip=T, tags=dict(tags)) if rng.random() < 0.4 else None
        local = False
        if master is not None and rng.random() < 0.5:
            # commit --local / uncommit --local: the master may be anywhere and is not touched
            local = True
            master = dict(tip=T if rng.random() < 0.5 else rng.choice(nodes), tags=dict(tags))
        ops = rng.sample(TREE_OPS, rng.randint(0, 4))
        cases.append(dict(f="cu", tip=T, p0=p0, tags=tags, master=master, local=local, ops=ops,
                          edit="edited %d\n" % rng.randint(0, 99), add=rng.random() < 0.4))
    return cases


def _worker(job):
    dag, cases = job
    dag = dict(order=list(dag["order"]), parents={k: list(v) for k, v in dag["parents"].items()})
    sc = Scenario(dag)          # corrects dag["parents"] to what the tree really committed
    out = [dag]
    try:
        for c in cases:
            if c["f"] in ("unc", "unt", "und"):
                before, err, after = sc.run_uncommit(c)
                ref = ref_for(dag, c, before)
                gobs = None
                if ref is not None:
                    gobs = sc.graph_obs(c["tip"], ref[1], ref[1])
                out.append(dict(before=before, err=err, after=after, gobs=gobs))
            elif c["f"] == "excluded":
                out.append(sc.run_excluded(c))
            else:
                out.append(sc.run_roundtrip(c))
    finally:
        sc.close()
    return out


# ---------------------------------------------------------------------------
# oracle

def ref_for(dag, c, before):
    """(new tip, new parents) the reference expects for the case (None: the walk meets a ghost); with
    tree=None nothing is re-recorded: the only 'parent' the tags are judged against is the new tip"""
    if c["f"] == "unt":
        ref = ref_uncommit(dag, c["tip"], c["d"], [])
        return None if ref is None else (ref[0], ref[1][:1])
    return ref_uncommit(dag, c["tip"], c["d"], before["parents"][1:])


def removed_revs(dag, c, before):
    """the revisions that leave the history: ancestors of the old tip and of none of the new parents"""
    ref = ref_for(dag, c, before)
    if ref is None:
        return None
    uniq = G.ref_anc(dag, c["tip"])
    for p in ref[1]:
        uniq = uniq - G.ref_anc(dag, p)
    return uniq


def expected_gone(dag, c, before):
    """names of the branch's tags that sit on removed revisions (None: walk meets a ghost)"""
    uniq = removed_revs(dag, c, before)
    if uniq is None:
        return None
    return set() if c["keep"] else {k for k, v in before["tags"].items() if v in uniq}


FAM_MASTER_TAGS = "unsynced-master-tags-removed-by-name"


def oracle_uncommit(dag, c, before, err, after, sink):
    out_of_step = (before["master"] is not None and not c["local"]
                   and before["master"]["tip"] != before["tip"])
    if out_of_step and err != "E:OutOfDate":
        sink("the master is at %s, the bound branch at %s, but uncommit did not refuse (%s): master now at %s"
             % (tip_s(before["master"]["tip"]), tip_s(before["tip"]), err or "ok", tip_s(after["master"]["tip"])), None)
        return
    if err is not None:
        if after != before:
            sink("%s raised but the state changed: %r -> %r" % (err, before, after), None)
        if err.startswith("E:other") or err == "E:Panic":
            sink("unexpected exception %s" % err, None)
        return
    ref = ref_for(dag, c, before)
    if ref is None:
        sink("uncommit walked into a ghost without raising", None)
        return
    if c["f"] == "und":
        if after != before:
            sink("dry_run=True changed the state: %r -> %r" % (before, after), None)
        return
    new_tip, parents = ref
    if c["f"] == "unt":
        # no tree was given: its parent list must be untouched; tip, revno and tags as below
        if after["parents"] != before["parents"]:
            sink("uncommit(tree=None) changed the tree's parents %s -> %s" % (before["parents"], after["parents"]), None)
    if after["tip"] != new_tip:
        sink("tip is %s, the %d-th left-hand ancestor of %s is %s" % (tip_s(after["tip"]), c["d"], c["tip"], tip_s(new_tip)), None)
    if after["revno"] != before["revno"] - c["d"]:
        sink("revno %d, expected %d" % (after["revno"], before["revno"] - c["d"]), None)
    lh = G.ref_lh(dag, after["tip"])
    if lh is not None and G.ref_lh(dag, c["tip"]) is not None and after["revno"] != len(lh):
        sink("revno %d but the tip's left-hand history has length %d" % (after["revno"], len(lh)), None)
    # tree parents
    if c["f"] == "unc":
        if after["parents"][:1] != ([after["tip"]] if after["tip"] is not None else []):
            sink("tree basis %s differs from branch tip %s" % (after["parents"][:1], tip_s(after["tip"])), None)
        if after["parents"] != ref_filter(dag, parents):
            sink("tree parents %s, expected %s (removed merges, older revision first, then previous pending merges)"
                 % (after["parents"], ref_filter(dag, parents)), None)
    # tags
    gone = expected_gone(dag, c, before)
    exp = {k: v for k, v in before["tags"].items() if k not in gone}
    if after["tags"] != exp:
        sink("tags %s, expected %s (dropped iff on a removed revision)" % (after["tags"], exp), None)
    if before["master"] is not None:
        m0, m1 = before["master"], after["master"]
        if c["local"]:
            if (m1["tip"], m1["revno"]) != (m0["tip"], m0["revno"]):
                sink("local uncommit changed the master tip", None)
            lost = {k: v for k, v in m0["tags"].items() if k not in m1["tags"]}
            if lost:
                sink("uncommit --local deleted tags %s of the master branch, whose history still contains "
                     "their revisions" % lost, "local-uncommit-deletes-master-tags")
            if {k: v for k, v in m1["tags"].items()} != {k: v for k, v in m0["tags"].items() if k in m1["tags"]}:
                sink("master tags rewritten", None)
        else:
            if (m1["tip"], m1["revno"]) != (after["tip"], after["revno"]):
                sink("master is at %s/%d, branch at %s/%d" % (tip_s(m1["tip"]), m1["revno"], tip_s(after["tip"]), after["revno"]), None)
            # the property, for the master's own tags: a tag goes iff keep_tags is off and its revision left the
            # history (the master's history is the branch's).  The code computes the removal from the BOUND
            # BRANCH's tags and applies it to the master by name: when the two tag dicts disagree a master tag on
            # a kept revision is deleted and a master tag on a removed revision stays.
            uniq = removed_revs(dag, c, before)
            expm = {k: v for k, v in m0["tags"].items() if c["keep"] or v not in uniq}
            by_name = {k: v for k, v in m0["tags"].items() if k not in gone}
            if m1["tags"] != expm:
                fam = None
                if m1["tags"] == by_name and any(before["tags"].get(k) != v for k, v in m0["tags"].items()):
                    fam = FAM_MASTER_TAGS
                wrongly_gone = {k: v for k, v in expm.items() if k not in m1["tags"]}
                wrongly_kept = {k: v for k, v in m1["tags"].items() if k not in expm}
                sink("master tags after uncommit %s, expected %s: deleted although their revision stays %s, kept "
                     "although their revision was removed %s (bound branch's tags: %s, removed revisions: %s)"
                     % (m1["tags"], expm, wrongly_gone, wrongly_kept, before["tags"], sorted(uniq)), fam)


def oracle_roundtrip(c, res, sink):
    if res["err"] is not None:
        sink("commit/uncommit raised %s" % res["err"], None)
        return
    b, a = res["before"], res["after"]
    if res["mid"]["tip"] != res["new"] or res["mid"]["parents"] != [res["new"]]:
        sink("commit did not advance the branch/tree to the new revision", None)
    if (a["tip"], a["revno"]) != (b["tip"], b["revno"]):
        sink("tip/revno %s/%d after commit+uncommit, was %s/%d" % (tip_s(a["tip"]), a["revno"], tip_s(b["tip"]), b["revno"]), None)
    if a["parents"] != b["parents"]:
        sink("tree parents %s after commit+uncommit, were %s" % (a["parents"], b["parents"]), None)
    if a["tags"] != b["tags"]:
        sink("tags changed by commit+uncommit: %s -> %s" % (b["tags"], a["tags"]), None)
    if a["master"] != b["master"]:
        sink("master state changed by commit+uncommit: %s -> %s" % (b["master"], a["master"]), None)
    if not res["files_same"]:
        sink("working tree files changed by commit+uncommit: %s (tree operations before the commit: %s)"
             % (res.get("files_diff"), res.get("ops")), None)
    if not res["changes_same"]:
        # a versioned file that was missing from disk: commit drops it from the working inventory, so afterwards
        # it is reported as unversioned instead of missing — everything else must be identical
        fam = None
        cb, ca = res.get("changes_before_full"), res.get("changes_after_full")
        if "missing" in (res.get("ops") or []) and cb is not None:
            norm = lambda l: sorted(  # noqa: E731
                (repr(x) for x in l if not (x[4][1] is None and x[2][0] is True)))
            was_missing = [x for x in cb if x[4][1] is None and x[2] == [True, True]]
            now = [x for x in ca if x[4][1] is None and x[2] == [True, False] and x[0][0] in [y[0][0] for y in was_missing]]
            if was_missing and len(now) == len(was_missing) and norm(cb) == norm(ca) and res["files_same"]:
                fam = FAM_MISSING
        sink("the tree reports different changes after commit+uncommit: %s (tree operations before the commit: %s)"
             % (res.get("changes_diff"), res.get("ops")), fam)


# ---------------------------------------------------------------------------

def run(ctx, ndags=None, maxn=None):
    ndags = ndags or ctx.pick(26, 260)
    maxn = maxn or ctx.pick(7, 10)
    jobs = []
    for _ in range(ndags):
        dag = gen_dag16(ctx.rng, ctx.rng.randint(3, maxn))
        jobs.append((dag, gen_cases(ctx.rng, dag)))
    results = ctx.pmap(_worker, jobs, chunksize=1)
    cases, lines, outs = [], [], []
    for (_, cs), res in zip(jobs, results):
        dag = res[0]
        res = res[1:]
        genc = G.enc_graph(dag)
        ctx.count("dag_size:%d" % len(dag["order"]))
        ctx.count("dag_merges:%d" % sum(1 for ps in dag["parents"].values() if len(ps) > 1))
        for c, r in zip(cs, res):
            case = dict(g=genc, **c)
            sink = lambda what, fam, case=case: ctx.violation(case, what, family=fam)  # noqa: E731
            if c["f"] in ("unc", "unt", "und"):
                before, err, after = r["before"], r["err"], r["after"]
                removed_merge = any(len(dag["parents"].get(x, [])) > 1
                                    for x in G.ref_lh_stop_at_ghost(dag, c["tip"])[:c["d"]])
                ctx.case(case, nontrivial=bool(removed_merge or before["parents"][1:] or c["tags"] or c["master"]))
                ctx.count("unc depth:%d" % c["d"])
                ctx.count("%s outcome:%s" % (c["f"], err or "ok"))
                ctx.count("unc bound:%s local:%s keep:%s" % ("T" if c["master"] else "F", "T" if c["local"] else "F",
                                                             "T" if c["keep"] else "F"))
                if removed_merge:
                    ctx.count("unc removes-merge")
                oracle_uncommit(dag, c, before, err, after, sink)
                cases.append(case)
                lines.append("%s %s %s %d %s %s" % (c["f"], genc, st_line(before), c["d"], "T" if c["keep"] else "F",
                                                    "T" if c["local"] else "F"))
                outs.append(err if err is not None else "ok " + st_line(after))
                if r["gobs"] is not None:
                    ref = ref_for(dag, c, before)
                    fua, hs = r["gobs"]
                    gcase = dict(f="graph", g=genc, tip=c["tip"], parents=ref[1])
                    cases += [gcase, gcase]
                    lines += ["fua %s %d %s" % (genc, c["tip"], revs_s(ref[1])),
                              "heads %s %s" % (genc, revs_s(ref[1]))]
                    outs += [fua, hs]
                    # the tree's own filtering against the reference
                    if err is None and after["parents"] != ref_filter(dag, ref[1]):
                        pass    # reported by the oracle above
            elif c["f"] == "excluded":
                rel = c["revno"] - r["before"]["revno"]
                ctx.count("excluded-input revno=%s: %s tip %s revno %d" % (
                    "0" if c["revno"] == 0 else "old%+d" % rel, r["err"] or "ok",
                    "null" if r["after"]["tip"] is None else ("unchanged" if r["after"]["tip"] == r["before"]["tip"] else "moved"),
                    r["after"]["revno"] - r["before"]["revno"]))
            else:
                ctx.case(case, nontrivial=True)
                ctx.count("roundtrip bound:%s local:%s pending:%d add:%s" % (
                    "T" if c["master"] else "F", "T" if c.get("local") else "F", len(r["before"]["parents"]) - 1,
                    "T" if c["add"] else "F"))
                ctx.count("roundtrip changes:%d" % min(len(r["changes"]), 9))
                for o in r.get("ops", []):
                    ctx.count("roundtrip op:%s" % (o if "!" not in o else o.split("!")[0] + " (not applicable)"))
                oracle_roundtrip(c, r, sink)
                cases.append(case)
                lines.append("%s %s %s %d" % ("cul" if c.get("local") else "cu", genc, st_line(r["before"]), r["new"]))
                outs.append(r["err"] if r["err"] is not None else "ok " + st_line(r["after"]))
    ctx.diff(cases, lines, outs)
    ctx.extra["dags"] = dict(n=ndags, max_revisions=maxn)
    fams = {}
    for v in ctx.violations:
        fams[str(v["family"])] = fams.get(str(v["family"]), 0) + 1
    ctx.extra["violation_families"] = fams


def widen(ctx):
    run(ctx, ndags=60, maxn=9)


def replay(ctx, case):
    dag = G._dag_from_enc(case["g"])
    sc = Scenario(dag)
    viol = []
    try:
        if case["f"] == "graph":
            fua, hs = sc.graph_obs(case["tip"], case["parents"], case["parents"])
            model = ctx.model(["fua %s %d %s" % (case["g"], case["tip"], revs_s(case["parents"])),
                               "heads %s %s" % (case["g"], revs_s(case["parents"]))])
            return dict(case=case, impl=[fua, hs], model=model)
        c = {k: v for k, v in case.items() if k != "g"}
        if isinstance(c.get("tags"), dict):
            c["tags"] = {int(k): v for k, v in c["tags"].items()}
        if c.get("master"):
            c["master"]["tags"] = {int(k): v for k, v in c["master"]["tags"].items()}
        if case["f"] == "excluded":
            return dict(case=case, impl=sc.run_excluded(c), model="(excluded input: not modelled)")
        if case["f"] in ("unc", "unt", "und"):
            before, err, after = sc.run_uncommit(c)
            oracle_uncommit(dag, c, before, err, after, lambda what, fam: viol.append((what, fam)))
            line = "%s %s %s %d %s %s" % (case["f"], case["g"], st_line(before), c["d"], "T" if c["keep"] else "F",
                                          "T" if c["local"] else "F")
            impl = err if err is not None else "ok " + st_line(after)
        else:
            r = sc.run_roundtrip(c)
            oracle_roundtrip(c, r, lambda what, fam: viol.append((what, fam)))
            line = "%s %s %s %d" % ("cul" if c.get("local") else "cu", case["g"], st_line(r["before"]), r["new"])
            impl = r["err"] if r["err"] is not None else "ok " + st_line(r["after"])
        for what, fam in viol:
            ctx.violation(case, what, family=fam)
        return dict(case=case, impl=impl, model=ctx.model([line])[0], oracle_failures=[w for w, _ in viol])
    finally:
        sc.close()
