"""Standalone repro: a freshly stacked branch (no revision of its own yet) served by the bzr smart
server cannot turn any revision number into a revision id: RemoteBranch.get_rev_id(n) raises
NoSuchRevision for every 1 <= n <= revno(), although the same branch opened locally answers.

usage: /venv/bin/python repro_tip_in_fallback.py [path-to-breezy-tree]   (default /repo)
exit 1 = defect present, 0 = absent
"""
import os, shutil, sys, tempfile
repo = sys.argv[1] if len(sys.argv) > 1 else "/repo"
sys.path.insert(0, repo)
home = tempfile.mkdtemp(prefix="c22-repro-", dir="/var/tmp")
os.environ.update(HOME=home, BRZ_HOME=home, BRZ_EMAIL="T <t@example.com>", BRZ_PLUGIN_PATH="-user:-site")
import breezy
breezy.initialize()
import breezy.bzr, breezy.bzr.bzrdir, breezy.bzr.groupcompress_repo  # noqa
from breezy import transport as T
from breezy.branch import Branch
from breezy.branchbuilder import BranchBuilder
from breezy.bzr.smart import server as S
from breezy.revisionspec import RevisionSpec

root = os.path.join(home, "srv")
os.mkdir(root)
bb = BranchBuilder(T.get_transport(os.path.join(root, "trunk")), format="2a")
bb.start_series()
a = bb.build_snapshot(None, [("add", ("", None, "directory", None))], revision_id=b"A")
b = bb.build_snapshot([a], [], revision_id=b"B")
c = bb.build_snapshot([b], [], revision_id=b"C")
bb.finish_series()
Branch.open(os.path.join(root, "trunk")).controldir.sprout(os.path.join(root, "feature"), stacked=True)   # brz branch --stacked
srv = S.SmartTCPServer(T.get_transport_from_path(root), client_timeout=60)
srv.start_server("127.0.0.1", 0)
srv.start_background_thread("-repro")
bad = 0
try:
    local = Branch.open(os.path.join(root, "feature"))
    remote = Branch.open(srv.get_url() + "feature")
    print("stacked on", remote.get_stacked_on_url(), "| last_revision_info", remote.last_revision_info())
    for n in (1, 2, 3):
        want = local.get_rev_id(n)
        try:
            got = remote.get_rev_id(n)
        except Exception as e:
            got = "%s: %s" % (type(e).__name__, e)
        print("get_rev_id(%d): local %r, over bzr:// %r" % (n, want, got))
        bad += got != want
    for s in ("2", "-1", "last:2", "before:3"):
        want = RevisionSpec.from_string(s).as_revision_id(local)
        try:
            got = RevisionSpec.from_string(s).as_revision_id(remote)
        except Exception as e:
            got = "%s: %s" % (type(e).__name__, e)
        print("-r %s: local %r, over bzr:// %r" % (s, want, got))
        bad += got != want
finally:
    srv.stop_background_thread()
    shutil.rmtree(home, ignore_errors=True)
print("DEFECT PRESENT (%d wrong answers)" % bad if bad else "ok")
sys.exit(1 if bad else 0)
