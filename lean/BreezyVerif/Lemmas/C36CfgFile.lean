import BreezyVerif.Model.C36
import BreezyVerif.Lemmas.C36Esc
/-! C36 — lemmas about dulwich's config value format / parse (`cfgFormat`, `cfgParse`). -/
namespace BreezyVerif.C36

/-- the five `replace` passes of `_escape_value` act as one character-wise substitution -/
def cfgEscOne (b : Nat) : NBytes :=
  if b = 92 then [92, 92] else if b = 13 then [92, 114] else if b = 10 then [92, 110]
  else if b = 9 then [92, 116] else if b = 34 then [92, 34] else [b]

theorem cfgEscape_nil : cfgEscape [] = [] := by simp [cfgEscape, replaceByte]

theorem cfgEscape_cons (x : Nat) (v : NBytes) : cfgEscape (x :: v) = cfgEscOne x ++ cfgEscape v := by
  have h : ∀ l : List Nat, x :: l = [x] ++ l := fun _ => rfl
  unfold cfgEscape
  rw [h v]
  simp only [replaceByte_append]
  congr 1
  unfold cfgEscOne replaceByte
  by_cases h1 : x = 92
  · subst h1; simp
  · by_cases h2 : x = 13
    · subst h2; simp
    · by_cases h3 : x = 10
      · subst h3; simp
      · by_cases h4 : x = 9
        · subst h4; simp
        · by_cases h5 : x = 34
          · subst h5; simp
          · simp [h1, h2, h3, h4, h5]

/-- one escaped byte (anything but a carriage return) is read back as that
byte, flushing the pending whitespace — inside quotes every byte, outside
quotes every byte but space, `#` and `;` -/
theorem go_escOne (inq : Bool) (ws : NBytes) (b : Nat) (tl : NBytes) (h13 : b ≠ 13)
    (hq : inq = false → b ≠ 32 ∧ b ≠ 35 ∧ b ≠ 59) (hws : inq = true → ws = []) (h32 : inq = true → b ≠ 32) :
    cfgParseGo inq false ws (cfgEscOne b ++ tl) = (cfgParseGo inq false [] tl).map (ws ++ b :: ·) := by
  unfold cfgEscOne
  by_cases h1 : b = 92
  · subst h1; simp [cfgParseGo, cfgUnescChar, Function.comp_def]
  · by_cases h3 : b = 10
    · subst h3; simp [cfgParseGo, cfgUnescChar, Function.comp_def]
    · by_cases h4 : b = 9
      · subst h4; simp [cfgParseGo, cfgUnescChar, Function.comp_def]
      · by_cases h5 : b = 34
        · subst h5; simp [cfgParseGo, cfgUnescChar, Function.comp_def]
        · simp only [h1, h13, h3, h4, h5, if_false, List.cons_append, List.nil_append]
          cases inq with
          | true =>
            have hb := h32 rfl
            have := hws rfl
            subst this
            simp [cfgParseGo, h1, h4, h5, hb]
          | false =>
            obtain ⟨a1, a2, a3⟩ := hq rfl
            simp [cfgParseGo, h1, h4, h5, a1, a2, a3]

theorem go_space_quoted (tl : NBytes) :
    cfgParseGo true false [] (32 :: tl) = (cfgParseGo true false [] tl).map (32 :: ·) := by
  simp [cfgParseGo]

theorem go_space_unquoted (ws tl : NBytes) :
    cfgParseGo false false ws (32 :: tl) = cfgParseGo false false (ws ++ [32]) tl := by
  simp [cfgParseGo]

/-- inside quotes the escaped text followed by the closing quote is read back as it was -/
theorem go_quoted : ∀ (v : NBytes), 13 ∉ v → cfgParseGo true false [] (cfgEscape v ++ [34]) = some v
  | [], _ => by simp [cfgEscape_nil, cfgParseGo]
  | b :: rest, h => by
    simp only [List.mem_cons, not_or] at h
    have ih := go_quoted rest h.2
    rw [cfgEscape_cons, List.append_assoc]
    by_cases hb : b = 32
    · subst hb
      have : cfgEscOne 32 = [32] := by decide
      rw [this]
      simp only [List.cons_append, List.nil_append]
      rw [go_space_quoted, ih]; rfl
    · rw [go_escOne true [] b _ (fun e => h.1 e.symm) (by simp) (by simp) (fun _ => hb), ih]; rfl

/-- outside quotes: no `#`, `;`, carriage return, and the text does not end with a space -/
theorem go_unquoted : ∀ (v ws : NBytes), 13 ∉ v → 35 ∉ v → 59 ∉ v → v.getLast? ≠ some 32 →
    (v = [] → ws = []) → cfgParseGo false false ws (cfgEscape v) = some (ws ++ v)
  | [], ws, _, _, _, _, h0 => by simp [cfgEscape_nil, cfgParseGo, h0 rfl]
  | b :: rest, ws, h13, h35, h59, hl, _ => by
    simp only [List.mem_cons, not_or] at h13 h35 h59
    rw [cfgEscape_cons]
    have hl' : rest ≠ [] → rest.getLast? ≠ some 32 := by
      intro hne
      cases rest with
      | nil => exact absurd rfl hne
      | cons r rs => simpa [List.getLast?_cons_cons] using hl
    by_cases hb : b = 32
    · subst hb
      have : cfgEscOne 32 = [32] := by decide
      rw [this]
      simp only [List.cons_append, List.nil_append]
      rw [go_space_unquoted]
      have hne : rest ≠ [] := by
        intro e; subst e; simp at hl
      rw [go_unquoted rest (ws ++ [32]) h13.2 h35.2 h59.2 (hl' hne) (fun e => absurd e hne)]
      simp
    · rw [go_escOne false ws b _ (fun e => h13.1 e.symm)
        (fun _ => ⟨hb, fun e => h35.1 e.symm, fun e => h59.1 e.symm⟩) (by simp) (by simp)]
      by_cases hne : rest = []
      · subst hne; simp [cfgEscape_nil, cfgParseGo]
      · rw [go_unquoted rest [] h13.2 h35.2 h59.2 (hl' hne) (fun _ => rfl)]
        simp

/-! ### `strip()` -/

theorem trimWs_wrap (x : NBytes) (hh : ∀ c, x.head? = some c → isWs c = false)
    (hl : ∀ c, x.getLast? = some c → isWs c = false) : trimWs (32 :: x ++ [10]) = x := by
  unfold trimWs
  have h32 : isWs 32 = true := by decide
  have h10 : isWs 10 = true := by decide
  cases x with
  | nil => simp [List.dropWhile, h32, h10]
  | cons a rest =>
    have ha := hh a rfl
    have h1 : (32 :: (a :: rest) ++ [10]).dropWhile isWs = a :: rest ++ [10] := by
      simp [List.dropWhile, h32, ha]
    rw [h1]
    have hrev : (a :: rest ++ [10]).reverse = 10 :: (a :: rest).reverse := by simp
    rw [hrev]
    cases hr : (a :: rest).reverse with
    | nil => simp at hr
    | cons z zs =>
      have hz : (a :: rest).getLast? = some z := by
        have : (a :: rest) = (z :: zs).reverse := by rw [← hr, List.reverse_reverse]
        rw [this]; simp
      have hzw := hl z hz
      simp only [List.dropWhile, h10, hzw]
      rw [← hr, List.reverse_reverse]

theorem cfgEscOne_ne_nil (b : Nat) : cfgEscOne b ≠ [] := by
  unfold cfgEscOne; repeat' split
  all_goals simp

theorem cfgEscOne_head (b c : Nat) (h : (cfgEscOne b).head? = some c) : c = 92 ∨ (c = b ∧ b ≠ 13 ∧ b ≠ 10 ∧ b ≠ 9) := by
  unfold cfgEscOne at h
  repeat' split at h
  all_goals simp at h
  all_goals first
    | (left; exact h.symm)
    | (right; subst h; refine ⟨rfl, ?_, ?_, ?_⟩ <;> assumption)

theorem cfgEscOne_last (b c : Nat) (h : (cfgEscOne b).getLast? = some c) :
    (c = 92 ∨ c = 114 ∨ c = 110 ∨ c = 116 ∨ c = 34) ∨ (c = b ∧ b ≠ 13 ∧ b ≠ 10 ∧ b ≠ 9) := by
  unfold cfgEscOne at h
  repeat' split at h
  all_goals simp at h
  all_goals first
    | (left; omega)
    | (right; subst h; refine ⟨rfl, ?_, ?_, ?_⟩ <;> assumption)

theorem cfgEscape_head (v : NBytes) (c : Nat) (h : (cfgEscape v).head? = some c) :
    ∃ b, v.head? = some b ∧ (c = 92 ∨ (c = b ∧ b ≠ 13 ∧ b ≠ 10 ∧ b ≠ 9)) := by
  cases v with
  | nil => simp [cfgEscape_nil] at h
  | cons b rest =>
    rw [cfgEscape_cons] at h
    refine ⟨b, rfl, ?_⟩
    have hne := cfgEscOne_ne_nil b
    cases he : cfgEscOne b with
    | nil => exact absurd he hne
    | cons x xs =>
      rw [he] at h
      simp only [List.cons_append, List.head?_cons, Option.some.injEq] at h
      exact cfgEscOne_head b c (by rw [he]; simp [h])

theorem cfgEscape_append (a b : NBytes) : cfgEscape (a ++ b) = cfgEscape a ++ cfgEscape b := by
  induction a with
  | nil => simp [cfgEscape_nil]
  | cons x xs ih => simp [cfgEscape_cons, ih]

theorem cfgEscape_last (v : NBytes) (c : Nat) (h : (cfgEscape v).getLast? = some c) :
    ∃ b, v.getLast? = some b ∧
      ((c = 92 ∨ c = 114 ∨ c = 110 ∨ c = 116 ∨ c = 34) ∨ (c = b ∧ b ≠ 13 ∧ b ≠ 10 ∧ b ≠ 9)) := by
  rcases List.eq_nil_or_concat v with hv | ⟨init, b, hv⟩
  · subst hv; simp [cfgEscape_nil] at h
  · subst hv
    rw [List.concat_eq_append] at h ⊢
    refine ⟨b, by simp, ?_⟩
    have : cfgEscape (init ++ [b]) = cfgEscape init ++ cfgEscOne b := by
      rw [cfgEscape_append, cfgEscape_cons, cfgEscape_nil, List.append_nil]
    rw [this, List.getLast?_append] at h
    cases hl : (cfgEscOne b).getLast? with
    | none =>
      exfalso
      have := cfgEscOne_ne_nil b
      cases he : cfgEscOne b with
      | nil => exact this he
      | cons x xs => rw [he] at hl; simp [List.getLast?_cons] at hl
    | some z =>
      rw [hl] at h
      have h' : z = c := by simpa using h
      subst h' 
      exact cfgEscOne_last b z hl

end BreezyVerif.C36
