"""C35 family symlink-renamed-from-banned-name: a symlink called `.git` (BANNED_FILENAMES: never exported to git) is
renamed to a legal name without changing its target.  _tree_to_objects then treats it as 'renamed, content
unchanged' and does not yield its blob, although the blob was never sent: after a push the git repository has a
tree that refers to a missing blob.  Exit 1 when an object reachable from a pushed commit is missing."""
import os, sys, tempfile, stat
REPO = os.environ.get("VERIF_REPO", "/repo")
home = tempfile.mkdtemp(prefix="c35repro-", dir="/var/tmp")
os.environ.update(HOME=home, BRZ_HOME=home, BRZ_EMAIL="T <t@example.com>", EMAIL="t@example.com")
sys.path.insert(0, REPO)
import breezy
breezy.initialize()
import breezy.bzr, breezy.git  # noqa
from breezy import plugin
plugin.load_plugins()
from breezy.controldir import ControlDir, format_registry
from breezy.repository import InterRepository

wt = ControlDir.create_standalone_workingtree(os.path.join(home, "native"), format=format_registry.make_controldir("2a"))
os.mkdir(wt.abspath("gg"))
open(wt.abspath("gg/zz"), "wb").write(b"x\n")
os.symlink("../x", wt.abspath("gg/.git"))
wt.add(["gg", "gg/zz", "gg/.git"])
wt.commit("r1", rev_id=b"r1", committer="T <t@example.com>")
wt.rename_one("gg/.git", "gg/link")
wt.commit("r2", rev_id=b"r2", committer="T <t@example.com>")

git = ControlDir.create(os.path.join(home, "git"), format=format_registry.make_controldir("git-bare")).open_repository()
repo = wt.branch.repository
with repo.lock_read():
    revidmap = InterRepository.get(repo, git).fetch_revs([(None, b"r2")], lossy=True)
store = git._git.object_store
missing = []


def walk(tree_sha, path):
    for e in store[tree_sha].iteritems():
        p = path + e.path.decode()
        if e.sha not in store:
            missing.append((p, e.sha.decode()))
        elif stat.S_ISDIR(e.mode):
            walk(e.sha, p + "/")


for revid, (sha, _) in sorted(revidmap.items()):
    walk(store[sha].tree, "")
    print(revid.decode(), "->", sha.decode(), "tree", store[sha].tree.decode())
print("missing objects:", missing)
sys.exit(1 if missing else 0)
