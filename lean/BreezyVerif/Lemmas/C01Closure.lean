import BreezyVerif.Lemmas.C01
/-!
C01 — what the delta-consistency closure (`_handle_precise_ids`, `C10.preciseLoop`)
may add to a path-selected change stream: only ids *pulled in* by one of its
three rules (`Pulled`), starting from the working-tree parents of the selected
changed entries.  Also: the closure does not terminate on every well-formed
pair of trees (`preciseLoop_diverges`).
-/
namespace BreezyVerif.C01
open BreezyVerif.C10

/-- the ids `_handle_precise_ids` may examine for a set `sel` of path-selected
ids: the working-tree parent of a selected changed entry, then, transitively,
the working-tree parent of an examined id, the basis entry sitting at the
working-tree path of an examined id (it is displaced), and the basis children
of an examined id that stopped being a directory -/
inductive Pulled (src tgt : Tree) (sel : List Id) : Id → Prop where
  | seed {x p : Id} {r : Change} : x ∈ sel → change src tgt x = some r → r.isChanged = true →
      (get tgt x).bind (·.parent) = some p → Pulled src tgt sel p
  | parent {x p : Id} : Pulled src tgt sel x → (get tgt x).bind (·.parent) = some p → Pulled src tgt sel p
  | displaced {x o : Id} {q : Path} : Pulled src tgt sel x → pathOf tgt x = some q → idAt src q = some o →
      Pulled src tgt sel o
  | child {x c : Id} {r : Change} : Pulled src tgt sel x → change src tgt x = some r → r.isChanged = true →
      stoppedDir r = true → c ∈ childrenOf src x → Pulled src tgt sel c

theorem change_tgtParent {src tgt : Tree} {i : Id} {r : Change} (h : change src tgt i = some r) :
    r.tgt.bind (·.parent) = (get tgt i).bind (·.parent) := by
  unfold change at h
  split at h
  · cases h
  · rename_i s hs ht; simp at h; subst h; simp [ht]
  · rename_i t hs ht; simp at h; subst h; simp [ht, Entry.meta]
  · rename_i s t hs ht; simp at h; subst h; simp [ht, Entry.meta]

/-- one `examine` of a pulled id keeps "everything pending or emitted is pulled" -/
theorem examine_pulled {src tgt : Tree} {sel : List Id} (st : C10.PState) (i : Id) (hi : Pulled src tgt sel i)
    (hp : ∀ j ∈ st.precise, Pulled src tgt sel j) (ho : ∀ c ∈ st.out, Pulled src tgt sel c.id) :
    (∀ j ∈ (examine src tgt st i).precise, Pulled src tgt sel j) ∧
    (∀ c ∈ (examine src tgt st i).out, Pulled src tgt sel c.id) := by
  cases hc : change src tgt i with
  | none =>
    have : examine src tgt st i = st := by simp [examine, hc]
    rw [this]; exact ⟨hp, ho⟩
  | some r =>
    have hpar : ∀ j, j ∈ addParent st.precise r → Pulled src tgt sel j := by
      intro j hj
      rcases mem_addParent.mp hj with h | h
      · exact hp j h
      · rw [change_tgtParent hc] at h
        exact Pulled.parent hi h
    by_cases hch : r.isChanged = true
    · have hst : examine src tgt st i =
          (C10.PState.mk (if stoppedDir r then unionNew (addParent st.precise r) (childrenOf src i)
                   else addParent st.precise r) (insertNew st.changed i) (st.out ++ [r])) := by
        simp [examine, hc, hch]
      rw [hst]
      refine ⟨?_, ?_⟩
      · intro j hj
        simp only at hj
        by_cases hs : stoppedDir r = true
        · simp only [hs, if_true] at hj
          rcases mem_unionNew.mp hj with h | h
          · exact hpar j h
          · exact Pulled.child hi hc hch hs h
        · simp only [hs] at hj
          exact hpar j hj
      · intro c hcm
        simp only [List.mem_append, List.mem_singleton] at hcm
        rcases hcm with h | h
        · exact ho c h
        · subst h; rw [change_id hc]; exact hi
    · have hch' : r.isChanged = false := by simpa using hch
      have hst : examine src tgt st i = C10.PState.mk (addParent st.precise r) st.changed st.out := by
        simp [examine, hc, hch']
      rw [hst]
      exact ⟨hpar, ho⟩

theorem examine_fold_pulled {src tgt : Tree} {sel : List Id} (l : List Id) :
    ∀ (st : C10.PState), (∀ i ∈ l, Pulled src tgt sel i) →
    (∀ j ∈ st.precise, Pulled src tgt sel j) → (∀ c ∈ st.out, Pulled src tgt sel c.id) →
    (∀ j ∈ (l.foldl (examine src tgt) st).precise, Pulled src tgt sel j) ∧
    (∀ c ∈ (l.foldl (examine src tgt) st).out, Pulled src tgt sel c.id) := by
  induction l with
  | nil => intro st _ hp ho; exact ⟨hp, ho⟩
  | cons x rest ih =>
    intro st hl hp ho
    obtain ⟨h1, h2⟩ := examine_pulled st x (hl x (by simp)) hp ho
    exact ih _ (fun i hi => hl i (List.mem_cons_of_mem _ hi)) h1 h2

/-- **every record the closure emits belongs to a pulled id** (both variants of
the loop: as found, `fx = false`, and with the `examined_file_ids` repair) -/
theorem preciseLoopG_pulled {src tgt : Tree} {sel : List Id} (fx : Bool) :
    ∀ (n : Nat) (st : C10.PState) (ex : List Id) (out : List Change),
      (∀ j ∈ st.precise, Pulled src tgt sel j) → (∀ c ∈ st.out, Pulled src tgt sel c.id) →
      preciseLoopG fx src tgt n st ex = some out → ∀ c ∈ out, Pulled src tgt sel c.id := by
  intro n
  induction n with
  | zero => intro st ex out _ _ h; simp [preciseLoopG] at h
  | succ n ih =>
    intro st ex out hp ho h
    unfold preciseLoopG at h
    simp only at h
    split at h
    · simp only [Option.some.injEq] at h
      subst h; exact ho
    · have hp1m : ∀ i ∈ st.precise.filter (fun i => !st.changed.contains i && !(fx && ex.contains i)),
          Pulled src tgt sel i :=
        fun i hi => hp i (List.mem_filter.mp hi).1
      have hcur : ∀ i ∈ unionNew (st.precise.filter fun i => !st.changed.contains i && !(fx && ex.contains i))
          (((st.precise.filter fun i => !st.changed.contains i && !(fx && ex.contains i)).filterMap
            fun i => (pathOf tgt i).bind (idAt src)).filter fun o => !(fx && (st.changed.contains o || ex.contains o))),
          Pulled src tgt sel i := by
        intro i hi
        rcases mem_unionNew.mp hi with h' | h'
        · exact hp1m i h'
        · have h'' := (List.mem_filter.mp h').1
          rw [List.mem_filterMap] at h''
          obtain ⟨x, hx, hxo⟩ := h''
          cases hq : pathOf tgt x with
          | none => simp [hq] at hxo
          | some q =>
            simp only [hq, Option.bind_some] at hxo
            exact Pulled.displaced (hp1m x hx) hq hxo
      obtain ⟨f1, f2⟩ := examine_fold_pulled _ { st with precise := [] } hcur (by simp) ho
      exact ih _ _ out f1 f2 h

theorem baseRemoved_sel {src tgt : Tree} {sel : List Id} {c : Change} (h : c ∈ baseRemoved src tgt sel) :
    c.id ∈ sel := by
  unfold baseRemoved at h
  rw [List.mem_filterMap] at h
  obtain ⟨i, hi, hc⟩ := h
  rw [List.mem_filter] at hi
  rw [change_id hc]
  have := hi.2
  simp only [Bool.and_eq_true] at this
  simpa using this.1

theorem tgtParents_pulled {src tgt : Tree} {sel : List Id} :
    ∀ j ∈ tgtParents (baseTgt src tgt sel false), Pulled src tgt sel j := by
  intro j hj
  unfold tgtParents at hj
  rcases mem_unionNew.mp hj with h | h
  · cases h
  · rw [List.mem_filterMap] at h
    obtain ⟨c, hc, hp⟩ := h
    obtain ⟨h1, h2, h3⟩ := baseTgt_true hc
    rw [change_tgtParent h1] at hp
    exact Pulled.seed h3 h1 h2 hp

/-- **the ids of a path-filtered change stream are selected or pulled** (both loop variants) -/
theorem filtered_ids_justified (fx : Bool) (impl : Impl) (src tgt : Tree) (filt : List Path) (reqv : Bool)
    (cs : List Change) (h : iterChangesG fx impl src tgt (some filt) false reqv = .ok cs) :
    ∀ c ∈ cs, c.id ∈ selectIds src tgt filt ∨ Pulled src tgt (selectIds src tgt filt) c.id := by
  cases filt with
  | nil =>
    simp [iterChangesG] at h
    subst h; simp
  | cons p f =>
    obtain ⟨extra, he, hcs⟩ := filteredG_shape fx impl src tgt p f reqv cs h
    intro c hc
    rw [hcs] at hc
    simp only [List.mem_append] at hc
    rcases hc with (hc | hc) | hc
    · exact Or.inl (baseTgt_true hc).2.2
    · exact Or.inl (baseRemoved_sel hc)
    · exact Or.inr (preciseLoopG_pulled fx _ _ _ extra tgtParents_pulled (by simp) he c hc)

/-! ### the closure as found (before /repo e6ca8fc) does not always terminate -/

def loopSrc : Tree :=
  [("r", ⟨none, "", .dir⟩), ("D", ⟨some "r", "d", .dir⟩), ("F", ⟨some "D", "f", .dir⟩),
   ("A", ⟨some "r", "a", .dir⟩), ("G", ⟨some "A", "f", .file "x" false⟩)]

/-- `a` renamed to `z`, `d` renamed to `a`, the file `a/f` moved into the
(unchanged) directory `d/f`, which now sits at `a/f` -/
def loopTgt : Tree :=
  [("r", ⟨none, "", .dir⟩), ("D", ⟨some "r", "a", .dir⟩), ("F", ⟨some "D", "f", .dir⟩),
   ("A", ⟨some "r", "z", .dir⟩), ("G", ⟨some "F", "g", .file "x" false⟩)]

def loopRec : Change :=
  ⟨"G", some ["a", "f"], some ["a", "f", "g"], false, some ⟨some "A", "f", .file, false⟩, some ⟨some "F", "g", .file, false⟩⟩


/-- the recurring round: `F` (unchanged) is needed, the basis entry at its
working path `a/f` is `G`; `G` is emitted once more and asks for its parent `F`
again, `F` asks for `D`, which is already emitted -/
theorem loop_round (n : Nat) (out : List Change) :
    preciseLoop loopSrc loopTgt (n + 1) ⟨["D", "F"], ["G", "D", "A"], out⟩ =
      preciseLoop loopSrc loopTgt n ⟨["D", "F"], ["G", "D", "A"], out ++ [loopRec]⟩ := by
  rfl

theorem loop_never : ∀ (n : Nat) (out : List Change),
    preciseLoop loopSrc loopTgt n ⟨["D", "F"], ["G", "D", "A"], out⟩ = none := by
  intro n
  induction n with
  | zero => intro out; rfl
  | succ n ih => intro out; rw [loop_round]; exact ih _

/-- the state `iter_changes(specific_files=["a/f/g"])` hands to the closure -/
def loopStart : C10.PState :=
  { precise := tgtParents (baseTgt loopSrc loopTgt (selectIds loopSrc loopTgt [["a", "f", "g"]]) false),
    changed := (baseTgt loopSrc loopTgt (selectIds loopSrc loopTgt [["a", "f", "g"]]) false
                ++ baseRemoved loopSrc loopTgt (selectIds loopSrc loopTgt [["a", "f", "g"]])).map (·.id),
    out := [] }

theorem loop_prefix (n : Nat) : ∃ out,
    preciseLoop loopSrc loopTgt (n + 3) loopStart =
      preciseLoop loopSrc loopTgt n ⟨["D", "F"], ["G", "D", "A"], out⟩ :=
  ⟨_, rfl⟩

/-- **the closure never terminates on this well-formed pair**, whatever the fuel -/
theorem preciseLoop_diverges (n : Nat) : preciseLoop loopSrc loopTgt n loopStart = none := by
  by_cases h : n < 3
  · have : n = 0 ∨ n = 1 ∨ n = 2 := by omega
    rcases this with h | h | h <;> subst h <;> rfl
  · obtain ⟨m, rfl⟩ : ∃ m, n = m + 3 := ⟨n - 3, by omega⟩
    obtain ⟨out, ho⟩ := loop_prefix m
    rw [ho]; exact loop_never m out

end BreezyVerif.C01
