/-
C43 — incremental uploads keep the remote directory equal to the tree.

Model of `breezy/plugins/upload/cmds.py: BzrUploader` over a remote file
system (a rose tree; the operations of the local directory transport with the
error kinds the uploader distinguishes): `upload_tree` = the tree delta applied
in the exact operation order of the code (removals with deferred directory
deletions, renames staged through root-level temporary names, `finish_renames`,
`finish_deletions`, kind changes, additions, modifications), `upload_full_tree`
(the `*_robustly` helpers, `_force_clear`), the `.bzrignore-upload` ignore list
(plain names: a path is ignored when one of its components is listed).

The marker file is not part of the modelled file system.
-/
namespace BreezyVerif.C43

abbrev Path := List String

inductive Node where
  | file (content : String) (exec : Bool)
  | link (target : String)
  | dir (kids : List (String × Node))

inductive Err where
  | noSuchFile | fileExists | dirNotEmpty | readError | notADir | invalidURL
  /-- `tree.get_file_text` on something that is not a file -/
  | treeError
  | notImplemented
  deriving DecidableEq, Repr

def Err.toString : Err → String
  | .noSuchFile => "NoSuchFile" | .fileExists => "FileExists" | .dirNotEmpty => "DirectoryNotEmpty"
  | .readError => "ReadError" | .notADir => "NotADirectoryError" | .invalidURL => "InvalidURL"
  | .treeError => "TreeError" | .notImplemented => "NotImplementedError"

/-- the errors that are `PathError`s (what `delete_remote_dir_maybe`,
`_force_clear` and `make_remote_dir_robustly` swallow) -/
def Err.isPathError : Err → Bool
  | .noSuchFile | .fileExists | .dirNotEmpty | .readError | .invalidURL => true
  | _ => false

abbrev Kids := List (String × Node)

def kget : Kids → String → Option Node
  | [], _ => none
  | (n, v) :: r, a => if n = a then some v else kget r a

/-- bind `a` (replace the first binding, else append) -/
def kput : Kids → String → Node → Kids
  | [], a, v => [(a, v)]
  | (n, w) :: r, a, v => if n = a then (a, v) :: r else (n, w) :: kput r a v

def kdel (k : Kids) (a : String) : Kids := k.filter (fun e => e.1 != a)

def kset (k : Kids) (a : String) : Option Node → Kids
  | some v => kput k a v
  | none => kdel k a

def lookup : Node → Path → Option Node
  | n, [] => some n
  | .dir kids, x :: r => match kget kids x with
    | some k => lookup k r
    | none => none
  | _, _ :: _ => none

/-- change the slot at `p`; `enotdir` is the error for a path that runs through
a non-directory -/
def modify (enotdir : Err) (f : Option Node → Except Err (Option Node)) : Node → Path → Except Err Node
  | _, [] => .error .readError
  | .dir kids, [x] => do
      let v ← f (kget kids x)
      pure (.dir (kset kids x v))
  | .dir kids, x :: y :: r =>
      match kget kids x with
      | some k => do
          let k' ← modify enotdir f k (y :: r)
          pure (.dir (kput kids x k'))
      | none => .error .noSuchFile
  | _, _ :: _ => .error enotdir

/-! ### transport operations (local directory transport) -/

def tPut (root : Node) (p : Path) (c : String) (x : Bool) : Except Err Node :=
  modify .notADir (fun
    | some (.dir _) => .error .readError
    | _ => .ok (some (.file c x))) root p

def tMkdir (root : Node) (p : Path) : Except Err Node :=
  modify .noSuchFile (fun
    | none => .ok (some (.dir []))
    | some _ => .error .fileExists) root p

def tRmdir (root : Node) (p : Path) : Except Err Node :=
  modify .noSuchFile (fun
    | some (.dir []) => .ok none
    | some (.dir _) => .error .dirNotEmpty
    | _ => .error .noSuchFile) root p

def tDelete (root : Node) (p : Path) : Except Err Node :=
  modify .noSuchFile (fun
    | some (.dir _) => .error .readError
    | some _ => .ok none
    | none => .error .noSuchFile) root p

def tDeleteTree (root : Node) (p : Path) : Except Err Node :=
  modify .noSuchFile (fun
    | some _ => .ok none
    | none => .error .noSuchFile) root p

def tSymlink (root : Node) (p : Path) (t : String) : Except Err Node :=
  modify .noSuchFile (fun
    | none => .ok (some (.link t))
    | some _ => .error .fileExists) root p

/-- `os.rename`: the source must exist; an existing target is replaced when the
kinds allow it -/
def tRename (root : Node) (a b : Path) : Except Err Node :=
  match lookup root a with
  | none => .error .noSuchFile
  | some n =>
    if a = [] then .error .readError else
    match modify .noSuchFile (fun _ => .ok none) root a with
    | .error e => .error e
    | .ok root1 =>
      modify .noSuchFile (fun
        | none => .ok (some n)
        | some (.dir ks) =>
          (match n with
            | .dir _ => if ks.isEmpty then .ok (some n) else .error .dirNotEmpty
            | _ => .error .readError)
        | some _ =>
          (match n with
            | .dir _ => .error .noSuchFile
            | _ => .ok (some n))) root1 b

/-! ### the tree being uploaded and the delta -/

inductive Kind where | file | dir | symlink
  deriving DecidableEq, Repr

/-- an entry of the revision tree that is uploaded -/
structure TEnt where
  path : Path
  kind : Kind
  content : String := ""
  exec : Bool := false
  target : String := ""
  deriving DecidableEq, Repr

abbrev Tree := List TEnt

def Tree.find (t : Tree) (p : Path) : Option TEnt := List.find? (fun e => e.path == p) t

structure Removed where
  path : Path
  kind : Kind
  deriving DecidableEq, Repr

structure Renamed where
  old : Path
  new : Path
  changedContent : Bool
  deriving DecidableEq, Repr

/-- a kind change: `old` is the path in the previously uploaded tree (it
differs from `path`, the path in the new tree, when an ancestor directory is
renamed in the same delta) -/
structure KindChanged where
  old : Path
  path : Path
  oldKind : Kind
  newKind : Kind
  deriving DecidableEq, Repr

structure Delta where
  removed : List Removed := []
  renamed : List Renamed := []
  kindChanged : List KindChanged := []
  /-- added: the new paths -/
  added : List Path := []
  /-- copied (only git trees report copies: content that also appears at a path the revision removes or renames
  away): the new paths.  `upload_tree` handles `changes.added + changes.copied` alike. -/
  copied : List Path := []
  modified : List Path := []
  deriving DecidableEq, Repr

/-- `is_ignored`: the ignore list holds plain names; a path is ignored when it
or one of its parents matches, i.e. when one of its components is listed -/
def ignored (names : List String) (p : Path) : Bool := p.any (fun c => names.contains c)

/-! ### the uploader -/

inductive Step where
  | delete (p : Path)
  | rmdir (p : Path)
  /-- `delete_remote_dir_maybe` -/
  | rmdirMaybe (p : Path)
  /-- `upload_file(dst, src)`: the text and mode of tree path `src` put at `dst` -/
  | uploadFile (dst src : Path)
  /-- `rename_remote(old, new)`: move `old` to the k-th temporary name -/
  | stage (old : Path) (k : Nat) (new : Path)
  | finishRenames
  | finishDeletions
  | mkdir (p : Path)
  /-- `upload_symlink(p, target)` -/
  | symlink (p : Path) (t : String)
  | fileRobust (p : Path)
  | symlinkRobust (p : Path) (t : String)
  | mkdirRobust (p : Path)
  | fail (e : Err)
  deriving DecidableEq, Repr

/-- the root-level temporary name of the k-th staged rename (the code uses
`.tmp.<time>.<pid>.<random>`; the check renumbers them in creation order) -/
def stamp (k : Nat) : Path := [s!".tmp.{k}"]

/-- which rename discipline: `asFound` stages in delta order (sorted by old
path: parents first) and finishes in the same order; `childrenFirst` stages in
reverse delta order and finishes in the order of the new paths -/
inductive Variant where | asFound | childrenFirst
  deriving DecidableEq, Repr

/-- which uploader is modelled: the rename discipline, and whether symlinks
are created through `upload_symlink_robustly` everywhere with a `_force_clear`
that also removes a regular file (`robustSymlinks = true`), or as found
(`upload_symlink` with the raw target in incremental uploads; `_force_clear`
leaves regular files alone).  The check probes the code under test. -/
structure Cfg where
  renames : Variant := .asFound
  robustSymlinks : Bool := false
  /-- a kind change removes the old object at the entry's NEW path (`true`) or,
  as found, at its OLD path - which no longer exists when an ancestor directory
  was renamed in the same delta, the renames being finished by then -/
  kindChangeAtNew : Bool := false
  /-- `upload_symlink` hands its paths to `Transport.symlink` WITHOUT `urlutils.escape` (every other
  operation escapes).  For the link paths the transport therefore does not take as they are: what happens
  instead - `none`: InvalidURL (a non-ASCII character; or the percent-decoded target no longer lies below the
  percent-decoded link's directory), `some p'`: the link is created at the percent-decoded path `p'`.
  Computed by the check from the real names (the model itself sees name tokens).  Empty for an uploader
  that escapes. -/
  badLinks : List (Path × Option Path) := []
  /-- `delete_remote_file` swallows NoSuchFile for `.bzrignore` / `.bzrignore-upload` (which a full upload
  never copies); as found (`false`) it does not -/
  tolerantSpecialDelete : Bool := false
  deriving DecidableEq, Repr

/-- what creating a symlink at `p` does: `none` = as asked -/
def linkFate (c : Cfg) (p : Path) : Option (Option Path) := (c.badLinks.find? (·.1 == p)).map (·.2)

def symlinkStep (c : Cfg) (p : Path) (t : String) : Step :=
  if c.robustSymlinks then .symlinkRobust p t else .symlink p t

def createSteps (c : Cfg) (t : Tree) (p : Path) : List Step :=
  match t.find p with
  | some e =>
    (match e.kind with
      | .file => [.uploadFile p p]
      | .dir => [.mkdir p]
      | .symlink => [symlinkStep c p e.target])
  | none => [.fail .treeError]

def renameSteps (ign : List String) : List Renamed → Nat → List Step
  | [], _ => []
  | r :: rest, k =>
    if ignored ign r.old && ignored ign r.new then renameSteps ign rest k
    else (if r.changedContent then [Step.uploadFile r.old r.new] else [])
      ++ Step.stage r.old k r.new :: renameSteps ign rest (k + 1)

/-- `upload_tree`, after the marker has been read: the steps in code order -/
def planInc (c : Cfg) (ign : List String) (t : Tree) (d : Delta) : List Step :=
  ((d.removed.filter (fun c => !ignored ign c.path)).map fun c =>
      match c.kind with
      | .dir => Step.rmdirMaybe c.path
      | _ => Step.delete c.path)
  ++ renameSteps ign (match c.renames with | .asFound => d.renamed | .childrenFirst => d.renamed.reverse) 0
  ++ [.finishRenames, .finishDeletions]
  ++ ((d.kindChanged.filter (fun k => !ignored ign k.path)).flatMap fun k =>
      (match k.oldKind with
        -- as found the code deletes at `change.path[0]`, after the renames have been finished
        | .dir => [Step.rmdir (if c.kindChangeAtNew then k.path else k.old)]
        | _ => [Step.delete (if c.kindChangeAtNew then k.path else k.old)]) ++ createSteps c t k.path)
  ++ (((d.added ++ d.copied).filter (fun p => !ignored ign p)).flatMap (createSteps c t))
  ++ ((d.modified.filter (fun p => !ignored ign p)).flatMap fun p =>
      match t.find p with
      | some e =>
        (match e.kind with
          | .file => [Step.uploadFile p p]
          | .symlink => [symlinkStep c p e.target]
          | .dir => [Step.fail .notImplemented])
      | none => [Step.fail .treeError])

/-- `upload_full_tree`: every entry in `iter_entries_by_dir` order -/
def planFull (ign : List String) (t : Tree) : List Step :=
  (t.filter fun e => e.path != [] && e.path != [".bzrignore"] && e.path != [".bzrignore-upload"]
      && !ignored ign e.path).map fun e =>
    match e.kind with
    | .file => Step.fileRobust e.path
    | .symlink => Step.symlinkRobust e.path e.target
    | .dir => Step.mkdirRobust e.path

structure State where
  root : Node
  pendingDel : List Path := []
  pendingRen : List (Nat × Path) := []

/-- `upload_file`: `tree.get_file_text(src)` and `tree.is_executable(src)` -/
def doUploadFile (t : Tree) (root : Node) (dst src : Path) : Except Err Node :=
  match t.find src with
  | some e =>
    (match e.kind with
      | .file => tPut root dst e.content e.exec
      -- `get_file_text` of a symlink or a directory is empty
      | _ => tPut root dst "" false)
  | none => .error .treeError

/-- `_force_clear`: a directory is removed recursively, a symlink deleted, a
file left alone; a missing path (any `PathError`) is fine -/
def forceClear (c : Cfg) (root : Node) (p : Path) : Except Err Node :=
  match lookup root p with
  | some (.dir _) => tDeleteTree root p
  | some (.link _) => tDelete root p
  | some (.file _ _) => if c.robustSymlinks then tDelete root p else .ok root
  | none => .ok root

/-- `Transport.symlink(target, p)` of the local transport: the target (a plain
name here) is resolved against the transport root and must lie below the
directory of the link — true only for links at the top level -/
def doSymlink (root : Node) (p : Path) (t : String) : Except Err Node :=
  if p.length ≤ 1 then tSymlink root p t else .error .invalidURL

def insertByNew : (Nat × Path) → List (Nat × Path) → List (Nat × Path)
  | x, [] => [x]
  | x, y :: r => if decide (x.2 ≤ y.2) then x :: y :: r else y :: insertByNew x r

def sortByNew (l : List (Nat × Path)) : List (Nat × Path) := l.foldr insertByNew []

/-- `finish_renames`: stops at the first failure, keeping what was done -/
def finishRen (root : Node) : List (Nat × Path) → Node × Option Err
  | [] => (root, none)
  | (k, new) :: rest =>
    match tRename root (stamp k) new with
    | .ok r => finishRen r rest
    | .error e => (root, some e)

/-- `finish_deletions` -/
def finishDel (root : Node) : List Path → Node × Option Err
  | [] => (root, none)
  | p :: rest =>
    match tRmdir root p with
    | .ok r => finishDel r rest
    | .error e => (root, some e)

def lift (s : State) : Except Err Node → State × Option Err
  | .ok r => ({ s with root := r }, none)
  | .error e => (s, some e)

/-- one step: the state reached and the error raised, if any -/
def exec (c : Cfg) (t : Tree) (s : State) : Step → State × Option Err
  | .delete p =>
    match tDelete s.root p with
    | .ok r => ({ s with root := r }, none)
    | .error e =>
      if c.tolerantSpecialDelete && (p == [".bzrignore"] || p == [".bzrignore-upload"]) && e == .noSuchFile then (s, none)
      else (s, some e)
  | .rmdir p => lift s (tRmdir s.root p)
  | .rmdirMaybe p =>
    match tRmdir s.root p with
    | .ok r => ({ s with root := r }, none)
    | .error e => if e.isPathError then ({ s with pendingDel := s.pendingDel ++ [p] }, none) else (s, some e)
  | .uploadFile dst src => lift s (doUploadFile t s.root dst src)
  | .stage old k new =>
    match tRename s.root old (stamp k) with
    | .ok r => ({ s with root := r, pendingRen := s.pendingRen ++ [(k, new)] }, none)
    | .error e => (s, some e)
  | .finishRenames =>
    let r := finishRen s.root (match c.renames with | .asFound => s.pendingRen | .childrenFirst => sortByNew s.pendingRen)
    ({ s with root := r.1, pendingRen := [] }, r.2)
  | .finishDeletions =>
    let r := finishDel s.root s.pendingDel.reverse
    ({ s with root := r.1, pendingDel := [] }, r.2)
  | .mkdir p => lift s (tMkdir s.root p)
  | .symlink p tg =>
    match linkFate c p with
    | none => lift s (doSymlink s.root p tg)
    | some none => (s, some .invalidURL)
    | some (some p') => lift s (doSymlink s.root p' tg)
  | .fileRobust p =>
    match forceClear c s.root p with
    | .ok r => lift { s with root := r } (doUploadFile t r p p)
    | .error e => (s, some e)
  | .symlinkRobust p tg =>
    -- the robust variant passes `normpath(dirname(p)/target)`, which does lie below the link's directory
    match forceClear c s.root p with
    | .ok r =>
      (match linkFate c p with
        | none => lift { s with root := r } (tSymlink r p tg)
        | some none => ({ s with root := r }, some .invalidURL)
        | some (some p') => lift { s with root := r } (tSymlink r p' tg))
    | .error e => (s, some e)
  | .mkdirRobust p =>
    match lookup s.root p with
    | some (.dir _) => (s, none)
    | some _ =>
      (match tDelete s.root p with
        | .ok r => lift { s with root := r } (tMkdir r p)
        | .error e => (s, some e))
    | none => lift s (tMkdir s.root p)
  | .fail e => (s, some e)

/-- run the steps; an error stops the upload where it is (nothing is undone) -/
def run (c : Cfg) (t : Tree) (s : State) : List Step → State × Option Err
  | [] => (s, none)
  | st :: rest =>
    match exec c t s st with
    | (s', none) => run c t s' rest
    | (s', some e) => (s', some e)

def uploadInc (c : Cfg) (ign : List String) (t : Tree) (d : Delta) (remote : Node) : Node × Option Err :=
  let r := run c t { root := remote } (planInc c ign t d)
  (r.1.root, r.2)

def uploadFull (c : Cfg) (ign : List String) (t : Tree) (remote : Node) : Node × Option Err :=
  let r := run c t { root := remote } (planFull ign t)
  (r.1.root, r.2)

/-- the paths a step addresses on the remote side -/
def Step.paths : Step → List Path
  | .delete p | .rmdir p | .rmdirMaybe p | .mkdir p | .symlink p _ | .fileRobust p
  | .symlinkRobust p _ | .mkdirRobust p => [p]
  | .uploadFile dst _ => [dst]
  | .stage old k new => [old, stamp k, new]
  | .finishRenames | .finishDeletions | .fail _ => []

/-! ### what the remote looks like, and "the remote equals the tree" -/

/-- what a listing of the remote shows at one path -/
inductive Obs where
  | file (content : String) (exec : Bool)
  | link (target : String)
  | dir
  deriving DecidableEq, Repr

def Node.obs : Node → Obs
  | .file c x => .file c x
  | .link t => .link t
  | .dir _ => .dir

/-- the listing of the remote at `p` -/
def look (root : Node) (p : Path) : Option Obs := (lookup root p).map Node.obs

def TEnt.obs (e : TEnt) : Obs :=
  match e.kind with
  | .file => .file e.content e.exec
  | .symlink => .link e.target
  | .dir => .dir

/-- the listing of the tree at `p` -/
def Tree.look (t : Tree) (p : Path) : Option Obs := (t.find p).map TEnt.obs

def kindAt (t : Tree) (p : Path) : Option Kind := (t.find p).map (·.kind)

/-- the two files a full upload never copies (an incremental upload does) -/
def special (p : Path) : Bool := p == [".bzrignore"] || p == [".bzrignore-upload"]

/-- `a` is a child of `b` -/
def isChildOf (a b : Path) : Bool := a != [] && a.dropLast == b

def pairwiseB {α : Type} (r : α → α → Bool) : List α → Bool
  | [] => true
  | a :: l => l.all (r a) && pairwiseB r l

/-- entry `e` may follow the entries `pre` in `iter_entries_by_dir` order: a
real path, not seen before, its parent directory listed before it -/
def parentOK (pre : Tree) (e : TEnt) : Bool :=
  e.path != [] && !(pre.any fun d => d.path == e.path)
    && (e.path.dropLast == [] || kindAt pre e.path.dropLast == some .dir)
    && !(special e.path && e.kind == .dir)

def wfFrom : Tree → Tree → Bool
  | _, [] => true
  | pre, e :: r => parentOK pre e && wfFrom (pre ++ [e]) r

/-- a tree as `iter_entries_by_dir` lists it (without the root): distinct
non-empty paths, every parent directory listed before its children; the two
special names are not directories -/
def treeWF (t : Tree) : Bool := wfFrom [] t

/-- `d` is a correct delta from `old` to `new` (on the paths that are not
ignored) in which no entry is renamed: what `Tree.changes_from` yields for such
a pair, with `removed` and `added` listing parents before children.  The same
path may be removed and added (a new file id at an old path).  The special
files are neither removed nor changed in kind (`special_file_removed_witness`). -/
def deltaOK (ign : List String) (old new : Tree) (d : Delta) : Bool :=
  let ok := fun (p : Path) => !ignored ign p
  let rm := d.removed.filter fun r => ok r.path
  let kc := d.kindChanged.filter fun k => ok k.path
  let ad := (d.added ++ d.copied).filter ok
  let md := d.modified.filter ok
  let rmP := rm.map (·.path)
  let kcP := kc.map (·.path)
  let kidsGone := fun (p : Path) => old.all fun e => !(isChildOf e.path p && ok e.path) || rmP.contains e.path
  (d.renamed.all fun r => ignored ign r.old && ignored ign r.new)
  && (rm.all fun r => r.path != [] && !special r.path && kindAt old r.path == some r.kind
        && ((new.find r.path).isNone || ad.contains r.path) && (r.kind != .dir || kidsGone r.path))
  && pairwiseB (fun a b => a.path != b.path && !isChildOf a.path b.path) rm
  && (kc.all fun k => k.old == k.path && k.path != [] && !special k.path && kindAt old k.path == some k.oldKind
        && kindAt new k.path == some k.newKind && k.oldKind != k.newKind && !rmP.contains k.path
        && (k.oldKind != .dir || kidsGone k.path))
  && pairwiseB (fun a b => a.path != b.path) kc
  && (ad.all fun p => p != [] && ((old.find p).isNone || rmP.contains p) && (new.find p).isSome)
  && pairwiseB (fun a b => a != b && !isChildOf a b) ad
  && (md.all fun p => p != [] && match old.find p, new.find p with
        | some o, some e => o.kind == e.kind && e.kind != .dir
        | _, _ => false)
  && (old.all fun o => !(ok o.path) || (new.find o.path).isSome || rmP.contains o.path)
  && (new.all fun e => !(ok e.path) || ad.contains e.path || match old.find e.path with
        | none => false
        | some o => if o.kind != e.kind then kcP.contains e.path else (o.obs == e.obs || md.contains e.path))

end BreezyVerif.C43
