import BreezyVerif.Common
import BreezyVerif.Model.C42
/-
C42 driver.

  exp <fmt tar|zip|zipx|dir> <special ~|hex> <filter ~|hex> <root hex> <subdir ~|hex> <ents>
      ents = `;`-joined `<path>|<name>|<kind f|d|l|o>|<content>|<exec T|F>|<target>` (`-` = none);
      every text is the hex of its UTF-8 bytes (`-` = empty)
      filter = suffix: regular files whose tree path ends with it are ASCII-upper-cased
      reply: `ok <members>` (`;`-joined `<name>|<kind>|<content>|<exec>|<target>`, `-` = none)
             or `E:<final path>` (unknown kind)
  root <dest hex>         reply: hex of `get_root_name(dest)`
  exts                    reply: `|`-joined hex of the registered extensions, in registration order
  split <hex>             reply: `|`-joined hex of `s.split("/")`
-/
namespace BreezyVerif.C42

def strOfHex (s : String) : Option Str := do
  let b ← fromHex s
  let t ← String.fromUTF8? (ByteArray.mk b.toArray)
  pure t.toList

def hexOfStr (s : Str) : String := toHex (String.ofList s).toUTF8.toList

def parseKind : String → Option Kind
  | "f" => some .file | "d" => some .dir | "l" => some .symlink | "o" => some .other | _ => none

def showKind : Kind → String
  | .file => "f" | .dir => "d" | .symlink => "l" | .other => "o"

def parseEnt (s : String) : Option Ent :=
  match s.splitOn "|" with
  | [p, n, k, c, x, t] => do
    pure { path := ← strOfHex p, name := ← strOfHex n, kind := ← parseKind k,
           content := ← fromHex c, exec := ← parseBool x, target := ← strOfHex t }
  | _ => none

def parseEnts (s : String) : Option (List Ent) :=
  if s == "-" then some [] else (s.splitOn ";").mapM parseEnt

def showMember (m : Member) : String :=
  s!"{hexOfStr m.name}|{showKind m.kind}|{toHex m.content}|{showBool m.exec}|{hexOfStr m.target}"

def showMembers (l : List Member) : String :=
  if l.isEmpty then "ok -" else "ok " ++ ";".intercalate (l.map showMember)

def upper (b : UInt8) : UInt8 := if 97 ≤ b.toNat ∧ b.toNat ≤ 122 then b - 32 else b

def filterOf : Option Str → Filter
  | none => fun _ c => c
  | some suf => fun p c => if endsWith p suf then c.map upper else c

def optStr (s : String) : Option (Option Str) :=
  if s == "~" then some none else (strOfHex s).map some

def handle : List String → String
  | ["exp", fmt, sp, fl, root, sub, ents] =>
    match optStr sp, optStr fl, strOfHex root, optStr sub, parseEnts ents with
    | some sp, some fl, some root, some sub, some ents =>
      let its := exportIter (specialOf sp) sub ents
      let f := filterOf fl
      if fmt == "tar" then
        match tarMembers f root its with
        | .ok ms => showMembers ms
        | .error p => "E:" ++ hexOfStr p
      else if fmt == "dir" then
        match dirMembers f its with
        | .ok ms => showMembers ms
        | .error p => "E:" ++ hexOfStr p
      else if fmt == "zip" then showMembers (zipMembers false f root its)
      else if fmt == "zipx" then showMembers (zipMembers true f root its)
      else "bad-op"
    | _, _, _, _, _ => "bad-op"
  | ["root", dest] =>
    match strOfHex dest with
    | some d => hexOfStr (rootName d)
    | none => "bad-op"
  | ["exts"] => "|".intercalate (extensions.map hexOfStr)
  | ["split", t] =>
    match strOfHex t with
    | some t => "|".intercalate ((splitSlash t).map hexOfStr)
    | none => "bad-op"
  | _ => "bad-op"

end BreezyVerif.C42

def main : IO Unit := BreezyVerif.runDriver BreezyVerif.C42.handle
