import BreezyVerif.Model.C37
import BreezyVerif.Lemmas.C37
/-! C37 — lemmas for the resolve form of the CAS condition, for the
classification of all two-updater schedules and for containers with a
packed-refs cache. -/
namespace BreezyVerif.C37

/-! ### `current` versus `readRef` / `follow` -/

theorem current_eq_readRef (s : Store) (r : Nat) :
    current s r = (match readRef s r with | some v => v | none => .sha 0) := by
  unfold current readRef
  cases lookup s.loose r with
  | some v => rfl
  | none =>
    cases lookup s.packed r with
    | some x => rfl
    | none => rfl

/-- `follow` fails only on a name that is itself a loose symbolic ref -/
theorem follow_none_sym (s : Store) (n : Nat) (h : follow s n = none) :
    ∃ t, lookup s.loose n = some (.sym t) := by
  unfold follow followAux at h
  cases hr : readRef s n with
  | none => simp [hr] at h
  | some v =>
    cases v with
    | sha x => simp [hr] at h
    | sym t =>
      refine ⟨t, ?_⟩
      unfold readRef at hr
      cases hl : lookup s.loose n with
      | some w => simpa [hl] using hr
      | none =>
        rw [hl] at hr
        cases hp : lookup s.packed n with
        | none => simp [hp] at hr
        | some x => simp [hp] at hr

/-! ### two updaters: every schedule -/

/-- an updater run to completion on `s` without interruption -/
def fin (s : Store) (u : Upd) : Store × Phase := stepUpd s u (readPhase s u)

theorem fin_eq_spec (s : Store) (u : Upd) : fin s u = specUpd s u := by
  unfold fin specUpd readPhase
  cases hk : u.kind with
  | set =>
    simp only [setIfEquals]
    by_cases h : current s (realName s u.name) = .sha u.old
    · simp [h, stepUpd]
    · simp [h, stepUpd]
  | add =>
    simp only [addIfNew]
    cases hf : follow s u.name with
    | none => simp [stepUpd]
    | some p =>
      obtain ⟨names, contents⟩ := p
      cases contents with
      | some c => simp [stepUpd]
      | none => simp [stepUpd]
  | rm =>
    simp only [removeIfEquals]
    by_cases h : current s u.name = .sha u.old
    · simp [h, stepUpd]
    · simp [h, stepUpd]

theorem step_finished (s : Store) (u : Upd) (p : Phase) (h : p.finished = true) : stepUpd s u p = (s, p) := by
  cases p <;> simp [Phase.finished] at h <;> rfl

theorem step_pending (s : Store) (u : Upd) (p : Phase) (h : p.pending = true) : (stepUpd s u p).2 = .done true := by
  cases p <;> simp [Phase.pending] at h <;> rfl

theorem read_fin_or_pending (s : Store) (u : Upd) :
    (readPhase s u).finished = true ∨ (readPhase s u).pending = true := by
  unfold readPhase
  cases u.kind with
  | set => simp only; split <;> simp [Phase.finished, Phase.pending]
  | add =>
    simp only
    cases follow s u.name with
    | none => simp [Phase.finished]
    | some p =>
      obtain ⟨names, contents⟩ := p
      cases contents <;> simp [Phase.finished, Phase.pending]
  | rm => simp only; split <;> simp [Phase.finished, Phase.pending]

theorem pending_not_finished (p : Phase) (h : p.pending = true) : p.finished = false := by
  cases p <;> simp [Phase.pending] at h <;> rfl

theorem step_read_finished (x s : Store) (u : Upd) : (stepUpd x u (readPhase s u)).2.finished = true := by
  rcases read_fin_or_pending s u with h | h
  · rw [step_finished _ _ _ h]; exact h
  · rw [step_pending _ _ _ h]; rfl

theorem fin_finished (s : Store) (u : Upd) : (fin s u).2.finished = true := step_read_finished s s u

theorem fin_of_read_finished (s : Store) (u : Upd) (h : (readPhase s u).finished = true) :
    fin s u = (s, readPhase s u) := step_finished _ _ _ h

/-- the states two updaters can be in, starting from `(s, idle, idle)` -/
inductive Reach (s : Store) (a b : Upd) : Store × Phase × Phase → Prop
  | i00 : Reach s a b (s, .idle, .idle)
  | i10 : Reach s a b (s, readPhase s a, .idle)
  | i01 : Reach s a b (s, .idle, readPhase s b)
  | i11 : Reach s a b (s, readPhase s a, readPhase s b)
  | a20 : Reach s a b ((fin s a).1, (fin s a).2, .idle)
  | a21 : Reach s a b ((fin s a).1, (fin s a).2, readPhase (fin s a).1 b)
  | a22 : Reach s a b ((fin (fin s a).1 b).1, (fin s a).2, (fin (fin s a).1 b).2)
  | b02 : Reach s a b ((fin s b).1, .idle, (fin s b).2)
  | b12 : Reach s a b ((fin s b).1, readPhase (fin s b).1 a, (fin s b).2)
  | b22 : Reach s a b ((fin (fin s b).1 a).1, (fin (fin s b).1 a).2, (fin s b).2)
  | ra21 : Reach s a b ((fin s a).1, (fin s a).2, readPhase s b)
  | ra22 : Reach s a b ((stepUpd (fin s a).1 b (readPhase s b)).1, (fin s a).2,
      (stepUpd (fin s a).1 b (readPhase s b)).2)
  | rb12 : Reach s a b ((fin s b).1, readPhase s a, (fin s b).2)
  | rb22 : Reach s a b ((stepUpd (fin s b).1 a (readPhase s a)).1,
      (stepUpd (fin s b).1 a (readPhase s a)).2, (fin s b).2)

theorem reach_step_a (s : Store) (a b : Upd) (st : Store × Phase × Phase) (h : Reach s a b st) :
    Reach s a b ((stepUpd st.1 a st.2.1).1, (stepUpd st.1 a st.2.1).2, st.2.2) := by
  cases h with
  | i00 => exact .i10
  | i10 => exact .a20
  | i01 => exact .i11
  | i11 => exact .ra21
  | a20 => simp only [step_finished _ a _ (fin_finished s a)]; exact .a20
  | a21 => simp only [step_finished _ a _ (fin_finished s a)]; exact .a21
  | a22 => simp only [step_finished _ a _ (fin_finished s a)]; exact .a22
  | b02 => exact .b12
  | b12 => exact .b22
  | b22 => simp only [step_finished _ a _ (fin_finished (fin s b).1 a)]; exact .b22
  | ra21 => simp only [step_finished _ a _ (fin_finished s a)]; exact .ra21
  | ra22 => simp only [step_finished _ a _ (fin_finished s a)]; exact .ra22
  | rb12 => exact .rb22
  | rb22 => simp only [step_finished _ a _ (step_read_finished (fin s b).1 s a)]; exact .rb22

theorem reach_step_b (s : Store) (a b : Upd) (st : Store × Phase × Phase) (h : Reach s a b st) :
    Reach s a b ((stepUpd st.1 b st.2.2).1, st.2.1, (stepUpd st.1 b st.2.2).2) := by
  cases h with
  | i00 => exact .i01
  | i10 => exact .i11
  | i01 => exact .b02
  | i11 => exact .rb12
  | a20 => exact .a21
  | a21 => exact .a22
  | a22 => simp only [step_finished _ b _ (fin_finished (fin s a).1 b)]; exact .a22
  | b02 => simp only [step_finished _ b _ (fin_finished s b)]; exact .b02
  | b12 => simp only [step_finished _ b _ (fin_finished s b)]; exact .b12
  | b22 => simp only [step_finished _ b _ (fin_finished s b)]; exact .b22
  | ra21 => exact .ra22
  | ra22 => simp only [step_finished _ b _ (step_read_finished (fin s a).1 s b)]; exact .ra22
  | rb12 => simp only [step_finished _ b _ (fin_finished s b)]; exact .rb12
  | rb22 => simp only [step_finished _ b _ (fin_finished s b)]; exact .rb22

theorem reach_run (s : Store) (a b : Upd) (l : List Bool) (st : Store × Phase × Phase) (h : Reach s a b st) :
    Reach s a b (runSched a b l st) := by
  induction l generalizing st with
  | nil => exact h
  | cons c rest ih =>
    obtain ⟨x, pa, pb⟩ := st
    cases c with
    | false => exact ih _ (reach_step_a s a b _ h)
    | true => exact ih _ (reach_step_b s a b _ h)

/-- sequential outcome "A then B" / "B then A" / the two raced outcomes -/
def seqAB (s : Store) (a b : Upd) : Store × Phase × Phase :=
  ((fin (fin s a).1 b).1, (fin s a).2, (fin (fin s a).1 b).2)

def seqBA (s : Store) (a b : Upd) : Store × Phase × Phase :=
  ((fin (fin s b).1 a).1, (fin (fin s b).1 a).2, (fin s b).2)

def racedAB (s : Store) (a b : Upd) : Store × Phase × Phase :=
  ((stepUpd (fin s a).1 b (readPhase s b)).1, (fin s a).2, (stepUpd (fin s a).1 b (readPhase s b)).2)

def racedBA (s : Store) (a b : Upd) : Store × Phase × Phase :=
  ((stepUpd (fin s b).1 a (readPhase s a)).1, (stepUpd (fin s b).1 a (readPhase s a)).2, (fin s b).2)

theorem reach_finished (s : Store) (a b : Upd) (st : Store × Phase × Phase) (h : Reach s a b st)
    (ha : st.2.1.finished = true) (hb : st.2.2.finished = true) :
    st = seqAB s a b ∨ st = seqBA s a b ∨
      ((readPhase s a).pending = true ∧ (readPhase s b).pending = true ∧
        (st = racedAB s a b ∨ st = racedBA s a b)) := by
  cases h with
  | i00 => simp [Phase.finished] at ha
  | i10 => simp [Phase.finished] at hb
  | i01 => simp [Phase.finished] at ha
  | a20 => simp [Phase.finished] at hb
  | b02 => simp [Phase.finished] at ha
  | i11 =>
    left
    simp only at ha hb
    simp [seqAB, fin_of_read_finished s a ha, fin_of_read_finished s b hb]
  | a21 =>
    left
    simp only at hb
    simp [seqAB, fin_of_read_finished _ b hb]
  | a22 => left; rfl
  | b12 =>
    right; left
    simp only at ha
    simp [seqBA, fin_of_read_finished _ a ha]
  | b22 => right; left; rfl
  | ra21 =>
    right; left
    simp only at hb
    have hE := fin_of_read_finished s b hb
    simp only [seqBA, hE]
  | rb12 =>
    left
    simp only at ha
    have hE := fin_of_read_finished s a ha
    simp only [seqAB, hE]
  | ra22 =>
    rcases read_fin_or_pending s b with hfb | hpb
    · right; left
      have hE := fin_of_read_finished s b hfb
      simp only [seqBA, hE, step_finished _ b _ hfb]
    · rcases read_fin_or_pending s a with hfa | hpa
      · left
        have hE := fin_of_read_finished s a hfa
        simp only [seqAB, hE]
        rfl
      · right; right
        exact ⟨hpa, hpb, Or.inl rfl⟩
  | rb22 =>
    rcases read_fin_or_pending s a with hfa | hpa
    · left
      have hE := fin_of_read_finished s a hfa
      simp only [seqAB, hE, step_finished _ a _ hfa]
    · rcases read_fin_or_pending s b with hfb | hpb
      · right; left
        have hE := fin_of_read_finished s b hfb
        simp only [seqBA, hE]
        rfl
      · right; right
        exact ⟨hpa, hpb, Or.inr rfl⟩

/-! progress: two steps finish an updater -/

def Phase.prog : Phase → Nat
  | .idle => 0
  | .willWrite _ => 1
  | .willDel _ => 1
  | .done _ => 2
  | .raised => 2

theorem prog_finished (p : Phase) : p.finished = true ↔ 2 ≤ p.prog := by
  cases p <;> simp [Phase.finished, Phase.prog]

theorem prog_read (s : Store) (u : Upd) : 1 ≤ (readPhase s u).prog := by
  rcases read_fin_or_pending s u with h | h
  · have := (prog_finished _).1 h; omega
  · revert h; cases readPhase s u <;> simp [Phase.pending, Phase.prog]

theorem prog_step (s : Store) (u : Upd) (p : Phase) : min 2 (p.prog + 1) ≤ (stepUpd s u p).2.prog := by
  cases p with
  | idle =>
    have := prog_read s u
    show min 2 (0 + 1) ≤ (readPhase s u).prog
    omega
  | willWrite r => simp [stepUpd, Phase.prog]
  | willDel n => simp [stepUpd, Phase.prog]
  | done b => simp [stepUpd, Phase.prog]
  | raised => simp [stepUpd, Phase.prog]

theorem prog_run (a b : Upd) (l : List Bool) (st : Store × Phase × Phase) :
    min 2 (st.2.1.prog + l.count false) ≤ (runSched a b l st).2.1.prog ∧
      min 2 (st.2.2.prog + l.count true) ≤ (runSched a b l st).2.2.prog := by
  induction l generalizing st with
  | nil => simp only [runSched, List.count_nil]; constructor <;> omega
  | cons c rest ih =>
    obtain ⟨x, pa, pb⟩ := st
    cases c with
    | false =>
      obtain ⟨h1, h2⟩ := ih ((stepUpd x a pa).1, (stepUpd x a pa).2, pb)
      have hs := prog_step x a pa
      have c1 : (false :: rest).count false = rest.count false + 1 := by simp
      have c2 : (false :: rest).count true = rest.count true := by simp
      simp only [runSched, c1, c2]
      simp only at h1 h2
      constructor <;> omega
    | true =>
      obtain ⟨h1, h2⟩ := ih ((stepUpd x b pb).1, pa, (stepUpd x b pb).2)
      have hs := prog_step x b pb
      have c1 : (true :: rest).count true = rest.count true + 1 := by simp
      have c2 : (true :: rest).count false = rest.count false := by simp
      simp only [runSched, c1, c2]
      simp only at h1 h2
      constructor <;> omega

/-! ### containers with a packed-refs cache -/

theorem view_coherent (c : Cache) (s : Store) (h : coherent c s = true) : view c s = s := by
  cases c with
  | none => rfl
  | some p =>
    simp only [coherent, beq_iff_eq] at h
    subst h
    cases s; rfl

theorem coherent_none (s : Store) : coherent none s = true := rfl

theorem coherent_same_packed (c : Cache) (s s' : Store) (hp : s'.packed = s.packed) (h : coherent c s = true) :
    coherent c s' = true := by
  cases c with
  | none => rfl
  | some p => simpa [coherent, hp] using h

theorem coherent_some_packed (s : Store) : coherent (some s.packed) s = true := by
  simp [coherent]

theorem write_packed (s : Store) (r new : Nat) : (write s r new).packed = s.packed := rfl

/-- a container whose cache is coherent behaves as the specification and its cache stays coherent
(every operation except the outside `pack`, which no container performs) -/
theorem stepC_coherent (c : Cache) (s : Store) (op : Op) (h : coherent c s = true) :
    (stepC c s op).1 = (specStep s op).1 ∧ (stepC c s op).2.1 = (specStep s op).2 ∧
      ((∀ n, op ≠ .pack n) → coherent (stepC c s op).2.2 (stepC c s op).2.1 = true) := by
  have hv := view_coherent c s h
  have hcp : coherent (some s.packed) s = true := coherent_some_packed s
  cases op with
  | set n old new =>
    simp only [stepC, specStep, setIfEquals, hv]
    have hc' : ∀ x : Store, x.packed = s.packed →
        coherent (if followLoads s 5 n then some s.packed else c) x = true := by
      intro x hx
      split
      · simp [coherent, hx]
      · exact coherent_same_packed c s x hx h
    cases old with
    | none => exact ⟨rfl, rfl, fun _ => hc' _ (write_packed _ _ _)⟩
    | some o =>
      by_cases hcur : current s (realName s n) = .sha o
      · simp only [hcur, if_true]
        exact ⟨trivial, trivial, fun _ => hc' _ (write_packed _ _ _)⟩
      · simp only [hcur, if_false]
        exact ⟨trivial, trivial, fun _ => hc' _ rfl⟩
  | rm n old =>
    simp only [stepC, specStep, removeIfEquals, hv]
    have hgo : coherent (some (erase s.packed n)) (del s n) = true := by simp [coherent, del]
    have hc1 : coherent (if old.isSome && (lookup s.loose n).isNone then some s.packed else c) s = true := by
      split
      · exact hcp
      · exact h
    cases old with
    | none => exact ⟨rfl, rfl, fun _ => hgo⟩
    | some o =>
      by_cases hcur : current s n = .sha o
      · simp only [hcur, if_true]
        exact ⟨trivial, trivial, fun _ => hgo⟩
      · simp only [hcur, if_false]
        exact ⟨trivial, trivial, fun _ => hc1⟩
  | add n x =>
    simp only [stepC, specStep, addIfNew, hv]
    have hc' : ∀ y : Store, y.packed = s.packed →
        coherent (if followLoads s 5 n then some s.packed else c) y = true := by
      intro y hy
      split
      · simp [coherent, hy]
      · exact coherent_same_packed c s y hy h
    cases hf : follow s n with
    | none => exact ⟨rfl, rfl, fun _ => hc' _ rfl⟩
    | some p =>
      obtain ⟨names, contents⟩ := p
      cases contents with
      | some v => exact ⟨rfl, rfl, fun _ => hc' _ rfl⟩
      | none => exact ⟨rfl, rfl, fun _ => hc' _ (write_packed _ _ _)⟩
  | pack n => exact ⟨rfl, rfl, fun hne => absurd rfl (hne n)⟩

/-- operations that leave packed-refs alone -/
def Op.keepsPacked : Op → Bool
  | .set _ _ _ => true
  | .add _ _ => true
  | _ => false

theorem stepC_keepsPacked (c : Cache) (s : Store) (op : Op) (hk : op.keepsPacked = true) :
    (stepC c s op).2.1.packed = s.packed := by
  cases op with
  | set n old new =>
    simp only [stepC]
    cases old with
    | none => rfl
    | some o => simp only []; split <;> rfl
  | add n x =>
    simp only [stepC]
    cases follow (view c s) n with
    | none => rfl
    | some p =>
      obtain ⟨names, contents⟩ := p
      cases contents <;> rfl
  | rm n old => simp [Op.keepsPacked] at hk
  | pack n => simp [Op.keepsPacked] at hk

theorem Op.keepsPacked_not_pack (op : Op) (hk : op.keepsPacked = true) : ∀ n, op ≠ .pack n := by
  intro n e; subst e; simp [Op.keepsPacked] at hk

theorem runCC_coherent (l : List (Bool × Op)) (st : Store × Cache × Cache) (h : cohRun l st = true) :
    (runCC stepC l st).1 = (runSpec (l.map Prod.snd) st.1).1 ∧
      (runCC stepC l st).2.1 = (runSpec (l.map Prod.snd) st.1).2 := by
  induction l generalizing st with
  | nil => exact ⟨rfl, rfl⟩
  | cons e rest ih =>
    obtain ⟨who, op⟩ := e
    obtain ⟨s, ca, cb⟩ := st
    cases op with
    | pack n =>
      simp only [cohRun, Bool.true_and] at h
      have := ih _ h
      simp only [runCC, runSpec, List.map_cons]
      exact ⟨by rw [this.1]; rfl, this.2⟩
    | set n old new =>
      simp only [cohRun, Bool.and_eq_true] at h
      obtain ⟨h1, h2, _⟩ := stepC_coherent (if who then cb else ca) s (.set n old new) h.1
      have := ih _ h.2
      simp only [runCC, runSpec, List.map_cons]
      cases who <;> simp_all
    | rm n old =>
      simp only [cohRun, Bool.and_eq_true] at h
      obtain ⟨h1, h2, _⟩ := stepC_coherent (if who then cb else ca) s (.rm n old) h.1
      have := ih _ h.2
      simp only [runCC, runSpec, List.map_cons]
      cases who <;> simp_all
    | add n x =>
      simp only [cohRun, Bool.and_eq_true] at h
      obtain ⟨h1, h2, _⟩ := stepC_coherent (if who then cb else ca) s (.add n x) h.1
      have := ih _ h.2
      simp only [runCC, runSpec, List.map_cons]
      cases who <;> simp_all

theorem cohRun_single (l : List (Bool × Op)) (s : Store) (ca cb : Cache)
    (hl : ∀ e ∈ l, e.1 = false ∧ ∀ n, e.2 ≠ .pack n) (h : coherent ca s = true) :
    cohRun l (s, ca, cb) = true := by
  induction l generalizing s ca with
  | nil => rfl
  | cons e rest ih =>
    obtain ⟨who, op⟩ := e
    have he := hl (who, op) (by simp)
    have hw : who = false := he.1
    subst hw
    have hrest : ∀ e ∈ rest, e.1 = false ∧ ∀ n, e.2 ≠ .pack n := fun e he' => hl e (by simp [he'])
    obtain ⟨_, _, h3⟩ := stepC_coherent ca s op h
    have h3 := h3 he.2
    cases op with
    | pack n => exact absurd rfl (he.2 n)
    | set n old new =>
      simp only [cohRun, Bool.and_eq_true]
      exact ⟨by simpa using h, ih _ _ hrest (by simpa using h3)⟩
    | rm n old =>
      simp only [cohRun, Bool.and_eq_true]
      exact ⟨by simpa using h, ih _ _ hrest (by simpa using h3)⟩
    | add n x =>
      simp only [cohRun, Bool.and_eq_true]
      exact ⟨by simpa using h, ih _ _ hrest (by simpa using h3)⟩

theorem cohRun_keepsPacked (l : List (Bool × Op)) (s : Store) (ca cb : Cache)
    (hl : ∀ e ∈ l, e.2.keepsPacked = true) (ha : coherent ca s = true) (hb : coherent cb s = true) :
    cohRun l (s, ca, cb) = true := by
  induction l generalizing s ca cb with
  | nil => rfl
  | cons e rest ih =>
    obtain ⟨who, op⟩ := e
    have hk : op.keepsPacked = true := hl (who, op) (by simp)
    have hrest : ∀ e ∈ rest, e.2.keepsPacked = true := fun e he' => hl e (by simp [he'])
    have hact : coherent (if who then cb else ca) s = true := by cases who <;> simpa
    obtain ⟨_, _, h3⟩ := stepC_coherent (if who then cb else ca) s op hact
    have h3 := h3 (Op.keepsPacked_not_pack op hk)
    have hp := stepC_keepsPacked (if who then cb else ca) s op hk
    have hoa := coherent_same_packed ca s _ hp ha
    have hob := coherent_same_packed cb s _ hp hb
    cases op with
    | pack n => simp [Op.keepsPacked] at hk
    | rm n old => simp [Op.keepsPacked] at hk
    | set n old new =>
      simp only [cohRun, Bool.and_eq_true]
      refine ⟨hact, ?_⟩
      cases who
      · exact ih _ _ _ hrest (by simpa using h3) (by simpa using hob)
      · exact ih _ _ _ hrest (by simpa using hoa) (by simpa using h3)
    | add n x =>
      simp only [cohRun, Bool.and_eq_true]
      refine ⟨hact, ?_⟩
      cases who
      · exact ih _ _ _ hrest (by simpa using h3) (by simpa using hob)
      · exact ih _ _ _ hrest (by simpa using hoa) (by simpa using h3)

theorem runCC_fix (l : List (Bool × Op)) (st : Store × Cache × Cache) :
    (runCC stepF l st).1 = (runSpec (l.map Prod.snd) st.1).1 ∧
      (runCC stepF l st).2.1 = (runSpec (l.map Prod.snd) st.1).2 := by
  induction l generalizing st with
  | nil => exact ⟨rfl, rfl⟩
  | cons e rest ih =>
    obtain ⟨who, op⟩ := e
    obtain ⟨s, ca, cb⟩ := st
    obtain ⟨h1, h2, _⟩ := stepC_coherent none s op rfl
    cases op with
    | pack n =>
      have := ih ((packRef s n).2, ca, cb)
      simp only [runCC, runSpec, List.map_cons, stepF, stepC, specStep]
      simp_all
    | set n old new =>
      simp only [runCC, runSpec, List.map_cons, stepF]
      cases who
      · have := ih ((stepC none s (.set n old new)).2.1, (stepC none s (.set n old new)).2.2, cb)
        simp_all
      · have := ih ((stepC none s (.set n old new)).2.1, ca, (stepC none s (.set n old new)).2.2)
        simp_all
    | rm n old =>
      simp only [runCC, runSpec, List.map_cons, stepF]
      cases who
      · have := ih ((stepC none s (.rm n old)).2.1, (stepC none s (.rm n old)).2.2, cb)
        simp_all
      · have := ih ((stepC none s (.rm n old)).2.1, ca, (stepC none s (.rm n old)).2.2)
        simp_all
    | add n x =>
      simp only [runCC, runSpec, List.map_cons, stepF]
      cases who
      · have := ih ((stepC none s (.add n x)).2.1, (stepC none s (.add n x)).2.2, cb)
        simp_all
      · have := ih ((stepC none s (.add n x)).2.1, ca, (stepC none s (.add n x)).2.2)
        simp_all

end BreezyVerif.C37
