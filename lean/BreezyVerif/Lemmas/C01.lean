import BreezyVerif.Model.C01
import BreezyVerif.Props.C10
/-!
C01 — helper lemmas: lookups in the committed inventory, true records of the
change stream, git path lookups.
-/
namespace BreezyVerif.C01
open BreezyVerif.C10

theorem get_recordOne (eff t : Tree) (j i : Id) :
    get (recordOne eff t j) i = if j = i then get eff j else get t i := by
  unfold recordOne
  split
  · rename_i e he
    rw [get_set]
    by_cases h : j = i
    · subst h; simp [he]
    · simp [h]
  · rename_i he
    rw [get_erase]
    by_cases h : j = i
    · subst h; simp [he]
    · simp [h]

theorem get_commitTree (eff : Tree) (S : List Id) (basis : Tree) (i : Id) :
    get (commitTree basis eff S) i = if i ∈ S then get eff i else get basis i := by
  unfold commitTree
  induction S generalizing basis with
  | nil => simp
  | cons j rest ih =>
    simp only [List.foldl_cons]
    rw [ih, get_recordOne]
    by_cases hr : i ∈ rest
    · simp [hr]
    · by_cases hj : j = i
      · subst hj; simp [hr]
      · have hij : ¬ i = j := fun h => hj h.symm
        simp [hr, hj, hij]

theorem get_filter_key (t : Tree) (p : Id → Bool) (i : Id) :
    C10.get (t.filter fun x => p x.1) i = if p i = true then C10.get t i else none := by
  induction t with
  | nil => simp [C10.get]
  | cons x rest ih =>
    obtain ⟨k, e⟩ := x
    simp only [List.filter_cons]
    by_cases hp : p k = true
    · simp only [hp, if_true, C10.get]
      by_cases hk : k = i
      · subst hk; simp [hp]
      · simp [hk, ih]
    · have hp' : p k = false := by simpa using hp
      simp only [hp', C10.get]
      by_cases hk : k = i
      · subst hk; simp [ih, hp']
      · simp [hk, ih]

theorem get_effective (w : WT) (i : Id) :
    get (effective w) i = if i ∈ w.missing then none else get w.inv i := by
  unfold effective
  rw [get_filter_key w.inv (fun k => !w.missing.contains k) i]
  by_cases h : i ∈ w.missing <;> simp [h]

/-- every record of the change stream is the true, changed record of its id -/
theorem reported_true {basis : Tree} {w : WT} {sel : Option (List Path)} {cs : List Change}
    (h : reportedChanges basis w sel = .ok cs) :
    ∀ c ∈ cs, change basis w.inv c.id = some c ∧ c.isChanged = true := by
  intro c hc
  cases sel with
  | none =>
    have : cs = changesOf basis w.inv := by
      simp [reportedChanges, iterChangesG] at h; exact h.symm
    subst this
    exact changesOf_true hc
  | some f =>
    exact changesOf_true ((filter_subset_complete_g true .generic basis w.inv f true cs h).1 c hc)

/-- ids at or below the selected paths in either tree (`none` selects everything) -/
def pathSelected (basis : Tree) (w : WT) (sel : Option (List Path)) (i : Id) : Prop :=
  match sel with
  | none => True
  | some f => i ∈ selectIds basis w.inv f

/-- every changed id the selection names is in the change stream -/
theorem reported_complete {basis : Tree} {w : WT} {sel : Option (List Path)} {cs : List Change}
    (h : reportedChanges basis w sel = .ok cs) {i : Id} (hs : pathSelected basis w sel i)
    {c : Change} (hc : change basis w.inv i = some c) (hch : c.isChanged = true) : c ∈ cs := by
  cases sel with
  | none =>
    have : cs = changesOf basis w.inv := by
      simp [reportedChanges, iterChangesG] at h; exact h.symm
    subst this
    exact mem_changesOf hc hch
  | some f =>
    exact (filter_subset_complete_g true .generic basis w.inv f true cs h).2 i hs c hc hch

theorem change_srcPath {src tgt : Tree} {i : Id} {c : Change} (h : change src tgt i = some c) :
    c.srcPath = (if (get src i).isSome then pathOf src i else none) ∧
    c.tgtPath = (if (get tgt i).isSome then pathOf tgt i else none) := by
  unfold change at h
  split at h
  · cases h
  · rename_i s hs ht; simp at h; subst h; simp [hs, ht]
  · rename_i t hs ht; simp at h; subst h; simp [hs, ht]
  · rename_i s t hs ht; simp at h; subst h; simp [hs, ht]

theorem keep_of_paths {src tgt : Tree} {i : Id} {c : Change} {excl : List Path}
    (h : change src tgt i = some c)
    (h1 : insideOpt excl (pathOf src i) = false) (h2 : insideOpt excl (pathOf tgt i) = false) :
    keepChange excl c = true := by
  obtain ⟨hs, ht⟩ := change_srcPath h
  unfold keepChange
  rw [hs, ht]
  have h0 : insideOpt excl none = false := rfl
  by_cases a : (get src i).isSome = true <;> by_cases b : (get tgt i).isSome = true <;>
    simp only [a, b, if_true, if_false, h1, h2, h0, Bool.or_false, Bool.not_false, Bool.false_eq_true]

theorem mem_commitIds {excl : List Path} {cs : List Change} {i : Id} :
    i ∈ commitIds excl cs ↔ ∃ c ∈ cs, keepChange excl c = true ∧ c.id = i := by
  unfold commitIds
  simp only [List.mem_map, List.mem_filter]
  constructor
  · rintro ⟨c, ⟨hc, hk⟩, hi⟩; exact ⟨c, hc, hk, hi⟩
  · rintro ⟨c, hc, hk, hi⟩; exact ⟨c, ⟨hc, hk⟩, hi⟩

theorem contentChanged_self (n : Node) : contentChanged n n = false := by
  cases n <;> simp [contentChanged]

/-- equal entries on both sides give an unchanged record -/
theorem unchanged_of_get_eq {a b : Tree} {i : Id} {c : Change} (hg : get a i = get b i)
    (h : change a b i = some c) : c.isChanged = false := by
  unfold change at h
  rw [hg] at h
  cases hb : get b i with
  | none => simp [hb] at h
  | some e =>
    simp [hb] at h
    subst h
    simp [Change.isChanged, contentChanged_self]

/-! ### git -/

theorem glookup_append (a b : GTree) (p : Path) :
    glookup (a ++ b) p = (glookup a p).orElse fun _ => glookup b p := by
  induction a with
  | nil => simp [glookup]
  | cons x rest ih =>
    obtain ⟨q, n⟩ := x
    by_cases h : q = p
    · simp [glookup, h]
    · simp [glookup, h, ih]

theorem glookup_filter_key (t : GTree) (f : Path → Bool) (p : Path) :
    glookup (t.filter fun x => f x.1) p = if f p = true then glookup t p else none := by
  induction t with
  | nil => simp [glookup]
  | cons x rest ih =>
    obtain ⟨q, n⟩ := x
    simp only [List.filter_cons]
    by_cases hf : f q = true
    · simp only [hf, if_true, glookup]
      by_cases hq : q = p
      · subst hq; simp [hf]
      · simp [hq, ih]
    · have hf' : f q = false := by simpa using hf
      simp only [hf', glookup]
      by_cases hq : q = p
      · subst hq; simp [ih, hf']
      · simp [hq, ih]

theorem glookup_written (wt : GTree) (l : List Path) (p : Path) :
    glookup (l.filterMap fun q => (glookup wt q).map fun n => (q, n)) p
      = if p ∈ l then glookup wt p else none := by
  induction l with
  | nil => simp [glookup]
  | cons q rest ih =>
    cases hq : glookup wt q with
    | none =>
      simp only [List.filterMap_cons, hq, Option.map_none]
      rw [ih]
      by_cases hp : q = p
      · subst hp; simp [hq]
      · have : ¬ p = q := fun h => hp h.symm
        simp [this]
    | some n =>
      simp only [List.filterMap_cons, hq, Option.map_some]
      by_cases hp : q = p
      · subst hp; simp [glookup, hq]
      · have : ¬ p = q := fun h => hp h.symm
        simp only [glookup, hp, if_false]
        rw [ih]
        simp [this]

/-- the reported change list names every working-tree path whose content differs
from the basis as the new path of some record -/
def gCovers (basis wt : GTree) (cs : List GChange) : Bool :=
  wt.all fun x => glookup basis x.1 == glookup wt x.1 || cs.any fun c => c.new == some x.1

/-- a record's old path is gone from the working tree unless the record stays
at that path (what a rename / removal / modification record means) -/
def gCoherent (wt : GTree) (cs : List GChange) : Bool :=
  cs.all fun c => match c.old with
    | none => true
    | some p => c.new == some p || (glookup wt p).isNone

theorem glookup_mem {t : GTree} {p : Path} {n : Node} (h : glookup t p = some n) : ∃ x ∈ t, x.1 = p := by
  induction t with
  | nil => simp [glookup] at h
  | cons x rest ih =>
    obtain ⟨q, m⟩ := x
    by_cases hq : q = p
    · exact ⟨(q, m), by simp, hq⟩
    · simp [glookup, hq] at h
      obtain ⟨y, hy, hyp⟩ := ih h
      exact ⟨y, List.mem_cons_of_mem _ hy, hyp⟩

theorem mem_gWritten {wt : GTree} {kept : List GChange} {c : GChange} {p : Path} (hc : c ∈ kept)
    (hn : c.new = some p) (hp : (glookup wt p).isSome = true) : p ∈ gWritten wt kept := by
  unfold gWritten
  rw [List.mem_filterMap]
  exact ⟨c, hc, by simp [hn, hp]⟩

theorem mem_gWritten_iff {wt : GTree} {kept : List GChange} {p : Path} :
    p ∈ gWritten wt kept ↔ (∃ c ∈ kept, c.new = some p) ∧ (glookup wt p).isSome = true := by
  unfold gWritten
  rw [List.mem_filterMap]
  constructor
  · rintro ⟨c, hc, h⟩
    cases hn : c.new with
    | none => simp [hn] at h
    | some q =>
      simp only [hn, Option.bind_some] at h
      split at h
      · rename_i hq; simp at h; subst h; exact ⟨⟨c, hc, hn⟩, hq⟩
      · cases h
  · rintro ⟨⟨c, hc, hn⟩, hp⟩
    exact ⟨c, hc, by simp [hn, hp]⟩

end BreezyVerif.C01
