import BreezyVerif.Lemmas.C03Walk
/-
C03 — the copy performed for an arbitrary search result `m` (`fetchWith`), under
the three facts a revision search has to provide (`SearchOK`); both the
one-batch search `missing` and the batched search `missingB n` provide them.
-/
namespace BreezyVerif.C03

open BreezyVerif.C33 (PMap parentsOf parentsL bfs Reach present allKeys present_iff)

/-! ### the batched search at repository level -/

theorem present_graph (r : Repo) (k : Rev) : present (graph r) k = hasRev r k := by
  unfold present hasRev
  rw [parentsOf_graph]
  cases get r.revs k <;> rfl

theorem walkB_some {g : PMap} {has : Rev → Bool} {n : Nat} {start : Rev} (hn : 0 < n) :
    ∃ w, walkB g has n start = some w ∧ WInv g has start w [] ∧ w.next = [] := by
  obtain ⟨w, hw, hinv, _, hnx⟩ := walkB_run (g := g) (has := has) (start := start) hn (fun _ _ => True)
    trivial (fun _ _ _ _ _ _ => trivial) (fun _ _ _ _ _ => trivial)
  exact ⟨w, hw, hinv, hnx⟩

theorem mem_missingB_false {n : Nat} {src tgt : Repo} {rev k : Rev} {w : Walk}
    (hw : walkB (graph src) (hasRev tgt) n rev = some w) :
    k ∈ missingB n false src tgt rev ↔ k ∈ w.seen ∧ k ∉ w.stopped := by
  unfold missingB
  simp [hw]

theorem missingB_sub_anc {n : Nat} (hn : 0 < n) {fg : Bool} {src tgt : Repo} {rev k : Rev}
    (h : k ∈ missingB n fg src tgt rev) : k ∈ anc src rev := by
  cases fg
  · obtain ⟨w, hw, hinv, _⟩ := walkB_some (g := graph src) (has := hasRev tgt) (start := rev) hn
    obtain ⟨h1, h2⟩ := (mem_missingB_false hw).mp h
    obtain ⟨hr, hp⟩ := final_sub hinv h1 h2
    rw [present_graph] at hp
    exact (mem_anc ..).mpr ⟨hr, hp⟩
  · exact ((mem_missing_true ..).mp (by simpa [missingB] using h)).1

theorem missingB_not_in_target {n : Nat} (hn : 0 < n) {fg : Bool} {src tgt : Repo} {rev k : Rev}
    (h : k ∈ missingB n fg src tgt rev) : hasRev tgt k = false := by
  cases fg
  · obtain ⟨w, hw, hinv, _⟩ := walkB_some (g := graph src) (has := hasRev tgt) (start := rev) hn
    obtain ⟨h1, h2⟩ := (mem_missingB_false hw).mp h
    exact final_notin hinv h1 h2
  · exact ((mem_missing_true ..).mp (by simpa [missingB] using h)).2

/-- a member of the ancestry is sent or lies behind (or is) a revision the target has -/
theorem anc_casesB {n : Nat} (hn : 0 < n) {fg : Bool} {src tgt : Repo} {rev k : Rev} (hk : k ∈ anc src rev) :
    k ∈ missingB n fg src tgt rev ∨
      (fg = true ∧ hasRev tgt k = true) ∨
      (fg = false ∧ Reach (graph src) [] ((anc src rev).filter (hasRev tgt)) k) := by
  cases fg
  · obtain ⟨w, hw, hinv, hnx⟩ := walkB_some (g := graph src) (has := hasRev tgt) (start := rev) hn
    obtain ⟨hr, hp⟩ := (mem_anc ..).mp hk
    rcases final_cases hinv hnx hr with h1 | h1 | ⟨x, hx1, hx2, hx3, hx4⟩
    · exact Or.inl ((mem_missingB_false hw).mpr h1)
    · obtain ⟨rec, hrec⟩ := (hasRev_iff ..).mp hp
      rw [parentsOf_graph, hrec] at h1
      cases h1
    · refine Or.inr (Or.inr ⟨rfl, ?_⟩)
      rw [present_graph] at hx2
      have hxa : x ∈ (anc src rev).filter (hasRev tgt) :=
        List.mem_filter.mpr ⟨(mem_anc ..).mpr ⟨hx3, hx2⟩, hx1⟩
      exact reach_trans (Reach.base hxa) hx4
  · cases ht : hasRev tgt k
    · exact Or.inl (by simpa [missingB] using (mem_missing_true ..).mpr ⟨hk, ht⟩)
    · exact Or.inr (Or.inl ⟨rfl, rfl⟩)

theorem anc_casesB_closed {n : Nat} (hn : 0 < n) {fg : Bool} {src tgt : Repo}
    (hc : fg = true ∨ closed tgt src = true) {rev k : Rev} (hk : k ∈ anc src rev) :
    k ∈ missingB n fg src tgt rev ∨ hasRev tgt k = true := by
  rcases anc_casesB hn (fg := fg) (tgt := tgt) hk with h | ⟨_, h⟩ | ⟨hfg, h⟩
  · exact Or.inl h
  · exact Or.inr h
  · rcases hc with hc | hc
    · simp [hfg] at hc
    · exact Or.inr (closed_reach hc (fun k hk => (List.mem_filter.mp hk).2) h ((mem_anc ..).mp hk).2)

theorem reach_from_ghost {g : PMap} {s k : Rev} (hs : parentsOf g s = none) (hr : Reach g [] [s] k) : k = s := by
  induction hr with
  | base hk => simpa using hk
  | step _ _ hps _ ih =>
    subst ih
    rw [hs] at hps
    cases hps

/-- nothing is reachable from a revision the source does not have -/
theorem anc_of_absent {src : Repo} {rev : Rev} (h : hasRev src rev = false) : anc src rev = [] := by
  apply List.eq_nil_iff_forall_not_mem.mpr
  intro k hk
  obtain ⟨hr, hp⟩ := (mem_anc ..).mp hk
  have hnone : parentsOf (graph src) rev = none := by
    rw [parentsOf_graph]
    unfold hasRev at h
    cases hg : get src.revs rev with
    | none => rfl
    | some v => simp [hg] at h
  have := reach_from_ghost hnone hr
  subst this
  rw [h] at hp
  cases hp

/-- a search for a revision the target already holds finds nothing, whatever the batch size -/
theorem missingB_nil_of_held {n : Nat} (hn : 0 < n) {src tgt : Repo} {rev : Rev}
    (ht : hasRev tgt rev = true) : missingB n false src tgt rev = [] := by
  cases hs : hasRev src rev
  · apply List.eq_nil_iff_forall_not_mem.mpr
    intro k hk
    have := missingB_sub_anc hn hk
    rw [anc_of_absent hs] at this
    cases this
  · obtain ⟨w, hw, hnil⟩ := walkB_held_nil (g := graph src) (has := hasRev tgt) (start := rev) hn
      (by rw [present_graph]; exact hs) ht
    unfold missingB
    simp only [Bool.false_eq_true, if_false, hw]
    exact hnil

/-! ### what the copy theorems need from a search -/

structure SearchOK (fg : Bool) (src tgt : Repo) (rev : Rev) (m : List Rev) : Prop where
  sub : ∀ k ∈ m, k ∈ anc src rev
  notin : ∀ k ∈ m, hasRev tgt k = false
  cover : (fg = true ∨ closed tgt src = true) → ∀ k ∈ anc src rev, k ∈ m ∨ hasRev tgt k = true

theorem searchOK_missing (fg : Bool) (src tgt : Repo) (rev : Rev) :
    SearchOK fg src tgt rev (missing fg src tgt rev) where
  sub := fun _ hk => missing_sub_anc hk
  notin := fun _ hk => missing_not_in_target hk
  cover := fun hc _ hk => anc_cases_closed hc hk

theorem searchOK_missingB {n : Nat} (hn : 0 < n) (fg : Bool) (src tgt : Repo) (rev : Rev) :
    SearchOK fg src tgt rev (missingB n fg src tgt rev) where
  sub := fun _ hk => missingB_sub_anc hn hk
  notin := fun _ hk => missingB_not_in_target hn hk
  cover := fun hc _ hk => anc_casesB_closed hn hc hk

/-! ### the shape of a successful copy -/

theorem fetchWithE_ok {ext : Bool} {src tgt t' : Repo} {m : List Rev} {es : List Entry}
    (h : fetchWithE ext src tgt m es = .ok t') :
    streamableE src m es = true ∧
    t'.revs = (copyE src tgt m es).revs ∧
    t'.texts = copyMap src.texts tgt.texts es ∧
    t'.invs = (copyE src tgt m es).invs ++ (if ext then parentInvFill src (copyE src tgt m es) m else []) := by
  unfold fetchWithE at h
  split at h
  · cases h
  · rename_i h2
    simp only [Except.ok.injEq] at h
    subst h
    refine ⟨by simpa using h2, ?_, ?_, ?_⟩ <;> cases ext <;> simp [withParentInvs, copyE, copyMap]

theorem fetch_eq_fetchWithE (x : Exclusion) (ext fg : Bool) (src tgt : Repo) (rev : Rev) :
    fetch x ext fg src tgt rev =
      if !hasRev src rev && (fg || !hasRev tgt rev) then .error .noSuchRevision
      else fetchWithE ext src tgt (missing fg src tgt rev) (streamEntries x src (missing fg src tgt rev)) := by
  unfold fetch fetchWithE
  rfl

theorem fetchB_ok {n : Nat} {s : StreamKind} {ext fg : Bool} {src tgt t' : Repo} {rev : Rev}
    (h : fetchB n s ext fg src tgt rev = .ok t') :
    (hasRev src rev = true ∨ (fg = false ∧ hasRev tgt rev = true)) ∧
      fetchWithE ext src tgt (missingB n fg src tgt rev) (s.entries src (missingB n fg src tgt rev)) = .ok t' := by
  unfold fetchB at h
  split at h
  · cases h
  · rename_i h1
    refine ⟨?_, h⟩
    cases hs : hasRev src rev <;> cases hf : fg <;> cases ht : hasRev tgt rev <;> simp_all

theorem fetch_ok' {x : Exclusion} {ext fg : Bool} {src tgt t' : Repo} {rev : Rev}
    (h : fetch x ext fg src tgt rev = .ok t') :
    fetchWithE ext src tgt (missing fg src tgt rev) (streamEntries x src (missing fg src tgt rev)) = .ok t' := by
  rw [fetch_eq_fetchWithE] at h
  split at h
  · cases h
  · exact h

theorem copyE_revs_get (src tgt : Repo) (m : List Rev) (es : List Entry) (k : Rev) :
    get (copyE src tgt m es).revs k =
      match get tgt.revs k with
      | some v => some v
      | none => if k ∈ m then get src.revs k else none := by
  unfold copyE
  cases h : get tgt.revs k with
  | some v => exact get_append_some h
  | none => simp only [get_append_none h, get_filterMap_keyed]

theorem copyE_invs_get (src tgt : Repo) (m : List Rev) (es : List Entry) (k : Rev) :
    get (copyE src tgt m es).invs k =
      match get tgt.invs k with
      | some v => some v
      | none => if k ∈ m then get src.invs k else none := by
  unfold copyE
  cases h : get tgt.invs k with
  | some v => exact get_append_some h
  | none => simp only [get_append_none h, get_filterMap_keyed]

theorem copyMap_get {β : Type} (sm tm : List (TextKey × β)) (es : List Entry) (k : TextKey) :
    get (copyMap sm tm es) k =
      match get tm k with
      | some v => some v
      | none => if k ∈ es.map Entry.key then get sm k else none := by
  unfold copyMap
  cases h : get tm k with
  | some v => exact get_append_some h
  | none =>
    simp only [get_append_none h]
    have := get_filterMap_keyOf Entry.key (get sm) es k
    by_cases hk : k ∈ es.map Entry.key
    · rw [if_pos hk] at this ⊢; exact this
    · rw [if_neg hk] at this ⊢; exact this

section Shape
variable {ext : Bool} {src tgt t' : Repo} {m : List Rev} {es : List Entry}

theorem fetchWith_revs_get (h : fetchWithE ext src tgt m es = .ok t') (k : Rev) :
    get t'.revs k =
      match get tgt.revs k with
      | some v => some v
      | none => if k ∈ m then get src.revs k else none := by
  rw [(fetchWithE_ok h).2.1]; exact copyE_revs_get ..

theorem fetchWith_texts_get (h : fetchWithE ext src tgt m es = .ok t') (k : TextKey) :
    get t'.texts k =
      match get tgt.texts k with
      | some v => some v
      | none => if k ∈ es.map Entry.key then get src.texts k else none := by
  rw [(fetchWithE_ok h).2.2.1, copyMap_get]
  cases get tgt.texts k <;> rfl

theorem fetchWith_invs_old (h : fetchWithE ext src tgt m es = .ok t') {k : Rev} {i : Inv}
    (hi : get tgt.invs k = some i) : get t'.invs k = some i := by
  rw [(fetchWithE_ok h).2.2.2]
  apply get_append_some
  rw [copyE_invs_get, hi]

theorem fetchWith_invs_new (h : fetchWithE ext src tgt m es = .ok t') {k : Rev} {i : Inv}
    (hn : get tgt.invs k = none) (hk : k ∈ m) (hi : get src.invs k = some i) : get t'.invs k = some i := by
  rw [(fetchWithE_ok h).2.2.2]
  apply get_append_some
  rw [copyE_invs_get, hn]
  simp [hk, hi]

/-- the inventory of a revision of `m` is the source's afterwards (ids identify content) -/
theorem fetchWith_inv_of_sent (h : fetchWithE ext src tgt m es = .ok t') (ha : agree src tgt = true)
    {k : Rev} (hk : k ∈ m) {i : Inv} (hi : get src.invs k = some i) : get t'.invs k = some i := by
  cases hti : get tgt.invs k with
  | some i' =>
    have : i = i' := agreeOn_eq (agree_invs ha) hti hi
    subst this
    exact fetchWith_invs_old h hti
  | none => exact fetchWith_invs_new h hti hk hi

theorem fetchWith_monotone (h : fetchWithE ext src tgt m es = .ok t') :
    (∀ k v, get tgt.revs k = some v → get t'.revs k = some v) ∧
    (∀ k v, get tgt.invs k = some v → get t'.invs k = some v) ∧
    (∀ k v, get tgt.texts k = some v → get t'.texts k = some v) := by
  refine ⟨fun k v hv => ?_, fun k v hv => fetchWith_invs_old h hv, fun k v hv => ?_⟩
  · rw [fetchWith_revs_get h, hv]
  · rw [fetchWith_texts_get h, hv]

theorem fetchWith_hasRev_old (h : fetchWithE ext src tgt m es = .ok t') {k : Rev} (hk : hasRev tgt k = true) :
    hasRev t' k = true := by
  obtain ⟨v, hv⟩ := (hasRev_iff ..).mp hk
  exact (hasRev_iff ..).mpr ⟨v, (fetchWith_monotone h).1 k v hv⟩

theorem fetchWith_hasRev_sent (h : fetchWithE ext src tgt m es = .ok t') {k : Rev} (hk : k ∈ m)
    (hs : hasRev src k = true) : hasRev t' k = true := by
  obtain ⟨rec, hrec⟩ := (hasRev_iff ..).mp hs
  rw [hasRev_iff, fetchWith_revs_get h]
  cases hg : get tgt.revs k with
  | some v => exact ⟨v, rfl⟩
  | none => exact ⟨rec, by simp [hk, hrec]⟩

/-- a revision of the target afterwards was there before or was sent -/
theorem fetchWith_hasRev_inv (h : fetchWithE ext src tgt m es = .ok t') {k : Rev} (hk : hasRev t' k = true) :
    hasRev tgt k = true ∨ (k ∈ m ∧ hasRev src k = true) := by
  obtain ⟨v, hv⟩ := (hasRev_iff ..).mp hk
  rw [fetchWith_revs_get h] at hv
  cases hg : get tgt.revs k with
  | some w => exact Or.inl ((hasRev_iff ..).mpr ⟨w, hg⟩)
  | none =>
    simp only [hg] at hv
    by_cases hm : k ∈ m
    · simp only [hm, if_true] at hv
      exact Or.inr ⟨hm, (hasRev_iff ..).mpr ⟨v, hv⟩⟩
    · simp [hm] at hv

theorem streamableE_inv (h : streamableE src m es = true) {k : Rev} (hk : k ∈ m) : ∃ i, get src.invs k = some i := by
  unfold streamableE at h
  simp only [Bool.and_eq_true, List.all_eq_true] at h
  have := h.1 k hk
  cases hh : get src.invs k with
  | none => simp [hh] at this
  | some i => exact ⟨i, rfl⟩

theorem streamableE_text (h : streamableE src m es = true) {e : Entry} (he : e ∈ es) :
    ∃ c, get src.texts e.key = some c := by
  unfold streamableE at h
  simp only [Bool.and_eq_true, List.all_eq_true] at h
  have := h.2 e he
  cases hh : get src.texts e.key with
  | none => simp [hh] at this
  | some c => exact ⟨c, rfl⟩

end Shape

/-! ### what a correct stream filter guarantees -/

/-- the text of every entry of every sent inventory is in the stream or already in the target -/
def StreamOK (src tgt : Repo) (m : List Rev) (es : List Entry) : Prop :=
  ∀ k ∈ m, ∀ i, get src.invs k = some i → ∀ e ∈ i, e ∈ es ∨ ∃ c, get tgt.texts e.key = some c

theorem excludedParent_in_targetG {fg : Bool} {src tgt : Repo} {rev p : Rev} {m : List Rev}
    (hok : SearchOK fg src tgt rev m) (hc : fg = true ∨ closed tgt src = true)
    (hp : p ∈ boundary src m) (hps : hasRev src p = true) : hasRev tgt p = true := by
  unfold boundary at hp
  simp only [List.mem_filter, List.mem_flatMap, Bool.not_eq_true', decide_eq_false_iff_not] at hp
  obtain ⟨⟨k, hk, hpk⟩, hnot⟩ := hp
  obtain ⟨rec, hrec, hpr⟩ := mem_parentsL_graph.mp hpk
  have hpa : p ∈ anc src rev := parent_mem_anc (hok.sub k hk) hrec hpr hps
  rcases hok.cover hc p hpa with h | h
  · exact absurd h hnot
  · exact h

/-- the text of an entry of the inventory of a revision the (complete, agreeing) target holds is in the target -/
theorem text_of_held {src tgt : Repo} (ha : agree src tgt = true) (hcomp : complete tgt = true)
    {p : Rev} (hpt : hasRev tgt p = true) {ip : Inv} (hip : get src.invs p = some ip) {e : Entry} (he : e ∈ ip) :
    ∃ c, get tgt.texts e.key = some c := by
  obtain ⟨rec, hrec⟩ := (hasRev_iff ..).mp hpt
  obtain ⟨ip', hip', htexts⟩ := complete_inv hcomp hrec
  have : ip = ip' := agreeOn_eq (agree_invs ha) hip' hip
  subst this
  exact htexts e he

/-- the stream sources' filter is correct for closed targets (or `find_ghosts`) -/
theorem streamOK_filtered {x : Exclusion} {fg : Bool} {src tgt : Repo} {rev : Rev} {m : List Rev}
    (hok : SearchOK fg src tgt rev m)
    (hc : fg = true ∨ closed tgt src = true) (ha : agree src tgt = true) (hcomp : complete tgt = true)
    (hx : x = .revisionPresent ∨ noOrphanInv src = true) : StreamOK src tgt m (streamEntries x src m) := by
  intro k hk i hi e he
  by_cases hex : e ∈ excluded x src m
  · right
    unfold excluded at hex
    obtain ⟨p, hp, hep⟩ := List.mem_flatMap.mp hex
    obtain ⟨ip, hip, heip⟩ := mem_invOrEmpty hep
    have hpb : p ∈ boundary src m ∧ hasRev src p = true := by
      cases x with
      | asFound =>
        rcases hx with hx | hx
        · cases hx
        · exact ⟨hp, noOrphan_rev hx hip⟩
      | revisionPresent =>
        simp only [excludedParents, List.mem_filter] at hp
        exact hp
    exact text_of_held ha hcomp (excludedParent_in_targetG hok hc hpb.1 hpb.2) hip heip
  · left
    unfold streamEntries
    simp only [List.mem_filter, List.mem_flatMap, Bool.not_eq_true', decide_eq_false_iff_not]
    refine ⟨⟨k, hk, ?_⟩, hex⟩
    unfold invOrEmpty; rw [hi]; exact he

/-- the per-revision selection (`InterDifferingSerializer`) is correct for closed
targets (or `find_ghosts`) when the history is acyclic: an entry shared with a
parent is, by induction towards the roots, sent with an ancestor or already held -/
theorem streamOK_perRevision {fg : Bool} {src tgt : Repo} {rev : Rev} {m : List Rev}
    (hok : SearchOK fg src tgt rev m)
    (hc : fg = true ∨ closed tgt src = true) (ha : agree src tgt = true) (hcomp : complete tgt = true)
    (hno : noOrphanInv src = true) (d : Rev → Nat) (hacyc : acyclicBy d src = true) :
    StreamOK src tgt m (streamEntriesP src m) := by
  have key : ∀ N k, d k < N → k ∈ m → ∀ i, get src.invs k = some i → ∀ e ∈ i,
      e ∈ streamEntriesP src m ∨ ∃ c, get tgt.texts e.key = some c := by
    intro N
    induction N with
    | zero => intro k hk; omega
    | succ N ih =>
      intro k hdk hk i hi e he
      by_cases hpar : e ∈ (parentsL (graph src) k).flatMap (invOrEmpty src)
      · obtain ⟨p, hp, hep⟩ := List.mem_flatMap.mp hpar
        obtain ⟨ip, hip, heip⟩ := mem_invOrEmpty hep
        obtain ⟨rec, hrec, hpr⟩ := mem_parentsL_graph.mp hp
        have hps : hasRev src p = true := noOrphan_rev hno hip
        have hpa : p ∈ anc src rev := parent_mem_anc (hok.sub k hk) hrec hpr hps
        have hlt : d p < d k := by
          unfold acyclicBy at hacyc
          have := List.all_eq_true.mp hacyc (k, rec) (get_mem hrec)
          simpa using List.all_eq_true.mp this p hpr
        rcases hok.cover hc p hpa with hpm | hpt
        · exact ih p (by omega) hpm ip hip e heip
        · exact Or.inr (text_of_held ha hcomp hpt hip heip)
      · left
        unfold streamEntriesP
        refine List.mem_flatMap.mpr ⟨k, hk, List.mem_filter.mpr ⟨?_, by simp [hpar]⟩⟩
        unfold invOrEmpty; rw [hi]; exact he
  intro k hk i hi e he
  exact key (d k + 1) k (by omega) hk i hi e he

/-- either kind of stream is correct under `kindOK` -/
theorem streamOK_kind {s : StreamKind} {fg : Bool} {src tgt : Repo} {rev : Rev} {m : List Rev}
    (hok : SearchOK fg src tgt rev m)
    (hc : fg = true ∨ closed tgt src = true) (ha : agree src tgt = true) (hcomp : complete tgt = true)
    (d : Rev → Nat) (hs : kindOK s d src = true) : StreamOK src tgt m (s.entries src m) := by
  cases s with
  | filtered x =>
    refine streamOK_filtered hok hc ha hcomp ?_
    simpa [kindOK] using hs
  | perRevision =>
    simp only [kindOK, Bool.and_eq_true] at hs
    exact streamOK_perRevision hok hc ha hcomp hs.1 d hs.2

/-- The value (content, or per-file parents) stored under the key of every entry
of a sent inventory: present afterwards and equal to the source's.  `sm`/`tm` are
the source's and the target's map, `copyMap sm tm es` the target's map afterwards. -/
theorem entry_valueG {β : Type} [DecidableEq β] {src tgt : Repo} {m : List Rev} {es : List Entry}
    {sm tm : List (TextKey × β)}
    (hso : StreamOK src tgt m es) (hagree : agreeOn sm tm = true)
    (htm : ∀ k c, get tgt.texts k = some c → ∃ v, get tm k = some v)
    (hsm : ∀ e ∈ es, ∃ v, get sm e.key = some v)
    {k : Rev} (hk : k ∈ m) {i : Inv} (hi : get src.invs k = some i) {e : Entry} (he : e ∈ i) :
    ∃ c, get (copyMap sm tm es) e.key = some c ∧ ∀ c', get sm e.key = some c' → c' = c := by
  have hget := copyMap_get sm tm es e.key
  rcases hso k hk i hi e he with hse | ⟨c0, hc0⟩
  · obtain ⟨c, hcs⟩ := hsm e hse
    cases ht : get tm e.key with
    | some c0 => exact ⟨c0, by rw [hget, ht], fun c' hc' => agreeOn_eq hagree ht hc'⟩
    | none =>
      refine ⟨c, ?_, fun c' hc' => by rw [hcs] at hc'; exact (Option.some.inj hc').symm⟩
      rw [hget, ht]
      have : e.key ∈ es.map Entry.key := List.mem_map.mpr ⟨e, hse, rfl⟩
      simp only [this, if_true, hcs]
  · obtain ⟨v, hv⟩ := htm _ _ hc0
    exact ⟨v, by rw [hget, hv], fun c' hc' => agreeOn_eq hagree hv hc'⟩

/-- the text of every entry of a sent inventory is in the target afterwards and equals the source's -/
theorem entry_textG {ext : Bool} {src tgt t' : Repo} {m : List Rev} {es : List Entry}
    (hso : StreamOK src tgt m es) (h : fetchWithE ext src tgt m es = .ok t') (ha : agree src tgt = true)
    {k : Rev} (hk : k ∈ m) {i : Inv} (hi : get src.invs k = some i) {e : Entry} (he : e ∈ i) :
    ∃ c, get t'.texts e.key = some c ∧ ∀ c', get src.texts e.key = some c' → c' = c := by
  rw [(fetchWithE_ok h).2.2.1]
  exact entry_valueG hso (agree_texts ha) (fun k c hk => ⟨c, hk⟩)
    (fun e he => streamableE_text (fetchWithE_ok h).1 he) hk hi he

end BreezyVerif.C03
