import BreezyVerif.Common
import BreezyVerif.Model.C22
import BreezyVerif.Model.C22Remote
/-
C22 driver.  Requests (fields separated by one space):

  ms <graph> <tip>
  b <graph> <tip|~> <tags> <others> <op> <args…>

graph  = nodes joined by `;`, node i = its parents joined by `,` (`-` = none); `~` = empty graph
tags   = `<hexname>=<hexrevid>` joined by `;` (`-` = none)
others = `<hexloc>=<tip|~>` joined by `;` (`-` = none)
strings travel as hex of their ASCII bytes (`-` = empty)

ops:  info | lh | getrevid <int> | id2revno <hexid> | map | d2id <i.i.i> | id2d <hexid>
      | iter <hexid|~> <hexid|~> <e|i|w|n> <r|f> | spec <hexspec>
      | flm <hexid> | lca <rev> <rev>
      | rgetrevid <T|F> <chain> <int> | rd2id <T|F> <chain> <i.i.i>        (RemoteBranch on a stacking chain)
      | rid2revno <chain> <hexid> | rid2d <chain> <hexid>
      | covers <T|F> <chain>

chain  = repositories joined by `|`, the stacked one first; a repository = the revisions it stores itself
         joined by `,` (`-` = none)
-/
namespace BreezyVerif.C22

def parseNode (s : String) : Option (List Nat) :=
  if s == "-" then some [] else (s.splitOn ",").mapM String.toNat?

def parseGraph (s : String) : Option Graph :=
  if s == "~" then some [] else (s.splitOn ";").mapM parseNode

def optRev (s : String) : Option (Option Nat) :=
  if s == "~" then some none else s.toNat?.map some

def asciiOfHex (s : String) : Option String := do
  let b ← fromHex s
  if b.all (fun x => x.toNat < 128) then some (String.ofList (b.map fun x => Char.ofNat x.toNat)) else none

def hexOfAscii (s : String) : String := toHex (s.toList.map fun c => UInt8.ofNat c.toNat)

def showRevId : RevId → String
  | .null => hexOfAscii "null:"
  | .rev n => hexOfAscii s!"r{n}"
  | .other s => hexOfAscii s

def parseId (s : String) : Option RevId := (asciiOfHex s).map fun t => parseRevId t.toList

def optId (s : String) : Option (Option RevId) :=
  if s == "~" then some none else (parseId s).map some

def parseTags (s : String) : Option (List (String × RevId)) :=
  if s == "-" then some [] else (s.splitOn ";").mapM fun e =>
    match e.splitOn "=" with
    | [n, r] => do pure ((← asciiOfHex n), (← parseId r))
    | _ => none

def parseOthers (s : String) : Option (List (String × Option Nat)) :=
  if s == "-" then some [] else (s.splitOn ";").mapM fun e =>
    match e.splitOn "=" with
    | [n, r] => do pure ((← asciiOfHex n), (← optRev r))
    | _ => none

def showNats (l : List Nat) : String := ".".intercalate (l.map toString)
def showInts (l : List Int) : String := ".".intercalate (l.map toString)

def showMS (l : List MS) : String :=
  if l.isEmpty then "-" else
  ";".intercalate (l.map fun e => s!"{e.rev}:{e.depth}:{showNats e.revno}:{showBool e.eom}")

def showExcept {α : Type} (f : α → String) : Except Err α → String
  | .ok a => f a
  | .error e => e.toString

def showInfo (i : Info) : String :=
  (match i.revno with | some n => toString n | none => "~") ++ "," ++ showRevId i.revId

def parseRule (s : String) : Option StopRule :=
  if s == "e" then some .exclude else if s == "i" then some .include
  else if s == "w" then some .withMerges else if s == "n" then some .withMergesNoCommon else none

def parseDotted (s : String) : Option (List Int) := (s.splitOn ".").mapM String.toInt?

def parseChain (s : String) : Option (List (List Nat)) := (s.splitOn "|").mapM parseNatList

def showAnswer {α : Type} (f : α → String) : Answer α → String
  | .ok a => f a
  | .refused => "E:Refused"
  | .error e => e.toString

def handleB (b : Branch) : List String → String
  | ["info"] => s!"{b.lastRevno} {showRevId b.lastRevision}"
  | ["lh"] => joinList (b.history.map toString)
  | ["getrevid", n] =>
    match n.toInt? with
    | some n => showExcept showRevId (b.getRevId n)
    | none => "bad-op"
  | ["id2revno", id] =>
    match parseId id with
    | some id => showExcept toString (b.revisionIdToRevno id)
    | none => "bad-op"
  | ["map"] =>
    showExcept (fun m => joinList ((m.mergeSort fun a b => decide (a.1 ≤ b.1)).map fun e => s!"{e.1}={showNats e.2}"))
      b.revnoMap
  | ["d2id", d] =>
    match parseDotted d with
    | some d => showExcept showRevId (b.dottedToRevId d)
    | none => "bad-op"
  | ["id2d", id] =>
    match parseId id with
    | some id => showExcept showInts (b.revIdToDotted id)
    | none => "bad-op"
  | ["iter", s, t, r, d] =>
    match optId s, optId t, parseRule r, (if d == "r" then some false else if d == "f" then some true else none) with
    | some s, some t, some r, some d => showExcept showMS (b.iterMergeSorted s t r d)
    | _, _, _, _ => "bad-op"
  | ["spec", h] =>
    match asciiOfHex h with
    | some s => showExcept showInfo (b.inHistory s) ++ " " ++ showExcept showRevId (b.asRevisionId s)
    | none => "bad-op"
  | ["rgetrevid", fx, chain, n] =>
    match parseBool fx, parseChain chain, n.toInt? with
    | some fx, some chain, some n => if chain.isEmpty then "bad-op" else showExcept showRevId (remoteGetRevId fx b chain n)
    | _, _, _ => "bad-op"
  | ["rd2id", fx, chain, d] =>
    match parseBool fx, parseChain chain, parseDotted d with
    | some fx, some chain, some d => if chain.isEmpty then "bad-op" else showExcept showRevId (remoteDottedToRevId fx b chain d)
    | _, _, _ => "bad-op"
  | ["rid2revno", chain, id] =>
    match parseChain chain, parseId id with
    | some (R :: _), some id => showAnswer toString (remoteRevIdToRevno b R id)
    | _, _ => "bad-op"
  | ["rid2d", chain, id] =>
    match parseChain chain, parseId id with
    | some (R :: _), some id => showAnswer showInts (remoteRevIdToDotted b R id)
    | _, _ => "bad-op"
  | ["covers", fx, chain] =>
    match parseBool fx, parseChain chain with
    | some fx, some chain => showBool (chainCovers fx b.g chain b.history)
    | _, _ => "bad-op"
  | ["flm", id] =>
    match parseId id with
    | some id => (match findLefthandMerger b id with | some r => showRevId r | none => "~")
    | none => "bad-op"
  | ["lca", x, y] =>
    match x.toNat?, y.toNat? with
    | some x, some y =>
      (match findUniqueLca b.g (b.g.length + 1) [x, y] with | some r => toString r | none => "~")
    | _, _ => "bad-op"
  | _ => "bad-op"

def handle : List String → String
  | ["ms", g, tip] =>
    match parseGraph g, tip.toNat? with
    | some g, some tip =>
      (match mergeSort g tip with
        | some ms => showMS ms
        | none => "E:Internal")
    | _, _ => "bad-op"
  | "b" :: g :: tip :: tags :: others :: rest =>
    match parseGraph g, optRev tip, parseTags tags, parseOthers others with
    | some g, some tip, some tags, some others => handleB { g := g, tip := tip, tags := tags, others := others } rest
    | _, _, _, _ => "bad-op"
  | _ => "bad-op"

end BreezyVerif.C22

def main : IO Unit := BreezyVerif.runDriver BreezyVerif.C22.handle
