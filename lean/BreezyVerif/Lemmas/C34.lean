import BreezyVerif.Model.C34
/-! Helper lemmas for C34. -/
namespace BreezyVerif.C34

/-! ### git-extra: split on "\n" -/

theorem splitNl_line : ∀ (b rest : Bytes), 10 ∉ b → splitNl (b ++ 10 :: rest) = b :: splitNl rest
  | [], rest, _ => by simp [splitNl]
  | x :: b, rest, h => by
    have hx : x ≠ 10 := fun e => h (by simp [e])
    have hb : (10 : UInt8) ∉ b := fun m => h (by simp [m])
    simp [splitNl, hx, splitNl_line b rest hb]

theorem splitNl_lines : ∀ (ls : List Bytes), (∀ l ∈ ls, (10 : UInt8) ∉ l) →
    splitNl (ls.map (· ++ [10])).flatten = ls ++ [[]]
  | [], _ => by simp [splitNl]
  | l :: ls, h => by
    simp only [List.map_cons, List.flatten_cons, List.append_assoc, List.cons_append,
      List.nil_append]
    rw [splitNl_line l _ (h l (by simp)), splitNl_lines ls (fun x hx => h x (by simp [hx]))]

theorem extraLinesOf_lines (ls : List Bytes) (h : ∀ l ∈ ls, (10 : UInt8) ∉ l) :
    extraLinesOf (ls.map (· ++ [10])).flatten = ls := by
  unfold extraLinesOf
  rw [splitNl_lines ls h]
  simp

theorem split1_nosep (sep : UInt8) : ∀ (k v : Bytes), sep ∉ k → split1 sep (k ++ sep :: v) = [k, v]
  | [], v, _ => by simp [split1]
  | x :: k, v, h => by
    have hx : x ≠ sep := fun e => h (by simp [e])
    have hk : sep ∉ k := fun m => h (by simp [m])
    simp [split1, hx, split1_nosep sep k v hk]

theorem splitKV_line (k v : Bytes) (h : 32 ∉ k) : splitKV (k ++ 32 :: v) = some (k, v) := by
  simp [splitKV, split1_nosep 32 k v h]

/-- the recognised extra headers -/
def knownKey (k : Bytes) : Bool := k = bs "HG:rename-source" ∨ k = bs "HG:extra"

theorem knownKey_nospace {k : Bytes} (h : knownKey k = true) : 32 ∉ k := by
  simp only [knownKey, decide_eq_true_eq] at h
  rcases h with rfl | rfl <;> decide

/-- all extra headers are recognised and their value has no embedded newline
(no continuation lines) -/
def extraOK (extra : List (Bytes × Bytes)) : Bool :=
  extra.all fun kv => knownKey kv.1 && !kv.2.contains 10

theorem importExtra_ok (strict : Bool) : ∀ (extra : List (Bytes × Bytes)) (ls un : List Bytes),
    extraOK extra = true → importExtra strict extra = .ok (ls, un) →
    ls = extra.map (fun kv => kv.1 ++ 32 :: kv.2 ++ [10]) ∧ un = []
  | [], ls, un, _, h => by
    simp only [importExtra, Except.ok.injEq, Prod.mk.injEq] at h
    simp [h.1.symm, h.2.symm]
  | (k, v) :: rest, ls, un, hok, h => by
    simp only [extraOK, List.all_cons, Bool.and_eq_true] at hok
    have hrest : extraOK rest = true := by simp only [extraOK]; exact hok.2
    have hk := hok.1.1
    simp only [knownKey, decide_eq_true_eq] at hk
    unfold importExtra at h
    rcases hk with hk | hk
    · simp only [hk, if_true] at h
      cases hr : importExtra strict rest with
      | error e => simp [hr, bind, Except.bind] at h
      | ok p =>
        obtain ⟨ls', un'⟩ := p
        simp only [hr, bind, Except.bind, pure, Except.pure, Except.ok.injEq, Prod.mk.injEq] at h
        have := importExtra_ok strict rest ls' un' hrest hr
        simp [← h.1, ← h.2, this.1, this.2, hk]
    · have hne : bs "HG:extra" ≠ bs "HG:rename-source" := by decide
      simp only [hk, hne, if_false, if_true] at h
      split at h
      · simp at h
      · split at h
        · simp at h
        · cases hr : importExtra strict rest with
          | error e => simp [hr, bind, Except.bind] at h
          | ok p =>
            obtain ⟨ls', un'⟩ := p
            simp only [hr, bind, Except.bind, pure, Except.pure, Except.ok.injEq, Prod.mk.injEq] at h
            have := importExtra_ok strict rest ls' un' hrest hr
            simp [← h.1, ← h.2, this.1, this.2, hk]

theorem exportExtra_lines : ∀ (extra : List (Bytes × Bytes)), extraOK extra = true →
    exportExtra (extra.map fun kv => kv.1 ++ 32 :: kv.2) = .ok extra
  | [], _ => rfl
  | (k, v) :: rest, hok => by
    simp only [extraOK, List.all_cons, Bool.and_eq_true] at hok
    have hrest : extraOK rest = true := by simp only [extraOK]; exact hok.2
    simp only [List.map_cons, exportExtra, splitKV_line k v (knownKey_nospace hok.1.1),
      exportExtra_lines rest hrest]
    rfl

theorem knownKey_nonl {k : Bytes} (h : knownKey k = true) : (10 : UInt8) ∉ k := by
  simp only [knownKey, decide_eq_true_eq] at h
  rcases h with rfl | rfl <;> decide

/-- `git-extra` written by import is read back by export -/
theorem extra_roundtrip (extra : List (Bytes × Bytes)) (hok : extraOK extra = true) :
    exportExtra (extraLinesOf ((extra.map fun kv => kv.1 ++ 32 :: kv.2 ++ [10]).flatten)) = .ok extra := by
  have h1 : (extra.map fun kv => kv.1 ++ 32 :: kv.2 ++ [10]) =
      (extra.map fun kv => kv.1 ++ 32 :: kv.2).map (· ++ [10]) := by
    simp [List.map_map, Function.comp_def]
  rw [h1, extraLinesOf_lines _ (by
    intro l hl
    simp only [List.mem_map] at hl
    obtain ⟨kv, hkv, rfl⟩ := hl
    have := (List.all_eq_true.mp hok) kv hkv
    simp only [Bool.and_eq_true, Bool.not_eq_true', List.contains_eq_mem, decide_eq_false_iff_not] at this
    simp only [List.mem_append, List.mem_cons, not_or]
    exact ⟨knownKey_nonl this.1, by decide, this.2⟩)]
  exact exportExtra_lines extra hok

/-! ### parents, mergetags -/

theorem stripPrefix_append (p t : Bytes) : stripPrefix p (p ++ t) = some t := by
  simp [stripPrefix]

theorem exportParents_map : ∀ (ps : List Bytes), (∀ p ∈ ps, p.length = 40) →
    exportParents (ps.map foreignToBzr) = .ok ps
  | [], _ => rfl
  | p :: ps, h => by
    simp only [List.map_cons, exportParents, foreignToBzr, stripPrefix_append]
    simp [h p (by simp), exportParents_map ps (fun q hq => h q (by simp [hq]))]
    rfl

theorem mapM_encode_se : ∀ (l : List Bytes),
    (l.map fun t => (⟨.se, t⟩ : PStr)).mapM (encode .se) = .ok l
  | [] => rfl
  | t :: l => by
    simp only [List.map_cons, List.mapM_cons, encode, if_true, mapM_encode_se l]
    rfl

def isOk {ε α : Type} : Except ε α → Bool
  | .ok _ => true
  | .error _ => false

theorem exists_of_isOk {ε α : Type} {x : Except ε α} (h : isOk x = true) : ∃ a, x = .ok a := by
  cases x <;> simp_all [isOk]

/-! ### decoding -/

/-- the two encoding names the code itself uses (`"utf-8"`, `"latin1"`) mean
utf-8 and latin-1 in the registry -/
def PyEnv (env : Env) : Prop :=
  env.lookup (bs "utf-8") = .utf8 ∧ env.lookup (bs "latin1") = .latin1

instance (env : Env) : Decidable (PyEnv env) := by unfold PyEnv; infer_instance

def isStd : Lookup → Bool
  | .utf8 | .latin1 | .ascii => true
  | _ => false

/-- `b.decode(name).encode(name) == b` (vacuous when the decode raises) -/
def faithful (env : Env) (name b : Bytes) : Bool := reenc env name b

/-- the same for the author, whose decoded str must also be non-empty and
untouched by the `"," … ">"` hack of `export_commit` -/
def faithfulAuthor (env : Env) (name b : Bytes) : Bool :=
  match decodeName env name b with
  | .ok s => decide (s.bytes ≠ []) && decide (firstAuthor s.bytes = s.bytes) &&
      decide (encodeName env name s = .ok b)
  | .error _ => true

/-- **the codec named in the `encoding` header re-encodes the commit's three
text fields to the bytes they were decoded from** (decidable; trivially true
without a header, with `encoding false`, and — `faith_of_std` — whenever the name
resolves to utf-8 / latin-1 / ascii) -/
def CodecFaithful (env : Env) (c : Commit) : Bool :=
  match c.encoding with
  | some e =>
    if e = bs "false" then true
    else faithful env e c.committer && faithfulAuthor env e c.author &&
      (match c.message with
       | some m => faithful env e m
       | none => true)
  | none => true

theorem decodeName_std {env : Env} {name b : Bytes} {s : PStr} (h : isStd (env.lookup name) = true)
    (hd : decodeName env name b = .ok s) : s.bytes = b ∧ encodeName env name s = .ok b := by
  unfold decodeName at hd
  unfold encodeName
  cases hl : env.lookup name <;> simp only [hl, isStd] at h hd ⊢ <;>
    first
    | exact absurd h (by decide)
    | (unfold decode at hd
       split at hd
       · simp only [Except.ok.injEq] at hd
         subst hd
         simp [encode]
       · simp at hd)

/-- what `export_commit` needs to know about the codec it re-encodes with -/
structure Faith (env : Env) (name : Bytes) (c : Commit) : Prop where
  committer : ∀ s, decodeName env name c.committer = .ok s → encodeName env name s = .ok c.committer
  author : ∀ s, decodeName env name c.author = .ok s →
    s.bytes ≠ [] ∧ firstAuthor s.bytes = s.bytes ∧ encodeName env name s = .ok c.author
  message : ∀ m s, c.message = some m → decodeName env name m = .ok s → encodeName env name s = .ok m

theorem faith_of_std {env : Env} {name : Bytes} {c : Commit} (h : isStd (env.lookup name) = true)
    (hne : c.author ≠ []) (hfirst : firstAuthor c.author = c.author) : Faith env name c where
  committer := fun _ hd => (decodeName_std h hd).2
  author := fun s hd => by
    obtain ⟨h1, h2⟩ := decodeName_std h hd
    rw [h1]; exact ⟨hne, hfirst, h2⟩
  message := fun _ _ _ hd => (decodeName_std h hd).2

theorem faith_of_codecFaithful {env : Env} {e : Bytes} {c : Commit} (he : c.encoding = some e)
    (hf : e ≠ bs "false") (h : CodecFaithful env c = true) : Faith env e c := by
  unfold CodecFaithful at h
  simp only [he, hf, if_false, Bool.and_eq_true] at h
  obtain ⟨⟨h1, h2⟩, h3⟩ := h
  refine ⟨?_, ?_, ?_⟩
  · intro s hd
    simpa [faithful, reenc, hd] using h1
  · intro s hd
    have := h2
    simp only [faithfulAuthor, hd, Bool.and_eq_true, decide_eq_true_eq] at this
    exact ⟨this.1.1, this.1.2, this.2⟩
  · intro m s hm hd
    simp only [hm] at h3
    simpa [faithful, reenc, hd] using h3

theorem decodeUsing_ok {env : Env} {name : Bytes} {c : Commit} {cm : PStr} {au msg : Option PStr}
    (h : decodeUsing env name c = .ok (cm, au, msg)) :
    decodeName env name c.committer = .ok cm ∧
    ((au = none ∧ c.committer = c.author) ∨
      ∃ s, au = some s ∧ c.committer ≠ c.author ∧ decodeName env name c.author = .ok s) ∧
    ((msg = none ∧ c.message = none) ∨
      ∃ m s, c.message = some m ∧ msg = some s ∧ decodeName env name m = .ok s) := by
  unfold decodeUsing at h
  cases hc : decodeName env name c.committer with
  | error e => simp [hc] at h
  | ok cm' =>
    simp only [hc] at h
    by_cases hca : c.committer = c.author
    · simp only [hca, ne_eq, not_true_eq_false, if_false] at h
      cases hm : c.message with
      | none =>
        simp only [hm, Except.ok.injEq, Prod.mk.injEq] at h
        obtain ⟨rfl, rfl, rfl⟩ := h
        exact ⟨rfl, Or.inl ⟨rfl, hca⟩, Or.inl ⟨rfl, rfl⟩⟩
      | some m =>
        simp only [hm] at h
        cases hd : decodeName env name m with
        | error e => simp [hd] at h
        | ok s =>
          simp only [hd, Except.ok.injEq, Prod.mk.injEq] at h
          obtain ⟨rfl, rfl, rfl⟩ := h
          exact ⟨rfl, Or.inl ⟨rfl, hca⟩, Or.inr ⟨m, s, rfl, rfl, hd⟩⟩
    · simp only [hca, ne_eq, not_false_eq_true, if_true] at h
      cases ha : decodeName env name c.author with
      | error e => simp [ha, Except.map] at h
      | ok sa =>
        simp only [ha, Except.map] at h
        cases hm : c.message with
        | none =>
          simp only [hm, Except.ok.injEq, Prod.mk.injEq] at h
          obtain ⟨rfl, rfl, rfl⟩ := h
          exact ⟨rfl, Or.inr ⟨sa, rfl, hca, rfl⟩, Or.inl ⟨rfl, rfl⟩⟩
        | some m =>
          simp only [hm] at h
          cases hd : decodeName env name m with
          | error e => simp [hd] at h
          | ok s =>
            simp only [hd, Except.ok.injEq, Prod.mk.injEq] at h
            obtain ⟨rfl, rfl, rfl⟩ := h
            exact ⟨rfl, Or.inr ⟨sa, rfl, hca, rfl⟩, Or.inr ⟨m, s, rfl, rfl, hd⟩⟩

theorem encName_none (impl : Option Bytes) (h : impl = none ∨ impl = some (bs "latin1")) :
    ∀ e, (e = none ∨ e = some (bs "false")) →
      encName e impl = implOr impl := by
  intro e he
  rcases h with rfl | rfl <;> rcases he with rfl | rfl <;> decide

theorem decodeFallback_ok {env : Env} {c : Commit} {cm : PStr} {au msg : Option PStr} {impl : Option Bytes}
    (hwf : PyEnv env) (h : decodeFallback env c = .ok ((cm, au, msg), impl)) :
    (impl = none ∨ impl = some (bs "latin1")) ∧ isStd (env.lookup (implOr impl)) = true ∧
      decodeUsing env (implOr impl) c = .ok (cm, au, msg) := by
  unfold decodeFallback at h
  split at h
  · rename_i d hd
    simp only [Except.ok.injEq, Prod.mk.injEq] at h
    obtain ⟨rfl, rfl⟩ := h
    exact ⟨Or.inl rfl, by simp [implOr, hwf.1, isStd], hd⟩
  · cases hl : decodeUsing env (bs "latin1") c with
    | error e => simp [hl, Except.map] at h
    | ok d =>
      simp only [hl, Except.map, Except.ok.injEq, Prod.mk.injEq] at h
      obtain ⟨rfl, rfl⟩ := h
      exact ⟨Or.inr rfl, by simp [implOr, hwf.2, isStd], hl⟩
  · simp at h

/-- what `import_commit` decoded, and that `export_commit` will re-encode under
the same name -/
theorem importDecode_ok {env : Env} {fx strict : Bool} {c : Commit} {cm : PStr} {au msg : Option PStr}
    {impl : Option Bytes}
    (hwf : PyEnv env) (h : importDecode env fx strict c = .ok ((cm, au, msg), impl)) :
    decodeUsing env (encName c.encoding impl) c = .ok (cm, au, msg) ∧
    (isStd (env.lookup (encName c.encoding impl)) = true ∨
      ∃ e, c.encoding = some e ∧ e ≠ bs "false" ∧ encName c.encoding impl = e) := by
  unfold importDecode at h
  cases he : c.encoding with
  | none =>
    simp only [he] at h
    obtain ⟨hi, hstd, hd⟩ := decodeFallback_ok hwf h
    rw [encName_none impl hi none (Or.inl rfl)]
    exact ⟨hd, Or.inl hstd⟩
  | some e =>
    simp only [he] at h
    split at h
    · simp at h
    · by_cases hf : e = bs "false"
      · simp only [hf, ne_eq, not_true_eq_false, if_false] at h
        obtain ⟨hi, hstd, hd⟩ := decodeFallback_ok hwf h
        rw [hf, encName_none impl hi _ (Or.inr rfl)]
        exact ⟨hd, Or.inl hstd⟩
      · simp only [hf, ne_eq, not_false_eq_true, if_true] at h
        cases hd : decodeUsing env e c with
        | error x => simp [hd] at h
        | ok d =>
          simp only [hd] at h
          split at h
          · simp at h
          · simp only [Except.ok.injEq, Prod.mk.injEq] at h
            obtain ⟨rfl, rfl⟩ := h
            have hn : encName (some e) none = e := by simp [encName, hf]
            rw [hn]
            exact ⟨hd, Or.inr ⟨e, rfl, hf, rfl⟩⟩

theorem importExtra_unknown (strict : Bool) (k v : Bytes)
    (hk : k ≠ bs "HG:rename-source" ∧ k ≠ bs "HG:extra") :
    ∀ (extra : List (Bytes × Bytes)) (ls un : List Bytes), (k, v) ∈ extra →
      importExtra strict extra = .ok (ls, un) → un ≠ []
  | [], _, _, hm, _ => by simp at hm
  | (k', v') :: rest, ls, un, hm, h => by
    have hne : bs "HG:extra" ≠ bs "HG:rename-source" := by decide
    simp only [List.mem_cons, Prod.mk.injEq] at hm
    unfold importExtra at h
    by_cases h1 : k' = bs "HG:rename-source"
    · subst h1
      have hmem : (k, v) ∈ rest := by
        rcases hm with ⟨e, _⟩ | hm
        · exact absurd e hk.1
        · exact hm
      simp only [if_true] at h
      cases hr : importExtra strict rest with
      | error e => simp [hr, bind, Except.bind] at h
      | ok p =>
        obtain ⟨ls', un'⟩ := p
        have := importExtra_unknown strict k v hk rest ls' un' hmem hr
        simp [hr, bind, Except.bind, pure, Except.pure] at h
        rw [← h.2]; exact this
    · by_cases h2 : k' = bs "HG:extra"
      · subst h2
        have hmem : (k, v) ∈ rest := by
          rcases hm with ⟨e, _⟩ | hm
          · exact absurd e hk.2
          · exact hm
        simp only [hne, if_false, if_true] at h
        cases hr : importExtra strict rest with
        | error e =>
          split at h
          · simp at h
          · split at h <;> simp [hr, bind, Except.bind] at h
        | ok p =>
          obtain ⟨ls', un'⟩ := p
          have := importExtra_unknown strict k v hk rest ls' un' hmem hr
          split at h
          · simp at h
          · split at h
            · simp at h
            · simp [hr, bind, Except.bind, pure, Except.pure] at h
              rw [← h.2]; exact this
      · simp only [h1, h2, if_false] at h
        cases hr : importExtra strict rest with
        | error e => simp [hr, bind, Except.bind] at h
        | ok p =>
          obtain ⟨ls', un'⟩ := p
          simp [hr, bind, Except.bind, pure, Except.pure] at h
          rw [← h.2]; simp

theorem split1_none (sep : UInt8) : ∀ (t : Bytes), sep ∉ t → split1 sep t = [t]
  | [], _ => rfl
  | x :: t, h => by
    have hx : x ≠ sep := fun e => h (by simp [e])
    simp [split1, hx, split1_none sep t (fun m => h (by simp [m]))]

theorem idx_some_of_mem (x : UInt8) : ∀ (t : Bytes), x ∈ t → ∃ i, idx x t = some i ∧ i < t.length
  | [], h => by simp at h
  | y :: t, h => by
    by_cases e : y = x
    · exact ⟨0, by simp [idx, e], by simp⟩
    · have : x ∈ t := by simpa [Ne.symm e] using h
      obtain ⟨i, hi, hl⟩ := idx_some_of_mem x t this
      exact ⟨i + 1, by simp [idx, e, hi], by simpa using hl⟩

theorem takeWhile_append_sep (sep : UInt8) (e r : Bytes) (h : sep ∉ e) :
    (e ++ sep :: r).takeWhile (· ≠ sep) = e := by
  induction e with
  | nil => simp
  | cons x e ih =>
    have hx : x ≠ sep := fun eq => h (by simp [eq])
    have := ih (fun m => h (by simp [m]))
    simp only [ne_eq, decide_not] at this
    simp [List.takeWhile, hx, this]

end BreezyVerif.C34
