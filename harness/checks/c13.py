"""C13 — applying a tree transform is all-or-nothing on the file system.

Mechanism: breezy/transform.py:_FileMover (rename journal, rollback, deferred
deletions), the phase structure of InventoryTreeTransform.apply /
GitTreeTransform.apply (removals, insertions, rollback on any exception,
metadata update, apply_deletions) and the in-place mode change of the
insertion phase (_apply_insertions -> _set_executability -> chmod).

Model (Model/C13.lean): POSIX directory = association list path -> node, a
regular file carries its owner-executable bit; `rename` follows the Linux
order of checks (both parents, source, ancestor checks, target, kind rules);
`chmod`; the mover journal holds renames and - in the code variant `jc` -
mode changes; `rollback` undoes it newest-first, stops at the first failing
undo and returns the partially restored state; `applyF` has fault points at
every operation of the removal/insertion phases, at every undo step of the
rollback, at the metadata update and at every deletion.

T1: the relative order of "discard replaced content" (mover.apply_deletions)
    and "update the versioning metadata" (apply_inventory_delta /
    _apply_index_changes) is read from the source of both apply() methods; the
    code variant `jc` (is the mode change of _set_executability undone by a
    failed apply?) is determined by a probe of the real code (one hand-built
    transform per format).  Both go to Generated/C13.lean; Props/C13T1.lean
    proves the order is `metadataFirst` (hypothesis of `metadata_agrees`) and
    `source_rollback_{bzr,git}`: the rollback guarantee that holds for the
    variant found (exact restoration, or restoration up to executable bits).
T2: (a) real transforms - revert (half of the scenarios), merge of a diverged
    branch (conflict files), update to an older revision, shelve and unshelve,
    between random tree states with renames, swaps, moves, kind changes,
    deletions, additions and executable-bit flips, bzr 2a and git trees, plus
    three hand-made executable-bit scenarios - are run with a fault-injecting
    _FileMover / _set_executability: for EVERY operation index k (rename,
    pre_delete, chmod) and every deletion index j the real run is compared
    with the Lean model on: exception kind, file-system snapshot after
    rollback / after the failed deletion / after success (limbo and
    pending-deletion areas and executable bits included), old/new metadata,
    and the model's noClobber / noModeChange flags against the run-time
    observation.  Also compared (outside the property's quantifier, tie only):
    a second fault inside rollback (partial rollback), a fault in the metadata
    update, and "sabotage" runs in which the directory is changed behind the
    transform's back just before the first mover call (source removed, file /
    empty dir / full dir put at a target, parent replaced by a file) so that
    the real os.rename calls fail or silently clobber by themselves: these
    exercise the model's errno branches, the ENOENT swallow, noClobber=false
    and natural failures.
    (b) the file-system model itself: `rename` against the real os.rename and
    `chmod` against the real _set_executability on random small directories
    (every errno branch, replacement, directory over empty directory, self
    rename, ancestors).
Oracle: after a fault in the removal/insertion phases the directory snapshot
    (names, kinds, contents, link targets, executable bits) equals the
    snapshot taken before the first mover call, the visible tree equals the
    tree before the command and the versioned paths are the old ones and all
    exist with their kind; after a fault while discarding content the visible
    tree is the transformed one and the versioned paths are the new ones; a
    failed content creation leaves nothing behind; a natural failure with no
    clobbering rename restores the directory.  A mode difference confined to
    files that only ever lived in the limbo area is counted, not reported
    (finalize discards them).

Finding of this check, now fixed in /repo (b4e82e9): the chmod of
_set_executability was not journalled, so a failure later in the insertion
phase rolled the renames back but left the new mode (model: jc = false,
theorems execbit_witness / rollback_restores_modulo_exec).  With the fix the
probe finds jc = true and rollback_restores applies; a recurrence ("restored
names and contents but not the executable bit") is a plain VIOLATION.  The
hand-made scenarios include mode changes that are the FIRST operation of the
apply (journal entries older than every rename) - seeded change C14b dropped
exactly their undo.

Mutants this was built against (scratch worktrees): apply_deletions before
the metadata update (the defect fixed by the fix: commit); rollback not
reversed; rollback restoring pre_delete entries first (seeded); insertion-phase
rename errors swallowed for entries without new contents (seeded; only visible
when the fault is a real OSError from os.rename, hence the "os" fault mode);
pre_delete not journalled (os.rename directly); rollback swallowing
OSError; `except BaseException` -> `except Exception` around the phases
(faults are injected as BaseException half of the time); _apply_removals
sorted ascending; ENOENT swallowed for pre_delete as well.  On top of the
journalled-chmod patch: journalled modes undone after all renames instead of
interleaved; off-by-one in the interleaving (`>=` -> `>`); old mode recorded
after the chmod; chmod journalled but never undone (= the finding).
"""
import errno
import os
import shutil
import sys

from vlib import env

THEOREMS = [
    "moveL_inverse", "rename_undo", "chmod_undo", "rollback_snoc", "step_rollback", "rollback_invariant",
    "rollback_restores", "rollback_restores_partial", "rollback_restores_modulo_exec",
    "apply_phase12_failure_restores", "get_runDeletions", "metadata_agrees", "metadata_agrees_modulo_exec",
    "deletions_first_witness", "clobber_witness", "execbit_witness", "metadata_fault_outcome",
    "rollback_fault_resumable", "rollback_fault_witness", "finalize_discards_limbo",
]
T1_THEOREMS = ["apply_order_bzr", "apply_order_git", "source_rollback_bzr", "source_rollback_git"]
RULE = ("scenario = (format, command revert|merge|update|shelve|unshelve, random tree state A, random edits -> "
        "state B incl. executable-bit flips, local edits, backups flag) + 3 hand-made executable-bit scenarios per "
        "format; case = (scenario, fault index in the operations rename/pre_delete/chmod | fault index in deletions | "
        "mover fault + undo fault | metadata fault | sabotage kind and path | creation fault | no fault); all "
        "operation and deletion fault indices of every scenario are enumerated; file-system stream case = (random "
        "small directory, rename a b | chmod p x); non-trivial = the transform performs >= 2 operations; distinct "
        "by (op list, snapshot, fault)")
ASSUMPTIONS = [
    "os.rename is atomic and follows the Linux rules modelled in Model/C13.lean (compared with the real os.rename on "
    "random small directories and per transform case by comparing snapshots)",
    "faults are exceptions raised before the k-th rename / chmod / the j-th delete_any (Exception, BaseException and "
    "real OSError from os.rename); torn single renames are not modelled",
    "the executable bit is the owner bit (st_mode & 0o100) of regular files; group/other bits, directory modes and "
    "chmod through a symlink are not modelled (a chmod of a non-regular file would be reported as a tie break)",
]
TRUSTED = ["the POSIX rename/chmod/rmtree model of Model/C13.lean (tied by the file-system streams); a crash (no "
           "rollback code runs at all) is out of scope of this property",
           "noClobber / noModeChange are hypotheses of the restoration theorems; they are evaluated by the model on "
           "the operation list of every real run and compared with the run-time observation, not proved for "
           "well-formed transforms"]


class Injected(Exception):
    pass


class InjectedBase(BaseException):
    pass


# --------------------------------------------------------------------------
# snapshots

def _enc_path(rel):
    if rel in ("", "."):
        return "."
    return "/".join(c.encode("utf-8", "surrogateescape").hex() for c in rel.split("/"))


def snapshot(root, ctl):
    """{relpath: (kind, data)} of the visible tree plus the limbo and
    pending-deletion areas under the control directory `ctl`; kind is d, l, f
    (regular file) or x (regular file, owner-executable)."""
    snap = {".": ("d", "-")}
    ctl_top = ctl.split("/")[0] if ctl else None

    def walk(rel):
        full = os.path.join(root, rel) if rel else root
        for name in sorted(os.listdir(full)):
            r = name if not rel else rel + "/" + name
            if not rel and name == ctl_top:
                continue
            add(r)

    def add(r):
        p = os.path.join(root, r)
        if os.path.islink(p):
            snap[r] = ("l", os.readlink(p).encode().hex() or "-")
        elif os.path.isdir(p):
            snap[r] = ("d", "-")
            walk(r)
        else:
            with open(p, "rb") as f:
                # "x" = regular file with the owner-executable bit
                snap[r] = ("x" if os.lstat(p).st_mode & 0o100 else "f", f.read().hex() or "-")

    walk("")
    if not ctl:
        return snap
    # control chain
    parts = ctl.split("/")
    for i in range(1, len(parts) + 1):
        snap["/".join(parts[:i])] = ("d", "-")
    for area in ("limbo", "pending-deletion"):
        r = ctl + "/" + area
        if os.path.isdir(os.path.join(root, r)):
            add(r)
    return snap


def enc_fs(snap):
    return ";".join("%s|%s|%s" % (_enc_path(p), k, d) for p, (k, d) in sorted(snap.items()))


def canon_fs(snap):
    return ";".join(sorted("%s|%s|%s" % (_enc_path(p), k, d) for p, (k, d) in snap.items()))


def visible(snap, ctl):
    top = ctl.split("/")[0]
    return {p: v for p, v in snap.items() if p != top and not p.startswith(top + "/")}


# --------------------------------------------------------------------------
# fault-injecting mover

class Plan:
    def __init__(self, root, ctl, fault1=None, fault2=None, base=False, fault3=None, after=False,
                 fault_undo=None, fault_meta=False, sabotage=None):
        self.root, self.ctl = root, ctl
        self.fault1, self.fault2 = fault1, fault2
        self.fault_undo = fault_undo       # fault at the j-th undo step inside rollback
        self.fault_meta = fault_meta       # fault in the metadata update
        self.sabotage = sabotage           # (kind, relpath): change the directory just before the first mover call
        self.sabotaged = None
        self.unmodelled = []               # chmod of something that is not a regular file
        self.del_error = None              # errno of a delete_any that failed by itself
        self.wt = None
        self.md_at_apply = None            # versioned paths (in memory) when apply_deletions returned / raised
        self.fault3, self.after3 = fault3, after   # fault at the k-th content creation (before / after it)
        self.ncreate = 0
        self.exc = InjectedBase if base else Injected
        # base may also be the string "os": the fault is then a real OSError(EIO)
        # raised by os.rename itself, which _FileMover.rename wraps in
        # TransformRenameFailed (the way a genuine file-system failure arrives)
        self.os_fault = (base == "os")
        if self.os_fault:
            self.exc = Injected
        self.injected = False
        self.n = 0
        self.log = []          # (kind r|p|c, relfrom, relto | T/F, target_existed | bit changed, error-or-None)
        self.before = None
        self.after = None      # snapshot after rollback / failed deletion / success
        self.where = None      # 'rollback' | 'deletion' | 'done'
        self.movers = 0
        self.ndel = 0
        self.rollback_error = None


_plan = None


def _install():
    """patch the _FileMover used by both transform implementations"""
    import breezy.transform as bt
    import breezy.bzr.transform as bbt
    import breezy.git.transform as bgt
    orig = getattr(bt, "_verif_orig_FileMover", None) or bt._FileMover
    bt._verif_orig_FileMover = orig

    class FaultyMover(orig):
        def __new__(cls):
            # outside a planned run (tree creation etc.) behave exactly as the original
            if _plan is None:
                return orig()
            return super().__new__(cls)

        def __init__(self):
            super().__init__()
            P = _plan
            P.movers += 1
            if P.before is None:
                if P.sabotage is not None:
                    P.sabotaged = _sabotage(P.root, *P.sabotage)
                P.before = snapshot(P.root, P.ctl)
            self._kind = "r"

        def _rel(self, p):
            return os.path.relpath(p, _plan.root)

        def rename(self, a, b):
            P = _plan
            k = P.n
            P.n += 1
            kind = self._kind
            self._kind = "r"
            if k == P.fault1:
                P.injected = True
                if P.os_fault:
                    real_rename = os.rename

                    def failing(src, dst, *a_, **kw_):
                        raise OSError(errno.EIO, "injected I/O error", src)
                    os.rename = failing
                    try:
                        super().rename(a, b)       # raises TransformRenameFailed(EIO)
                    finally:
                        os.rename = real_rename
                    # a mover that swallows the error is itself a defect: fall through
                    P.log.append((kind, self._rel(a), self._rel(b), False, "swallowed-os-error"))
                    return
                raise P.exc("injected at mover call %d" % k)
            existed = os.path.lexists(b)
            try:
                super().rename(a, b)
            except BaseException as e:
                en = getattr(e, "errno", None)
                if en is None and e.__cause__ is not None:
                    en = getattr(e.__cause__, "errno", None)
                P.log.append((kind, self._rel(a), self._rel(b), existed,
                              "%s:%s" % (type(e).__name__, errno.errorcode.get(en, ""))))
                raise
            P.log.append((kind, self._rel(a), self._rel(b), existed, None))

        def pre_delete(self, a, b):
            self._kind = "p"
            super().pre_delete(a, b)

        def rollback(self):
            P = _plan
            import breezy.osutils as bo
            real_rename, real_chmod = os.rename, bo.chmod_if_possible
            cnt = [0]

            def counting(real):
                def f(*a_, **kw_):
                    j = cnt[0]
                    cnt[0] += 1
                    if j == P.fault_undo:
                        raise OSError(errno.EIO, "injected I/O error in rollback")
                    return real(*a_, **kw_)
                return f
            if P.fault_undo is not None:
                # every undo step of the journal is one os.rename (or, with a
                # journalled mode change, one chmod_if_possible)
                os.rename = counting(real_rename)
                bo.chmod_if_possible = counting(real_chmod)
            try:
                super().rollback()
            except BaseException as e:
                P.rollback_error = repr(e)
                raise
            finally:
                os.rename, bo.chmod_if_possible = real_rename, real_chmod
                P.after = snapshot(P.root, P.ctl)
                P.where = "rollback"

        def apply_deletions(self):
            P = _plan
            real = bt.delete_any
            cnt = [0]

            def counting(path):
                j = cnt[0]
                cnt[0] += 1
                if j == P.fault2:
                    raise P.exc("injected at deletion %d" % j)
                try:
                    return real(path)
                except OSError as e:
                    P.del_error = _errno_name(e)
                    raise
            P.ndel = len(self.pending_deletions)
            bt.delete_any = counting
            try:
                super().apply_deletions()
                P.where = "done"
            except BaseException:
                P.where = "deletion"
                raise
            finally:
                bt.delete_any = real
                P.after = snapshot(P.root, P.ctl)
                try:
                    P.md_at_apply = {p: P.wt.stored_kind(p) for p in P.wt.all_versioned_paths()}
                except Exception as e:
                    P.md_at_apply = {"<error>": repr(e)}

    bt._FileMover = FaultyMover
    bbt._FileMover = FaultyMover
    bgt._FileMover = FaultyMover
    # the in-place mode change of the insertion phase: an operation of the same
    # sequence as the mover calls (same fault index space)
    for mod in (bbt, bgt):
        for cls in {c for c in vars(mod).values() if isinstance(c, type) and "_set_executability" in vars(c)}:
            real = cls._set_executability
            if getattr(real, "_verif_wrapped", False):
                continue

            def make_x(real):
                def wrapper(self, path, trans_id, *a, **kw):
                    P = _plan
                    if P is None or not self._tree._supports_executable():
                        return real(self, path, trans_id, *a, **kw)
                    k = P.n
                    P.n += 1
                    want = bool(self._new_executability[trans_id])
                    rel = os.path.relpath(self._tree.abspath(path), P.root)
                    if k == P.fault1:
                        P.injected = True
                        if P.os_fault:
                            raise OSError(errno.EIO, "injected I/O error", path)
                        raise P.exc("injected at operation %d (_set_executability)" % k)
                    full = os.path.join(P.root, rel)
                    changed = False
                    try:
                        st = os.lstat(full)
                        import stat as _stat
                        if not _stat.S_ISREG(st.st_mode):
                            P.unmodelled.append(rel)
                        changed = bool(st.st_mode & 0o100) != want
                    except OSError:
                        pass
                    try:
                        r = real(self, path, trans_id, *a, **kw)
                    except BaseException as e:
                        en = getattr(e, "errno", None)
                        P.log.append(("c", rel, "T" if want else "F", changed,
                                      "%s:%s" % (type(e).__name__, errno.errorcode.get(en, ""))))
                        raise
                    P.log.append(("c", rel, "T" if want else "F", changed, None))
                    return r
                wrapper._verif_wrapped = True
                return wrapper
            cls._set_executability = make_x(real)
    # content creation in limbo while a transform is being built
    for mod in (bbt, bgt):
        cls = mod.DiskTreeTransform
        for name in ("create_file", "create_directory", "create_symlink"):
            real = getattr(cls, name)
            if getattr(real, "_verif_wrapped", False):
                continue

            def make(real):
                def wrapper(self, *a, **kw):
                    P = _plan
                    if P is None:
                        return real(self, *a, **kw)
                    k = P.ncreate
                    P.ncreate += 1
                    if k == P.fault3 and not P.after3:
                        raise P.exc("injected before creation %d" % k)
                    r = real(self, *a, **kw)
                    if k == P.fault3 and P.after3:
                        raise P.exc("injected after creation %d" % k)
                    return r
                wrapper._verif_wrapped = True
                return wrapper
            setattr(cls, name, make(real))


def _sabotage(root, kind, rel):
    """a change made to the directory by "somebody else" after the transform was
    built and checked, just before the first mover call: makes the real
    os.rename calls fail or clobber on their own (no injected exception)"""
    full = os.path.join(root, rel)
    try:
        if kind == "rm":
            if os.path.isdir(full) and not os.path.islink(full):
                shutil.rmtree(full)
            else:
                os.unlink(full)
        elif kind == "file":
            with open(full, "w") as f:
                f.write("obstacle\n")
        elif kind == "dir":
            os.mkdir(full)
        elif kind == "fulldir":
            os.mkdir(full)
            with open(os.path.join(full, "o"), "w") as f:
                f.write("obstacle\n")
        elif kind == "parentfile":
            # replace the parent directory of rel by a regular file
            par = os.path.dirname(full)
            shutil.rmtree(par)
            with open(par, "w") as f:
                f.write("not a directory\n")
        else:
            return None
    except OSError as e:
        return "failed:%s" % errno.errorcode.get(e.errno, e.errno)
    return "done"


# --------------------------------------------------------------------------
# scenarios

NAMES = ["a", "b", "c", "d"]


def _rand_state(rng, root, depth=0, prefix=""):
    """create a random directory content below root/prefix; returns paths created"""
    made = []
    for name in rng.sample(NAMES, rng.randint(2, 4) if depth == 0 else rng.randint(0, 2)):
        rel = prefix + name
        full = os.path.join(root, rel)
        r = rng.random()
        if r < 0.3 and depth < 2:
            os.mkdir(full)
            made.append(rel)
            made += _rand_state(rng, root, depth + 1, rel + "/")
        elif r < 0.4:
            os.symlink("tgt%d" % rng.randint(0, 2), full)
            made.append(rel)
        else:
            with open(full, "w") as f:
                f.write("%s-%d\n" % (rel, rng.randint(0, 3)))
            if rng.random() < 0.35:
                os.chmod(full, 0o755)
            made.append(rel)
    return made


def _mutate(rng, wt, nops):
    """random versioned edits on the working tree (state A -> state B)"""
    root = wt.basedir
    done = []
    for _ in range(nops):
        with wt.lock_read():
            paths = sorted(p for p in wt.all_versioned_paths() if p)
        dirs = [""] + [p for p in paths if os.path.isdir(os.path.join(root, p)) and not os.path.islink(os.path.join(root, p))]
        op = rng.choice(["rename", "rename", "move", "remove", "modify", "add", "swap", "kind", "chmod", "chmod"])
        try:
            if op in ("rename", "move") and paths:
                src = rng.choice(paths)
                d = rng.choice(dirs) if op == "move" else os.path.dirname(src)
                if d == src or d.startswith(src + "/"):
                    continue
                dst = (d + "/" if d else "") + rng.choice(NAMES + ["e", "f"])
                if os.path.lexists(os.path.join(root, dst)):
                    continue
                wt.rename_one(src, dst)
                done.append(("mv", src, dst))
            elif op == "swap" and len(paths) >= 2:
                x, y = rng.sample(paths, 2)
                if x.startswith(y + "/") or y.startswith(x + "/"):
                    continue
                wt.rename_one(x, "swaptmp")
                wt.rename_one(y, x)
                wt.rename_one("swaptmp", y)
                done.append(("swap", x, y))
            elif op == "remove" and paths:
                p = rng.choice(paths)
                wt.remove([p], keep_files=False, force=True)
                done.append(("rm", p))
            elif op == "modify":
                files = [p for p in paths if os.path.isfile(os.path.join(root, p)) and not os.path.islink(os.path.join(root, p))]
                if files:
                    p = rng.choice(files)
                    with open(os.path.join(root, p), "a") as f:
                        f.write("mod%d\n" % rng.randint(0, 9))
                    done.append(("mod", p))
            elif op == "chmod":
                # flip the executable bit of a versioned file (an in-place chmod when reverted)
                files = [p for p in paths if os.path.isfile(os.path.join(root, p)) and not os.path.islink(os.path.join(root, p))]
                if files:
                    p = rng.choice(files)
                    full = os.path.join(root, p)
                    os.chmod(full, 0o644 if os.stat(full).st_mode & 0o100 else 0o755)
                    done.append(("chmod", p))
            elif op == "add":
                d = rng.choice(dirs)
                dst = (d + "/" if d else "") + rng.choice(NAMES + ["e", "f"])
                full = os.path.join(root, dst)
                if os.path.lexists(full):
                    continue
                if rng.random() < 0.3:
                    os.mkdir(full)
                    with open(os.path.join(full, "n"), "w") as f:
                        f.write("new\n")
                else:
                    with open(full, "w") as f:
                        f.write("new %s\n" % dst)
                wt.smart_add([full])
                done.append(("add", dst))
            elif op == "kind" and paths:
                p = rng.choice(paths)
                full = os.path.join(root, p)
                wt.remove([p], keep_files=False, force=True)
                if os.path.lexists(full):
                    continue
                if rng.random() < 0.5:
                    os.mkdir(full)
                    with open(os.path.join(full, "k"), "w") as f:
                        f.write("k\n")
                else:
                    with open(full, "w") as f:
                        f.write("was something else\n")
                wt.smart_add([full])
                done.append(("kind", p))
        except Exception as e:  # an edit the tree refuses: skip it
            done.append(("skip", op, type(e).__name__))
    return done


COMMANDS = ["revert", "merge", "update", "shelve", "unshelve"]

# hand-made scenarios, run first on every run: (name, what revision B does to A = {a, z, d/})
HAND = {
    # an in-place mode change (a sorts first) followed by a rename
    "execbit-then-rename": [("chmod", "a"), ("mv", "z", "zz")],
    # the file whose mode changes is also moved
    "execbit-of-moved-file": [("chmod", "a"), ("mv", "a", "d/a"), ("mv", "z", "zz")],
    # mode change below a renamed directory
    "execbit-below-renamed-dir": [("chmod", "d/f"), ("mv", "d", "e"), ("mv", "z", "zz")],
    # the mode change is the FIRST operation of the apply (no removal, no rename before
    # it): reverting re-creates z after the chmod of a; the journal entry of the chmod
    # is older than every rename
    "execbit-first-then-new-file": [("chmod", "a"), ("rm", "z")],
    # two mode changes before the first rename, the second one below a directory
    "execbit-twice-first-then-new-file": [("chmod", "a"), ("chmod", "d/f"), ("rm", "z")],
}


def _hand_scenario(wt, seed_tuple):
    root, fmt, name = wt.basedir, seed_tuple[1], seed_tuple[2]
    os.mkdir(os.path.join(root, "d"))
    for rel, mode in (("a", 0o644), ("z", 0o644), ("d/f", 0o755)):
        with open(os.path.join(root, rel), "w") as f:
            f.write(rel + "\n")
        os.chmod(os.path.join(root, rel), mode)
    wt.smart_add([root])
    rev1 = wt.commit("A")
    for op in HAND[name]:
        if op[0] == "chmod":
            full = os.path.join(root, op[1])
            os.chmod(full, 0o644 if os.stat(full).st_mode & 0o100 else 0o755)
        elif op[0] == "rm":
            wt.remove([op[1]], keep_files=False, force=True)
        else:
            wt.rename_one(op[1], op[2])
    wt.commit("B")
    return dict(base=root, fmt=fmt, ctl=".bzr/checkout" if fmt != "git" else ".git", cmd="revert", rev1=rev1,
                backups=False, edits=[list(o) for o in HAND[name]], local=[], seed=list(seed_tuple), other=None,
                shelf_id=None)


def build_scenario(seed_tuple):
    """-> dict(base=dir, fmt, ctl, cmd, rev1, backups, local, ...); seed_tuple =
    (seed, format, index[, command])"""
    import random
    rng = random.Random(repr(tuple(seed_tuple[:3])))
    fmt = seed_tuple[1]
    cmd = seed_tuple[3] if len(seed_tuple) > 3 else "revert"
    wt = env.make_tree(fmt)
    root = wt.basedir
    if seed_tuple[0] == "hand":
        return _hand_scenario(wt, seed_tuple)
    _rand_state(rng, root)
    wt.smart_add([root])
    rev1 = wt.commit("A")
    other = None
    if cmd == "merge":
        # a second branch that diverges from A: merging it in creates, renames,
        # deletes and (on conflicts) adds .THIS/.OTHER/.BASE/.moved files
        other = env.fresh_dir("c13o")
        os.rmdir(other)
        owt = wt.controldir.sprout(other, revision_id=rev1).open_workingtree()
        _mutate(rng, owt, rng.randint(2, 5))
        owt.commit("O")
    edits = _mutate(rng, wt, rng.randint(2, 6))
    wt.commit("B")
    local = _mutate(rng, wt, rng.randint(1, 3) if cmd in ("shelve", "unshelve") else rng.randint(0, 2))
    # an unversioned file that may be in the way of a restored path
    if rng.random() < 0.3:
        p = os.path.join(root, rng.choice(NAMES))
        if not os.path.lexists(p):
            with open(p, "w") as f:
                f.write("unversioned\n")
    shelf_id = None
    if cmd == "unshelve":
        from breezy.shelf import ShelfCreator
        with wt.lock_tree_write():
            creator = ShelfCreator(wt, wt.basis_tree())
            try:
                if not creator.shelve_all():
                    raise ValueError("nothing to shelve")
                shelf_id = wt.get_shelf_manager().shelve_changes(creator, "c13")
            finally:
                creator.finalize()
        # more local edits, so that unshelving has to merge
        local += _mutate(rng, wt, rng.randint(0, 2))
    ctl = ".bzr/checkout" if fmt != "git" else ".git"
    return dict(base=root, fmt=fmt, ctl=ctl, cmd=cmd, rev1=rev1, backups=rng.random() < 0.5,
                edits=edits, local=local, seed=list(seed_tuple), other=other, shelf_id=shelf_id)


def _do_command(wt, sc):
    cmd = sc.get("cmd", "revert")
    if cmd == "revert":
        with wt.lock_tree_write():
            old = wt.branch.repository.revision_tree(sc["rev1"])
            wt.revert(old_tree=old, backups=sc["backups"])
    elif cmd == "merge":
        from breezy.branch import Branch
        with wt.lock_write():
            wt.merge_from_branch(Branch.open(sc["other"]), force=True)
    elif cmd == "update":
        wt.update(revision=sc["rev1"])
    elif cmd == "shelve":
        from breezy.shelf import ShelfCreator
        with wt.lock_tree_write():
            creator = ShelfCreator(wt, wt.basis_tree())
            try:
                if not creator.shelve_all():
                    raise ValueError("nothing to shelve")
                wt.get_shelf_manager().shelve_changes(creator, "c13")
            finally:
                creator.finalize()
    elif cmd == "unshelve":
        with wt.lock_tree_write():
            unshelver = wt.get_shelf_manager().get_unshelver(sc["shelf_id"])
            try:
                merger = unshelver.make_merger()
                merger.do_merge()
            finally:
                unshelver.finalize()
    else:
        raise ValueError(cmd)


def versioned(root):
    from breezy.workingtree import WorkingTree
    wt = WorkingTree.open(root)
    out = {}
    with wt.lock_read():
        for p in wt.all_versioned_paths():
            try:
                k = wt.stored_kind(p)
            except Exception:
                k = "?"
            out[p] = k
    return out


def run_command(sc, fault1=None, fault2=None, base_exc=False, fault3=None, after3=False,
                fault_undo=None, fault_meta=False, sabotage=None):
    """copy the scenario tree, run the scenario's command with the given faults"""
    global _plan
    from breezy.workingtree import WorkingTree
    copy = env.fresh_dir("c13")
    os.rmdir(copy)
    shutil.copytree(sc["base"], copy, symlinks=True)
    _plan = P = Plan(copy, sc["ctl"], fault1, fault2, base_exc, fault3, after3,
                     fault_undo=fault_undo, fault_meta=fault_meta, sabotage=sabotage)
    wt = WorkingTree.open(copy)
    P.wt = wt
    if fault_meta:
        # the metadata update of apply(): apply_inventory_delta (bzr) / _apply_index_changes (git)
        def failing_meta(*a, **kw):
            P.injected = True
            P.after = snapshot(copy, sc["ctl"])
            P.where = "metadata"
            raise P.exc("injected in the metadata update")
        if sc["fmt"] == "git":
            wt._apply_index_changes = failing_meta
        else:
            wt.apply_inventory_delta = failing_meta
    pre_visible = visible(snapshot(copy, sc["ctl"]), sc["ctl"])
    pre_versioned = versioned(copy)
    bad_pre = disk_agrees(copy, pre_versioned)
    raised = None
    try:
        _do_command(wt, sc)
    except BaseException as e:
        # the injected fault may be masked by a cleanup error raised while it
        # propagates (ImmortalPendingDeletion from finalize): look down the chain
        raised = type(e).__name__
        c = e
        while c is not None:
            if isinstance(c, (Injected, InjectedBase)):
                raised = "INJECTED"
                break
            if P.os_fault and P.injected and type(c).__name__ == "TransformRenameFailed" and getattr(c, "errno", None) == errno.EIO:
                raised = "INJECTED"
                break
            if P.os_fault and P.injected and type(c) is OSError and c.errno == errno.EIO:
                raised = "INJECTED"
                break
            c = c.__context__
        if raised in ("KeyboardInterrupt", "SystemExit"):
            raise
    _plan = None
    post = snapshot(copy, sc["ctl"])
    try:
        post_versioned = versioned(copy)
    except Exception as e:
        post_versioned = {"<error>": repr(e)}
    _plan = None
    res = dict(plan=P, raised=raised, pre_visible=pre_visible, pre_versioned=pre_versioned, bad_pre=bad_pre,
               post=post, post_visible=visible(post, sc["ctl"]), post_versioned=post_versioned, root=copy)
    return res


def disk_agrees(root, vers):
    """every versioned path exists on disk with its stored kind"""
    bad = []
    for p, k in vers.items():
        full = os.path.join(root, p)
        if not os.path.lexists(full):
            bad.append("%s missing" % p)
            continue
        dk = "symlink" if os.path.islink(full) else "directory" if os.path.isdir(full) else "file"
        if k in ("file", "directory", "symlink") and dk != k:
            bad.append("%s is %s on disk, %s in metadata" % (p, dk, k))
    return bad


def ops_of(log):
    return [(k, a, b) for (k, a, b, existed, err) in log]


def enc_ops(ops):
    return ";".join("%s:%s:%s" % (k, _enc_path(a), b if k == "c" else _enc_path(b)) for k, a, b in ops) or "-"


# --------------------------------------------------------------------------
# T1: order of the two calls (source) and the "is the mode change journalled?" probe

def source_order(path, meta_call):
    """order of the metadata update and mover.apply_deletions() in apply(), read
    from the control flow: both must be unconditional top-level statements of
    the method body, each called exactly once, and both must come after the
    statement that holds `try: removals; insertions / except BaseException:
    mover.rollback(); raise`"""
    import ast
    sys.path.insert(0, os.path.join(env.VERIF, "tools"))
    import extract as ex
    tree = ast.parse(open(path).read())
    found = None

    def calls(node, attr):
        return [n for n in ast.walk(node) if isinstance(n, ast.Call) and isinstance(n.func, ast.Attribute)
                and n.func.attr == attr]

    def top(fn, attr):
        return [i for i, st in enumerate(fn.body) if isinstance(st, ast.Expr) and isinstance(st.value, ast.Call)
                and isinstance(st.value.func, ast.Attribute) and st.value.func.attr == attr]
    for cls in [n for n in tree.body if isinstance(n, ast.ClassDef)]:
        for fn in [n for n in cls.body if isinstance(n, ast.FunctionDef) and n.name == "apply"]:
            if not (calls(fn, "apply_deletions") and calls(fn, meta_call)):
                continue
            dele, meta = top(fn, "apply_deletions"), top(fn, meta_call)
            if len(dele) != 1 or len(meta) != 1 or len(calls(fn, "apply_deletions")) != 1 or len(calls(fn, meta_call)) != 1:
                raise ex.ExtractError("apply() in %s: apply_deletions / %s are not single unconditional top-level "
                                      "statements" % (path, meta_call))
            guard = None
            for i, st in enumerate(fn.body):
                for t in [n for n in ast.walk(st) if isinstance(n, ast.Try)]:
                    for h in t.handlers:
                        if (isinstance(h.type, ast.Name) and h.type.id == "BaseException" and calls(h, "rollback")
                                and isinstance(h.body[-1], ast.Raise) and calls(t, "_apply_removals")
                                and calls(t, "_apply_insertions")
                                and not any(calls(x, "_apply_removals") for x in t.handlers + t.finalbody + t.orelse)):
                            guard = i
            if guard is None or not (guard < dele[0] and guard < meta[0]):
                raise ex.ExtractError("apply() in %s: no try/except BaseException: rollback(); raise around the "
                                      "removal and insertion phases before the metadata update" % path)
            found = "metadataFirst" if meta[0] < dele[0] else "deletionsFirst"
    if found is None:
        raise ex.ExtractError("no apply() calling apply_deletions and %s in %s" % (meta_call, path))
    return found


class _ProbeStop(Exception):
    pass


def probe_chmod_journal(fmt):
    """Does a failed apply() undo the mode change made by _set_executability?
    One hand-built transform on the real code: set the executable bit of the
    existing file `a` and create `zz`; the mover fails when `zz` is renamed into
    place (after the chmod of `a`).  True = the old mode is back after rollback."""
    global _plan
    import breezy.transform as bt
    saved, _plan = _plan, None
    try:
        wt = env.make_tree(fmt)
        root = wt.basedir
        with open(os.path.join(root, "a"), "w") as f:
            f.write("a\n")
        os.chmod(os.path.join(root, "a"), 0o644)
        wt.smart_add([root])
        wt.commit("probe")
        orig = getattr(bt, "_verif_orig_FileMover", None) or bt._FileMover
        seen = []

        class M(orig):
            def rename(self, a, b):
                if os.path.basename(b) == "zz":
                    seen.append(os.stat(os.path.join(root, "a")).st_mode & 0o100)
                    raise _ProbeStop()
                return orig.rename(self, a, b)
        with wt.lock_tree_write():
            tt = wt.transform()
            try:
                tt.set_executability(True, tt.trans_id_tree_path("a"))
                tt.new_file("zz", tt.root, [b"zz\n"])
                try:
                    tt.apply(no_conflicts=True, _mover=M())
                except _ProbeStop:
                    pass
            finally:
                tt.finalize()
        # (if the mode change is not made before the failing rename at all, the old
        # mode is trivially "back": what counts is the state after the failed apply)
        after = os.stat(os.path.join(root, "a")).st_mode & 0o100
        shutil.rmtree(root, ignore_errors=True)
        return after == 0
    finally:
        _plan = saved


def extract(ctx):
    sys.path.insert(0, os.path.join(env.VERIF, "tools"))
    import extract as ex
    try:
        bzr = source_order(os.path.join(env.REPO, "breezy/bzr/transform.py"), "apply_inventory_delta")
        git = source_order(os.path.join(env.REPO, "breezy/git/transform.py"), "_apply_index_changes")
    except ex.ExtractError as e:
        # apply() no longer has the shape the model describes: a broken tie, reported by run()
        ctx.extra["extract_failed"] = str(e)
        raise
    jb, jg = probe_chmod_journal("2a"), probe_chmod_journal("git")
    lb = lambda b: "true" if b else "false"
    text = ("-- GENERATED by harness/checks/c13.py from breezy/bzr/transform.py and breezy/git/transform.py — do not edit\n"
            "import BreezyVerif.Model.C13\nnamespace BreezyVerif.C13\n"
            "/-- order of `mover.apply_deletions()` and the metadata update in `InventoryTreeTransform.apply` -/\n"
            "def applyOrderBzr : Order := .%s\n"
            "/-- the same in `GitTreeTransform.apply` -/\n"
            "def applyOrderGit : Order := .%s\n"
            "/-- is the mode change of `_set_executability` undone by a failed `apply`? (probe of the real code, bzr trees) -/\n"
            "def chmodJournalledBzr : Bool := %s\n"
            "/-- the same for git trees -/\n"
            "def chmodJournalledGit : Bool := %s\nend BreezyVerif.C13\n" % (bzr, git, lb(jb), lb(jg)))
    ex.write_if_changed(os.path.join(env.VERIF, "lean/BreezyVerif/Generated/C13.lean"), text)
    ctx.extra["source_order"] = dict(bzr=bzr, git=git)
    ctx.extra["chmod_journalled"] = dict(bzr=jb, git=jg)
    return "apply order regenerated: bzr=%s git=%s; mode change journalled: bzr=%s git=%s" % (bzr, git, jb, jg)


def _order_flag(ctx, fmt):
    so = ctx.extra.get("source_order")
    if so is None:
        try:
            so = dict(
                bzr=source_order(os.path.join(env.REPO, "breezy/bzr/transform.py"), "apply_inventory_delta"),
                git=source_order(os.path.join(env.REPO, "breezy/git/transform.py"), "_apply_index_changes"))
        except Exception:
            so = dict(bzr="metadataFirst", git="metadataFirst")
        ctx.extra["source_order"] = so
    return "M" if so["git" if fmt == "git" else "bzr"] == "metadataFirst" else "D"


def _jc_flag(ctx, fmt):
    cj = ctx.extra.get("chmod_journalled")
    if cj is None:
        cj = ctx.extra["chmod_journalled"] = dict(bzr=probe_chmod_journal("2a"), git=probe_chmod_journal("git"))
    return "T" if cj["git" if fmt == "git" else "bzr"] else "F"


def model_line(ctx, fmt, before, ops, f1=None, f2=None, fu=None, fm=False):
    t = lambda v: "~" if v is None else v
    return "apply %s %s %s %s %s %s %s %s" % (_order_flag(ctx, fmt), _jc_flag(ctx, fmt), t(f1), t(f2), t(fu),
                                              "T" if fm else "F", enc_fs(before or {}), enc_ops(ops))


def impl_line(P, raised, md):
    clobbered = [l for l in P.log if l[0] != "c" and l[4] is None and l[3]]
    mode_changed = [l for l in P.log if l[0] == "c" and l[4] is None and l[3]]
    return "%s %s %s %s %s %s" % (raised or "~", md, "F" if P.rollback_error is None else "T",
                                  "F" if clobbered else "T", "F" if mode_changed else "T", canon_fs(P.after or {}))


def exec_only_diff(before, after):
    """the paths that differ, if the two snapshots differ in nothing but the
    executable bit of regular files; else None"""
    if set(before) != set(after):
        return None
    d = sorted(p for p in before if before[p] != after[p])
    if d and all({before[p][0], after[p][0]} == {"f", "x"} and before[p][1] == after[p][1] for p in d):
        return d
    return None


def restore_family(P, before, after):
    """family slug of a 'not restored exactly' failure, from the concrete run:
    the only differences are executable bits, and at least as many
    _set_executability calls that changed a bit were executed before the fault"""
    d = exec_only_diff(before, after)
    changed = [l for l in P.log if l[0] == "c" and l[4] is None and l[3]]
    if d and len(changed) >= len(d):
        return "execbit-not-rolled-back"
    return None


def _diff(a, b):
    return sorted(set(a.items()) ^ set(b.items()))[:4]


def check_case(ctx, sc, ok_run, fault1, fault2, base_exc, fault_undo=None, fault_meta=False):
    """one (scenario, fault) case: real run, oracle, model line.  Returns (case, line, impl_out) or None."""
    ops = ops_of(ok_run["plan"].log)
    res = run_command(sc, fault1, fault2, base_exc, fault_undo=fault_undo, fault_meta=fault_meta)
    P = res["plan"]
    case = dict(scenario=sc["seed"], fmt=sc["fmt"], cmd=sc["cmd"], backups=sc["backups"], fault1=fault1, fault2=fault2,
                base_exc=base_exc, ops=[list(o) for o in ops])
    if fault_undo is not None:
        case["fault_undo"] = fault_undo
    if fault_meta:
        case["fault_meta"] = True
    ctx.case(dict(ops=case["ops"], f1=fault1, f2=fault2, fu=fault_undo, fm=fault_meta, fmt=sc["fmt"],
                  before=canon_fs(P.before or {})),
             nontrivial=len(ops) >= 2)
    old_v, new_v = res["pre_versioned"], ok_run["post_versioned"]
    md = "old" if res["post_versioned"] == old_v else "new" if res["post_versioned"] == new_v else "mixed"
    if (md == "mixed" and sc["cmd"] != "revert" and fault2 is not None and P.md_at_apply is not None
            and P.md_at_apply == ok_run["plan"].md_at_apply):
        # merge / update / unshelve go on after apply() (conflict records, parents): what they
        # skip when apply() raises is not this property's business.  The metadata the
        # transform itself wrote is the same as in the clean run, and it is not the old one.
        md = "new"
    if old_v == new_v:
        md = "same"
    # ---- oracle --------------------------------------------------------
    if fault_undo is not None:
        # a second failure, inside rollback: outside the property; tie only
        ctx.count("fault:mover+undo")
        if P.rollback_error is not None:
            ctx.count("rollback-failed")
    elif fault_meta:
        # a failure of the metadata update itself: outside the property's quantifier
        # (not a rename, deletion or creation); compared with the model and recorded
        ctx.count("fault:metadata")
        if res["raised"] != "INJECTED":
            ctx.violation(case, "fault in the metadata update did not propagate (raised=%r)" % (res["raised"],))
        if P.where == "metadata" and md in ("old", "mixed") and res["post_visible"] != res["pre_visible"]:
            ctx.count("observed:metadata-update-failure-leaves-new-files-with-%s-metadata" % md)
    elif fault1 is not None:
        ctx.count("fault:mover")
        if any(o[0] == "c" for o in ops[fault1:fault1 + 1]):
            ctx.count("fault:at-set-executability")
        if res["raised"] != "INJECTED":
            ctx.violation(case, "fault at mover call %d did not propagate (raised=%r)" % (fault1, res["raised"]))
        if P.where != "rollback":
            ctx.violation(case, "fault at mover call %d: rollback was not run (stage=%r)" % (fault1, P.where))
        elif P.after != P.before:
            fam = restore_family(P, P.before, P.after)
            d = exec_only_diff(P.before, P.after) or []
            if fam and all(p.startswith(sc["ctl"] + "/limbo/") for p in d):
                # a file that only ever lived in the limbo area (new content) went back
                # there with its new mode: finalize discards it, nothing of the tree differs
                ctx.count("limbo-only-mode-drift")
            elif fam:
                ctx.count("family:" + fam)
                ctx.violation(case, "rollback after a fault at operation %d restored names and contents but not the "
                                    "executable bit changed by _set_executability: %r" % (fault1, _diff(P.after, P.before)),
                              family=None)
            else:
                ctx.violation(case, "rollback did not restore the directory exactly after a fault at mover call %d: %r"
                              % (fault1, _diff(P.after, P.before)))
        if res["post_visible"] != res["pre_visible"] and not (
                P.where == "rollback" and restore_family(P, res["pre_visible"], res["post_visible"])):
            ctx.violation(case, "working tree files differ from the previous state after a failed apply: %r"
                          % (_diff(res["post_visible"], res["pre_visible"]),))
        if md not in ("old", "same"):
            ctx.violation(case, "versioned paths changed although the transform was rolled back (%s)" % md)
        bad = [b for b in disk_agrees(res["root"], res["post_versioned"]) if b not in ok_run["bad_pre"]]
        if bad:
            ctx.violation(case, "metadata disagrees with disk after rollback: %s" % bad[:3])
    elif fault2 is not None:
        ctx.count("fault:deletion")
        if res["raised"] != "INJECTED":
            ctx.violation(case, "fault at deletion %d did not propagate (raised=%r)" % (fault2, res["raised"]))
        if res["post_visible"] != ok_run["post_visible"]:
            ctx.violation(case, "failure while discarding replaced content: files are not in the transformed state: %r"
                          % (_diff(res["post_visible"], ok_run["post_visible"]),))
        if md not in ("new", "same"):
            ctx.violation(case, "failure while discarding replaced content leaves the metadata describing the %s layout "
                                "(files are in the new layout)" % md)
        bad = [b for b in disk_agrees(res["root"], res["post_versioned"]) if b not in ok_run["bad_post"]]
        if bad:
            ctx.violation(case, "metadata disagrees with disk after a failed deletion: %s" % bad[:3])
    if [l for l in P.log if l[0] != "c" and l[4] is None and l[3]]:
        ctx.count("clobbering-rename")
    if P.unmodelled:
        ctx.count("chmod-on-non-file")
    # ---- model line ------------------------------------------------------
    line = model_line(ctx, sc["fmt"], P.before, ops, fault1, fault2, fault_undo, fault_meta)
    rolled = fault1 is not None or fault_meta
    impl_md = "old" if md == "old" else "new" if md == "new" else ("old" if rolled else "new") if md == "same" else md
    impl = impl_line(P, res["raised"], impl_md)
    shutil.rmtree(res["root"], ignore_errors=True)
    return case, line, impl


def check_sabotage(ctx, sc, ok_run, kind, rel):
    """the directory is changed behind the transform's back just before the first
    mover call: the real os.rename calls now fail (or silently clobber) on their
    own.  Compared with the model from the changed state; when the transform
    fails and nothing was clobbered the rollback must restore that state."""
    res = run_command(sc, sabotage=(kind, rel))
    P = res["plan"]
    if P.sabotaged != "done" or P.before is None or P.movers != 1:
        ctx.count("sabotage-skipped")
        shutil.rmtree(res["root"], ignore_errors=True)
        return None
    ops = ops_of(P.log)
    case = dict(scenario=sc["seed"], fmt=sc["fmt"], cmd=sc["cmd"], sabotage=[kind, rel], fault1=None, fault2=None,
                ops=[list(o) for o in ops])
    ctx.case(dict(ops=case["ops"], sabotage=[kind, rel], fmt=sc["fmt"], before=canon_fs(P.before)),
             nontrivial=len(ops) >= 1)
    ctx.count("sabotage:" + kind)
    errs = [l[4] for l in P.log if l[4] and not (l[0] == "r" and l[4].endswith(":ENOENT"))]
    swallowed = [l for l in P.log if l[4] and l[0] == "r" and l[4].endswith(":ENOENT")]
    clob = [l for l in P.log if l[0] != "c" and l[4] is None and l[3]]
    if swallowed:
        ctx.count("enoent-swallowed")
    if clob:
        ctx.count("clobbering-rename")
    if P.where == "rollback":
        raised = errs[-1].split(":")[1] if errs else "?"
        ctx.count("natural-failure:" + raised)
        if P.rollback_error is not None:
            ctx.count("rollback-failed")
        elif not clob and P.after != P.before and all(
                p.startswith(sc["ctl"] + "/limbo/") for p in (exec_only_diff(P.before, P.after) or ["-"])):
            ctx.count("limbo-only-mode-drift")
        elif not clob and P.after != P.before:
            ctx.violation(case, "the transform failed with %s (directory changed behind its back: %s %s), no rename "
                                "clobbered anything, and rollback did not restore the directory: %r"
                          % (raised, kind, rel, _diff(P.after, P.before)))
        md = "old"
    elif P.where == "deletion":
        # a delete_any failed by itself (rmdir of a directory that got an unexpected child)
        raised = P.del_error or "?"
        ctx.count("natural-deletion-failure:" + raised)
        md = "new"
    elif P.where == "done":
        raised = None
        md = "new"
    else:
        # failed before or after the mover phases (not this property's mechanism)
        ctx.count("sabotage-other-stage:%s" % P.where)
        shutil.rmtree(res["root"], ignore_errors=True)
        return None
    line = model_line(ctx, sc["fmt"], P.before, ops)
    impl = impl_line(P, raised, md)
    shutil.rmtree(res["root"], ignore_errors=True)
    return case, line, impl


def sabotage_candidates(ok_run):
    """{class: [(kind, relpath)]} aimed at the operations of the clean run; class =
    rm-p (source of a pre_delete removed: ENOENT must propagate), rm-r (source of
    a plain rename removed: ENOENT is swallowed), and the obstacle kinds"""
    P = ok_run["plan"]
    before = P.before or {}
    ctl_top = P.ctl.split("/")[0]
    out = {}
    for k, a, b in ops_of(P.log):
        if k == "c":
            continue
        if a in before:
            out.setdefault("rm-" + k, set()).add(("rm", a))
        par = os.path.dirname(b) or "."
        if b not in before and before.get(par, ("?",))[0] == "d":
            for kind in ("file", "dir", "fulldir"):
                out.setdefault(kind, set()).add((kind, b))
            if par != "." and not par.startswith(ctl_top):
                out.setdefault("parentfile", set()).add(("parentfile", b))
    return {c: sorted(v) for c, v in out.items()}


def pick_sabotage(ctx, cands):
    """quick: one of every removal class and of `parentfile`, one random obstacle;
    thorough: up to three of every class"""
    picks = []
    per = ctx.pick(1, 3)
    for c in ("rm-p", "rm-r", "parentfile"):
        if c in cands:
            picks += ctx.rng.sample(cands[c], min(per, len(cands[c])))
    obstacles = [c for c in ("file", "dir", "fulldir") if c in cands]
    for c in (obstacles if ctx.thorough() else ctx.rng.sample(obstacles, min(1, len(obstacles)))):
        picks += ctx.rng.sample(cands[c], min(per, len(cands[c])))
    return picks


def check_creation_fault(ctx, sc, k, after, base_exc):
    """fault at the k-th content creation while the transform is being built:
    nothing may change (finalize discards the limbo area)"""
    res = run_command(sc, base_exc=base_exc, fault3=k, after3=after)
    case = dict(scenario=sc["seed"], fmt=sc["fmt"], cmd=sc["cmd"], fault3=k, after3=after, base_exc=base_exc)
    ctx.case(dict(case, pre=canon_fs(res["pre_visible"])))
    ctx.count("fault:creation")
    if res["raised"] != "INJECTED":
        ctx.violation(case, "fault at content creation %d did not propagate (raised=%r)" % (k, res["raised"]))
    if res["post_visible"] != res["pre_visible"]:
        ctx.violation(case, "a failed content creation left the tree changed: %r" % (_diff(res["post_visible"], res["pre_visible"]),))
    if res["post_versioned"] != res["pre_versioned"]:
        ctx.violation(case, "a failed content creation left the versioned paths changed")
    left = [p for p in res["post"] if p.startswith(sc["ctl"] + "/limbo") or p.startswith(sc["ctl"] + "/pending-deletion")]
    if left:
        ctx.violation(case, "limbo / pending-deletion area not cleaned up after a failed content creation: %r" % left[:4])
    shutil.rmtree(res["root"], ignore_errors=True)


# --------------------------------------------------------------------------
# differential streams for the file-system model itself

_SNAMES = ["a", "b", "c"]


def _small_fs(rng, root):
    """random small directory (files with/without the executable bit, directories,
    dangling symlinks); returns the list of relative paths created"""
    made = []

    def fill(prefix, depth):
        for name in rng.sample(_SNAMES, rng.randint(0 if depth else 1, 3)):
            rel = prefix + name
            full = os.path.join(root, rel)
            r = rng.random()
            if r < 0.4 and depth < 2:
                os.mkdir(full)
                made.append(rel)
                fill(rel + "/", depth + 1)
            elif r < 0.5:
                os.symlink("nowhere%d" % rng.randint(0, 1), full)
                made.append(rel)
            else:
                with open(full, "w") as f:
                    f.write("%d" % rng.randint(0, 2))
                os.chmod(full, 0o755 if rng.random() < 0.4 else 0o644)
                made.append(rel)
    fill("", 0)
    return made


def _rand_path(rng, made, dirs):
    r = rng.random()
    if made and r < 0.55:
        return rng.choice(made)
    if dirs and r < 0.8:
        return rng.choice(dirs) + "/" + rng.choice(_SNAMES)
    if made and r < 0.87:
        return rng.choice(made) + "/" + rng.choice(_SNAMES)
    if made and r < 0.9:
        return rng.choice(made) + "/" + rng.choice(_SNAMES) + "/" + rng.choice(_SNAMES)
    return rng.choice(_SNAMES + ["n"])


def _errno_name(e):
    en = getattr(e, "errno", None)
    if en is None:
        # an OSError raised by the Rust extension carries the number in its text only
        import re
        m = re.search(r"os error (\d+)", str(e))
        en = int(m.group(1)) if m else None
    return errno.errorcode.get(en, type(e).__name__)


def fs_streams(ctx, n):
    """model `rename` against the real os.rename, and model `chmod` against the
    real _set_executability, on random small directories: every errno branch,
    silent replacement, directory-over-empty-directory, self rename"""
    import breezy.bzr.transform as bbt

    class FakeTree:
        def __init__(self, root):
            self.root = root

        def _supports_executable(self):
            return True

        def abspath(self, p):
            return os.path.join(self.root, p)

    class FakeTT:
        pass
    cases, lines, impls = [], [], []
    base = env.fresh_dir("c13fs")
    for i in range(n):
        root = os.path.join(base, "t%d" % i)
        os.mkdir(root)
        made = _small_fs(ctx.rng, root)
        before = snapshot(root, None)
        dirs = [p for p in made if before[p][0] == "d"]
        if ctx.rng.random() < 0.8:
            a, b = _rand_path(ctx.rng, made, dirs), _rand_path(ctx.rng, made, dirs)
            case = dict(stream="rename", fs=canon_fs(before), a=a, b=b)
            try:
                os.rename(os.path.join(root, a), os.path.join(root, b))
                out = "ok " + canon_fs(snapshot(root, None))
                ctx.count("rename:ok" + (":replaced" if b in before and a != b else ""))
            except OSError as e:
                out = "E:" + _errno_name(e)
                ctx.count("rename:" + out)
                if snapshot(root, None) != before:
                    ctx.violation(case, "os.rename failed with %s and changed the directory" % out)
            line = "rename %s %s %s" % (enc_fs(before), _enc_path(a), _enc_path(b))
        else:
            regular = [p for p in made if before[p][0] in "fx"]
            p = ctx.rng.choice(regular) if regular and ctx.rng.random() < 0.7 else _rand_path(ctx.rng, made, dirs)
            if before.get(p, ("?",))[0] in "dl":
                shutil.rmtree(root, ignore_errors=True)
                continue
            x = ctx.rng.random() < 0.5
            case = dict(stream="chmod", fs=canon_fs(before), p=p, x=x)
            tt = FakeTT()
            tt._tree = FakeTree(root)
            tt._new_executability = {"t": x}
            try:
                bbt.DiskTreeTransform._set_executability(tt, p, "t")
                out = "ok %s %s" % ("T" if before[p][0] == "x" else "F", canon_fs(snapshot(root, None)))
                ctx.count("chmod:ok")
            except OSError as e:
                out = "E:" + _errno_name(e)
                ctx.count("chmod:" + out)
            line = "chmod %s %s %s" % (enc_fs(before), _enc_path(p), "T" if x else "F")
        ctx.case(case)
        cases.append(case); lines.append(line); impls.append(out)
        shutil.rmtree(root, ignore_errors=True)
    shutil.rmtree(base, ignore_errors=True)
    if lines:
        ctx.diff(cases, lines, impls)


# --------------------------------------------------------------------------

def _scenarios(ctx, n):
    fmts = ["2a", "git"]
    # half the scenarios are reverts; the others drive the same mechanism
    # through merge (conflict files), update, shelve and unshelve
    cmds = ["revert", "revert", "merge", "revert", "revert", "unshelve", "revert", "revert", "shelve",
            "revert", "merge", "update"]
    for name in sorted(HAND):
        for fmt in fmts:
            yield build_scenario(("hand", fmt, name, "revert"))
    i = 0
    made = 0
    while made < n and i < n * 6:
        cmd = cmds[(i // 2) % len(cmds)]
        # git working trees do not support shelving
        seed_tuple = (ctx.seed, "2a" if cmd in ("shelve", "unshelve") else fmts[i % 2], i, cmd)
        i += 1
        try:
            sc = build_scenario(seed_tuple)
        except Exception as e:
            ctx.count("scenario-build-failed:%s:%s" % (seed_tuple[3], type(e).__name__))
            continue
        made += 1
        yield sc


def _cleanup(sc, *runs):
    for r in runs:
        shutil.rmtree(r["root"], ignore_errors=True)
    shutil.rmtree(sc["base"], ignore_errors=True)
    if sc.get("other"):
        shutil.rmtree(sc["other"], ignore_errors=True)


def run(ctx, nscen=None, maxfaults=None):
    _install()
    if ctx.extra.get("extract_failed") and not ctx.extra.get("extract_failed_reported"):
        ctx.extra["extract_failed_reported"] = True
        ctx.mismatch(dict(t1="shape of apply()"), impl=ctx.extra["extract_failed"],
                     model="try: removals; insertions / except BaseException: rollback; raise, then the metadata "
                           "update and apply_deletions as unconditional statements", tie="T1")
    for f in sorted(os.listdir(os.path.join(env.VERIF, "corpus", "C13"))) if os.path.isdir(os.path.join(env.VERIF, "corpus", "C13")) else []:
        import json
        rec = json.load(open(os.path.join(env.VERIF, "corpus", "C13", f)))
        ctx.count("corpus")
        _replay_case(ctx, rec["case"] if "case" in rec else rec, tie=True)
    fs_streams(ctx, ctx.pick(200, 2500))
    nscen = nscen or ctx.pick(24, 150)
    maxfaults = maxfaults or ctx.pick(30, 200)
    cases, lines, impls = [], [], []

    def keep(r):
        if r:
            cases.append(r[0]); lines.append(r[1]); impls.append(r[2])
    for sc in _scenarios(ctx, nscen):
        ok = run_command(sc)
        P = ok["plan"]
        ctx.count("cmd:%s:%s" % (sc["cmd"], sc["fmt"]))
        if ok["raised"] is not None:
            # the transform failed by itself (a real OS error or a failure while it
            # was being prepared): the tree must be exactly as before
            ctx.count("natural-failure:%s:%s" % (sc["cmd"], ok["raised"]))
            case = dict(scenario=sc["seed"], fault1=None, fault2=None, natural=ok["raised"])
            if sc["cmd"] == "revert":
                if ok["post_visible"] != ok["pre_visible"]:
                    ctx.violation(case, "transform failed with %s and left the tree changed: %r"
                                  % (ok["raised"], _diff(ok["post_visible"], ok["pre_visible"])))
                if ok["post_versioned"] != ok["pre_versioned"]:
                    ctx.violation(case, "transform failed with %s and left the versioned paths changed" % ok["raised"])
            if P.before is not None and P.where == "rollback":
                if P.after != P.before:
                    ctx.violation(case, "rollback after %s did not restore the directory exactly" % ok["raised"])
                ops = ops_of(P.log)
                errs = [l[4] for l in P.log if l[4] and not (l[0] == "r" and l[4].endswith(":ENOENT"))]
                cases.append(case)
                lines.append(model_line(ctx, sc["fmt"], P.before, ops))
                impls.append(impl_line(P, errs[-1].split(":")[1] if errs else "?", "old"))
                ctx.case(dict(ops=[list(o) for o in ops], natural=ok["raised"], before=canon_fs(P.before)))
            _cleanup(sc, ok)
            continue
        n, nd = P.n, P.ndel
        ctx.count("mover-calls:%d" % min(n, 12))
        ctx.count("deletions:%d" % min(nd, 6))
        ctx.count("set-executability-calls:%d" % min(len([l for l in P.log if l[0] == "c"]), 4))
        if P.movers != 1:
            ctx.count("movers!=1:%s:%d" % (sc["cmd"], P.movers))
            _cleanup(sc, ok)
            continue
        # success case against the model
        ops = ops_of(P.log)
        cases.append(dict(scenario=sc["seed"], fault1=None, fault2=None))
        lines.append(model_line(ctx, sc["fmt"], P.before, ops))
        impls.append(impl_line(P, None, "new"))
        ctx.case(dict(ops=[list(o) for o in ops], f1=None, f2=None, fmt=sc["fmt"], before=canon_fs(P.before or {})),
                 nontrivial=len(ops) >= 2)
        # paths that are versioned but not on disk: the state before the command may
        # have some (a locally deleted file), and a merge leaves some on purpose (the
        # path of a contents conflict in a git tree); a fault must not add any
        ok["bad_post"] = disk_agrees(ok["root"], ok["post_versioned"])
        if ok["bad_post"] and sc["cmd"] == "revert":
            ctx.violation(dict(scenario=sc["seed"]), "metadata disagrees with disk after a successful revert: %s" % ok["bad_post"][:3])
        faults = [(k, None) for k in range(n)] + [(None, j) for j in range(nd)]
        if len(faults) > maxfaults:
            faults = ctx.rng.sample(faults, maxfaults)
        for f1, f2 in faults:
            mode = ctx.rng.choice([False, True, "os", "os"]) if f1 is not None else (ctx.rng.random() < 0.5)
            keep(check_case(ctx, sc, ok, f1, f2, base_exc=mode))
        # a second fault inside rollback, a fault in the metadata update
        for _ in range(min(ctx.pick(1, 6), max(n - 1, 0))):
            k = ctx.rng.randrange(1, n)
            keep(check_case(ctx, sc, ok, k, None, base_exc=ctx.rng.choice([False, "os"]),
                            fault_undo=ctx.rng.randrange(0, k)))
        if n and ctx.rng.random() < ctx.pick(0.5, 1.0):
            keep(check_case(ctx, sc, ok, None, None, base_exc=False, fault_meta=True))
        # the directory changes behind the transform's back
        for kind, rel in pick_sabotage(ctx, sabotage_candidates(ok)):
            keep(check_sabotage(ctx, sc, ok, kind, rel))
        ctx.count("creations:%d" % min(P.ncreate, 8))
        for k in range(min(P.ncreate, ctx.pick(4, 40))):
            check_creation_fault(ctx, sc, k, after=ctx.rng.random() < 0.5, base_exc=ctx.rng.random() < 0.5)
        _cleanup(sc, ok)
    if lines:
        ctx.diff(cases, lines, impls)
    import collections
    ctx.extra["violation_families"] = dict(collections.Counter(str(v["family"]) for v in ctx.violations))
    if ctx.extra.get("chmod_journalled"):
        cj = ctx.extra["chmod_journalled"]
        ctx.extra["applicable_theorem"] = {
            k: ("rollback_restores (exact, executable bits included)" if v else
                "rollback_restores_modulo_exec + execbit_witness (mode change not journalled)") for k, v in cj.items()}


def widen(ctx):
    run(ctx, nscen=60, maxfaults=200)


def _replay_case(ctx, case, tie=False):
    sc = build_scenario(tuple(case["scenario"]))
    ok = run_command(sc)
    try:
        if case.get("fault3") is not None:
            check_creation_fault(ctx, sc, case["fault3"], case.get("after3", False), case.get("base_exc", False))
            return dict(case=case, oracle_failures=[v["what"] for v in ctx.violations])
        if case.get("sabotage"):
            r = check_sabotage(ctx, sc, ok, *case["sabotage"])
        else:
            r = check_case(ctx, sc, ok, case.get("fault1"), case.get("fault2"), case.get("base_exc", False),
                           fault_undo=case.get("fault_undo"), fault_meta=case.get("fault_meta", False))
        if r is None:
            return dict(case=case, oracle_failures=[v["what"] for v in ctx.violations])
        if tie:
            ctx.diff([r[0]], [r[1]], [r[2]])
            return None
        m = ctx.model([r[1]])[0]
        return dict(case=r[0], impl=r[2], model=m, agree=(m == r[2]), oracle_failures=[v["what"] for v in ctx.violations])
    finally:
        _cleanup(sc, ok)


def replay(ctx, case):
    _install()
    if case.get("stream"):
        return dict(case=case, note="file-system stream case: re-run the check with the same VERIF_SEED")
    return _replay_case(ctx, case)
