"""C33 — search recipes sent to the server describe exactly the intended revisions.

Real code exercised per case (breezy/bzr/vf_search.py, remote.py, smart/repository.py):
  client  search_result_from_parent_map, _find_possible_heads, _run_search,
          limited_search_result_from_parent_map, RemoteRepository._serialise_search_recipe
  server  SmartServerRepositoryRequest.recreate_search_from_recipe (on a graph
          answering like Repository.get_graph(); a share of the cases on real 2a
          repositories built with BranchBuilder), and in the end-to-end stream the
          whole Repository.get_parent_map RPC of a real RemoteRepository talking
          to a real smart server.

T2: every result (recipe, heads, client walk keys, wire bytes, server reply) is
compared with the Lean model (Model/C33.lean) through the driver.
Oracle (independent of the model): the server accepts the recipe (count check)
and the set it walks equals the client's intended set — keys(parent_map) (plus
NULL_REVISION in the documented pruned-null case) for the unlimited recipe; for the
limited one the set is computed FROM THE CACHE ALONE (spec_limited_keys: distance
relaxation over the child graph -> heads = keys at child distance `depth` plus the
childless nearer ones -> cached non-tip keys reachable from them), NOT from the
client's own searcher: the real _find_possible_heads and the real _run_search walk
must equal it (theorems heads_char / limited_keys_char), and with uncached tips every
key within `depth` child steps of a tip must be covered (limited_keys_lower).  The
server walk is additionally checked against an independent reachability computation,
also on random (wrong) recipes where the count check must fail exactly when the size
differs.
Ghost filling: a share of the caches is replayed on the server graph after ghosts
were filled in (`+filled`): the limited recipe must still be accepted with the same
set (limited_recipe_ghost_fill_safe — the claim of the comment in
recreate_search_from_recipe); the unlimited recipe prunes recorded-missing keys from
its stop keys and is then rejected (unlimited_ghost_filled_witness; outside the
precondition `recorded-missing keys are ghosts`, counted, compared with the model,
not reported; only reachable with _DEFAULT_SEARCH_DEPTH <= 0).
Stacked view: graphs whose lower part lives in a fallback (many ghosts, also leftmost);
the end-to-end stream asks for NULL together with other keys (F46 leaves NULL cached as
missing, the pruned-NULL count adjustment then runs through the real RPC).

Mutants tried (scratch worktree, VERIF_REPO), all caught with a concrete replay:
  M1  search_result_from_parent_map: stop_keys computed after start_set was pruned
      (stop keys then contain cached keys)                     -> oracle: server rejects own recipe
  M2b same: count adjusted whenever NULL is in missing_keys (the `in result_parents`
      test dropped; needs NULL recorded missing but unreferenced) -> oracle
  M10 same: `stop_keys.difference_update(missing_keys)` dropped (needs the pruned-NULL case) -> oracle
  M3  limited_search_result_from_parent_map: returns len(parent_map) as count -> oracle
  M4  _run_search: found_heads taken from all of parent_map instead of the walked
      parents (needs a depth-frontier head whose child lies outside the walk) -> oracle
  M5  remote._serialise_search_recipe: start and stop lines swapped -> oracle
  M6  smart/repository.recreate_search_from_recipe: count test `!=` -> `<` -> oracle (random recipes)
  M7  same: stop keys applied one iteration late (walk passes one level beyond every stop key) -> oracle
  M8  _find_possible_heads: `depth > 0` -> `depth >= 0` (recipe still exact) -> depth oracle + T2
  H1  harmless: chain.from_iterable replaced by loops / comprehension -> clean
 improvement round (all self-consistent recipes: the former oracle, which took the intended set from
 the client's own _run_search, accepted A-D):
  A   _find_possible_heads: `walked.update(children)` dropped (keys re-walked at a larger distance) -> heads oracle + T2
  B   _find_possible_heads: only the first child of each key followed (walk silently shrinks)      -> heads oracle
  C   _run_search: also stops at merge revisions (client walk shrinks, recipe stays exact for it)   -> intended-set oracle
  D   limited_search_result_from_parent_map: heads searched with depth-1                            -> intended-set oracle
  E   limited recipe drops recorded-missing ghosts from its exclude keys (needs a ghost filled in
      on the server after the client cached it as missing)                                          -> oracle on `+filled` cases
  H   harmless: `children.difference(walked)` as a set comprehension -> clean
"""
import itertools

from vlib import env

THEOREMS = [
    "bfs_total", "bfs_spec", "walk_exact", "recipe_exact", "recipe_accepted",
    "limited_recipe_exact", "limited_recipe_accepted", "limited_keys_cached",
    "recreate_ok_iff", "split_join", "parseDec_toDec", "recipe_serialise_roundtrip",
    "walk_ghost_start", "heads_within_depth",
    "heads_char", "limited_keys_char", "limited_keys_lower", "limited_keys_parent_closed",
    "limited_recipe_ghost_fill_safe", "unlimited_ghost_filled_witness",
    "wire_transport", "recipe_end_to_end", "limited_end_to_end", "exEnc_ok",
]
RULE = ("case = (graph with ghosts and NULL, client cache, missing set, tips, depth / recipe); "
        "non-trivial = cache non-empty and the server walk meets at least one stop key or ghost, "
        "or the reply is NoSuchRevision")
ASSUMPTIONS = [
    "revision graphs are acyclic (generated DAGs; the theorems take a rank function as witness)",
    "client caches agree with the server graph on cached keys; for the UNLIMITED recipe keys recorded missing are ghosts "
    "(NULL may be recorded missing) - the limited recipe needs no such assumption (ghost filling is covered)",
    "revision ids contain no space/newline and are non-empty",
]
TRUSTED = [
    "vcsgraph's compiled _BreadthFirstSearcher is modelled by `bfs` (level-wise walk with stop set) and compared per case",
    "int() leniencies for the count field (sign, blanks, '_') are not modelled; the malformed stream avoids them",
    "Repository.get_graph() is modelled as a parent map in which NULL_REVISION is present without parents and parentless revisions point at it (checked on real 2a repositories each run)",
]

NULL = b"null:"
EMPTY = 999999          # stands for the b"" key produced by splitting an empty field


def kid(n):
    return NULL if n == 0 else (b"r%d" % n)


def kn(b):
    if b == NULL:
        return 0
    if b == b"":
        return EMPTY
    return int(b[1:])


def sset(keys):
    ks = sorted(kn(k) for k in keys)
    return ",".join(map(str, ks)) or "-"


def spm(pm):
    """{bytes: tuple(bytes)} -> model field"""
    if not pm:
        return "-"
    return ",".join("%d:%s" % (kn(k), ".".join(str(kn(p)) for p in ps)) for k, ps in sorted(pm.items(), key=lambda kv: kn(kv[0])))


def hexlist(keys):
    if not keys:
        return "-"
    return ",".join((k.hex() or ".") for k in keys)


# ---------------------------------------------------------------- generators
def gen_graph(rng, n, nghost):
    """DAG over keys 1..n (parents have smaller numbers), ghost ids n+1..n+nghost
    referenced but absent; server view: NULL present, parentless keys -> (NULL,)"""
    g = {NULL: ()}
    ghosts = [kid(n + 1 + i) for i in range(nghost)]
    shape = rng.choice(("chain", "bushy", "mixed", "mixed"))
    for i in range(1, n + 1):
        cands = list(range(1, i))
        if shape == "chain":
            k = 1 if cands else 0
            ps = cands[-1:] if cands else []
            if cands and rng.random() < 0.25:
                ps = ps + [rng.choice(cands)]
        else:
            k = rng.choice((0, 1, 1, 1, 2, 2, 3)) if shape == "mixed" else rng.choice((1, 2, 2, 3))
            near = cands[-4:] if rng.random() < 0.7 else cands
            ps = []
            for _ in range(min(k, len(near))):
                p = rng.choice(near)
                if p not in ps:
                    ps.append(p)
        ps = [kid(p) for p in ps]
        if ghosts and rng.random() < 0.18:
            gh = rng.choice(ghosts)
            if rng.random() < 0.3:
                ps.insert(0, gh)
            else:
                ps.append(gh)
        g[kid(i)] = tuple(ps) if ps else (NULL,)
    return g, ghosts


def gen_cache(rng, g, ghosts, n):
    """client cache: (parent_map, missing, tips).  'search' caches are produced
    by walking g breadth-first from tips like the caching provider does; 'any'
    caches are arbitrary sub-maps (the theorems cover them too)."""
    kind = rng.choice(("search", "search", "search", "any", "empty" if rng.random() < 0.3 else "any"))
    pm, missing = {}, set()
    nodes = [kid(i) for i in range(1, n + 1) if kid(i) in g]
    if not nodes:
        nodes = [kid(n)]
    if kind == "empty":
        tips = rng.sample(nodes, min(len(nodes), rng.randint(1, 2)))
        return kind, pm, missing, tips
    if kind == "any":
        for k in nodes:
            if rng.random() < 0.5:
                pm[k] = g[k]
        if rng.random() < 0.2:
            pm[NULL] = ()
        for gh in ghosts:
            if rng.random() < 0.5:
                missing.add(gh)
        refs = set(itertools.chain.from_iterable(pm.values()))
        if NULL not in pm and rng.random() < (0.25 if NULL in refs else 0.1):
            missing.add(NULL)       # the documented pruned-NULL case (also unreferenced)
        frontier = sorted(refs - set(pm) - missing)
        r = rng.random()
        if r < 0.5 and frontier:
            tips = rng.sample(frontier, rng.randint(1, len(frontier)))
        elif r < 0.8:
            tips = rng.sample(nodes + ghosts, rng.randint(1, min(3, len(nodes))))
        else:
            tips = frontier + rng.sample(sorted(pm), min(len(pm), 1))
        return kind, pm, missing, tips or [nodes[0]]
    frontier = set()
    for _ in range(rng.randint(1, 3)):
        frontier = set(rng.sample(nodes + ghosts, rng.randint(1, min(3, len(nodes)))))
        if rng.random() < 0.1:
            frontier.add(NULL)
        for _ in range(rng.randint(1, 5)):
            query = {k for k in frontier if k not in pm and k not in missing}
            nxt = set()
            for k in sorted(query):
                if k in g:
                    pm[k] = g[k]
                    nxt.update(g[k])
                else:
                    missing.add(k)
            frontier = {k for k in nxt if k not in pm and k not in missing}
            if not frontier:
                break
    tips = sorted(frontier) or rng.sample(nodes + ghosts, 1)
    if rng.random() < 0.15:
        tips = tips + rng.sample(nodes, 1)
    return kind, pm, missing, tips


# ---------------------------------------------------------------- real code
class _Lock:
    def __enter__(self):
        return self

    def __exit__(self, *a):
        return False


class StubRepo:
    """answers like Repository for recreate_search_from_recipe: lock_read() and
    get_graph() over the server's view of the revision graph"""

    def __init__(self, g):
        self._g = g

    def lock_read(self):
        return _Lock()

    def get_graph(self):
        from vcsgraph.graph import DictParentsProvider, Graph
        return Graph(DictParentsProvider(self._g))


def real_repo(g, t=None):
    """2a repository (memory) holding g; ghosts only as non-leftmost parents."""
    from breezy.branchbuilder import BranchBuilder
    from breezy.controldir import format_registry
    from dromedary.memory import MemoryTransport
    if t is None:
        t = MemoryTransport("memory:///c33-%d/" % id(g))
    bb = BranchBuilder(t, format=format_registry.make_controldir("2a"))
    bb.start_series()
    for k in sorted((k for k in g if k != NULL), key=kn):
        ps = [p for p in g[k] if p != NULL]
        actions = [("add", ("", b"root-id", "directory", None))] if not ps else []
        bb.build_snapshot(ps, actions, revision_id=k)
    bb.finish_series()
    return bb.get_branch().repository


def _req():
    from breezy.bzr.smart.repository import SmartServerRepositoryRequest
    return SmartServerRepositoryRequest.__new__(SmartServerRepositoryRequest)


def serialise(start, stop, count):
    from breezy.bzr.remote import RemoteRepository
    return RemoteRepository._serialise_search_recipe(None, ("manual", start, stop, count))


def server(repo, body, discard=False):
    """-> canonical reply string, (kind, started, excludes, included)"""
    lines = body.split(b"\n")
    try:
        res, err = _req().recreate_search_from_recipe(repo, lines, discard_excess=discard)
    except (IndexError, ValueError):
        return "E:bad", ("E:bad", None, None, None)
    if err is not None:
        return err.args[0].decode(), (err.args[0].decode(), None, None, None)
    kind, started, excludes, count = res.get_recipe()
    inc = res.get_keys()
    if count != len(inc):
        return "E:count-field", ("E", None, None, None)
    return "ok %s %s %s" % (sset(started), sset(excludes), sset(inc)), ("ok", set(started), set(excludes), set(inc))


def reach_included(g, start, stop):
    """independent specification: keys reachable from start through present,
    non-stop keys; included = reached, present, not stop"""
    seen = set()
    todo = list(start)
    while todo:
        k = todo.pop()
        if k in seen:
            continue
        seen.add(k)
        if k in stop or k not in g:
            continue
        todo.extend(g[k])
    return {k for k in seen if k in g and k not in stop}


def spec_heads(pm, tips, depth):
    """independent of _find_possible_heads: breadth-first distance (in child steps of the cache)
    from the tips; heads = keys at distance exactly `depth`, plus childless keys nearer"""
    children = {}
    for c, ps in pm.items():
        for p in ps:
            children.setdefault(p, set()).add(c)
    dist = {}
    for t in tips:
        dist[t] = 0
    changed = True
    while changed:                      # Bellman-Ford style relaxation (not level-by-level)
        changed = False
        for p, cs in children.items():
            if p in dist:
                for c in cs:
                    if dist.get(c, 1 << 30) > dist[p] + 1:
                        dist[c] = dist[p] + 1
                        changed = True
    heads = {k for k, d in dist.items() if d == depth or (d < depth and not children.get(k))}
    return heads, dist


def spec_limited_keys(pm, tips, depth):
    """the set limited_search_result_from_parent_map is meant to describe, computed from the cache
    alone: cached non-tip keys reachable from the heads by parent steps through cached non-tip keys"""
    if not pm:
        return set(), set(), {}
    heads, dist = spec_heads(pm, tips, depth)
    return reach_included(pm, heads, set(tips)), heads, dist


def child_distance(pm, tips, h):
    """least number of child steps from a tip to h in the cache (inf if none)"""
    dist = {t: 0 for t in tips}
    level = set(tips)
    n = 0
    while level and h not in dist:
        n += 1
        level = {c for c, ps in pm.items() for p in ps if p in level and c not in dist}
        for c in level:
            dist[c] = n
    return dist.get(h, float("inf"))


# ---------------------------------------------------------------- one case
class Batch:
    def __init__(self, ctx):
        self.ctx = ctx
        self.cases, self.lines, self.outs = [], [], []

    def add(self, case, line, out):
        self.cases.append(case)
        self.lines.append(line)
        self.outs.append(out)

    def flush(self):
        if self.lines:
            self.ctx.diff(self.cases, self.lines, self.outs)
        self.cases, self.lines, self.outs = [], [], []


def jcase(kind, g, pm, missing, tips, depth=None, extra=None):
    c = dict(kind=kind, g=spm(g), pm=spm(pm), missing=sset(missing), tips=sset(tips))
    if depth is not None:
        c["depth"] = depth
    if extra:
        c.update(extra)
    return c


def check_server(ctx, b, case, g, repo, start, stop, count, intended, what, null_case=False, may_reject=False):
    """serialise with the real serialiser, replay with the real server function,
    T2 on both, oracle on the outcome.  `intended` = set the client means.
    may_reject: the case is outside the property's precondition (a key the client recorded as
    missing exists on the server): a NoSuchRevision answer is counted, not reported."""
    body = serialise(sorted(start), sorted(stop), count)
    b.add(case, "ser %s %s %d" % (hexlist(sorted(start)), hexlist(sorted(stop)), count), body.hex() or "-")
    lines = body.split(b"\n")
    wstart = set(lines[0].split(b" "))
    wstop = set(lines[1].split(b" "))
    out, (kind, started, excludes, inc) = server(repo, body)
    b.add(case, "srv %s %s %s %d F" % (spm(g), sset(wstart), sset(wstop), count), out)
    spec = reach_included(g, wstart, wstop)
    if kind != "ok":
        if may_reject and kind == "NoSuchRevision" and len(spec) != count:
            ctx.count("ghost-filled:unlimited-rejected")
            return True
        ctx.violation(case, "%s: server rejects the client's own recipe (%s): start=%s stop=%s count=%d intended=%s walk=%s" % (
            what, kind, sset(start), sset(stop), count, sset(intended), sset(spec)))
        ctx.count("srv:" + kind)
        return False
    if started != wstart:
        ctx.violation(case, "%s: start keys changed on the wire: sent %s, server started at %s" % (what, sset(start), sset(started)))
    if inc != set(intended):
        ctx.violation(case, "%s: server walk %s differs from the intended set %s (missing %s, extra %s)" % (
            what, sset(inc), sset(intended), sset(set(intended) - inc), sset(inc - set(intended))))
    if inc != spec:
        ctx.violation(case, "%s: server walk %s is not the reachable set %s" % (what, sset(inc), sset(spec)))
    ctx.count("srv:ok")
    if may_reject:
        ctx.count("ghost-filled:unlimited-accepted")
    return bool(excludes - {b""})


def one_case(ctx, b, g, ghosts, kind, pm, missing, tips, repo, depths):
    from breezy.bzr import vf_search
    nontriv = False
    # ---- unlimited recipe
    case = jcase("sr:" + kind, g, pm, missing, tips)
    start, stop, count = vf_search.search_result_from_parent_map(dict(pm), set(missing))
    start, stop = set(start), set(stop)
    b.add(case, "sr %s %s" % (spm(pm), sset(missing)), "%s %s %d" % (sset(start), sset(stop), count))
    refs = set(itertools.chain.from_iterable(pm.values()))
    intended = set(pm)
    null_case = NULL in refs and NULL in missing
    if null_case:
        intended = intended | {NULL}
        ctx.count("null-pruned")
    # precondition of the unlimited recipe (hypothesis hmiss of recipe_exact): keys recorded missing
    # are ghosts of the server (NULL excepted).  Not so after a ghost was filled in on the server.
    stale_missing = {m for m in missing if m != NULL and m in g}
    nt = check_server(ctx, b, case, g, repo, start, stop, count, intended, "search_result_from_parent_map",
                      may_reject=bool(stale_missing & refs))
    nontriv = bool(pm) and nt
    ctx.case(case, nontrivial=nontriv)
    ctx.count("cache:" + kind)
    ctx.count("cache-size:%d" % min(len(pm), 12))
    # ---- limited recipes
    for depth in depths:
        case = jcase("lim:" + kind, g, pm, missing, tips, depth)
        lstart, lstop, lcount = vf_search.limited_search_result_from_parent_map(dict(pm), set(missing), list(tips), depth)
        lstart, lstop = set(lstart), set(lstop)
        # the intended set, computed from the cache alone (NOT from the client's own searcher)
        want, want_heads, dist = spec_limited_keys(pm, tips, depth)
        if pm:
            heads = vf_search._find_possible_heads(dict(pm), list(tips), depth)
            s, found_heads = vf_search._run_search(dict(pm), set(heads), set(tips))
            keys = set(s.get_state()[2])
            b.add(case, "heads %s %s %d" % (spm(pm), sset(tips), depth), sset(heads))
            far = [h for h in heads if child_distance(pm, tips, h) > depth]
            if far:
                ctx.violation(case, "depth limit: _find_possible_heads(depth=%d) returns %s, more than %d child steps away from the tips %s" % (
                    depth, sset(far), depth, sset(tips)))
            if set(heads) != want_heads:
                ctx.violation(case, "_find_possible_heads(depth=%d) = %s, the keys at child distance %d from the tips %s plus the "
                              "childless nearer ones are %s" % (depth, sset(heads), depth, sset(tips), sset(want_heads)))
            if keys != want:
                ctx.violation(case, "limited recipe (depth=%d): the client's walk %s is not the set the recipe is meant to "
                              "describe %s (missing %s, extra %s)" % (depth, sset(keys), sset(want), sset(want - keys), sset(keys - want)))
            if not (set(tips) & set(pm)):
                # lower bound (theorem limited_keys_lower): uncached tips => everything within `depth`
                # child steps of a tip is covered
                near = {k for k, d in dist.items() if 1 <= d <= depth}
                if not near <= keys:
                    ctx.violation(case, "limited recipe (depth=%d): keys %s lie within %d child steps of the tips %s but are "
                                  "not in the client's walk %s" % (depth, sset(near - keys), depth, sset(tips), sset(keys)))
                ctx.count("lower-bound:checked")
        else:
            keys = set()
        b.add(case, "lim %s %s %d" % (spm(pm), sset(tips), depth),
              "%s %s %d %s" % (sset(lstart), sset(lstop), lcount, sset(keys)))
        if not keys <= set(pm):
            ctx.violation(case, "limited recipe: client walk %s leaves the cache" % sset(keys - set(pm)))
        nt = check_server(ctx, b, case, g, repo, lstart, lstop, lcount, want, "limited_search_result_from_parent_map(depth=%d)" % depth)
        ctx.case(case, nontrivial=bool(pm) and nt)
        ctx.count("depth:%d" % depth)
        ctx.count("lim-keys:%s" % ("all" if keys == set(pm) else "none" if not keys else "part"))


def fill_ghosts(rng, g, ghosts):
    """the server a little later: some ghosts have been filled in (parents older than every
    key that refers to them, so the graph stays acyclic)"""
    g2 = dict(g)
    filled = set()
    for gh in ghosts:
        refs = [kn(k) for k, ps in g.items() if gh in ps]
        if not refs or rng.random() < 0.3:
            continue
        lo = min(refs)
        cands = [kid(i) for i in range(1, lo) if kid(i) in g]
        ps = tuple(rng.sample(cands, min(len(cands), rng.choice((1, 1, 2))))) if cands and rng.random() < 0.8 else (NULL,)
        g2[gh] = ps
        filled.add(gh)
    return g2, filled


def cut_lower(rng, g, n):
    """the view a RemoteRepository has of a STACKED repository: only the upper part of the history is
    in this repository, everything below the cut lives in the fallback and is a ghost here"""
    if n < 3:
        return g, []
    m = rng.randint(1, n - 1)
    g2 = {k: ps for k, ps in g.items() if k == NULL or kn(k) > m}
    return g2, [kid(i) for i in range(1, m + 1)]


def random_recipes(ctx, b, g, ghosts, repo, n, k):
    """server side alone: arbitrary recipes, right and wrong counts"""
    rng = ctx.rng
    nodes = [kid(i) for i in range(1, n + 1)]
    for _ in range(k):
        start = set(rng.sample(nodes + ghosts + [NULL], rng.randint(0, min(3, len(nodes)))))
        stop = set(rng.sample(nodes + ghosts + [NULL], rng.randint(0, min(4, len(nodes)))))
        spec = reach_included(g, start or {b""}, stop or {b""})
        r = rng.random()
        count = len(spec) if r < 0.4 else max(0, len(spec) + rng.choice((-2, -1, 1, 2))) if r < 0.8 else rng.randint(0, n + 1)
        discard = rng.random() < 0.15
        body = serialise(sorted(start), sorted(stop), count)
        case = dict(kind="recipe", g=spm(g), start=sset(start), stop=sset(stop), count=count, discard=discard)
        out, (kind, started, excludes, inc) = server(repo, body, discard)
        wstart, wstop = set(body.split(b"\n")[0].split(b" ")), set(body.split(b"\n")[1].split(b" "))
        b.add(case, "srv %s %s %s %d %s" % (spm(g), sset(wstart), sset(wstop), count, "T" if discard else "F"), out)
        want_ok = discard or count == len(spec)
        if (kind == "ok") != want_ok:
            ctx.violation(case, "count check: recipe start=%s stop=%s count=%d walks %d keys, server says %s" % (
                sset(start), sset(stop), count, len(spec), kind))
        elif kind == "ok" and inc != spec:
            ctx.violation(case, "server walk %s is not the reachable set %s" % (sset(inc), sset(spec)))
        ctx.case(case, nontrivial=(kind != "ok") or bool(excludes - {b""}))
        ctx.count("recipe:" + kind)


def malformed(ctx, b, g, repo, k):
    rng = ctx.rng
    for _ in range(k):
        start = b" ".join(rng.sample([b"r1", b"r2", b"r3", b"", b"null:"], rng.randint(0, 3)))
        stop = b" ".join(rng.sample([b"r1", b"r2", b"", b"r9"], rng.randint(0, 2)))
        cnt = rng.choice([b"", b"x", b"1x", b"x1", b"1.5", b"0x10", b"\xff", b"12", b"0", b"3", b"007"])
        parts = [start, stop, cnt]
        r = rng.random()
        if r < 0.25:
            parts = parts[:rng.randint(0, 2)]
        elif r < 0.4:
            parts.append(rng.choice([b"", b"junk", b"5"]))
        body = b"\n".join(parts)
        out, _ = server(repo, body, True)
        case = dict(kind="malformed", body=body.hex())
        # accept/reject + what was parsed (through the started keys)
        b.add(case, "parse %s" % (body.hex() or "-"), "E:bad" if out == "E:bad" else _parsed(body))
        ctx.case(case, nontrivial=True)
        ctx.count("malformed:" + ("reject" if out == "E:bad" else "accept"))


def _parsed(body):
    lines = body.split(b"\n")
    return "%s %s %d" % (hexlist(lines[0].split(b" ")), hexlist(lines[1].split(b" ")), int(lines[2].decode("ascii")))


# ---------------------------------------------------------------- end to end
def end_to_end(ctx, nrepos, n):
    """real RemoteRepository <-> real smart server over a loopback socket;
    every Repository.get_parent_map RPC is observed on both sides."""
    from breezy.bzr import remote, vf_search
    from breezy.bzr.smart import repository as smart_repo
    from breezy.bzr.smart import server as smart_server
    from breezy import transport as _mod_transport
    from breezy.controldir import ControlDir
    rng = ctx.rng
    obs = []
    orig_lim = vf_search.limited_search_result_from_parent_map
    orig_sr = vf_search.search_result_from_parent_map
    orig_rec = smart_repo.SmartServerRepositoryRequest.recreate_search_from_recipe

    def lim(parent_map, missing_keys, tip_keys, depth):
        r = orig_lim(parent_map, missing_keys, tip_keys, depth)
        obs.append(("client", dict(parent_map), set(missing_keys), set(tip_keys), depth, (set(r[0]), set(r[1]), r[2])))
        return r

    def sr(parent_map, missing_keys):
        r = orig_sr(parent_map, missing_keys)
        obs.append(("client", dict(parent_map or {}), set(missing_keys), None, None, (set(r[0]), set(r[1]), r[2])))
        return r

    def rec(self, repository, lines, discard_excess=False):
        r = orig_rec(self, repository, lines, discard_excess=discard_excess)
        obs.append(("server", None if r[0] is None else set(r[0].get_keys()), r[1]))
        return r

    vf_search.limited_search_result_from_parent_map = lim
    vf_search.search_result_from_parent_map = sr
    gpm = smart_repo.SmartServerRepositoryGetParentMap
    smart_repo.SmartServerRepositoryRequest.recreate_search_from_recipe = rec
    from dromedary.memory import MemoryServer
    ms = MemoryServer()
    ms.start_server()
    root = _mod_transport.get_transport(ms.get_url())
    srv = smart_server.SmartTCPServer(root, client_timeout=10.0)
    srv.start_server("127.0.0.1", 0)
    srv.start_background_thread("-c33")
    try:
        for ri in range(nrepos):
            g, ghosts = gen_graph(rng, rng.randint(3, n), rng.randint(0, 2))
            _no_leftmost_ghost(g, ghosts)
            root.mkdir("r%d" % ri)
            real_repo(g, root.clone("r%d" % ri))
            rrepo = ControlDir.open("bzr://127.0.0.1:%d/r%d/" % (srv.port, ri)).open_repository()
            nodes = [k for k in g if k != NULL]
            for depth in rng.sample([0, 1, 2, 3, 100], 3):
                remote._DEFAULT_SEARCH_DEPTH = depth
                # one level per round trip (the server-side test switch), or the
                # normal fill-up-to-64K behaviour
                gpm.no_extra_results = rng.random() < 0.75
                with rrepo.lock_read():
                    gr = rrepo.get_graph()
                    del obs[:]
                    walked = {}
                    failed = None
                    for _ in range(2):      # the cache persists across searches under one lock
                        tips = rng.sample(nodes + ghosts, rng.randint(1, min(3, len(nodes))))
                        if rng.random() < 0.2:
                            tips.append(NULL)       # NULL asked for together with other keys (F46)
                            ctx.count("e2e-null-tip")
                        searcher = gr._make_breadth_first_searcher(tips)
                        try:
                            while True:
                                lvl = next(searcher)
                                walked.update(gr.get_parent_map(lvl))
                                if rng.random() < 0.15:
                                    searcher.stop_searching_any(set(rng.sample(sorted(lvl), 1)))
                        except StopIteration:
                            pass
                        except Exception as e:   # the RPC failed: the oracle reports the recipe
                            failed = e
                            break
                    _e2e_oracle(ctx, g, ghosts, tips, depth, obs, walked)
                    if failed is not None:
                        last = [o for o in obs if o[0] == "client"][-1:]
                        pm, missing, keys = (last[0][1], last[0][2], last[0][3]) if last else ({}, set(), tips)
                        ctx.violation(jcase("e2e", g, pm, missing, keys or [], depth),
                                      "end-to-end: graph walk through RemoteRepository failed: %r" % (failed,))
                if failed is not None:
                    break
            rrepo.controldir.root_transport.disconnect()
    finally:
        srv.stop_background_thread()
        ms.stop_server()
        vf_search.limited_search_result_from_parent_map = orig_lim
        vf_search.search_result_from_parent_map = orig_sr
        gpm.no_extra_results = False
        smart_repo.SmartServerRepositoryRequest.recreate_search_from_recipe = orig_rec
        remote._DEFAULT_SEARCH_DEPTH = 100


def _no_leftmost_ghost(g, ghosts):
    """a repository built by commits cannot have a ghost as leftmost parent"""
    for k, ps in list(g.items()):
        if ps and ps[0] in ghosts:
            g[k] = tuple(ps[1:] + ps[:1]) if len(ps) > 1 else (NULL,)


def _e2e_oracle(ctx, g, ghosts, tips, depth, obs, walked):
    from vcsgraph.graph import DictParentsProvider, Graph
    from breezy.bzr import vf_search
    i = 0
    nrpc = 0
    while i < len(obs):
        if obs[i][0] != "client":
            i += 1
            continue
        _, pm, missing, keys, d, recipe = obs[i]
        srv = obs[i + 1] if i + 1 < len(obs) and obs[i + 1][0] == "server" else None
        i += 2 if srv else 1
        nrpc += 1
        case = jcase("e2e", g, pm, missing, keys or [], d)
        if srv is None:
            continue
        for k, ps in pm.items():
            if g.get(k) != tuple(ps):
                ctx.violation(case, "client cache disagrees with the repository on %s: %r vs %r" % (sset([k]), ps, g.get(k)))
        if keys is None:
            refs = set(itertools.chain.from_iterable(pm.values()))
            intended = set(pm) | ({NULL} if NULL in refs and NULL in missing else set())
        else:
            intended = spec_limited_keys(pm, set(keys), d)[0]
        ctx.count("e2e-cache:%s" % ("empty" if not pm else "nonempty"))
        if srv[2] is not None:
            ctx.violation(case, "end-to-end: server rejected the client's recipe %r (%r)" % (recipe, srv[2].args))
        elif srv[1] != intended:
            ctx.violation(case, "end-to-end: server regards %s as seen by the client, the client meant %s" % (sset(srv[1]), sset(intended)))
        ctx.case(case, nontrivial=bool(pm))
        ctx.count("e2e-rpc")
    # the walk through the remote graph saw the true parents
    for k, ps in walked.items():
        if g.get(k) != tuple(ps):
            ctx.violation(jcase("e2e-walk", g, {}, [], tips, depth), "remote get_parent_map(%s) = %r, repository has %r" % (sset([k]), ps, g.get(k)))
    ctx.count("e2e-walks")


# ---------------------------------------------------------------- run
def run(ctx, scale=1):
    rng = ctx.rng
    b = Batch(ctx)
    ngraphs = ctx.pick(1350, 12000) * scale
    nmax = ctx.pick(12, 16)
    nreal = ctx.pick(40, 200)
    for gi in range(ngraphs):
        n = rng.randint(1, nmax) if rng.random() < 0.9 else rng.randint(1, 4)
        g, ghosts = gen_graph(rng, n, rng.randint(0, 3))
        use_real = gi < nreal
        if use_real:
            _no_leftmost_ghost(g, ghosts)
            repo = real_repo(g)
            with repo.lock_read():
                view = repo.get_graph().get_parent_map(list(g) + ghosts)
            if view != g:
                ctx.violation(dict(kind="repo-view", g=spm(g)), "Repository.get_graph() view %r differs from the modelled view" % (view,))
            ctx.count("repo:real-2a")
        else:
            repo = StubRepo(g)
            ctx.count("repo:graph")
        if not use_real and rng.random() < 0.15:
            g, below = cut_lower(rng, g, n)
            ghosts = ghosts + below
            repo = StubRepo(g)
            ctx.count("repo:stacked-upper-part")
        for _ in range(ctx.pick(3, 4)):
            kind, pm, missing, tips = gen_cache(rng, g, ghosts, n)
            depths = sorted(set(rng.sample(range(0, 6), 2) + [rng.choice((0, 1, 100))]))
            one_case(ctx, b, g, ghosts, kind, pm, missing, tips, repo, depths)
            if ghosts and not use_real and rng.random() < 0.3:
                # the same cache replayed on the server after ghosts were filled in
                g2, filled = fill_ghosts(rng, g, ghosts)
                if filled:
                    ctx.count("ghost-filled:cases")
                    if filled & set(missing):
                        ctx.count("ghost-filled:recorded-missing")
                    one_case(ctx, b, g2, ghosts, kind + "+filled", pm, missing, tips, StubRepo(g2), depths)
        random_recipes(ctx, b, g, ghosts, repo, n, 3)
        if gi % 10 == 0:
            malformed(ctx, b, g, repo, 6)
        if len(b.lines) > 4000:
            b.flush()
    b.flush()
    end_to_end(ctx, ctx.pick(40, 250), ctx.pick(9, 12))
    ctx.extra["domain"] = dict(max_keys=nmax, ghosts="0..3", depths="0..5,100", graphs=ngraphs)


def widen(ctx):
    run(ctx, scale=3)


def _pm_from(s):
    pm = {}
    if s != "-":
        for e in s.split(","):
            k, ps = e.split(":")
            pm[kid(int(k))] = tuple(kid(int(p)) for p in ps.split(".")) if ps else ()
    return pm


def _set_from(s):
    return set() if s == "-" else {kid(int(x)) if int(x) != EMPTY else b"" for x in s.split(",")}


def replay(ctx, case):
    from breezy.bzr import vf_search
    b = Batch(ctx)
    g = _pm_from(case.get("g", "-"))
    repo = StubRepo(g)
    kind = case["kind"]
    res = {}
    if kind.startswith(("sr:", "lim:", "e2e")):
        pm, missing, tips = _pm_from(case["pm"]), _set_from(case["missing"]), sorted(_set_from(case["tips"]))
        depths = [case["depth"]] if "depth" in case else []
        one_case(ctx, b, g, [], kind.split(":")[-1], pm, missing, tips, repo, depths)
        res["unlimited"] = repr(vf_search.search_result_from_parent_map(dict(pm), set(missing)))
        for d in depths:
            res["limited"] = repr(vf_search.limited_search_result_from_parent_map(dict(pm), set(missing), list(tips), d))
    elif kind == "recipe":
        body = serialise(sorted(_set_from(case["start"])), sorted(_set_from(case["stop"])), case["count"])
        out, _ = server(repo, body, case.get("discard", False))
        spec = reach_included(g, _set_from(case["start"]) or {b""}, _set_from(case["stop"]) or {b""})
        res["server"] = out
        res["reachable"] = sset(spec)
        if (out.startswith("ok")) != (case.get("discard", False) or case["count"] == len(spec)):
            ctx.violation(case, "count check: walks %d keys, count %d, server says %s" % (len(spec), case["count"], out))
    elif kind == "malformed":
        body = bytes.fromhex(case["body"])
        res["server"] = server(repo, body, True)[0]
    impl = list(b.outs)
    model = ctx.model(b.lines) if b.lines else []
    return dict(case=case, impl=impl or res, model=model, lines=b.lines, detail=res,
                oracle_failures=[v["what"] for v in ctx.violations])
