import BreezyVerif.Model.C39
/-! C39 helper lemmas: exact characterisation of when the applier succeeds. -/
namespace BreezyVerif.C39

/-- the lines a hunk expects in the old text -/
def oldSide : List HLine → List Line
  | [] => []
  | .ctx l :: r => l :: oldSide r
  | .rem l :: r => l :: oldSide r
  | .ins _ :: r => oldSide r

/-- the lines a hunk produces -/
def newSide : List HLine → List Line
  | [] => []
  | .ctx l :: r => l :: newSide r
  | .ins l :: r => l :: newSide r
  | .rem _ :: r => newSide r

theorem applyLines_complete (ln : Nat) (hl : List HLine) (r : List Line) :
    applyLines ln (oldSide hl ++ r) hl = .ok (newSide hl, ln + (oldSide hl).length, r) := by
  induction hl generalizing ln with
  | nil => simp [applyLines, oldSide, newSide]
  | cons l hl ih =>
    cases l with
    | ins x => simp [applyLines, oldSide, newSide, ih]
    | ctx x =>
      simp only [applyLines, oldSide, newSide, List.cons_append, if_true, ih, List.length_cons]
      congr 3; omega
    | rem x =>
      simp only [applyLines, oldSide, newSide, List.cons_append, if_true, ih, List.length_cons]
      congr 3; omega

theorem applyLines_sound (ln : Nat) (rest : List Line) (hl : List HLine)
    (e : List Line) (ln' : Nat) (r : List Line) (h : applyLines ln rest hl = .ok (e, ln', r)) :
    rest = oldSide hl ++ r ∧ e = newSide hl ∧ ln' = ln + (oldSide hl).length := by
  induction hl generalizing ln rest e with
  | nil =>
    simp only [applyLines, Except.ok.injEq, Prod.mk.injEq] at h
    simp [oldSide, newSide, h.1, h.2.1, h.2.2]
  | cons l hl ih =>
    cases l with
    | ins x =>
      simp only [applyLines] at h
      cases hr : applyLines ln rest hl with
      | error err => simp [hr] at h
      | ok p =>
        obtain ⟨e1, ln1, r1⟩ := p
        simp only [hr, Except.ok.injEq, Prod.mk.injEq] at h
        obtain ⟨he, hln, hr1⟩ := h
        subst hln; subst hr1
        have := ih ln rest e1 hr
        simp only [oldSide, newSide]
        exact ⟨this.1, by rw [← he, this.2.1], this.2.2⟩
    | ctx x =>
      cases rest with
      | nil => simp [applyLines] at h
      | cons y ys =>
        simp only [applyLines] at h
        by_cases hyx : y = x
        · simp only [hyx, if_true] at h
          cases hr : applyLines (ln + 1) ys hl with
          | error err => simp [hr] at h
          | ok p =>
            obtain ⟨e1, ln1, r1⟩ := p
            simp only [hr, Except.ok.injEq, Prod.mk.injEq] at h
            obtain ⟨he, hln, hr1⟩ := h
            subst hln; subst hr1
            have := ih (ln + 1) ys e1 hr
            simp only [oldSide, newSide, List.cons_append, List.length_cons]
            exact ⟨by rw [hyx, this.1], by rw [← he, this.2.1], by omega⟩
        · simp [hyx] at h
    | rem x =>
      cases rest with
      | nil => simp [applyLines] at h
      | cons y ys =>
        simp only [applyLines] at h
        by_cases hyx : y = x
        · simp only [hyx, if_true] at h
          have := ih (ln + 1) ys e h
          simp only [oldSide, newSide, List.cons_append, List.length_cons]
          exact ⟨by rw [hyx, this.1], this.2.1, by omega⟩
        · simp [hyx] at h

theorem applyLines_ok_iff (ln : Nat) (rest : List Line) (hl : List HLine)
    (e : List Line) (ln' : Nat) (r : List Line) :
    applyLines ln rest hl = .ok (e, ln', r) ↔
      rest = oldSide hl ++ r ∧ e = newSide hl ∧ ln' = ln + (oldSide hl).length := by
  constructor
  · exact applyLines_sound ln rest hl e ln' r
  · rintro ⟨h1, h2, h3⟩
    rw [h1, h2, h3]
    exact applyLines_complete ln hl r

theorem applyFrom_cons (ln : Nat) (rest : List Line) (h : Hunk) (hs : List Hunk) :
    applyFrom ln rest (h :: hs) =
      if h.origPos - ln ≤ rest.length then
        match applyLines (ln + (h.origPos - ln)) (rest.drop (h.origPos - ln)) h.lines with
        | .error e => .error e
        | .ok (e, ln', rest') =>
          match applyFrom ln' rest' hs with
          | .error e => .error e
          | .ok r => .ok (rest.take (h.origPos - ln) ++ e ++ r)
      else .error (.conflict (ln + rest.length)) := by
  rw [applyFrom]
  rfl

theorem applyFrom_ok_iff (ln : Nat) (rest : List Line) (h : Hunk) (hs : List Hunk) (out : List Line) :
    applyFrom ln rest (h :: hs) = .ok out ↔
      ∃ pre rest' out', pre.length = h.origPos - ln ∧ rest = pre ++ oldSide h.lines ++ rest' ∧
        applyFrom (ln + pre.length + (oldSide h.lines).length) rest' hs = .ok out' ∧
        out = pre ++ newSide h.lines ++ out' := by
  rw [applyFrom_cons]
  by_cases hk : h.origPos - ln ≤ rest.length
  · rw [if_pos hk]
    cases hr : applyLines (ln + (h.origPos - ln)) (rest.drop (h.origPos - ln)) h.lines with
    | error err =>
      simp only [reduceCtorEq, false_iff]
      rintro ⟨pre, rest', out', h1, h2, h3, h4⟩
      have : rest.drop (h.origPos - ln) = oldSide h.lines ++ rest' := by
        rw [h2, ← h1, List.append_assoc, List.drop_left]
      have := (applyLines_ok_iff (ln + (h.origPos - ln)) _ h.lines (newSide h.lines)
        (ln + (h.origPos - ln) + (oldSide h.lines).length) rest').mpr ⟨this, rfl, rfl⟩
      rw [hr] at this; simp at this
    | ok p =>
      obtain ⟨e, ln1, r1⟩ := p
      have hspec := (applyLines_ok_iff _ _ _ _ _ _).mp hr
      simp only []
      constructor
      · intro hh
        cases hr2 : applyFrom ln1 r1 hs with
        | error err => simp [hr2] at hh
        | ok out' =>
          simp only [hr2, Except.ok.injEq] at hh
          refine ⟨rest.take (h.origPos - ln), r1, out', by simp [List.length_take]; omega, ?_, ?_, ?_⟩
          · rw [List.append_assoc, ← hspec.1, List.take_append_drop]
          · rw [← hr2, hspec.2.2]; congr 1; simp [List.length_take]; omega
          · rw [← hh, hspec.2.1]
      · rintro ⟨pre, rest', out', h1, h2, h3, h4⟩
        have hd : rest.drop (h.origPos - ln) = oldSide h.lines ++ rest' := by
          rw [h2, ← h1, List.append_assoc, List.drop_left]
        have ht : rest.take (h.origPos - ln) = pre := by
          rw [h2, ← h1, List.append_assoc, List.take_left]
        have hr1 : r1 = rest' := by
          have := hspec.1
          rw [hd] at this
          exact (List.append_cancel_left this).symm
        subst hr1
        have hln : ln1 = ln + pre.length + (oldSide h.lines).length := by rw [hspec.2.2, h1]
        rw [hln, h3]
        simp only [Except.ok.injEq]
        rw [ht, hspec.2.1, h4]
  · rw [if_neg hk]
    simp only [reduceCtorEq, false_iff]
    rintro ⟨pre, rest', out', h1, h2, _, _⟩
    apply hk
    rw [h2, ← h1]; simp

/-! ## which conflict is reported -/

/-- length of the longest common prefix -/
def lcp : List Line → List Line → Nat
  | x :: xs, y :: ys => if x = y then lcp xs ys + 1 else 0
  | _, _ => 0

theorem lcp_le_left (xs ys : List Line) : lcp xs ys ≤ xs.length := by
  induction xs generalizing ys with
  | nil => simp [lcp]
  | cons x xs ih =>
    cases ys with
    | nil => simp [lcp]
    | cons y ys =>
      simp only [lcp]
      split
      · have := ih ys; simp only [List.length_cons]; omega
      · omega

theorem lcp_le_right (xs ys : List Line) : lcp xs ys ≤ ys.length := by
  induction xs generalizing ys with
  | nil => simp [lcp]
  | cons x xs ih =>
    cases ys with
    | nil => simp [lcp]
    | cons y ys =>
      simp only [lcp]
      split
      · have := ih ys; simp only [List.length_cons]; omega
      · omega

/-- if the old text does not carry the hunk's old side, the inner loop raises
`PatchConflict` at the first old line that differs (or is missing) -/
theorem applyLines_conflict (ln : Nat) (rest : List Line) (hl : List HLine)
    (hmis : ¬ (oldSide hl <+: rest)) :
    applyLines ln rest hl = .error (.conflict (ln + lcp (oldSide hl) rest)) := by
  induction hl generalizing ln rest with
  | nil => simp [oldSide] at hmis
  | cons l hl ih =>
    cases l with
    | ins x =>
      simp only [oldSide] at hmis ⊢
      simp only [applyLines, ih ln rest hmis]
    | ctx x =>
      cases rest with
      | nil => simp [applyLines, oldSide, lcp]
      | cons y ys =>
        simp only [applyLines, oldSide, lcp]
        by_cases hyx : y = x
        · subst hyx
          have hm : ¬ (oldSide hl <+: ys) := by
            intro hp; apply hmis; simp only [oldSide]; exact List.cons_prefix_cons.mpr ⟨rfl, hp⟩
          simp only [if_true, ih (ln + 1) ys hm]
          congr 2; omega
        · have hxy : ¬ x = y := fun h => hyx h.symm
          simp [hyx, hxy]
    | rem x =>
      cases rest with
      | nil => simp [applyLines, oldSide, lcp]
      | cons y ys =>
        simp only [applyLines, oldSide, lcp]
        by_cases hyx : y = x
        · subst hyx
          have hm : ¬ (oldSide hl <+: ys) := by
            intro hp; apply hmis; simp only [oldSide]; exact List.cons_prefix_cons.mpr ⟨rfl, hp⟩
          simp only [if_true, ih (ln + 1) ys hm]
          congr 2; omega
        · have hxy : ¬ x = y := fun h => hyx h.symm
          simp [hyx, hxy]

/-- … and so does the whole applier: the line number is the position reached when
the hunk starts (or the end of the text if it ends before that) plus the number
of old-side lines that still matched -/
theorem applyFrom_conflict (ln : Nat) (rest : List Line) (h : Hunk) (hs : List Hunk)
    (hmis : ¬ (oldSide h.lines <+: rest.drop (h.origPos - ln))) :
    applyFrom ln rest (h :: hs) =
      .error (.conflict (ln + min (h.origPos - ln) rest.length +
        lcp (oldSide h.lines) (rest.drop (h.origPos - ln)))) := by
  rw [applyFrom_cons]
  by_cases hk : h.origPos - ln ≤ rest.length
  · rw [if_pos hk, applyLines_conflict _ _ _ hmis, Nat.min_eq_left hk]
  · rw [if_neg hk]
    have hd : rest.drop (h.origPos - ln) = [] := List.drop_eq_nil_of_le (by omega)
    have : lcp (oldSide h.lines) [] = 0 := by cases oldSide h.lines <;> simp [lcp]
    rw [hd, this, Nat.min_eq_right (by omega)]
    rfl

/-- every reported line number lies in `[line_no, line_no + remaining lines]`: it
names an existing old line or the line just after the end of the text -/
theorem applyLines_conflict_range (ln : Nat) (rest : List Line) (hl : List HLine) (k : Nat)
    (h : applyLines ln rest hl = .error (.conflict k)) : ln ≤ k ∧ k ≤ ln + rest.length := by
  by_cases hp : oldSide hl <+: rest
  · obtain ⟨r, hr⟩ := hp
    rw [← hr, applyLines_complete] at h
    simp at h
  · rw [applyLines_conflict ln rest hl hp] at h
    simp only [Except.error.injEq, ApplyErr.conflict.injEq] at h
    have := lcp_le_right (oldSide hl) rest
    omega

theorem applyFrom_conflict_range (ln : Nat) (rest : List Line) (hs : List Hunk) (k : Nat)
    (h : applyFrom ln rest hs = .error (.conflict k)) : ln ≤ k ∧ k ≤ ln + rest.length := by
  induction hs generalizing ln rest with
  | nil => simp [applyFrom] at h
  | cons hk hs ih =>
    rw [applyFrom_cons] at h
    split at h
    · rename_i hle
      cases hr : applyLines (ln + (hk.origPos - ln)) (rest.drop (hk.origPos - ln)) hk.lines with
      | error err =>
        cases err with
        | conflict k' =>
          simp only [hr, Except.error.injEq, ApplyErr.conflict.injEq] at h
          subst h
          have := applyLines_conflict_range _ _ _ _ hr
          simp only [List.length_drop] at this
          omega
      | ok p =>
        obtain ⟨e, ln1, r1⟩ := p
        simp only [hr] at h
        have hspec := (applyLines_ok_iff _ _ _ _ _ _).mp hr
        cases hr2 : applyFrom ln1 r1 hs with
        | ok out => simp [hr2] at h
        | error err =>
          cases err with
          | conflict k' =>
            simp only [hr2, Except.error.injEq, ApplyErr.conflict.injEq] at h
            subst h
            have := ih ln1 r1 hr2
            have hl := congrArg List.length hspec.1
            simp only [List.length_drop, List.length_append] at hl
            omega
    · simp only [Except.error.injEq, ApplyErr.conflict.injEq] at h
      omega

end BreezyVerif.C39
