import BreezyVerif.Lemmas.C08
/-
C08 — the side invariants (`topo`, `invsAgree`, `invsHaveRevs`) are preserved by
every operation on a stacked repository: helper lemmas for the sequence theorems
of Props/C08.lean.
-/
namespace BreezyVerif.C08

open BreezyVerif.C03

/-! ### introduction / elimination forms -/

theorem agreeOn_intro {α β : Type} [DecidableEq α] [DecidableEq β] {a b : List (α × β)}
    (h : ∀ k v, (k, v) ∈ b → ∀ v', get a k = some v' → v' = v) : agreeOn a b = true := by
  unfold agreeOn
  rw [List.all_eq_true]
  rintro ⟨k, v⟩ hmem
  cases hg : get a k with
  | none => rfl
  | some v' => simp only [decide_eq_true_eq]; exact h k v hmem v' hg

theorem agreeOn_mem {α β : Type} [DecidableEq α] [DecidableEq β] {a b : List (α × β)}
    (h : agreeOn a b = true) {k : α} {v v' : β} (hm : (k, v) ∈ b) (ha : get a k = some v') : v' = v := by
  unfold agreeOn at h
  have := List.all_eq_true.mp h (k, v) hm
  simp only [ha, decide_eq_true_eq] at this
  exact this

theorem topo_intro {r : Repo} (h : ∀ k rec, (k, rec) ∈ r.revs → ∀ p ∈ rec.parents, p < k) : topo r = true := by
  unfold topo
  rw [List.all_eq_true]
  rintro ⟨k, rec⟩ hm
  simp only [List.all_eq_true, decide_eq_true_eq]
  exact h k rec hm

theorem topo_mem {r : Repo} (h : topo r = true) {k : Rev} {rec : RevRec} (hm : (k, rec) ∈ r.revs)
    {p : Rev} (hp : p ∈ rec.parents) : p < k := by
  unfold topo at h
  have := List.all_eq_true.mp h (k, rec) hm
  simp only [List.all_eq_true, decide_eq_true_eq] at this
  exact this p hp

theorem invsHaveRevs_intro {s : Stacked} (h : ∀ k i, (k, i) ∈ s.st.invs → presentRev s k = true) :
    invsHaveRevs s = true := by
  unfold invsHaveRevs
  rw [List.all_eq_true]
  rintro ⟨k, i⟩ hm
  exact h k i hm

theorem invsHaveRevs_mem {s : Stacked} (h : invsHaveRevs s = true) {k : Rev} {i : Inv}
    (hm : (k, i) ∈ s.st.invs) : presentRev s k = true := by
  unfold invsHaveRevs at h
  exact List.all_eq_true.mp h (k, i) hm

/-! ### what the operations add -/

theorem mem_keyed_filterMap {α β : Type} {f : α → Option β} {l : List α} {k : α} {v : β}
    (h : (k, v) ∈ l.filterMap fun a => (f a).map fun b => (a, b)) : k ∈ l ∧ f k = some v := by
  obtain ⟨a, ha, hv⟩ := List.mem_filterMap.mp h
  cases hf : f a with
  | none => simp [hf] at hv
  | some b =>
    simp only [hf, Option.map_some, Option.some.injEq, Prod.mk.injEq] at hv
    obtain ⟨h1, h2⟩ := hv
    subst h1 h2
    exact ⟨ha, hf⟩

theorem mem_copy_revs {x : Exclusion} {src t : Repo} {m : List Rev} {k : Rev} {rec : RevRec}
    (h : (k, rec) ∈ (copy x src t m).revs) : (k, rec) ∈ t.revs ∨ (k ∈ m ∧ get src.revs k = some rec) := by
  unfold copy at h
  rcases List.mem_append.mp h with h | h
  · exact Or.inl h
  · exact Or.inr (mem_keyed_filterMap h)

theorem mem_copy_invs {x : Exclusion} {src t : Repo} {m : List Rev} {k : Rev} {i : Inv}
    (h : (k, i) ∈ (copy x src t m).invs) : (k, i) ∈ t.invs ∨ (k ∈ m ∧ get src.invs k = some i) := by
  unfold copy at h
  rcases List.mem_append.mp h with h | h
  · exact Or.inl h
  · exact Or.inr (mem_keyed_filterMap h)

theorem mem_parentInvFill {src t : Repo} {m : List Rev} {p : Rev} {i : Inv}
    (h : (p, i) ∈ parentInvFill src t m) :
    (∃ k ∈ m, p ∈ C33.parentsL (graph src) k) ∧ hasRev t p = false ∧ get t.invs p = none ∧
      get src.invs p = some i := by
  unfold parentInvFill at h
  obtain ⟨hp, hi⟩ := mem_keyed_filterMap h
  obtain ⟨h1, h2⟩ := List.mem_filter.mp hp
  obtain ⟨k, hk, hpk⟩ := List.mem_flatMap.mp h1
  simp only [Bool.and_eq_true, Bool.not_eq_true', Option.isNone_iff_eq_none] at h2
  exact ⟨⟨k, hk, hpk⟩, h2.1, h2.2, hi⟩

/-- a revision that counted as present still does after a fetch -/
theorem fetch_presentRev_mono {x : Exclusion} {fg : Bool} {src : Repo} {s s' : Stacked} {rev : Rev}
    (h : fetchStacked x fg src s rev = .ok s') {p : Rev} (hp : presentRev s p = true) :
    presentRev s' p = true := by
  obtain ⟨_, hfb, hrevs, _, _⟩ := fetchStacked_ok h
  unfold presentRev hasRev at hp ⊢
  rw [hfb, hrevs, copy_revs_get]
  cases hl : get s.st.revs p with
  | some v => simp
  | none => simp [hl] at hp; simp [hp]

/-- a sent revision is a local revision afterwards -/
theorem fetch_sent_local {x : Exclusion} {fg : Bool} {src : Repo} {s s' : Stacked} {rev : Rev}
    (h : fetchStacked x fg src s rev = .ok s') {k : Rev} (hk : k ∈ missing fg src (both s) rev) :
    hasRev s'.st k = true := by
  obtain ⟨_, _, hrevs, _, _⟩ := fetchStacked_ok h
  have hsrc : hasRev src k = true := ((mem_anc ..).mp (missing_sub_anc hk)).2
  obtain ⟨rec, hrec⟩ := (hasRev_iff ..).mp hsrc
  unfold hasRev
  rw [hrevs, copy_revs_get]
  cases hl : get s.st.revs k with
  | some v => rfl
  | none => simp [hk, hrec]

/-! ### fetch -/

theorem fetch_preserves_topo {x : Exclusion} {fg : Bool} {src : Repo} {s s' : Stacked} {rev : Rev}
    (h : fetchStacked x fg src s rev = .ok s') (ht : topo s.st = true) (hts : topo src = true) :
    topo s'.st = true := by
  obtain ⟨_, _, hrevs, _, _⟩ := fetchStacked_ok h
  apply topo_intro
  intro k rec hm p hp
  rw [hrevs] at hm
  rcases mem_copy_revs hm with h1 | ⟨_, h1⟩
  · exact topo_mem ht h1 hp
  · exact topo_mem hts (get_mem h1) hp

theorem fetch_preserves_invsAgree {x : Exclusion} {fg : Bool} {src : Repo} {s s' : Stacked} {rev : Rev}
    (h : fetchStacked x fg src s rev = .ok s') (ha : invsAgree s = true)
    (has : agreeOn s.fb.invs src.invs = true) : invsAgree s' = true := by
  obtain ⟨_, hfb, _, _, hinvs⟩ := fetchStacked_ok h
  unfold invsAgree at ha ⊢
  rw [hfb]
  apply agreeOn_intro
  intro k v hm v' hv'
  rw [hinvs] at hm
  rcases List.mem_append.mp hm with hm | hm
  · rcases mem_copy_invs hm with h1 | ⟨_, h1⟩
    · exact agreeOn_mem ha h1 hv'
    · exact agreeOn_mem has (get_mem h1) hv'
  · obtain ⟨_, _, _, h1⟩ := mem_parentInvFill hm
    exact agreeOn_mem has (get_mem h1) hv'

theorem fetch_preserves_invsHaveRevs {x : Exclusion} {fg : Bool} {src : Repo} {s s' : Stacked} {rev : Rev}
    (h : fetchStacked x fg src s rev = .ok s') (hi : invsHaveRevs s = true)
    (hc : fg = true ∨ closed (both s) src = true) (hno : noOrphanInv src = true) :
    invsHaveRevs s' = true := by
  obtain ⟨_, hfb, hrevs, _, hinvs⟩ := fetchStacked_ok h
  apply invsHaveRevs_intro
  intro k i hm
  rw [hinvs] at hm
  have hsent : ∀ q, q ∈ missing fg src (both s) rev → presentRev s' q = true := by
    intro q hq
    unfold presentRev
    rw [fetch_sent_local h hq]; rfl
  rcases List.mem_append.mp hm with hm | hm
  · rcases mem_copy_invs hm with h1 | ⟨h1, _⟩
    · exact fetch_presentRev_mono h (invsHaveRevs_mem hi h1)
    · exact hsent k h1
  · obtain ⟨⟨m, hmM, hpm⟩, _, _, h1⟩ := mem_parentInvFill hm
    have hsrcp : hasRev src k = true := noOrphan_rev hno h1
    obtain ⟨rec, hrec, hpr⟩ := mem_parentsL_graph.mp hpm
    have hka : k ∈ anc src rev := parent_mem_anc (missing_sub_anc hmM) hrec hpr hsrcp
    rcases anc_cases_closed (fg := fg) (tgt := both s) hc hka with h3 | h3
    · exact hsent k h3
    · rw [hasRev_both] at h3
      exact fetch_presentRev_mono h h3

/-! ### commit -/

/-- the shape of a successful commit -/
theorem commitStacked_ok {s s' : Stacked} {k : Rev} {rec : RevRec} {inv : Inv} {nt : List (TextKey × Nat)}
    (h : commitStacked s k rec inv nt = .ok s') :
    s'.fb = s.fb ∧ s'.st.revs = s.st.revs ++ [(k, rec)] ∧ s'.st.texts = s.st.texts ++ nt ∧
    ∃ fill, s'.st.invs = (s.st.invs ++ [(k, inv)]) ++ fill ∧
      ∀ p i, (p, i) ∈ fill → get s.fb.invs p = some i := by
  unfold commitStacked fallbackParentInvs at h
  simp only at h
  split at h
  · cases h
  · rename_i fill hfill
    split at hfill
    · simp only [Option.some.injEq] at hfill
      simp only [Except.ok.injEq] at h
      subst h
      refine ⟨rfl, rfl, rfl, fill, rfl, fun p i hm => ?_⟩
      rw [← hfill] at hm
      exact (mem_keyed_filterMap hm).2
    · cases hfill

theorem commit_presentRev_mono {s s' : Stacked} {k : Rev} {rec : RevRec} {inv : Inv}
    {nt : List (TextKey × Nat)} (h : commitStacked s k rec inv nt = .ok s') {p : Rev}
    (hp : presentRev s p = true) : presentRev s' p = true := by
  obtain ⟨hfb, hrevs, _, _⟩ := commitStacked_ok h
  unfold presentRev hasRev at hp ⊢
  rw [hfb, hrevs]
  cases hl : get s.st.revs p with
  | some v => simp [get_append_some hl]
  | none => simp [hl] at hp; simp [hp]

theorem commit_preserves_topo {s s' : Stacked} {k : Rev} {rec : RevRec} {inv : Inv}
    {nt : List (TextKey × Nat)} (h : commitStacked s k rec inv nt = .ok s') (ht : topo s.st = true)
    (hlt : rec.parents.all (fun p => decide (p < k)) = true) : topo s'.st = true := by
  obtain ⟨_, hrevs, _, _⟩ := commitStacked_ok h
  apply topo_intro
  intro k' rec' hm p hp
  rw [hrevs] at hm
  rcases List.mem_append.mp hm with h1 | h1
  · exact topo_mem ht h1 hp
  · simp only [List.mem_singleton, Prod.mk.injEq] at h1
    obtain ⟨h2, h3⟩ := h1
    subst h2 h3
    have := List.all_eq_true.mp hlt p hp
    simpa using this

theorem commit_preserves_invsAgree {s s' : Stacked} {k : Rev} {rec : RevRec} {inv : Inv}
    {nt : List (TextKey × Nat)} (h : commitStacked s k rec inv nt = .ok s') (ha : invsAgree s = true)
    (hfresh : get s.fb.invs k = none) : invsAgree s' = true := by
  obtain ⟨hfb, _, _, fill, hinvs, hfill⟩ := commitStacked_ok h
  unfold invsAgree at ha ⊢
  rw [hfb]
  apply agreeOn_intro
  intro q v hm v' hv'
  rw [hinvs] at hm
  rcases List.mem_append.mp hm with hm | hm
  · rcases List.mem_append.mp hm with h1 | h1
    · exact agreeOn_mem ha h1 hv'
    · simp only [List.mem_singleton, Prod.mk.injEq] at h1
      obtain ⟨h2, _⟩ := h1
      subst h2
      rw [hfresh] at hv'; cases hv'
  · have := hfill q v hm
    rw [this] at hv'
    exact (Option.some.inj hv').symm

theorem commit_preserves_invsHaveRevs {s s' : Stacked} {k : Rev} {rec : RevRec} {inv : Inv}
    {nt : List (TextKey × Nat)} (h : commitStacked s k rec inv nt = .ok s') (hi : invsHaveRevs s = true)
    (hno : noOrphanInv s.fb = true) : invsHaveRevs s' = true := by
  obtain ⟨hfb, hrevs, _, fill, hinvs, hfill⟩ := commitStacked_ok h
  apply invsHaveRevs_intro
  intro q i hm
  rw [hinvs] at hm
  rcases List.mem_append.mp hm with hm | hm
  · rcases List.mem_append.mp hm with h1 | h1
    · exact commit_presentRev_mono h (invsHaveRevs_mem hi h1)
    · simp only [List.mem_singleton, Prod.mk.injEq] at h1
      obtain ⟨h2, _⟩ := h1
      subst h2
      unfold presentRev hasRev
      rw [hrevs]
      cases hl : get s.st.revs q with
      | some v => simp [get_append_some hl]
      | none => simp [get_append_none hl, get_singleton]
  · have h1 := noOrphan_rev hno (hfill q i hm)
    unfold presentRev
    rw [hfb, h1]; simp

/-! ### pack -/

theorem pack_presentRev (s : Stacked) (p : Rev) : presentRev (pack s) p = presentRev s p := by
  unfold presentRev hasRev pack packRepo
  simp only [get_dedupKeys]

theorem pack_preserves_topo (s : Stacked) (ht : topo s.st = true) : topo (pack s).st = true := by
  apply topo_intro
  intro k rec hm p hp
  exact topo_mem ht (mem_dedupKeys hm) hp

theorem pack_preserves_invsAgree (s : Stacked) (ha : invsAgree s = true) : invsAgree (pack s) = true := by
  unfold invsAgree at ha ⊢
  apply agreeOn_intro
  intro k v hm v' hv'
  exact agreeOn_mem ha (mem_dedupKeys hm) hv'

theorem pack_preserves_invsHaveRevs (s : Stacked) (hi : invsHaveRevs s = true) :
    invsHaveRevs (pack s) = true := by
  apply invsHaveRevs_intro
  intro k i hm
  rw [pack_presentRev]
  exact invsHaveRevs_mem hi (mem_dedupKeys hm)

/-! ### the weak invariant `stackableW` -/

theorem stackableW_rev {s : Stacked} (h : stackableW s = true) {k : Rev} {rec : RevRec}
    (hk : get s.st.revs k = some rec) :
    ∃ inv, get s.st.invs k = some inv ∧
      ∀ e ∈ inv, e ∈ parentEntries s rec ∨ ∃ c, get s.st.texts e.key = some c := by
  unfold stackableW at h
  have := List.all_eq_true.mp h (k, rec) (get_mem hk)
  unfold stackableRevW at this
  cases hi : get s.st.invs k with
  | none => simp [hi] at this
  | some inv =>
    simp only [hi, List.all_eq_true, Bool.or_eq_true, decide_eq_true_eq] at this
    refine ⟨inv, rfl, fun e he => ?_⟩
    rcases this e he with h1 | h1
    · exact Or.inl h1
    · cases hh : get s.st.texts e.key with
      | none => simp [hh] at h1
      | some c => exact Or.inr ⟨c, rfl⟩

theorem stackableRev_imp_W {s : Stacked} {k : Rev} {rec : RevRec} (h : stackableRev s k rec = true) :
    stackableRevW s k rec = true := by
  unfold stackableRev at h
  unfold stackableRevW
  cases hi : get s.st.invs k with
  | none => simp [hi] at h
  | some inv =>
    simp only [hi, Bool.and_eq_true] at h
    exact h.2

theorem stackableRevW_mono {s s' : Stacked} {k : Rev} {rec : RevRec}
    (hinv : ∀ q i, get s.st.invs q = some i → get s'.st.invs q = some i)
    (htxt : ∀ q c, get s.st.texts q = some c → get s'.st.texts q = some c)
    (hpres : ∀ p, presentRev s p = true → presentRev s' p = true)
    (h : stackableRevW s k rec = true) : stackableRevW s' k rec = true := by
  unfold stackableRevW at h ⊢
  cases hi : get s.st.invs k with
  | none => simp [hi] at h
  | some inv =>
    simp only [hi, List.all_eq_true, Bool.or_eq_true, decide_eq_true_eq] at h
    simp only [hinv k inv hi, List.all_eq_true, Bool.or_eq_true, decide_eq_true_eq]
    intro e he
    rcases h e he with h1 | h1
    · left
      obtain ⟨p, hp, hpp, ip, hip, hep⟩ := mem_parentEntries h1
      unfold parentEntries
      refine List.mem_flatMap.mpr ⟨p, List.mem_filter.mpr ⟨hp, hpres p hpp⟩, ?_⟩
      unfold invOrEmpty
      rw [hinv p ip hip]
      exact hep
    · right
      cases hh : get s.st.texts e.key with
      | none => simp [hh] at h1
      | some c => simp [htxt _ c hh]

end BreezyVerif.C08
