/-
C49 — configuration values resolve by location (breezy/config.py:
_iter_for_location_by_parts, LocationMatcher, StartingPathMatcher,
LocationSection.get, Stack.get) and survive a store round trip.

Strings are `List Char`.  External pieces are NOT modelled but specified and
checked per case by the harness: `fnmatch` on the restricted glob grammar
(`*`, `?`, `[…]`/`[!…]` with plain items and ranges; anything else → the model
answers "outside grammar"), `urlutils.join` / `urlutils.basename` of dromedary
on plain relative paths.  For the location stream the harness feeds the model
the sections as the real parser produced them.  The store round trip IS
modelled (second half of this file): `Stack.set`'s `store.quote`
(= configobj `_quote` with list_values on, incl. breezy's `_get_triple_quote`
override), `ConfigObj.write` of one section of scalar options (`_quote` with
list_values off), the reader's line splitting (`str.splitlines` + rstrip of
CR/LF), the parser's `_keyword` / `_nolistvalue` / triple-quote regexes with
their lazy (first-match) semantics, multi-line values, and
`IniFileStore.unquote`.  Lines outside that fragment (indented lines, quoted
keys, nested or quoted section markers) make the model answer "outside".
-/
namespace BreezyVerif.C49

abbrev Str := List Char

/-! ## paths -/

/-- Python `s.split("/")` (always at least one part) -/
def splitSlash : Str → List Str
  | [] => [[]]
  | c :: s =>
    if c == '/' then [] :: splitSlash s
    else
      match splitSlash s with
      | p :: ps => (c :: p) :: ps
      | [] => [[c]]

/-- Python `s.rstrip("/")` -/
def rstripSlash (s : Str) : Str := (s.reverse.dropWhile (· == '/')).reverse

def parts (s : Str) : List Str := splitSlash (rstripSlash s)

/-- Python `"/".join(l)` -/
def joinSlash : List Str → Str
  | [] => []
  | [p] => p
  | p :: q :: ps => p ++ '/' :: joinSlash (q :: ps)

/-- `urlutils.basename` on plain paths: drop one trailing `/`, take what follows the last `/` -/
def lastSeg : Str → Str
  | [] => []
  | c :: s => if s.contains '/' then lastSeg s else if c == '/' then s else c :: s

def dropOneTrailingSlash (s : Str) : Str :=
  match s.reverse with
  | '/' :: r => r.reverse
  | _ => s

def urlBasename (s : Str) : Str := lastSeg (dropOneTrailingSlash s)

/-- `scheme://host` of a URL-like base (`[]` if there is no `://`) -/
def schemeHostAux (acc : Str) : Str → Str
  | ':' :: '/' :: '/' :: r => acc.reverse ++ ':' :: '/' :: '/' :: r.takeWhile (· != '/')
  | c :: r => if c == '/' then [] else schemeHostAux (c :: acc) r
  | [] => []

def schemeHost (base : Str) : Str :=
  match base with
  | ':' :: _ => []
  | _ => schemeHostAux [] base

/-- `urlutils.basename` of a path or of a URL (then: of the URL's path) -/
def urlBasenameU (s : Str) : Str := urlBasename (s.drop (schemeHost s).length)

/-- `urlutils.join(base, extra)` on the domain used here: `extra` is a `/`-joined
list of plain components; an absolute `extra` replaces the path of `base`, a URL all of it -/
def joinPath (base extra : Str) : Str :=
  if !(schemeHost extra).isEmpty then extra else      -- a full URL (the no-name section's extra path) replaces everything
  match extra with
  | '/' :: _ => schemeHost base ++ extra
  | _ =>
    match base.reverse with
    | '/' :: _ => base ++ extra
    | _ => base ++ '/' :: extra

/-! ## fnmatch on the restricted grammar -/

inductive GTok where
  | lit (c : Char)
  | any1
  | star
  | cls (neg : Bool) (items : List (Char × Char))
  deriving DecidableEq, Repr

def clsMatch (neg : Bool) (items : List (Char × Char)) (x : Char) : Bool :=
  (items.any fun it => decide (it.1 ≤ x) && decide (x ≤ it.2)) != neg

def starLoop (k : Str → Bool) : Str → Bool
  | [] => k []
  | x :: s => k (x :: s) || starLoop k s

/-- the whole of `s` is matched (`fnmatch.fnmatchcase`: `*` and `?` match any character) -/
def gmatch : List GTok → Str → Bool
  | [], s => s.isEmpty
  | .lit c :: ts, s =>
    match s with
    | x :: s' => x == c && gmatch ts s'
    | [] => false
  | .any1 :: ts, s =>
    match s with
    | _ :: s' => gmatch ts s'
    | [] => false
  | .cls neg items :: ts, s =>
    match s with
    | x :: s' => clsMatch neg items x && gmatch ts s'
    | [] => false
  | .star :: ts, s => starLoop (gmatch ts) s

structure ClsSt where
  neg : Bool
  first : Bool
  items : List (Char × Char)
  pend : Option Char
  dash : Bool
  deriving DecidableEq, Repr

def stepCls (cs : ClsSt) (c : Char) : Option (Option ClsSt × List GTok) :=
  if cs.first && c == '!' then some (some { cs with neg := true, first := false }, [])
  else if c == ']' then
    if cs.dash then none else
    let items := match cs.pend with
      | some a => (a, a) :: cs.items
      | none => cs.items
    if items.isEmpty then none else some (none, [.cls cs.neg items.reverse])
  else if c == '-' then
    match cs.pend with
    | some _ => if cs.dash then none else some (some { cs with dash := true, first := false }, [])
    | none => none
  else if c.isAlphanum then
    match cs.pend with
    | some a =>
      if cs.dash then
        if a ≤ c then some (some { cs with items := (a, c) :: cs.items, pend := none, dash := false, first := false }, [])
        else none
      else some (some { cs with items := (a, a) :: cs.items, pend := some c, first := false }, [])
    | none => some (some { cs with pend := some c, first := false }, [])
  else none

/-- glob text → tokens; `none` = outside the modelled grammar -/
def glex (st : Option ClsSt) : Str → Option (List GTok)
  | [] => match st with
    | none => some []
    | some _ => none
  | c :: s =>
    match st with
    | some cs =>
      match stepCls cs c with
      | none => none
      | some (st', ts) => (glex st' s).map (ts ++ ·)
    | none =>
      if c == '[' then glex (some ⟨false, true, [], none, false⟩) s
      else if c == ']' then none
      else if c == '*' then (glex none s).map (GTok.star :: ·)
      else if c == '?' then (glex none s).map (GTok.any1 :: ·)
      else (glex none s).map (GTok.lit c :: ·)

/-! ## sections -/

/-- a section as the store yields it; `id = none` is the no-name section -/
structure RawSection where
  id : Option Str
  opts : List (Str × Str)
  deriving DecidableEq, Repr

/-- a named section with its id parsed as globs: per path component (LocationMatcher)
and as a whole (StartingPathMatcher) -/
structure PSec where
  id : Str
  opts : List (Str × Str)
  comps : List (List GTok)
  whole : List GTok
  deriving DecidableEq, Repr

/-- a `LocationSection` -/
structure LocSection where
  id : Option Str
  opts : List (Str × Str)
  extra : Str
  branch : Str
  deriving DecidableEq, Repr

def lookup (k : Str) : List (Str × Str) → Option Str
  | [] => none
  | (a, v) :: r => if a = k then some v else lookup k r

def prepare (id : Str) (opts : List (Str × Str)) : Option PSec :=
  match (parts id).mapM (glex none), glex none id with
  | some cs, some w => some ⟨id, opts, cs, w⟩
  | _, _ => none

/-! ## `_iter_for_location_by_parts` -/

/-- component-wise glob prefix match -/
def compsMatch (loc : List Str) (sec : List (List GTok)) : Bool :=
  decide (sec.length ≤ loc.length) && (loc.zip sec).all fun ls => gmatch ls.2 ls.1

/-- the unmatched part of the location -/
def extraPath (loc : List Str) (n : Nat) : Str := joinSlash (loc.drop n)

/-- `(section, extra_path, nb_parts)` for every matching section, in the given order -/
def iterByParts (secs : List PSec) (location : Str) : List (PSec × Str × Nat) :=
  secs.filterMap fun s =>
    if compsMatch (parts location) s.comps then some (s, extraPath (parts location) s.comps.length, s.comps.length)
    else none

/-! ## `LocationSection.get` -/

inductive Chunk where
  | text (s : Str)
  | ref (name : Str)
  deriving DecidableEq, Repr

def isWordStart (c : Char) : Bool := c.isAlpha || c == '_'
def isWord (c : Char) : Bool := c.isAlphanum || c == '_'

/-- scanner state for `_option_ref_re = ({[^\d\W](?:\.\w|-\w|\w)*})`;
`buf` holds the pending text since the `{`, reversed -/
inductive RefSt where
  | idle
  | afterOpen
  | inName (buf : Str)      -- buf: reversed name so far
  | afterSep (buf : Str)    -- name so far ends in `.` or `-`
  deriving DecidableEq, Repr

/-- one character; output chunks (text chunks are single characters or flushed buffers) -/
def refIdle (c : Char) : RefSt × List Chunk :=
  if c == '{' then (.afterOpen, []) else (.idle, [.text [c]])

def flush (buf : Str) : Chunk := .text ('{' :: buf.reverse)

def refStep : RefSt → Char → RefSt × List Chunk
  | .idle, c => refIdle c
  | .afterOpen, c =>
    if isWordStart c then (.inName [c], [])
    else let r := refIdle c; (r.1, flush [] :: r.2)
  | .inName buf, c =>
    if c == '}' then (.idle, [.ref buf.reverse])
    else if isWord c then (.inName (c :: buf), [])
    else if c == '.' || c == '-' then (.afterSep (c :: buf), [])
    else let r := refIdle c; (r.1, flush buf :: r.2)
  | .afterSep buf, c =>
    if isWord c then (.inName (c :: buf), [])
    else let r := refIdle c; (r.1, flush buf :: r.2)

def refFinish : RefSt → List Chunk
  | .idle => []
  | .afterOpen => [flush []]
  | .inName buf => [flush buf]
  | .afterSep buf => [flush buf]

/-- `iter_option_refs` (text chunks may come in several pieces) -/
def scanRefs (st : RefSt) : Str → List Chunk
  | [] => refFinish st
  | c :: s => let r := refStep st c; r.2 ++ scanRefs r.1 s

def relpathN : Str := ['r', 'e', 'l', 'p', 'a', 't', 'h']
def basenameN : Str := ['b', 'a', 's', 'e', 'n', 'a', 'm', 'e']
def branchnameN : Str := ['b', 'r', 'a', 'n', 'c', 'h', 'n', 'a', 'm', 'e']
def policySuffix : Str := [':', 'p', 'o', 'l', 'i', 'c', 'y']
def appendpathN : Str := ['a', 'p', 'p', 'e', 'n', 'd', 'p', 'a', 't', 'h']
def ignoreParentsN : Str := ['i', 'g', 'n', 'o', 'r', 'e', '_', 'p', 'a', 'r', 'e', 'n', 't', 's']

/-- `self.locals` -/
def localOf (s : LocSection) (name : Str) : Option Str :=
  if name = relpathN then some s.extra
  else if name = basenameN then some (urlBasenameU s.extra)
  else if name = branchnameN then some s.branch
  else none

def expandChunk (s : LocSection) : Chunk → Str
  | .text t => t
  | .ref n => match localOf s n with
    | some v => v
    | none => '{' :: n ++ ['}']

def expandLocals (s : LocSection) (v : Str) : Str :=
  ((scanRefs .idle v).map (expandChunk s)).flatten

/-- `LocationSection.get(name)` (expand=True); the recursion on `name:policy`
ends because every level needs a longer key to be present; outer `none` = fuel
exhausted (cannot happen with fuel > number of options) -/
def secGet : Nat → LocSection → Str → Option (Option Str)
  | 0, _, _ => none
  | fuel + 1, s, name =>
    match lookup name s.opts with
    | none => some none
    | some v =>
      match secGet fuel s (name ++ policySuffix) with
      | none => none
      | some pol =>
        let v1 := if pol = some appendpathN then joinPath v s.extra else v
        some (some (expandLocals s v1))

def secGet' (s : LocSection) (name : Str) : Option Str :=
  match secGet (s.opts.length + 2) s name with
  | some r => r
  | none => none

/-! ## `LocationMatcher` -/

def strLe : Str → Str → Bool
  | [], _ => true
  | _ :: _, [] => false
  | x :: xs, y :: ys => decide (x.toNat < y.toNat) || (x.toNat == y.toNat && strLe xs ys)

/-- sort key `(length, id)`, descending; the no-name section has length 0 (and
id `[]` here), named sections have length ≥ 1, so the two are never compared on ids -/
def keyGe (a b : Nat × Str × LocSection) : Bool :=
  decide (b.1 < a.1) || (a.1 == b.1 && strLe b.2.1 a.2.1)

def asciiLower (c : Char) : Char := if 'A' ≤ c ∧ c ≤ 'Z' then Char.ofNat (c.toNat + 32) else c

/-- `ui.bool_from_string(v)` is `True` -/
def isTrueString (v : Str) : Bool :=
  let l := v.map asciiLower
  l = ['y', 'e', 's'] || l = ['y'] || l = ['o', 'n'] || l = ['t', 'r', 'u', 'e'] || l = ['1']

def ignoring (s : LocSection) : Bool :=
  match secGet' s ignoreParentsN with
  | some v => isTrueString v
  | none => false

/-! ### segment parameters of the location (`LocationMatcher.__init__`)

The matcher keeps the location AS GIVEN (`,k=v` parameters of the last segment
included) for matching, `{relpath}` and `appendpath`; the parameters are only
looked at to find the branch name. -/

/-- a blank other than ' ' (Rust's `trim` and Python's notion of blank differ on some of them) -/
def isSpaceLoc (c : Char) : Bool :=
  let n := c.toNat
  (9 ≤ n && n ≤ 13) || (28 ≤ n && n ≤ 31) || n == 0x85 || n == 0xa0 || n == 0x1680 ||
  (0x2000 ≤ n && n ≤ 0x200a) || n == 0x2028 || n == 0x2029 || n == 0x202f || n == 0x205f || n == 0x3000

/-- `scheme://host/` and nothing more: `strip_trailing_slash` leaves it alone -/
def isSchemeRoot (loc : Str) : Bool := !(schemeHost loc).isEmpty && loc == schemeHost loc ++ ['/']

/-- `urlutils.strip_trailing_slash` -/
def chopSlash (loc : Str) : Str := if isSchemeRoot loc then loc else dropOneTrailingSlash loc

/-- Python `s.split(",")` -/
def splitComma : Str → List Str
  | [] => [[]]
  | c :: s =>
    if c == ',' then [] :: splitComma s
    else
      match splitComma s with
      | p :: ps => (c :: p) :: ps
      | [] => [[c]]

def trimBlank (s : Str) : Str := ((s.dropWhile (· == ' ')).reverse.dropWhile (· == ' ')).reverse

/-- `split_once('=')` with both halves trimmed -/
def splitEq : Str → Option (Str × Str)
  | [] => none
  | c :: s => if c == '=' then some ([], s) else (splitEq s).map fun kv => (c :: kv.1, kv.2)

inductive BranchRes where
  | invalid               -- InvalidURL: a sub-segment without `=`
  | outside               -- blanks other than ' ' in the segment, `%` or non-ASCII in the branch value
  | noParam               -- no `branch` parameter: the branch name is the basename of the location
  | fromParam (b : Str)
  deriving DecidableEq, Repr

def branchKey : Str := ['b', 'r', 'a', 'n', 'c', 'h']

/-- `split_segment_parameters(location)[1].get("branch")`, un-escaped -/
def segBranch (loc : Str) : BranchRes :=
  let seg := lastSeg (chopSlash loc)
  if seg.any (fun c => isSpaceLoc c) then .outside else
  match splitComma seg with
  | _ :: subs =>
    match subs.mapM fun sub => (splitEq (trimBlank sub)).map fun kv => (trimBlank kv.1, trimBlank kv.2) with
    | none => .invalid
    | some kvs =>
      match (kvs.reverse.find? fun kv => kv.1 == branchKey) with
      | none => .noParam
      | some kv => if kv.2.any (fun c => c == '%' || decide (127 < c.toNat)) then .outside else .fromParam kv.2
  | [] => .noParam

/-- the branch name a `LocationMatcher` hands to its sections (meaningful when
`segBranch` is neither `invalid` — the constructor raises — nor `outside`) -/
def branchOf (loc : Str) : Str :=
  match segBranch loc with
  | .fromParam b => b
  | _ => urlBasenameU loc

/-- `_get_matching_sections`: `(length, section)` — the no-name section first -/
def matchingSections (noName : Option (List (Str × Str))) (secs : List PSec) (location : Str) :
    List (Nat × Str × LocSection) :=
  (match noName with
    | some o => [(0, [], (⟨none, o, location, []⟩ : LocSection))]
    | none => []) ++
  (iterByParts secs location).map fun m =>
    (m.2.2, m.1.id, (⟨some m.1.id, m.1.opts, m.2.1, branchOf location⟩ : LocSection))

/-- the sorted candidates, most specific first -/
def sortedSections (noName : Option (List (Str × Str))) (secs : List PSec) (location : Str) : List LocSection :=
  ((matchingSections noName secs location).mergeSort keyGe).map (·.2.2)

/-- the cut `ignore_parents` makes: a section whose `ignore_parents` is true is
itself still consulted, nothing after it is -/
def cutAfterIgnoring : List LocSection → List LocSection
  | [] => []
  | s :: r => if ignoring s then [s] else s :: cutAfterIgnoring r

/-- `LocationMatcher.get_sections`: most specific first; the loop yields a
section and THEN breaks if its `ignore_parents` is true -/
def locationSections (noName : Option (List (Str × Str))) (secs : List PSec) (location : Str) : List LocSection :=
  cutAfterIgnoring (sortedSections noName secs location)

/-- HISTORICAL (before fix 5b060e5): the loop broke BEFORE yielding the ignoring
section.  Kept so that the harness can name the regression if the live code
ever behaves like this again (variant `excl` of the driver). -/
def locationSectionsExcl (noName : Option (List (Str × Str))) (secs : List PSec) (location : Str) : List LocSection :=
  (sortedSections noName secs location).takeWhile fun s => !ignoring s

/-! ## `StartingPathMatcher` -/

def startingSections (noName : Option (List (Str × Str))) (secs : List PSec) (location : Str) : List LocSection :=
  (secs.reverse.filterMap fun s =>
    if s.id.isPrefixOf location || gmatch s.whole location then
      some (⟨some s.id, s.opts, extraPath (parts location) s.comps.length, []⟩ : LocSection)
    else none) ++
  (match noName with
    | some o => [(⟨none, o, location, []⟩ : LocSection)]
    | none => [])

/-! ## `Stack.get` for an unregistered option -/

inductive Res where
  | none
  | val (v : Str)
  | unmodelled          -- an option reference survives local expansion (stack-level expansion is not modelled)
  deriving DecidableEq, Repr

def hasRef (v : Str) : Bool := (scanRefs .idle v).any fun c => match c with | .ref _ => true | .text _ => false

/-- configobj `_unquote` as used by `IniFileStore.unquote` -/
def unquote (v : Str) : Str :=
  match v with
  | [] => []
  | c :: r =>
    if (c == '"' || c == '\'') && (c :: r).getLast? == some c then r.dropLast else v

def stackGet (secs : List LocSection) (name : Str) : Res :=
  match secs.findSome? (fun s => secGet' s name) with
  | Option.none => .none
  | some v => if hasRef v then .unmodelled else .val (unquote v)

/-! ## store (round trip) -/

def setOpt (k v : Str) : List (Str × Str) → List (Str × Str)
  | [] => [(k, v)]
  | (a, w) :: r => if a = k then (a, v) :: r else (a, w) :: setOpt k v r

/-! ### configobj `_quote` -/

/-- Python `str.isspace` = `\s` of `re` on str patterns = what `str.strip()` strips -/
def isSpace (c : Char) : Bool :=
  let n := c.toNat
  (9 ≤ n && n ≤ 13) || (28 ≤ n && n ≤ 32) || n == 0x85 || n == 0xa0 || n == 0x1680 ||
  (0x2000 ≤ n && n ≤ 0x200a) || n == 0x2028 || n == 0x2029 || n == 0x202f || n == 0x205f || n == 0x3000

/-- the line boundaries of `str.splitlines` -/
def isLineBreak (c : Char) : Bool :=
  let n := c.toNat
  (10 ≤ n && n ≤ 13) || (28 ≤ n && n ≤ 30) || n == 0x85 || n == 0x2028 || n == 0x2029

/-- `s.find(p) != -1` -/
def hasSub (p : Str) : Str → Bool
  | [] => p.isEmpty
  | c :: r => p.isPrefixOf (c :: r) || hasSub p r

def dq3 : Str := ['"', '"', '"']
def sq3 : Str := ['\'', '\'', '\'']

/-- configobj `wspace_plus` (blank, CR, LF, VT, TAB and the two quotes) -/
def wspacePlus (c : Char) : Bool :=
  c == ' ' || c == '\r' || c == '\n' || c == '\x0b' || c == '\t' || c == '\'' || c == '"'

/-- `_get_single_quote`; `none` = ConfigObjError -/
def singleQuote (v : Str) : Option Str :=
  if v.contains '\'' && v.contains '"' then none
  else if v.contains '"' then some ('\'' :: v ++ ['\''])
  else some ('"' :: v ++ ['"'])

/-- `_get_triple_quote` as it behaves in breezy: `breezy.config.ConfigObj` swaps
the two quote kinds configobj would choose (`_has_triplequote_bug()` compares a
format string with a bare triple quote and is therefore always true), so a value
that contains three double quotes is wrapped in three single quotes and any
other value in three double quotes -/
def tripleQuote (v : Str) : Option Str :=
  if hasSub dq3 v && hasSub sq3 v then none
  else if hasSub dq3 v then some (sq3 ++ v ++ sq3)
  else some (dq3 ++ v ++ dq3)

/-- `ConfigObj._quote(value, multiline=True)` for a str value; `listValues` is
`self.list_values` (on inside `IniFileStore.quote`, off inside `ConfigObj.write`);
`none` = ConfigObjError ("cannot be safely quoted") -/
def cquote (listValues : Bool) (v : Str) : Option Str :=
  match v.head?, v.getLast? with
  | some h, some l =>
    let nl := v.contains '\n'
    let hash := v.contains '#'
    let both := v.contains '\'' && v.contains '"'
    let noListsNoQuotes := !listValues && !nl && !hash
    let needTriple := both || nl
    let hashTriple := !needTriple && both && hash
    let checkSingle := (noListsNoQuotes || !needTriple) && !hashTriple
    if checkSingle then
      if !listValues then some v
      else if nl then none
      else if !wspacePlus h && !wspacePlus l && !v.contains ',' then
        (if hash then singleQuote v else some v)
      else singleQuote v
    else tripleQuote v
  | _, _ => some ['"', '"']

/-! ### configobj parser: one value -/

/-- `\s*(#.*)?$` matches all of `s` (also: `s.strip()` is empty or starts with `#`) -/
def tailOk (s : Str) : Bool :=
  match s.dropWhile isSpace with
  | [] => true
  | c :: _ => c == '#'

/-- `(.*?)q\s*(#.*)?$` anchored at the start of `s`: the SHORTEST group such
that `q` follows and the rest is blank or a comment; `none` = no match -/
def lazyUntil (q : Str) : Str → Option Str
  | [] => if q.isEmpty then some [] else none
  | c :: r =>
    if q.isPrefixOf (c :: r) && tailOk ((c :: r).drop q.length) then some []
    else (lazyUntil q r).map (c :: ·)

/-- `.*?` followed by `\s*(#.*)?$`: always matches -/
def lazyPlain : Str → Str
  | [] => []
  | c :: r => if tailOk (c :: r) then [] else c :: lazyPlain r

/-- `_nolistvalue` (list_values off): group 1, NOT unquoted; `none` = no match
(SyntaxError, "Parse error in value") -/
def nolistValue : Str → Option Str
  | [] => some []
  | c :: r =>
    if c == '"' then (lazyUntil ['"'] r).map fun g => '"' :: g ++ ['"']
    else if c == '\'' then (lazyUntil ['\''] r).map fun g => '\'' :: g ++ ['\'']
    else if c == '#' then some []
    else some (c :: lazyPlain r)

/-- the `while` loop of `_multiline`: lines are appended until one contains the quote;
the result is the value, the number of following lines consumed and what is
left of the closing line (blanks and an optional comment) -/
def multiRest (q3 : Str) (acc : Str) (n : Nat) : List Str → Option (Str × Nat × Str)
  | [] => none
  | l :: ls =>
    if hasSub q3 l then (lazyUntil q3 l).map fun g => (acc ++ '\n' :: g, n + 1, l.drop (g.length + 3))
    else multiRest q3 (acc ++ '\n' :: l) (n + 1) ls

/-- `_multiline(value, …)` for a value starting with the triple quote `q3` -/
def tripleValue (q3 : Str) (x : Str) (rest : List Str) : Option (Str × Nat × Str) :=
  let nv := x.drop 3
  match lazyUntil q3 nv with
  | some g => some (g, 0, nv.drop (g.length + 3))
  | none => if hasSub q3 nv then none else multiRest q3 nv 0 rest

/-- the value part of a `key = value` line (what follows `=\s*`) and the lines after it
↦ the string stored for the key, the number of following lines consumed and the
unparsed tail (blanks + inline comment); `none` = parse error -/
def parseOptValue (x : Str) (rest : List Str) : Option (Str × Nat × Str) :=
  if dq3.isPrefixOf x then tripleValue dq3 x rest
  else if sq3.isPrefixOf x then tripleValue sq3 x rest
  else (nolistValue x).map fun g => (g, 0, x.drop g.length)

/-! ### configobj parser: lines -/

/-- `content.splitlines(True)` followed by `line.rstrip('\r\n')`: CR, LF and
CR LF end a line and are dropped, the other boundaries end a line and stay -/
def splitLinesAux (cur : Str) (afterCR : Bool) : Str → List Str
  | [] => if cur.isEmpty then [] else [cur.reverse]
  | c :: r =>
    if afterCR && c == '\n' then splitLinesAux cur false r
    else if c == '\r' then cur.reverse :: splitLinesAux [] true r
    else if c == '\n' then cur.reverse :: splitLinesAux [] false r
    else if isLineBreak c then (c :: cur).reverse :: splitLinesAux [] false r
    else splitLinesAux (c :: cur) false r

def splitLines (content : Str) : List Str := splitLinesAux [] false content

inductive KwRes where
  | outside                 -- not in the modelled fragment
  | nomatch                 -- "matched as neither section nor keyword"
  | kv (key value : Str)
  | header (name : Str)     -- a plain `[name]` section marker
  deriving DecidableEq, Repr

/-- `\s*=` matches at the start of `s` -/
def startsEq (s : Str) : Bool := (s.dropWhile isSpace).head? == some '='

/-- what follows `\s*=\s*` -/
def afterEq (s : Str) : Str := ((s.dropWhile isSpace).drop 1).dropWhile isSpace

/-- `_keyword` for an unquoted key: the key is the shortest non-empty prefix that
is followed by `\s*=`; the value is what follows `=\s*`; `key` is reversed -/
def kwScan (key : Str) : Str → KwRes
  | [] => .nomatch
  | c :: r => if startsEq (c :: r) then .kv key.reverse (afterEq (c :: r)) else kwScan (c :: key) r

/-- ASCII letters, digits, `_`, `.`, `-` -/
def keyChar (c : Char) : Bool :=
  let n := c.toNat
  (48 ≤ n && n ≤ 57) || (65 ≤ n && n ≤ 90) || (97 ≤ n && n ≤ 122) || n == 95 || n == 46 || n == 45

/-- ASCII letters and `_` -/
def keyStart (c : Char) : Bool :=
  let n := c.toNat
  (65 ≤ n && n ≤ 90) || (97 ≤ n && n ≤ 122) || n == 95

def secNameChar (c : Char) : Bool := keyChar c || c.toNat == 47

/-- a `[name]` line with a plain name and nothing else -/
def headerLine (r : Str) : KwRes :=
  match r.reverse with
  | e :: n => if e == ']' && !n.isEmpty && n.all secNameChar then .header n.reverse else .outside
  | [] => .outside

/-- one non-blank, non-comment line.  Leading blanks are the indentation group
`^(\s*)` of both regexes (greedy: the key starts at the first non-blank); when the
first non-blank is a quote or `=` the regex engine would backtrack into the
indentation, which is outside the fragment. -/
def classifyLine (l : Str) : KwRes :=
  match l.dropWhile isSpace with
  | [] => .outside
  | c :: r =>
    if c == '[' then headerLine r
    else if c == '\'' || c == '"' || c == '#' then .outside
    else if c == '=' then (if l.head?.any isSpace then .outside else .nomatch)
    else kwScan [c] r

/-- one loaded option: section, key, stored string, inline comment (`[]` or `#…`) -/
structure Entry where
  sec : Option Str
  key : Str
  raw : Str
  comment : Str
  deriving DecidableEq, Repr

inductive Load where
  | outside
  | error
  | opts (l : List Entry)     -- in file order
  deriving DecidableEq, Repr

/-- `ConfigObj._parse` on the modelled fragment; `skip` = lines already consumed
by a multi-line value, `sec` = current section, `seen` = section names so far,
`acc` = reversed result.  An error does not stop configobj's parser, but the load
fails at the end whatever follows. -/
def parseLines (skip : Nat) (sec : Option Str) (seen : List Str) (acc : List Entry) :
    List Str → Load
  | [] => .opts acc.reverse
  | l :: ls =>
    match skip with
    | k + 1 => parseLines k sec seen acc ls
    | 0 =>
      if tailOk l then parseLines 0 sec seen acc ls
      else match classifyLine l with
        | .outside => .outside
        | .nomatch => .error
        | .header n =>
          if seen.contains n || acc.any (fun t => t.sec.isNone && t.key == n) then .error
          else parseLines 0 (some n) (n :: seen) acc ls
        | .kv k x =>
          match parseOptValue x ls with
          | none => .error
          | some (raw, used, tail) =>
            if acc.any (fun t => t.sec == sec && t.key == k) then .error
            else parseLines used sec seen (⟨sec, k, raw, tail.dropWhile isSpace⟩ :: acc) ls

def loadContent (content : Str) : Load := parseLines 0 none [] [] (splitLines content)

/-! ### `ConfigObj.write` of one section of scalar options -/

/-- keys the model writes verbatim (`_quote(…, multiline=False)` with list_values off
leaves any non-empty string without `#`/newline alone) -/
def plainKey (k : Str) : Bool :=
  match k with
  | [] => false
  | c :: r => keyStart c && r.all keyChar

def plainSec (n : Str) : Bool := !n.isEmpty && n.all secNameChar

def eqSep : Str := [' ', '=', ' ']

/-- the option lines `key = value` + inline comment; `none` = ConfigObjError from `_quote`,
or a key outside the fragment -/
def writeOptLines : List (Str × Str × Str) → Option Str
  | [] => some []
  | (k, raw, comment) :: r =>
    if plainKey k then
      match cquote false raw, writeOptLines r with
      | some q, some rest => some (k ++ eqSep ++ q ++ comment ++ '\n' :: rest)
      | _, _ => none
    else none

/-- options `(key, stored string, inline comment)` of one section (`none` = the no-name section) -/
def writeSection (sec : Option Str) (opts : List (Str × Str × Str)) : Option Str :=
  match sec with
  | none => writeOptLines opts
  | some n => if plainSec n then (writeOptLines opts).map fun b => '[' :: n ++ ']' :: '\n' :: b else none

/-- `IniFileStore.quote` (what `Stack.set` stores): `_quote` with list_values on.
`blankfix = true` is the variant with the fix proposed for finding
roundtrip-unicode-blank-at-end (selected by the harness only if the live code
behaves so): a value that `_quote` leaves alone although `value != value.strip()`
gets single quotes from `_get_single_quote` -/
def storeQuote (blankfix : Bool) (v : Str) : Option Str :=
  match cquote true v with
  | some q =>
    if blankfix && q == v && (v.head?.any isSpace || v.getLast?.any isSpace) then singleQuote v else some q
  | none => none

/-- `Stack.set` of every `(key, value)` in order on an empty section: the stored strings -/
def quoteAll (blankfix : Bool) : List (Str × Str) → Option (List (Str × Str × Str))
  | [] => some []
  | (k, v) :: r =>
    match storeQuote blankfix v, quoteAll blankfix r with
    | some q, some rest => some ((k, q, []) :: rest)
    | _, _ => none

end BreezyVerif.C49
